#!/bin/sh
# Build the framework from files on disk only (offline).
set -e
cd "$(dirname "$0")"
export CARGO_NET_OFFLINE=true
(cd lean && lake build MstVerif mstmodel \
   MstVerif.Props.C01 MstVerif.Props.C02 MstVerif.Props.C03 MstVerif.Props.C04 MstVerif.Props.C05 MstVerif.Props.C06 \
   MstVerif.Props.C07 MstVerif.Props.C08 MstVerif.Props.C09 MstVerif.Props.C10 MstVerif.Props.C11 MstVerif.Props.C12 \
   MstVerif.Props.C13 MstVerif.Props.C14 MstVerif.Props.C15 MstVerif.Props.C16 MstVerif.Props.C17 MstVerif.Props.C18 \
   MstVerif.Proofs.Extras MstVerif.Props.NonVacuity)
cd harness
cargo build --offline --target-dir target/feat-none
cargo build --offline --release --target-dir target/feat-none
cargo build --offline --features mst_default --target-dir target/feat-mst_default
cargo build --offline --release --features mst_default --target-dir target/feat-mst_default
cargo build --offline --features mst_all --target-dir target/feat-mst_all
cargo build --offline --release --features mst_all --target-dir target/feat-mst_all
echo setup-ok
