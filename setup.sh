#!/bin/sh
# Build the framework from files on disk only (offline).
set -e
cd "$(dirname "$0")"
export CARGO_NET_OFFLINE=true
(cd lean && lake build MstVerif mstmodel)
(cd harness && cargo build --offline --target-dir target/feat-none && cargo build --offline --release --target-dir target/feat-none)
echo setup-ok
