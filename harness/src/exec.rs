//! Script executor: runs one protocol line against the real implementation, returns the
//! canonical output line, and evaluates the implementation-side property oracles
//! (independent of the Lean model).

use std::{
    collections::{BTreeMap, HashMap},
    hash::Hasher as _,
    panic::{catch_unwind, AssertUnwindSafe},
};

use siphasher::sip128::{Hasher128, SipHasher24};

use crate::{
    refimpl::{ref_level, ref_tree},
    tree::*,
    util::*,
};

pub struct Slot {
    pub tree: Option<Box<dyn AnyTree>>, // None = poisoned by a panic
    /// shadow content: key -> (key digest, value digest, value bytes for real-hasher trees)
    pub content: BTreeMap<Vec<u8>, (Vec<u8>, Vec<u8>, Option<Vec<u8>>)>,
    pub ops_since_check: usize,
}

#[derive(Clone, Debug)]
pub struct OracleFail {
    pub prop: &'static str,
    pub line_no: usize,
    pub msg: String,
}

#[derive(Default)]
pub struct Stats {
    pub ops: HashMap<&'static str, u64>,
    pub max_keys: usize,
    pub max_depth: usize,
    pub diffs_nonempty: u64,
    pub diffs_empty: u64,
    pub panics: u64,
    pub oracle_checks: HashMap<&'static str, u64>,
}

pub struct Rep {
    pub tree: Box<dyn AnyTree>,
    /// key -> (key digest, value)
    pub store: BTreeMap<Vec<u8>, (Vec<u8>, Vec<u8>)>,
}

pub struct Exec {
    /// ranges computed by `rplan recv send`, fetched later by `rapply`
    pub plans: HashMap<(u64, u64), OwnedDiff>,
    /// join of everything written through `rwrite ... join` since the last `rnew 0`
    pub written: BTreeMap<Vec<u8>, Vec<u8>>,
    /// real snapshots taken by `snap`, with the ranges they described when taken
    pub snaps: HashMap<u64, (Box<dyn AnySnap>, Vec<OwnedRange>)>,
    /// C03-C07 hypothesis check: page digest -> canonical description of the page pre-image
    /// (configuration, page digest) -> structured pre-image. Per CONFIGURATION: C03 compares trees with
    /// the same hasher, base and digest width only; across widths `key‖value` is legitimately ambiguous
    /// (key 000000a0 + 2-byte value a001 and key 000000 + 3-byte value a0a001 are the same byte stream)
    pub preimages: HashMap<(String, [u8; 16]), String>,
    pub reps: HashMap<u64, Rep>,
    pub trees: HashMap<u64, Slot>,
    pub lists: HashMap<u64, Vec<OwnedRange>>,
    pub fails: Vec<OracleFail>,
    pub line_no: usize,
    /// run the O(n) oracles every this many mutating ops per tree (1 = always)
    pub oracle_every: usize,
    pub stats: Stats,
}

fn show_kvs(l: &[(Vec<u8>, Vec<u8>)]) -> String {
    format!(
        "[{}]",
        l.iter()
            .map(|(k, v)| format!("{}:{}", hex(k), hex(v)))
            .collect::<Vec<_>>()
            .join(" ")
    )
}

pub fn show_prs(l: &[OwnedRange]) -> String {
    format!(
        "[{}]",
        l.iter()
            .map(|(s, e, h)| format!("{}:{}:{}", hex(s), hex(e), hex(h)))
            .collect::<Vec<_>>()
            .join(" ")
    )
}

pub fn show_drs(l: &[(Vec<u8>, Vec<u8>)]) -> String {
    format!(
        "[{}]",
        l.iter()
            .map(|(s, e)| format!("{}:{}", hex(s), hex(e)))
            .collect::<Vec<_>>()
            .join(" ")
    )
}

/// Independent check of the visitor protocol (C17) and the structural invariants (C09) on a full
/// event trace. Grammar: Page := P Node* p Page(high)? ; Node := '<' Page(lt)? '=' '>'.
/// Returns (in-order nodes, max depth) or an error.
struct TraceCheck<'a> {
    evs: &'a [Ev],
    pos: usize,
    nodes: Vec<(Vec<u8>, Vec<u8>, u8)>, // key, value digest, level of the page holding it
    max_depth: usize,
    c09: Vec<String>,
}

impl<'a> TraceCheck<'a> {
    fn page(&mut self, want_high: bool, parent_level: Option<u8>, depth: usize, is_root: bool) -> Result<(), String> {
        self.max_depth = self.max_depth.max(depth);
        let (level, n) = match self.evs.get(self.pos) {
            Some(Ev::VisitPage { level, n, high, .. }) => {
                if *high != want_high {
                    return Err(format!("page at event {} has high flag {}", self.pos, high));
                }
                (*level, *n)
            }
            other => return Err(format!("expected visit_page at event {}, got {:?}", self.pos, other)),
        };
        self.pos += 1;
        if let Some(pl) = parent_level {
            if level >= pl {
                self.c09.push(format!("page level {level} not below parent level {pl}"));
            }
        }
        if n == 0 && !is_root {
            self.c09.push("empty non-root page".into());
        }
        let mut count = 0;
        while let Some(Ev::PreNode(k, v)) = self.evs.get(self.pos) {
            let (k, v) = (k.clone(), v.clone());
            self.pos += 1;
            if let Some(Ev::VisitPage { .. }) = self.evs.get(self.pos) {
                self.page(false, Some(level), depth + 1, false)?;
            }
            match self.evs.get(self.pos) {
                Some(Ev::VisitNode(k2, v2)) if *k2 == k && *v2 == v => {}
                other => return Err(format!("expected visit_node of the same node at {}, got {:?}", self.pos, other)),
            }
            self.pos += 1;
            match self.evs.get(self.pos) {
                Some(Ev::PostNode(k2, v2)) if *k2 == k && *v2 == v => {}
                other => return Err(format!("expected post_visit_node of the same node at {}, got {:?}", self.pos, other)),
            }
            self.pos += 1;
            self.nodes.push((k, v, level));
            count += 1;
        }
        if count != n {
            return Err(format!("page announced {n} nodes, {count} visited"));
        }
        match self.evs.get(self.pos) {
            Some(Ev::PostPage(l)) if *l == level => {}
            other => return Err(format!("expected post_visit_page at {}, got {:?}", self.pos, other)),
        }
        self.pos += 1;
        if let Some(Ev::VisitPage { high: true, .. }) = self.evs.get(self.pos) {
            if n == 0 && is_root {
                self.c09.push("empty root with a high page".into());
            }
            self.page(true, Some(level), depth + 1, false)?;
        }
        Ok(())
    }
}

impl Exec {
    pub fn new(oracle_every: usize) -> Self {
        Exec {
            plans: HashMap::new(),
            written: BTreeMap::new(),
            snaps: HashMap::new(),
            preimages: HashMap::new(),
            reps: HashMap::new(),
            trees: HashMap::new(),
            lists: HashMap::new(),
            fails: vec![],
            line_no: 0,
            oracle_every: oracle_every.max(1),
            stats: Stats::default(),
        }
    }

    fn fail(&mut self, prop: &'static str, msg: String) {
        // capped PER PROPERTY: a flood of failures of one oracle must not hide another property's
        if self.fails.iter().filter(|f| f.prop == prop).count() < 40 {
            self.fails.push(OracleFail {
                prop,
                line_no: self.line_no,
                msg,
            });
        }
    }

    fn tick(&mut self, prop: &'static str) {
        *self.stats.oracle_checks.entry(prop).or_default() += 1;
    }

    /// O(n) oracles on the structure (no hashing): C09, C10, C17.
    fn check_structure(&mut self, id: u64) {
        let slot = self.trees.get(&id).unwrap();
        let t = slot.tree.as_ref().unwrap();
        let base = t.base();
        let obs = catch_unwind(AssertUnwindSafe(|| (t.events(None), t.iter())));
        let (evs, iter) = match obs {
            Ok(x) => x,
            Err(_) => {
                self.fail("C15", "in_order_traversal / node_iter panicked on a tree built by upserts".into());
                self.fail("C17", "in_order_traversal / node_iter panicked: the traversal APIs do not agree".into());
                return;
            }
        };
        let slot = self.trees.get(&id).unwrap();
        let content: Vec<_> = slot
            .content
            .iter()
            .map(|(k, (kd, vd, _))| (k.clone(), kd.clone(), vd.clone()))
            .collect();
        let mut tc = TraceCheck {
            evs: &evs,
            pos: 0,
            nodes: vec![],
            max_depth: 0,
            c09: vec![],
        };
        let r = tc.page(false, None, 1, true);
        let trailing = tc.pos != evs.len();
        let nodes = std::mem::take(&mut tc.nodes);
        let c09 = std::mem::take(&mut tc.c09);
        let depth = tc.max_depth;
        self.stats.max_depth = self.stats.max_depth.max(depth);
        self.stats.max_keys = self.stats.max_keys.max(content.len());
        self.tick("C17");
        if let Err(e) = r {
            self.fail("C17", format!("visitor protocol: {e}"));
            return;
        }
        if trailing {
            self.fail("C17", "events after the root page's traversal ended".into());
        }
        let in_order: Vec<_> = nodes.iter().map(|(k, v, _)| (k.clone(), v.clone())).collect();
        if iter != in_order {
            self.fail("C17", format!("node_iter {} != in-order traversal {}", show_kvs(&iter), show_kvs(&in_order)));
        }
        // a visitor that only implements `visit_node` (the trait's defaults for the rest) sees the same nodes
        let t = self.trees.get(&id).unwrap().tree.as_ref().unwrap();
        match catch_unwind(AssertUnwindSafe(|| t.minimal_visit())) {
            Ok(seen) => {
                if seen != in_order {
                    self.fail("C17", format!("a visitor relying on the default callbacks saw {} of {} nodes", seen.len(), in_order.len()));
                }
            }
            Err(_) => self.fail("C15", "in_order_traversal panicked with a minimal visitor".into()),
        }
        // the node iterator through count / last / nth / skip / size_hint / by_ref / two at once
        let t = self.trees.get(&id).unwrap().tree.as_ref().unwrap();
        match catch_unwind(AssertUnwindSafe(|| t.iter_probes())) {
            Ok(None) => {}
            Ok(Some(what)) => self.fail("C17", what),
            Err(_) => {
                self.fail("C15", "node_iter panicked when used through nth / skip / last / count / size_hint".into());
                self.fail("C17", "node_iter panicked when used through nth / skip / last / count / size_hint".into());
            }
        }
        self.tick("C09");
        for m in c09 {
            self.fail("C09", m);
        }
        for w in nodes.windows(2) {
            if w[0].0 >= w[1].0 {
                self.fail("C09", format!("in-order keys not strictly ascending: {} then {}", hex(&w[0].0), hex(&w[1].0)));
            }
        }
        for (k, _, lvl) in &nodes {
            if let Some((kd, _, _)) = self.trees[&id].content.get(k) {
                let want = ref_level(kd, base);
                if want != *lvl as u32 {
                    self.fail("C09", format!("key {} sits on level {} but its digest gives {}", hex(k), lvl, want));
                }
            }
        }
        self.tick("C10");
        let want: Vec<_> = content.iter().map(|(k, _, vd)| (k.clone(), vd.clone())).collect();
        if iter != want {
            self.fail("C10", format!("tree holds {} but the upsert history gives {}", show_kvs(&iter), show_kvs(&want)));
        }
    }

    /// Oracles after a hash request: C14 (reference construction), C01/C02 (fresh rebuild),
    /// C11 (ranges), C15 (serialisable), C16 (snapshot round trip).
    fn check_hashed(&mut self, id: u64, root: [u8; 16]) {
        let slot = self.trees.get(&id).unwrap();
        let t = slot.tree.as_ref().unwrap();
        let base = t.base();
        let content: Vec<(Vec<u8>, u32, Vec<u8>)> = slot
            .content
            .iter()
            .map(|(k, (kd, vd, _))| (k.clone(), ref_level(kd, base), vd.clone()))
            .collect();
        let ser = catch_unwind(AssertUnwindSafe(|| t.ser()));
        let cached = t.cached();
        // fresh rebuild through the real code, ascending order, one hash at the end
        let fresh = catch_unwind(AssertUnwindSafe(|| {
            let mut f = t.fresh();
            for (k, (kd, vd, val)) in slot.content.iter() {
                f.ups(k, kd, vd, val.as_deref()).ok()?;
            }
            let r = f.hash();
            Some((r, f.ser()))
        }));
        // hypothesis of C03-C07 on everything explored: distinct page pre-images, distinct digests
        {
            let evs = t.events(None);
            let mut stack: Vec<(Option<[u8; 16]>, String, bool)> = vec![]; // (digest, preimage so far, awaiting child digest)
            let mut finished: Vec<([u8; 16], String)> = vec![];
            let mut last_closed: Option<[u8; 16]> = None;
            for e in &evs {
                match e {
                    Ev::VisitPage { cache, high, .. } => {
                        if *high {
                            // belongs to the page closed just before: append to its preimage
                            if let (Some(d), Some(c)) = (last_closed, cache) {
                                if let Some(f) = finished.iter_mut().rev().find(|f| f.0 == d) {
                                    f.1.push_str(&format!("|H{}", hex(c)));
                                }
                            }
                        } else if let (Some(top), Some(c)) = (stack.last_mut(), cache) {
                            top.1.push_str(&format!("|C{}", hex(c)));
                        }
                        stack.push((*cache, String::new(), false));
                    }
                    Ev::VisitNode(k, v) => {
                        if let Some(top) = stack.last_mut() {
                            top.1.push_str(&format!("|K{}:{}", hex(k), hex(v)));
                        }
                    }
                    Ev::PostPage(_) => {
                        if let Some((Some(d), pre, _)) = stack.pop() {
                            finished.push((d, pre));
                            last_closed = Some(d);
                        } else {
                            last_closed = None;
                        }
                    }
                    _ => {}
                }
            }
            // NB: a high page's digest is appended after its parent closed; order pages by closing
            let cfg = t.cfg_id();
            for (d, pre) in finished {
                match self.preimages.get(&(cfg.clone(), d)) {
                    Some(old) if *old != pre => {
                        self.fail("C03", format!("two different page pre-images share digest {}: {} vs {}", hex(&d), &old[..old.len().min(400)], &pre[..pre.len().min(400)]));
                    }
                    Some(_) => {}
                    None => {
                        self.preimages.insert((cfg.clone(), d), pre);
                    }
                }
            }
            self.tick("CollisionFree");
        }
        let (ref_root, ref_ranges) = ref_tree(&content);
        self.tick("C14");
        if root != ref_root {
            self.fail("C14", format!("root hash {} != reference construction {}", hex(&root), hex(&ref_root)));
        }
        self.tick("C02");
        if cached != Some(root) {
            self.fail("C02", "cached root hash differs from the hash just returned".into());
        }
        self.tick("C15");
        let ser = match ser {
            Ok(Some(s)) => s,
            Ok(None) => {
                self.fail("C15", "serialise_page_ranges() is None right after root_hash()".into());
                return;
            }
            Err(_) => {
                self.fail("C15", "serialise_page_ranges() panicked after root_hash()".into());
                return;
            }
        };
        self.tick("C11");
        if ser != ref_ranges {
            self.fail("C11", format!("page ranges {} != reference pre-order ranges {}", show_prs(&ser), show_prs(&ref_ranges)));
            if ser.len() == ref_ranges.len()
                && ser.iter().zip(&ref_ranges).all(|(a, b)| a.0 == b.0 && a.1 == b.1)
            {
                self.fail("C02", "a page digest differs from the digest of a freshly built tree (stale cache)".into());
            }
        }
        if content.is_empty() != ser.is_empty() {
            self.fail("C11", "empty tree <-> empty serialisation violated".into());
        }
        if let Some(first) = ser.first() {
            if first.2 != root {
                self.fail("C11", "first page range does not carry the root hash".into());
            }
        }
        self.tick("C01");
        match fresh {
            Ok(Some((r2, s2))) => {
                if r2 != root {
                    self.fail("C01", format!("root hash {} != freshly built tree {}", hex(&root), hex(&r2)));
                    self.fail("C02", "hash after this history differs from a freshly built tree".into());
                }
                if s2.as_ref() != Some(&ser) {
                    self.fail("C01", "page ranges differ from a freshly built tree".into());
                }
            }
            Ok(None) => {}
            Err(_) => self.fail("C15", "panic while building the fresh comparison tree".into()),
        }
    }

    fn mutating_done(&mut self, id: u64) {
        let every = self.oracle_every;
        let slot = self.trees.get_mut(&id).unwrap();
        slot.ops_since_check += 1;
        if slot.ops_since_check >= every {
            slot.ops_since_check = 0;
            self.check_structure(id);
        }
    }

    fn check_diff_output(&mut self, d: &OwnedDiff, local: &Slot, peer: &Slot) -> Vec<(&'static str, String)> {
        let mut out = vec![];
        // C12: sorted, disjoint, well-formed, confined
        for r in d {
            if r.0 > r.1 {
                out.push(("C12", format!("range {}..{} has start > end", hex(&r.0), hex(&r.1))));
            }
        }
        for w in d.windows(2) {
            if w[0].1 >= w[1].0 {
                out.push(("C12", "ranges not ascending / overlapping or touching".to_string()));
            }
        }
        let pmin = peer.content.keys().next();
        let pmax = peer.content.keys().next_back();
        for r in d {
            if Some(&r.0) < pmin || Some(&r.1) > pmax {
                out.push(("C12", "range outside the peer's key span".to_string()));
            }
            if !peer.content.contains_key(&r.0) {
                out.push(("C12", format!("range start {} is not a key of the peer", hex(&r.0))));
                out.push(("C04", format!("range start {} is not a key of the peer", hex(&r.0))));
            }
            if !peer.content.contains_key(&r.1) && !local.content.contains_key(&r.1) {
                out.push(("C12", format!("range end {} is held by neither tree", hex(&r.1))));
            }
        }
        let _ = self;
        out
    }

    /// keys the peer holds that local lacks or holds with another value digest
    fn differing(local: &Slot, peer: &Slot) -> Vec<Vec<u8>> {
        peer.content
            .iter()
            .filter(|(k, (_, vd, _))| local.content.get(*k).map(|x| &x.1) != Some(vd))
            .map(|(k, _)| k.clone())
            .collect()
    }

    fn diff_trees(&mut self, a: u64, b: u64) -> Result<String, String> {
        let (sa, sb) = match (self.trees.get(&a), self.trees.get(&b)) {
            (Some(x), Some(y)) => (x, y),
            _ => return Err("bad-op".into()),
        };
        let (ta, tb) = match (&sa.tree, &sb.tree) {
            (Some(x), Some(y)) => (x, y),
            _ => return Ok("poisoned".into()),
        };
        let mut c16 = vec![];
        let out = ta.diff_with(tb.as_ref(), &mut c16);
        let mut fails: Vec<(&'static str, String)> = c16.into_iter().map(|m| ("C16", m)).collect();
        let s = match out {
            DiffOut::NotSerialisable => "none".to_string(),
            DiffOut::Panic => {
                fails.push(("C15", "diff of two real trees panicked".into()));
                "panic".to_string()
            }
            DiffOut::Ok(d) => {
                if d.is_empty() {
                    self.stats.diffs_empty += 1
                } else {
                    self.stats.diffs_nonempty += 1
                }
                let (sa, sb) = (&self.trees[&a], &self.trees[&b]);
                // only meaningful when both trees were built with the same configuration
                if sa.tree.as_ref().unwrap().base() == sb.tree.as_ref().unwrap().base() {
                    let mut f = Vec::new();
                    // (borrowck: compute on immutable borrows, report afterwards)
                    let diffkeys = Self::differing(sa, sb);
                    let same = sa.content == sb.content;
                    if same && !d.is_empty() {
                        f.push(("C08", format!("identical content but diff = {}", show_drs(&d))));
                    }
                    if sb.content.is_empty() && !d.is_empty() {
                        f.push(("C08", "diff against an empty peer is not empty".to_string()));
                    }
                    // C07 span condition
                    let span_ok = sa.content.is_empty()
                        || (sb.content.keys().next() <= sa.content.keys().next()
                            && sa.content.keys().next_back() <= sb.content.keys().next_back()
                            && !sb.content.is_empty());
                    if span_ok {
                        for k in &diffkeys {
                            if !d.iter().any(|r| r.0 <= *k && *k <= r.1) {
                                f.push(("C07", format!("differing key {} not covered by {}", hex(k), show_drs(&d))));
                                break;
                            }
                        }
                        if sa.content.is_empty() && !sb.content.is_empty() {
                            let want = (sb.content.keys().next().unwrap().clone(), sb.content.keys().next_back().unwrap().clone());
                            if d != vec![want] {
                                f.push(("C07", "empty replica did not obtain the peer's whole span".to_string()));
                            }
                        }
                    }
                    fails.extend(f);
                    let extra = {
                        let (sa, sb) = (&self.trees[&a], &self.trees[&b]);
                        // SAFETY of borrow: check_diff_output only reads
                        let d2 = d.clone();
                        let sa_ptr: *const Slot = sa;
                        let sb_ptr: *const Slot = sb;
                        unsafe { self.check_diff_output(&d2, &*sa_ptr, &*sb_ptr) }
                    };
                    fails.extend(extra);
                }
                show_drs(&d)
            }
        };
        for p in ["C07", "C08", "C12", "C16"] {
            self.tick(p);
        }
        for (p, m) in fails {
            self.fail(p, m);
        }
        Ok(s)
    }

    /// one pull `i <- j` on the real trees; returns (ranges, fetched entries) or None on a panic
    fn pull_internal(&mut self, i: u64, j: u64, join: bool) -> Option<(OwnedDiff, Vec<(Vec<u8>, Vec<u8>)>)> {
        // both sides regenerate their hashes, then the receiver diffs borrowed page ranges
        let out = catch_unwind(AssertUnwindSafe(|| {
            self.reps.get_mut(&i).unwrap().tree.hash();
            self.reps.get_mut(&j).unwrap().tree.hash();
            let mut c16 = vec![];
            let d = self.reps[&i].tree.diff_with(self.reps[&j].tree.as_ref(), &mut c16);
            (d, c16)
        }));
        let (d, c16) = match out {
            Ok(x) => x,
            Err(_) => {
                self.fail("C15", "panic while hashing / diffing during a pull".into());
                return None;
            }
        };
        for mmsg in c16 {
            self.fail("C16", mmsg);
        }
        let ranges = match d {
            DiffOut::Ok(d) => d,
            _ => {
                self.fail("C15", "diff during a pull panicked or was not serialisable".into());
                return None;
            }
        };
        let mut fetched: Vec<(Vec<u8>, Vec<u8>, Vec<u8>)> = vec![];
        for (k, (kd, v)) in self.reps[&j].store.iter() {
            if ranges.iter().any(|r| r.0 <= *k && *k <= r.1) {
                fetched.push((k.clone(), kd.clone(), v.clone()));
            }
        }
        let rep = self.reps.get_mut(&i).unwrap();
        for (k, kd, v) in &fetched {
            let merged = match rep.store.get(k) {
                Some((_, old)) if join && old >= v => old.clone(),
                _ => v.clone(),
            };
            let res = catch_unwind(AssertUnwindSafe(|| rep.tree.ups(k, kd, &merged, None)));
            if !matches!(res, Ok(Ok(()))) {
                self.fail("C15", "upsert panicked while absorbing fetched keys".into());
                return None;
            }
            rep.store.insert(k.clone(), (kd.clone(), merged));
        }
        let f: Vec<(Vec<u8>, Vec<u8>)> = fetched.iter().map(|x| (x.0.clone(), x.2.clone())).collect();
        Some((ranges, f))
    }

    pub fn run_line(&mut self, line: &str) -> String {
        self.line_no += 1;
        let toks: Vec<&str> = line.trim().split(' ').filter(|s| !s.is_empty()).collect();
        match self.run_toks(&toks) {
            Ok(s) => s,
            Err(e) => e,
        }
    }

    fn count(&mut self, op: &'static str) {
        *self.stats.ops.entry(op).or_default() += 1;
    }

    fn run_toks(&mut self, toks: &[&str]) -> Result<String, String> {
        let bad = || "bad-op".to_string();
        let num = |s: &str| s.parse::<u64>().map_err(|_| "bad-op".to_string());
        match toks {
            ["new", t, base, rest @ ..] => {
                self.count("new");
                let t = num(t)?;
                let base: u8 = base.parse().map_err(|_| bad())?;
                let mut n = 16usize;
                let mut kind = Kind::Table;
                let mut ctor = Ctor::Builder;
                let mut key = KeyKind::Bytes;
                for r in rest {
                    if let Some(v) = r.strip_prefix("n=") {
                        n = v.parse().map_err(|_| bad())?;
                    } else if let Some(v) = r.strip_prefix("kind=") {
                        kind = match v {
                            "table" => Kind::Table,
                            "sipdef" => Kind::SipDefault,
                            _ => match v.strip_prefix("sipseed:").and_then(unhex) {
                                Some(s) if s.len() == 16 => Kind::SipSeed(s.try_into().unwrap()),
                                _ => return Err(bad()),
                            },
                        };
                    } else if let Some(v) = r.strip_prefix("ctor=") {
                        ctor = match v {
                            "builder" => Ctor::Builder,
                            "builder2" => Ctor::BuilderBaseFirst,
                            "default" => Ctor::Default,
                            "deprecated" => Ctor::Deprecated,
                            _ => return Err(bad()),
                        };
                    } else if let Some(v) = r.strip_prefix("key=") {
                        key = match v {
                            "bytes" => KeyKind::Bytes,
                            "string" => KeyKind::Str,
                            "fixed8" => KeyKind::Fixed8,
                            _ => return Err(bad()),
                        };
                    }
                }
                let tree = make_tree(base, n, &kind, &ctor, &key).map_err(|e| format!("bad-op {e}"))?;
                self.trees.insert(
                    t,
                    Slot {
                        tree: Some(tree),
                        content: BTreeMap::new(),
                        ops_since_check: 0,
                    },
                );
                Ok("ok".into())
            }
            ["clone", dst, src] => {
                self.count("clone");
                let (dst, src) = (num(dst)?, num(src)?);
                let s = self.trees.get(&src).ok_or_else(bad)?;
                let slot = Slot {
                    tree: s.tree.as_ref().map(|t| t.clone_box()),
                    content: s.content.clone(),
                    ops_since_check: 0,
                };
                let poisoned = slot.tree.is_none();
                self.trees.insert(dst, slot);
                Ok(if poisoned { "poisoned" } else { "ok" }.into())
            }
            ["clonefrom", dst, src] => {
                // `dst.clone_from(&src)` on two EXISTING trees of one type (possibly configured differently)
                self.count("clonefrom");
                let (dst, src) = (num(dst)?, num(src)?);
                if dst == src {
                    return Err(bad());
                }
                let s = self.trees.get(&src).ok_or_else(bad)?;
                let (stree, scontent) = (s.tree.as_ref().map(|t| t.clone_box()), s.content.clone());
                let d = self.trees.get_mut(&dst).ok_or_else(bad)?;
                match (d.tree.as_mut(), stree) {
                    (Some(dt), Some(st)) => {
                        let r = catch_unwind(AssertUnwindSafe(|| dt.clone_from_any(st.as_ref())));
                        match r {
                            Ok(true) => {
                                d.content = scontent;
                                d.ops_since_check = 0;
                                Ok("ok".into())
                            }
                            Ok(false) => Err("bad-op clone_from between different tree types".into()),
                            Err(_) => {
                                d.tree = None;
                                self.stats.panics += 1;
                                self.tick("C15");
                                self.fail("C15", "clone_from panicked".into());
                                Ok("panic".into())
                            }
                        }
                    }
                    (None, Some(st)) => {
                        // a poisoned destination is simply replaced
                        d.tree = Some(st);
                        d.content = scontent;
                        Ok("ok".into())
                    }
                    (_, None) => {
                        d.tree = None;
                        Ok("poisoned".into())
                    }
                }
            }
            ["hdig", t, k, w] => {
                self.count("hdig");
                let t = num(t)?;
                let (k, w) = (parse_xtok(k).ok_or_else(bad)?, parse_xtok(w).ok_or_else(bad)?);
                let slot = self.trees.get(&t).ok_or_else(bad)?;
                Ok(match slot.tree.as_ref().and_then(|t| t.digests(&k, &w)) {
                    Some((kd, vd)) => format!("{} {}", hex(&kd), hex(&vd)),
                    None => "none".into(),
                })
            }
            ["ups", t, k, kd, vd, rest @ ..] => {
                self.count("ups");
                let t = num(t)?;
                let (k, kd, vd) = (
                    parse_xtok(k).ok_or_else(bad)?,
                    parse_xtok(kd).ok_or_else(bad)?,
                    parse_xtok(vd).ok_or_else(bad)?,
                );
                let val = match rest.first().and_then(|r| r.strip_prefix("val=")) {
                    Some(v) => Some(parse_xtok(v).ok_or_else(bad)?),
                    None => None,
                };
                let slot = self.trees.get_mut(&t).ok_or_else(bad)?;
                let tree = match slot.tree.as_mut() {
                    Some(t) => t,
                    None => return Ok("poisoned".into()),
                };
                let r = catch_unwind(AssertUnwindSafe(|| tree.ups(&k, &kd, &vd, val.as_deref())));
                match r {
                    Ok(Ok(())) => {
                        slot.content.insert(k, (kd, vd, val));
                        // C02 gate
                        let tree = slot.tree.as_ref().unwrap();
                        let gate_cached = tree.cached().is_some();
                        let gate_ser = catch_unwind(AssertUnwindSafe(|| tree.ser().is_some())).unwrap_or(true);
                        self.tick("C02");
                        if gate_cached {
                            self.fail("C02", "root_hash_cached() is Some right after an upsert".into());
                        }
                        if gate_ser {
                            self.fail("C02", "serialise_page_ranges() available right after an upsert".into());
                        }
                        self.mutating_done(t);
                        Ok("ok".into())
                    }
                    Ok(Err(e)) => Err(format!("bad-op {e}")),
                    Err(_) => {
                        slot.tree = None;
                        self.stats.panics += 1;
                        self.tick("C15");
                        self.fail("C15", "upsert panicked".into());
                        Ok("panic".into())
                    }
                }
            }
            [op @ ("hash" | "hashq"), t] => {
                self.count("hash");
                let quiet = *op == "hashq";
                let t = num(t)?;
                let slot = self.trees.get_mut(&t).ok_or_else(bad)?;
                let tree = match slot.tree.as_mut() {
                    Some(t) => t,
                    None => return Ok("poisoned".into()),
                };
                match catch_unwind(AssertUnwindSafe(|| tree.hash())) {
                    Ok(h) => {
                        if !quiet {
                            self.check_hashed(t, h);
                        }
                        Ok(hex(&h))
                    }
                    Err(_) => {
                        slot.tree = None;
                        self.stats.panics += 1;
                        self.fail("C15", "root_hash() panicked".into());
                        Ok("panic".into())
                    }
                }
            }
            ["cach", t] => {
                self.count("cach");
                let slot = self.trees.get(&num(t)?).ok_or_else(bad)?;
                match &slot.tree {
                    Some(t) => Ok(t.cached().map(|h| hex(&h)).unwrap_or_else(|| "none".into())),
                    None => Ok("poisoned".into()),
                }
            }
            ["trav", t, stop] => {
                self.count("trav");
                let stop = if *stop == "-" { None } else { Some(num(stop)? as usize) };
                let slot = self.trees.get(&num(t)?).ok_or_else(bad)?;
                let tree = match &slot.tree {
                    Some(t) => t,
                    None => return Ok("poisoned".into()),
                };
                match catch_unwind(AssertUnwindSafe(|| (tree.events(stop), tree.events(None)))) {
                    Ok((evs, full)) => {
                        self.tick("C17");
                        if let Some(n) = stop {
                            let want = &full[..full.len().min(n + 1)];
                            if evs != want {
                                self.fail("C17", format!("traversal stopped at callback {n} is not the {}-prefix of the full traversal", n + 1));
                            }
                        }
                        Ok(show_evs(&evs))
                    }
                    Err(_) => {
                        self.fail("C15", "in_order_traversal panicked".into());
                        Ok("panic".into())
                    }
                }
            }
            ["iter", t] => {
                self.count("iter");
                let slot = self.trees.get(&num(t)?).ok_or_else(bad)?;
                let tree = match &slot.tree {
                    Some(t) => t,
                    None => return Ok("poisoned".into()),
                };
                match catch_unwind(AssertUnwindSafe(|| tree.iter())) {
                    Ok(l) => Ok(show_kvs(&l)),
                    Err(_) => {
                        self.fail("C15", "node_iter panicked".into());
                        Ok("panic".into())
                    }
                }
            }
            ["ser", t] => {
                self.count("ser");
                let slot = self.trees.get(&num(t)?).ok_or_else(bad)?;
                let tree = match &slot.tree {
                    Some(t) => t,
                    None => return Ok("poisoned".into()),
                };
                match catch_unwind(AssertUnwindSafe(|| tree.ser())) {
                    Ok(Some(l)) => Ok(show_prs(&l)),
                    Ok(None) => Ok("none".into()),
                    Err(_) => {
                        self.fail("C15", "serialise_page_ranges panicked".into());
                        Ok("panic".into())
                    }
                }
            }
            ["snap", id, t] => {
                self.count("snap");
                let id = num(id)?;
                let slot = self.trees.get(&num(t)?).ok_or_else(bad)?;
                let tree = match &slot.tree {
                    Some(t) => t,
                    None => return Ok("poisoned".into()),
                };
                match catch_unwind(AssertUnwindSafe(|| (tree.ser(), tree.snapshot()))) {
                    Ok((Some(l), Some(sn))) => {
                        self.snaps.insert(id, (sn, l.clone()));
                        self.lists.insert(id, l);
                        Ok("ok".into())
                    }
                    Ok(_) => Ok("none".into()),
                    Err(_) => Ok("panic".into()),
                }
            }
            ["list", id, items @ ..] => {
                self.count("list");
                let id = num(id)?;
                let mut l = vec![];
                let mut panicked = false;
                for it in items {
                    let f: Vec<&str> = it.split(':').collect();
                    if f.len() != 3 {
                        return Err(bad());
                    }
                    let (s, e, h) = (unhex(f[0]).ok_or_else(bad)?, unhex(f[1]).ok_or_else(bad)?, unhex(f[2]).ok_or_else(bad)?);
                    if h.len() > 16 {
                        return Err(bad());
                    }
                    let mut hh = [0u8; 16];
                    hh[..h.len()].copy_from_slice(&h);
                    if !range_new_ok(&s, &e) {
                        panicked = true;
                    }
                    self.tick("C13");
                    if range_new_ok(&s, &e) != (s <= e) {
                        self.fail("C13", "PageRange::new accepts/rejects the wrong bounds".into());
                    }
                    l.push((s, e, hh));
                }
                if panicked {
                    return Ok("panic".into());
                }
                self.snaps.remove(&id);
                self.lists.insert(id, l);
                Ok("ok".into())
            }
            ["show", id] => {
                let id = num(id)?;
                if let Some((sn, taken)) = self.snaps.get(&id) {
                    // C16: the snapshot keeps describing the tree as it was when taken
                    let now = match catch_unwind(AssertUnwindSafe(|| sn.ranges())) {
                        Ok(x) => x,
                        Err(_) => {
                            self.tick("C16");
                            self.fail("C16", "PageRangeSnapshot::iter panicked on a snapshot taken from a real tree".into());
                            self.fail("C15", "PageRangeSnapshot::iter panicked on a snapshot taken from a real tree".into());
                            return Ok("panic".into());
                        }
                    };
                    let same = now == *taken;
                    let out = show_prs(&now);
                    self.tick("C16");
                    if !same {
                        self.fail("C16", "a PageRangeSnapshot changed after later upserts to the tree".into());
                    }
                    return Ok(out);
                }
                let l = self.lists.get(&id).ok_or_else(bad)?;
                Ok(show_prs(l))
            }
            ["ldiff", a, b] => {
                self.count("ldiff");
                let (ia, ib) = (num(a)?, num(b)?);
                let get = |e: &Exec, id: u64| -> Option<Option<Vec<OwnedRange>>> {
                    if let Some((sn, _)) = e.snaps.get(&id) {
                        return Some(catch_unwind(AssertUnwindSafe(|| sn.ranges())).ok());
                    }
                    e.lists.get(&id).cloned().map(Some)
                };
                let (la, lb) = match (get(self, ia), get(self, ib)) {
                    (Some(Some(x)), Some(Some(y))) => (x, y),
                    (Some(_), Some(_)) => {
                        self.tick("C16");
                        self.fail("C16", "PageRangeSnapshot::iter panicked on a snapshot taken from a real tree".into());
                        return Ok("panic".into());
                    }
                    _ => return Err(bad()),
                };
                self.tick("C13");
                match diff_owned(&la, &lb) {
                    Some(d) => {
                        if d.is_empty() {
                            self.stats.diffs_empty += 1
                        } else {
                            self.stats.diffs_nonempty += 1
                        }
                        let mut f = vec![];
                        for r in &d {
                            if r.0 > r.1 {
                                f.push(("C12", "start > end in diff output".to_string()));
                            }
                            let bounds_ok = |k: &Vec<u8>| {
                                la.iter().chain(lb.iter()).any(|p| p.0 == *k || p.1 == *k)
                            };
                            if !bounds_ok(&r.0) || !bounds_ok(&r.1) {
                                f.push(("C13", "diff bound that did not occur in the input".to_string()));
                            }
                        }
                        for w in d.windows(2) {
                            if w[0].1 >= w[1].0 {
                                f.push(("C12", "diff output not ascending / overlapping or touching".to_string()));
                            }
                        }
                        if lb.is_empty() && !d.is_empty() {
                            f.push(("C08", "diff against an empty peer is not empty".to_string()));
                        }
                        for (p, m) in f {
                            self.fail(p, m.clone());
                            if p == "C12" {
                                self.fail("C13", m);
                            }
                        }
                        Ok(show_drs(&d))
                    }
                    None => {
                        self.stats.panics += 1;
                        self.fail("C13", "diff panicked on well-formed page-range lists".into());
                        Ok("panic".into())
                    }
                }
            }
            ["ldepth", a, b] => {
                // real recursion depth of diff(), observed through the crate's tracing spans
                self.count("ldepth");
                let (la, lb) = match (self.lists.get(&num(a)?), self.lists.get(&num(b)?)) {
                    (Some(x), Some(y)) => (x.clone(), y.clone()),
                    _ => return Err(bad()),
                };
                let (res, depth) = crate::depth::measure(|| diff_owned(&la, &lb));
                match (res, depth) {
                    (Some(_), Some(d)) => Ok(format!("depth={d}")),
                    (Some(_), None) => Err("bad-op depth needs the tracing feature (mst_all)".into()),
                    (None, _) => Ok("panic".into()),
                }
            }
            ["diff", a, b] => {
                self.count("diff");
                self.diff_trees(num(a)?, num(b)?)
            }
            ["diff2", a, b] => {
                self.count("diff2");
                let (a, b) = (num(a)?, num(b)?);
                let d1 = self.diff_trees(a, b)?;
                let d2 = self.diff_trees(b, a)?;
                // C04 / C03 / C05-progress
                if let (Some(sa), Some(sb)) = (self.trees.get(&a), self.trees.get(&b)) {
                    if let (Some(ta), Some(tb)) = (&sa.tree, &sb.tree) {
                        if ta.base() == tb.base() && d1.starts_with('[') && d2.starts_with('[') {
                            let same = sa.content == sb.content;
                            let roots = (ta.cached(), tb.cached());
                            let mut f = vec![];
                            if !same && d1 == "[]" && d2 == "[]" {
                                f.push(("C04", "contents differ but both diffs are empty".to_string()));
                                f.push(("C05", "contents differ but neither direction fetches anything".to_string()));
                            }
                            if !same && roots.0.is_some() && roots.0 == roots.1 {
                                f.push(("C03", "different contents, equal root hashes".to_string()));
                            }
                            if same && roots.0 != roots.1 {
                                f.push(("C01", "same content, different root hashes".to_string()));
                            }
                            // `RootHash == RootHash` (how a user compares replicas) must agree with the bytes
                            if let Some(eq) = ta.root_eq(tb.as_ref()) {
                                if eq != (roots.0 == roots.1) {
                                    f.push(("C03", "RootHash == RootHash disagrees with the comparison of the digest bytes".to_string()));
                                }
                            }
                            self.tick("C04");
                            self.tick("C03");
                            for (p, m) in f {
                                self.fail(p, m);
                            }
                        }
                    }
                }
                Ok(format!("{d1} | {d2}"))
            }
            ["rnew", r, base, rest @ ..] => {
                self.count("rnew");
                let r = num(r)?;
                let base: u8 = base.parse().map_err(|_| bad())?;
                let mut n = 2usize;
                for x in rest {
                    if let Some(v) = x.strip_prefix("n=") {
                        n = v.parse().map_err(|_| bad())?;
                    }
                }
                let tree = make_tree(base, n, &Kind::Table, &Ctor::Builder, &KeyKind::Bytes).map_err(|e| format!("bad-op {e}"))?;
                if r == 0 {
                    self.reps.clear();
                    self.written.clear();
                    self.plans.clear();
                }
                self.reps.insert(r, Rep { tree, store: BTreeMap::new() });
                Ok("ok".into())
            }
            ["same", a, b] => {
                // oracle marker: two trees built from the same configuration and content must be
                // interchangeable (same root hash, same page ranges)
                self.count("same");
                let (sa, sb) = match (self.trees.get(&num(a)?), self.trees.get(&num(b)?)) {
                    (Some(x), Some(y)) => (x, y),
                    _ => return Err(bad()),
                };
                let (ta, tb) = match (&sa.tree, &sb.tree) {
                    (Some(x), Some(y)) => (x, y),
                    _ => return Ok("ok".into()),
                };
                // the expectation is the executor's own: same expected configuration (hasher, seed,
                // width, base, key type — `clone_from` hands the source's on) and same recorded
                // content. Anything else is not comparable and nothing is checked.
                if ta.cfg_id() != tb.cfg_id() || sa.content != sb.content {
                    return Ok("ok".into());
                }
                let hashed = catch_unwind(AssertUnwindSafe(|| {
                    let (mut ca, mut cb) = (ta.clone_box(), tb.clone_box());
                    let cached_differ = ta.cached().is_some() && tb.cached().is_some() && (ta.cached() != tb.cached() || ta.ser() != tb.ser());
                    (ca.hash(), cb.hash(), ca.ser(), cb.ser(), cached_differ)
                }));
                let bad_ = match hashed {
                    Ok((ha, hb, sa_, sb_, cached_differ)) => ha != hb || sa_ != sb_ || cached_differ,
                    Err(_) => true,
                };
                self.tick("C18");
                if bad_ {
                    self.fail("C18", "two trees with the same hasher, base and content are not interchangeable (constructor / builder order / clone)".into());
                }
                Ok("ok".into())
            }
            ["rclone", dst, src] => {
                // a replica bootstrapped by cloning another one (tree `Clone` + store copy)
                self.count("rclone");
                let (dst, src) = (num(dst)?, num(src)?);
                let s = self.reps.get(&src).ok_or_else(bad)?;
                let rep = Rep { tree: s.tree.clone_box(), store: s.store.clone() };
                self.reps.insert(dst, rep);
                Ok("ok".into())
            }
            ["rwrite", r, k, kd, v, m] => {
                self.count("rwrite");
                let r = num(r)?;
                let (k, kd, v) = (parse_xtok(k).ok_or_else(bad)?, parse_xtok(kd).ok_or_else(bad)?, parse_xtok(v).ok_or_else(bad)?);
                let join = match *m {
                    "join" => true,
                    "peer" => false,
                    _ => return Err(bad()),
                };
                let rep = self.reps.get_mut(&r).ok_or_else(bad)?;
                let merged = match rep.store.get(&k) {
                    Some((_, old)) if join && *old >= v => old.clone(),
                    _ => v.clone(),
                };
                let res = catch_unwind(AssertUnwindSafe(|| rep.tree.ups(&k, &kd, &merged, None)));
                match res {
                    Ok(Ok(())) => {
                        rep.store.insert(k.clone(), (kd, merged));
                        if join {
                            let e = self.written.entry(k).or_insert_with(|| v.clone());
                            if *e < v {
                                *e = v;
                            }
                        }
                        Ok("ok".into())
                    }
                    Ok(Err(e)) => Err(format!("bad-op {e}")),
                    Err(_) => {
                        self.fail("C15", "upsert panicked during a replica write".into());
                        Ok("panic".into())
                    }
                }
            }
            ["rpull", i, j, m] => {
                self.count("rpull");
                let (i, j) = (num(i)?, num(j)?);
                let join = match *m {
                    "join" => true,
                    "peer" => false,
                    _ => return Err(bad()),
                };
                if i == j || !self.reps.contains_key(&i) || !self.reps.contains_key(&j) {
                    return Err(bad());
                }
                match self.pull_internal(i, j, join) {
                    Some((ranges, f)) => {
                        let st: Vec<(Vec<u8>, Vec<u8>)> = self.reps[&i].store.iter().map(|(k, (_, v))| (k.clone(), v.clone())).collect();
                        Ok(format!("{} | {} | {}", show_drs(&ranges), show_kvs(&f), show_kvs(&st)))
                    }
                    None => Ok("panic".into()),
                }
            }
            ["rplan", i, j] => {
                // first half of a pull: hash both, diff, keep the ranges for later
                self.count("rplan");
                let (i, j) = (num(i)?, num(j)?);
                if i == j || !self.reps.contains_key(&i) || !self.reps.contains_key(&j) {
                    return Err(bad());
                }
                let out = catch_unwind(AssertUnwindSafe(|| {
                    self.reps.get_mut(&i).unwrap().tree.hash();
                    self.reps.get_mut(&j).unwrap().tree.hash();
                    let mut c16 = vec![];
                    self.reps[&i].tree.diff_with(self.reps[&j].tree.as_ref(), &mut c16)
                }));
                match out {
                    Ok(DiffOut::Ok(d)) => {
                        let s = show_drs(&d);
                        self.plans.insert((i, j), d);
                        Ok(s)
                    }
                    _ => {
                        self.fail("C15", "panic while planning a pull".into());
                        Ok("panic".into())
                    }
                }
            }
            ["rapply", i, j, m] => {
                // second half, possibly much later: fetch the planned ranges from the sender's CURRENT store
                self.count("rapply");
                let (i, j) = (num(i)?, num(j)?);
                let join = match *m {
                    "join" => true,
                    "peer" => false,
                    _ => return Err(bad()),
                };
                let ranges = self.plans.remove(&(i, j)).ok_or_else(bad)?;
                if !self.reps.contains_key(&i) || !self.reps.contains_key(&j) {
                    return Err(bad());
                }
                let mut fetched: Vec<(Vec<u8>, Vec<u8>, Vec<u8>)> = vec![];
                for (k, (kd, v)) in self.reps[&j].store.iter() {
                    if ranges.iter().any(|r| r.0 <= *k && *k <= r.1) {
                        fetched.push((k.clone(), kd.clone(), v.clone()));
                    }
                }
                let rep = self.reps.get_mut(&i).unwrap();
                for (k, kd, v) in &fetched {
                    let merged = match rep.store.get(k) {
                        Some((_, old)) if join && old >= v => old.clone(),
                        _ => v.clone(),
                    };
                    let res = catch_unwind(AssertUnwindSafe(|| rep.tree.ups(k, kd, &merged, None)));
                    if !matches!(res, Ok(Ok(()))) {
                        self.fail("C15", "upsert panicked while absorbing a stale fetch".into());
                        return Ok("panic".into());
                    }
                    rep.store.insert(k.clone(), (kd.clone(), merged));
                }
                let f: Vec<(Vec<u8>, Vec<u8>)> = fetched.iter().map(|x| (x.0.clone(), x.2.clone())).collect();
                let st: Vec<(Vec<u8>, Vec<u8>)> = self.reps[&i].store.iter().map(|(k, (_, v))| (k.clone(), v.clone())).collect();
                Ok(format!("{} | {}", show_kvs(&f), show_kvs(&st)))
            }
            ["rsettle", m] => {
                // the fair quiescent phase itself (mirrors Driver.lean `settle`), then the C05/C06 oracle
                self.count("rsettle");
                let join = match *m {
                    "join" => true,
                    "peer" => false,
                    _ => return Err(bad()),
                };
                let mut ids: Vec<u64> = self.reps.keys().cloned().collect();
                ids.sort();
                let stores = |e: &Exec| -> Vec<BTreeMap<Vec<u8>, Vec<u8>>> {
                    ids.iter().map(|i| e.reps[i].store.iter().map(|(k, (_, v))| (k.clone(), v.clone())).collect()).collect()
                };
                let prop: &'static str = if ids.len() == 2 { "C05" } else { "C06" };
                if ids.len() == 2 {
                    let (a, b) = (ids[0], ids[1]);
                    let s0 = stores(self);
                    let keys: std::collections::BTreeSet<_> = s0[0].keys().chain(s0[1].keys()).cloned().collect();
                    let d = keys.iter().filter(|k| s0[0].get(*k) != s0[1].get(*k)).count();
                    for _ in 0..d {
                        let s = stores(self);
                        if s[0] == s[1] {
                            continue;
                        }
                        if self.pull_internal(b, a, join).is_none() || self.pull_internal(a, b, join).is_none() {
                            return Ok("panic".into());
                        }
                    }
                } else {
                    for _ in 0..200 {
                        let before = stores(self);
                        for &i in &ids {
                            for &j in &ids {
                                if i != j && self.pull_internal(i, j, join).is_none() {
                                    return Ok("panic".into());
                                }
                            }
                        }
                        if stores(self) == before {
                            break;
                        }
                    }
                }
                let mut roots = vec![];
                for i in &ids {
                    let rep = self.reps.get_mut(i).unwrap();
                    match catch_unwind(AssertUnwindSafe(|| rep.tree.hash())) {
                        Ok(h) => roots.push(hex(&h)),
                        Err(_) => roots.push("panic".into()),
                    }
                }
                let st = stores(self);
                self.tick(prop);
                if st.windows(2).any(|w| w[0] != w[1]) {
                    self.fail(prop, "replicas hold different content after the fair quiescent phase".into());
                }
                if roots.windows(2).any(|w| w[0] != w[1]) {
                    self.fail(prop, "replicas report different root hashes after the fair quiescent phase".into());
                }
                if join && st.iter().any(|s| *s != self.written) {
                    self.fail(prop, "a replica does not hold the join of everything written (lost or invented data)".into());
                }
                Ok(roots.join(" "))
            }
            ["rhash", r] => {
                self.count("rhash");
                let rep = self.reps.get_mut(&num(r)?).ok_or_else(bad)?;
                match catch_unwind(AssertUnwindSafe(|| rep.tree.hash())) {
                    Ok(h) => Ok(hex(&h)),
                    Err(_) => Ok("panic".into()),
                }
            }
            ["rtrav", r] => {
                let rep = self.reps.get(&num(r)?).ok_or_else(bad)?;
                Ok(show_evs(&rep.tree.events(None)))
            }
            ["lvl", d, base] => {
                self.count("lvl");
                let d = parse_xtok(d).ok_or_else(bad)?;
                let base: u8 = base.parse().map_err(|_| bad())?;
                let l = lib_level(&d, base).map_err(|e| format!("bad-op {e}"))?;
                self.tick("C14");
                if l as u32 != ref_level(&d, base) {
                    self.fail("C14", format!("level of digest {} under base {} is {}, reference says {}", hex(&d), base, l, ref_level(&d, base)));
                    self.fail("C18", format!("level base {}: digest {} is placed on level {}, the documented derivation gives {}", base, hex(&d), l, ref_level(&d, base)));
                }
                Ok(l.to_string())
            }
            ["sip", k0, k1, m] => {
                self.count("sip");
                let (k0, k1, m) = (parse_xtok(k0).ok_or_else(bad)?, parse_xtok(k1).ok_or_else(bad)?, parse_xtok(m).ok_or_else(bad)?);
                let le = |b: &[u8]| {
                    let mut x = [0u8; 8];
                    x[..b.len().min(8)].copy_from_slice(&b[..b.len().min(8)]);
                    u64::from_le_bytes(x)
                };
                let mut h = SipHasher24::new_with_keys(le(&k0), le(&k1));
                h.write(&m);
                Ok(hex(&h.finish128().as_bytes()))
            }
            _ => Err(bad()),
        }
    }
}
