//! Type-erased access to the real `MerkleSearchTree` for every configuration the harness drives.

use std::{
    any::Any,
    fmt::Debug,
    num::NonZeroU8,
    panic::{catch_unwind, AssertUnwindSafe},
    rc::Rc,
};

use merkle_search_tree::{
    builder::Builder,
    diff::{diff, PageRange, PageRangeSnapshot},
    digest::{siphash::SipHasher, Digest, Hasher, PageDigest},
    visitor::Visitor,
    MerkleSearchTree, Node, Page,
};

use crate::util::hex;

#[derive(Clone, Debug, PartialEq, Eq)]
pub enum Ev {
    VisitPage {
        level: u8,
        cache: Option<[u8; 16]>,
        n: usize,
        high: bool,
    },
    PreNode(Vec<u8>, Vec<u8>),
    VisitNode(Vec<u8>, Vec<u8>),
    PostNode(Vec<u8>, Vec<u8>),
    PostPage(u8),
}

pub fn show_ev(e: &Ev) -> String {
    match e {
        Ev::VisitPage {
            level,
            cache,
            n,
            high,
        } => format!(
            "P{}:{}:{}:{}",
            level,
            cache.map(|c| hex(&c)).unwrap_or_else(|| "-".into()),
            n,
            if *high { "h" } else { "l" }
        ),
        Ev::PreNode(k, v) => format!("<{}:{}", hex(k), hex(v)),
        Ev::VisitNode(k, v) => format!("={}:{}", hex(k), hex(v)),
        Ev::PostNode(k, v) => format!(">{}:{}", hex(k), hex(v)),
        Ev::PostPage(l) => format!("p{}", l),
    }
}

pub fn show_evs(es: &[Ev]) -> String {
    format!(
        "[{}]",
        es.iter().map(show_ev).collect::<Vec<_>>().join(" ")
    )
}

/// A visitor that implements ONLY the required method and relies on the trait's default
/// (no-op, `true`) implementations for the other four callbacks - what most users write.
struct Minimal {
    seen: Vec<(Vec<u8>, Vec<u8>)>,
}

impl<'a, const N: usize, K: AsRef<[u8]>> Visitor<'a, N, K> for Minimal {
    fn visit_node(&mut self, node: &'a Node<N, K>) -> bool {
        self.seen.push((node.key().as_ref().to_vec(), node.value_hash().as_bytes().to_vec()));
        true
    }
}

/// Recording visitor; asks to stop at the `stop`-th callback (0-based).
struct Rec {
    evs: Vec<Ev>,
    stop: Option<usize>,
}

impl Rec {
    fn push(&mut self, e: Ev) -> bool {
        let idx = self.evs.len();
        self.evs.push(e);
        self.stop != Some(idx)
    }
}

impl<'a, const N: usize, K: AsRef<[u8]>> Visitor<'a, N, K> for Rec {
    fn pre_visit_node(&mut self, node: &'a Node<N, K>) -> bool {
        self.push(Ev::PreNode(
            node.key().as_ref().to_vec(),
            node.value_hash().as_bytes().to_vec(),
        ))
    }
    fn visit_node(&mut self, node: &'a Node<N, K>) -> bool {
        self.push(Ev::VisitNode(
            node.key().as_ref().to_vec(),
            node.value_hash().as_bytes().to_vec(),
        ))
    }
    fn post_visit_node(&mut self, node: &'a Node<N, K>) -> bool {
        self.push(Ev::PostNode(
            node.key().as_ref().to_vec(),
            node.value_hash().as_bytes().to_vec(),
        ))
    }
    fn visit_page(&mut self, page: &'a Page<N, K>, high_page: bool) -> bool {
        self.push(Ev::VisitPage {
            level: page.level(),
            cache: page.hash().map(|h| *h.as_bytes()),
            n: page.nodes().len(),
            high: high_page,
        })
    }
    fn post_visit_page(&mut self, page: &'a Page<N, K>) -> bool {
        self.push(Ev::PostPage(page.level()))
    }
}

pub type OwnedRange = (Vec<u8>, Vec<u8>, [u8; 16]);
pub type OwnedDiff = Vec<(Vec<u8>, Vec<u8>)>;

pub enum DiffOut {
    NotSerialisable,
    Panic,
    Ok(OwnedDiff),
}

/// A real `PageRangeSnapshot`, type-erased.
pub trait AnySnap {
    /// what the snapshot describes NOW (through `PageRangeSnapshot::iter`)
    fn ranges(&self) -> Vec<OwnedRange>;
}

struct SnapBox<K>(PageRangeSnapshot<K>);
impl<K: KeyT> AnySnap for SnapBox<K> {
    fn ranges(&self) -> Vec<OwnedRange> {
        self.0
            .iter()
            .map(|p| (p.start().as_ref().to_vec(), p.end().as_ref().to_vec(), *p.hash().as_bytes()))
            .collect()
    }
}

pub trait AnyTree {
    /// an owned `PageRangeSnapshot` of the current page ranges (None if not serialisable)
    fn snapshot(&self) -> Option<Box<dyn AnySnap>>;
    /// Upsert; `Err` if the digests in the script do not match what the configured hasher produces.
    fn ups(&mut self, key: &[u8], kd: &[u8], vd: &[u8], val: Option<&[u8]>) -> Result<(), String>;
    fn hash(&mut self) -> [u8; 16];
    fn cached(&self) -> Option<[u8; 16]>;
    fn events(&self, stop: Option<usize>) -> Vec<Ev>;
    fn iter(&self) -> Vec<(Vec<u8>, Vec<u8>)>;
    /// nodes seen by a visitor relying on the trait's default callbacks
    fn minimal_visit(&self) -> Vec<(Vec<u8>, Vec<u8>)>;
    /// the node iterator through the OTHER `Iterator` methods (count, last, nth, skip, size_hint, by_ref,
    /// two iterators at once): every one must agree with the collected sequence; `Some(what)` if not
    fn iter_probes(&self) -> Option<String>;
    /// `root_hash_cached() == root_hash_cached()` through `PartialEq` of `RootHash` (None if either is absent)
    fn root_eq(&self, other: &dyn AnyTree) -> Option<bool>;
    fn ser(&self) -> Option<Vec<OwnedRange>>;
    /// `diff(local = self, peer)` on borrowed ranges; also checks (C16) that owned snapshots and
    /// ranges rebuilt from accessors give the same result in either argument position.
    fn diff_with(&self, peer: &dyn AnyTree, c16: &mut Vec<String>) -> DiffOut;
    fn fresh(&self) -> Box<dyn AnyTree>;
    fn clone_box(&self) -> Box<dyn AnyTree>;
    /// `Clone::clone_from(&mut self.tree, &src.tree)`; false when `src` is a tree of another type
    fn clone_from_any(&mut self, src: &dyn AnyTree) -> bool;
    fn as_any(&self) -> &dyn Any;
    fn base(&self) -> u8;
    /// the configuration the tree is expected to have: equal ids + equal content => interchangeable
    fn cfg_id(&self) -> String;
    fn width(&self) -> usize;
    /// digests the configured hasher gives for (key bytes, value bytes)
    fn digests(&self, key: &[u8], val: &[u8]) -> Option<(Vec<u8>, Vec<u8>)>;
}

pub trait KeyT: Ord + Clone + Debug + AsRef<[u8]> + 'static {
    fn make(bytes: &[u8], kd: &[u8]) -> Option<Self>;
}

pub trait ValT: Clone + 'static {
    fn make(vd: &[u8], val: Option<&[u8]>) -> Option<Self>;
}

// ---- table mode: the script dictates every digest ------------------------------------------

#[derive(Clone, Debug)]
pub struct TKey<const N: usize> {
    bytes: Vec<u8>,
    digest: [u8; N],
}
impl<const N: usize> PartialEq for TKey<N> {
    fn eq(&self, o: &Self) -> bool {
        self.bytes == o.bytes
    }
}
impl<const N: usize> Eq for TKey<N> {}
impl<const N: usize> PartialOrd for TKey<N> {
    fn partial_cmp(&self, o: &Self) -> Option<std::cmp::Ordering> {
        Some(self.cmp(o))
    }
}
impl<const N: usize> Ord for TKey<N> {
    fn cmp(&self, o: &Self) -> std::cmp::Ordering {
        self.bytes.cmp(&o.bytes)
    }
}
impl<const N: usize> AsRef<[u8]> for TKey<N> {
    fn as_ref(&self) -> &[u8] {
        &self.bytes
    }
}
impl<const N: usize> KeyT for TKey<N> {
    fn make(bytes: &[u8], kd: &[u8]) -> Option<Self> {
        Some(TKey {
            bytes: bytes.to_vec(),
            digest: kd.try_into().ok()?,
        })
    }
}

#[derive(Clone, Debug)]
pub struct TVal<const N: usize>([u8; N]);
impl<const N: usize> ValT for TVal<N> {
    fn make(vd: &[u8], _val: Option<&[u8]>) -> Option<Self> {
        Some(TVal(vd.try_into().ok()?))
    }
}

/// The custom hasher: returns the digest carried by the key / value.
#[derive(Clone, Debug, Default)]
pub struct TableHasher;
impl<const N: usize> Hasher<N, TKey<N>> for TableHasher {
    fn hash(&self, value: &TKey<N>) -> Digest<N> {
        Digest::new(value.digest)
    }
}
impl<const N: usize> Hasher<N, TVal<N>> for TableHasher {
    fn hash(&self, value: &TVal<N>) -> Digest<N> {
        Digest::new(value.0)
    }
}

// ---- real-hasher mode -------------------------------------------------------------------------

impl KeyT for Vec<u8> {
    fn make(bytes: &[u8], _kd: &[u8]) -> Option<Self> {
        Some(bytes.to_vec())
    }
}
impl KeyT for String {
    fn make(bytes: &[u8], _kd: &[u8]) -> Option<Self> {
        String::from_utf8(bytes.to_vec()).ok()
    }
}
impl KeyT for [u8; 8] {
    fn make(bytes: &[u8], _kd: &[u8]) -> Option<Self> {
        bytes.try_into().ok()
    }
}
impl ValT for Vec<u8> {
    fn make(_vd: &[u8], val: Option<&[u8]>) -> Option<Self> {
        val.map(|v| v.to_vec())
    }
}

// ---- the wrapper ---------------------------------------------------------------------------------

pub struct W<K, V, H, const N: usize> {
    t: MerkleSearchTree<K, V, H, N>,
    mk: Rc<dyn Fn() -> MerkleSearchTree<K, V, H, N>>,
    /// `None` in table mode (the script is the hasher)
    dig: Option<Rc<dyn Fn(&K, &V) -> (Vec<u8>, Vec<u8>)>>,
    base: u8,
    /// the configuration this tree is EXPECTED to have (hasher kind / seed, width, base, key type)
    cfg: String,
}

fn to_owned_ranges<K: AsRef<[u8]>>(v: &[PageRange<'_, K>]) -> Vec<OwnedRange> {
    v.iter()
        .map(|p| {
            (
                p.start().as_ref().to_vec(),
                p.end().as_ref().to_vec(),
                *p.hash().as_bytes(),
            )
        })
        .collect()
}

impl<K, V, H, const N: usize> AnyTree for W<K, V, H, N>
where
    K: KeyT,
    V: ValT,
    H: Hasher<N, K> + Hasher<N, V> + Clone + 'static,
{
    fn ups(&mut self, key: &[u8], kd: &[u8], vd: &[u8], val: Option<&[u8]>) -> Result<(), String> {
        let k = K::make(key, kd).ok_or("bad key for this configuration")?;
        let v = V::make(vd, val).ok_or("bad value for this configuration")?;
        if let Some(d) = &self.dig {
            let (kd2, vd2) = d(&k, &v);
            if kd2 != kd || vd2 != vd {
                return Err("script digests differ from the configured hasher".into());
            }
        }
        self.t.upsert(k, &v);
        Ok(())
    }
    fn hash(&mut self) -> [u8; 16] {
        *self.t.root_hash().as_bytes()
    }
    fn cached(&self) -> Option<[u8; 16]> {
        self.t.root_hash_cached().map(|h| *h.as_bytes())
    }
    fn events(&self, stop: Option<usize>) -> Vec<Ev> {
        let mut r = Rec { evs: vec![], stop };
        self.t.in_order_traversal(&mut r);
        r.evs
    }
    fn iter(&self) -> Vec<(Vec<u8>, Vec<u8>)> {
        self.t
            .node_iter()
            .map(|n| (n.key().as_ref().to_vec(), n.value_hash().as_bytes().to_vec()))
            .collect()
    }
    fn minimal_visit(&self) -> Vec<(Vec<u8>, Vec<u8>)> {
        let mut m = Minimal { seen: vec![] };
        self.t.in_order_traversal(&mut m);
        m.seen
    }
    fn iter_probes(&self) -> Option<String> {
        let key = |n: &Node<N, K>| n.key().as_ref().to_vec();
        let all: Vec<Vec<u8>> = self.t.node_iter().map(key).collect();
        let len = all.len();
        if self.t.node_iter().count() != len {
            return Some("node_iter().count() disagrees with the collected sequence".into());
        }
        if self.t.node_iter().last().map(key) != all.last().cloned() {
            return Some("node_iter().last() disagrees with the collected sequence".into());
        }
        let (lo, hi) = self.t.node_iter().size_hint();
        if lo > len || hi.map_or(false, |h| h < len) {
            return Some(format!("node_iter().size_hint() = ({lo}, {hi:?}) excludes the real length {len}"));
        }
        let positions: Vec<usize> = if len <= 12 {
            (0..=len + 1).collect()
        } else {
            vec![0usize, 1, 2, 3, len / 3, len / 2, len.saturating_sub(2), len.saturating_sub(1), len, len + 1]
        };
        for k in positions {
            if self.t.node_iter().nth(k).map(key) != all.get(k).cloned() {
                return Some(format!("node_iter().nth({k}) disagrees with the collected sequence"));
            }
            let mut it = self.t.node_iter().skip(k);
            if it.next().map(key) != all.get(k).cloned() {
                return Some(format!("node_iter().skip({k}).next() disagrees with the collected sequence"));
            }
            // partial consumption, then the rest through by_ref / fold
            let mut it2 = self.t.node_iter();
            let head: Vec<Vec<u8>> = it2.by_ref().take(k).map(key).collect();
            let rest = it2.fold(0usize, |a, _| a + 1);
            if head.len() + rest != len || head[..] != all[..head.len()] {
                return Some(format!("node_iter(): take({k}) then fold yields {} + {rest} of {len} nodes", head.len()));
            }
            // count / last / nth on a PARTIALLY consumed iterator
            let adv = |m: usize| {
                let mut it = self.t.node_iter();
                for _ in 0..m.min(len) {
                    it.next();
                }
                it
            };
            let left_ = len - k.min(len);
            if adv(k).count() != left_ {
                return Some(format!("node_iter(): count() after {k} items is not the {left_} remaining"));
            }
            if adv(k).last().map(key) != if left_ > 0 { all.last().cloned() } else { None } {
                return Some(format!("node_iter(): last() after {k} items disagrees with the collected sequence"));
            }
            if adv(k).nth(1).map(key) != all.get(k.min(len) + 1).cloned() {
                return Some(format!("node_iter(): nth(1) after {k} items disagrees with the collected sequence"));
            }
            // size_hint after partial consumption
            let mut it3 = self.t.node_iter();
            for _ in 0..k.min(len) {
                it3.next();
            }
            let (lo, hi) = it3.size_hint();
            let left = len - k.min(len);
            if lo > left || hi.map_or(false, |h| h < left) {
                return Some(format!("node_iter().size_hint() after {k} items = ({lo}, {hi:?}) excludes the {left} remaining"));
            }
        }
        // two iterators alive at once, advanced alternately
        let (mut a, mut b) = (self.t.node_iter(), self.t.node_iter());
        for i in 0..len.min(6) {
            if a.next().map(key) != all.get(i).cloned() || b.next().map(key) != all.get(i).cloned() {
                return Some("two node iterators advanced alternately disagree".into());
            }
        }
        // exhausted iterators stay exhausted
        let mut e = self.t.node_iter();
        for _ in 0..len {
            e.next();
        }
        if e.next().is_some() || e.next().is_some() {
            return Some("node_iter() yields items after returning None".into());
        }
        None
    }
    fn root_eq(&self, other: &dyn AnyTree) -> Option<bool> {
        let o = other.as_any().downcast_ref::<Self>()?;
        match (self.t.root_hash_cached(), o.t.root_hash_cached()) {
            (Some(a), Some(b)) => Some(a == b && !(a != b) && **a == **b),
            _ => None,
        }
    }
    fn ser(&self) -> Option<Vec<OwnedRange>> {
        self.t.serialise_page_ranges().map(|v| to_owned_ranges(&v))
    }
    fn snapshot(&self) -> Option<Box<dyn AnySnap>> {
        let v = self.t.serialise_page_ranges()?;
        Some(Box::new(SnapBox(PageRangeSnapshot::from(v))))
    }
    fn diff_with(&self, peer: &dyn AnyTree, c16: &mut Vec<String>) -> DiffOut {
        let own = |v: Vec<merkle_search_tree::diff::DiffRange<'_, K>>| -> OwnedDiff {
            v.iter()
                .map(|r| (r.start().as_ref().to_vec(), r.end().as_ref().to_vec()))
                .collect()
        };
        if let Some(p) = peer.as_any().downcast_ref::<Self>() {
            let sers = catch_unwind(AssertUnwindSafe(|| (self.t.serialise_page_ranges(), p.t.serialise_page_ranges())));
            let (l, r) = match sers {
                Ok((Some(l), Some(r))) => (l, r),
                Ok(_) => return DiffOut::NotSerialisable,
                Err(_) => return DiffOut::Panic,
            };
            let res = match catch_unwind(AssertUnwindSafe(|| own(diff(l.clone(), r.clone())))) {
                Ok(v) => v,
                Err(_) => return DiffOut::Panic,
            };
            // C16: owned snapshots / rebuilt ranges in either argument position
            let variants = catch_unwind(AssertUnwindSafe(|| {
                let sl = PageRangeSnapshot::from(l.clone());
                let sr = PageRangeSnapshot::from(r.clone());
                let rl: Vec<PageRange<'_, K>> = l
                    .iter()
                    .map(|p| PageRange::new(p.start(), p.end(), p.hash().clone()))
                    .collect();
                let rr: Vec<PageRange<'_, K>> = r
                    .iter()
                    .map(|p| PageRange::new(p.start(), p.end(), p.hash().clone()))
                    .collect();
                let mut bad = vec![];
                // snapshots built from borrowed ranges, from rebuilt ranges and from owned ranges
                // constructed out of the accessor values must compare equal
                for src in [&l, &r] {
                    let s1 = PageRangeSnapshot::from(src.clone());
                    let rebuilt: Vec<PageRange<'_, K>> = src
                        .iter()
                        .map(|p| PageRange::new(p.start(), p.end(), p.hash().clone()))
                        .collect();
                    let s2 = PageRangeSnapshot::from(rebuilt);
                    let owned: Vec<merkle_search_tree::diff::OwnedPageRange<K>> = src
                        .iter()
                        .map(|p| {
                            merkle_search_tree::diff::OwnedPageRange::new(
                                p.start().clone(),
                                p.end().clone(),
                                p.hash().clone(),
                            )
                        })
                        .collect();
                    let s3 = PageRangeSnapshot::from(owned);
                    let wire: Vec<(K, K, PageDigest)> = src
                        .iter()
                        .map(|p| (p.start().clone(), p.end().clone(), p.hash().clone()))
                        .collect();
                    let s4: PageRangeSnapshot<K> = wire
                        .iter()
                        .map(|(a, b, h)| PageRange::new(a, b, h.clone()))
                        .collect();
                    if s1 != s2 || s1 != s3 || s1 != s4 || s1.clone() != s1 {
                        bad.push("snapshots of the same ranges built through different routes compare unequal".to_string());
                    }
                }
                if rl != l || rr != r {
                    bad.push("ranges rebuilt from accessors compare unequal".to_string());
                }
                // `Clone::clone_from` INTO an existing object of another length / other content, both
                // ways, for every owned type of the diff API: the result must equal its source
                {
                    let mut x = sl.clone();
                    x.clone_from(&sr);
                    let mut y = sr.clone();
                    y.clone_from(&sl);
                    if x != sr || y != sl || x.iter().collect::<Vec<_>>() != r || y.iter().collect::<Vec<_>>() != l
                        || x.iter().len() != r.len() || y.iter().len() != l.len()
                    {
                        bad.push("PageRangeSnapshot::clone_from does not reproduce its source".to_string());
                    }
                    let ol: Vec<merkle_search_tree::diff::OwnedPageRange<K>> = l.iter().cloned().map(Into::into).collect();
                    let or_: Vec<merkle_search_tree::diff::OwnedPageRange<K>> = r.iter().cloned().map(Into::into).collect();
                    let mut ox = ol.clone();
                    ox.clone_from(&or_);
                    let mut oy = or_.clone();
                    oy.clone_from(&ol);
                    if ox != or_ || oy != ol || PageRangeSnapshot::from(ox) != sr || PageRangeSnapshot::from(oy) != sl {
                        bad.push("OwnedPageRange::clone_from does not reproduce its source".to_string());
                    }
                    let mut px = l.clone();
                    px.clone_from(&r);
                    let mut py = r.clone();
                    py.clone_from(&l);
                    if px != r || py != l {
                        bad.push("PageRange::clone_from does not reproduce its source".to_string());
                    }
                }
                if sl.iter().collect::<Vec<_>>() != l || sr.iter().collect::<Vec<_>>() != r {
                    bad.push("snapshot iter differs from borrowed ranges".to_string());
                }
                let cases = [
                    ("snap,snap", own(diff(sl.iter(), sr.iter()))),
                    ("borrowed,snap", own(diff(l.clone(), sr.iter()))),
                    ("snap,borrowed", own(diff(sl.iter(), r.clone()))),
                    ("rebuilt,rebuilt", own(diff(rl.clone(), rr.clone()))),
                    ("rebuilt,borrowed", own(diff(rl, r.clone()))),
                    ("borrowed,rebuilt", own(diff(l.clone(), rr))),
                ];
                for (name, v) in cases {
                    if v != res {
                        bad.push(format!("diff({name}) differs from diff(borrowed,borrowed)"));
                    }
                }
                bad
            }));
            match variants {
                Ok(bad) => c16.extend(bad),
                Err(_) => c16.push("panic in snapshot/rebuilt diff variant".into()),
            }
            DiffOut::Ok(res)
        } else {
            // different configurations: compare through owned ranges
            let (l, r) = match (self.ser(), peer.ser()) {
                (Some(l), Some(r)) => (l, r),
                _ => return DiffOut::NotSerialisable,
            };
            match diff_owned(&l, &r) {
                Some(v) => DiffOut::Ok(v),
                None => DiffOut::Panic,
            }
        }
    }
    fn fresh(&self) -> Box<dyn AnyTree> {
        Box::new(W {
            t: (self.mk)(),
            mk: self.mk.clone(),
            dig: self.dig.clone(),
            base: self.base,
            cfg: self.cfg.clone(),
        })
    }
    fn clone_box(&self) -> Box<dyn AnyTree> {
        Box::new(W {
            t: self.t.clone(),
            mk: self.mk.clone(),
            dig: self.dig.clone(),
            base: self.base,
            cfg: self.cfg.clone(),
        })
    }
    fn clone_from_any(&mut self, src: &dyn AnyTree) -> bool {
        match src.as_any().downcast_ref::<Self>() {
            Some(s) => {
                Clone::clone_from(&mut self.t, &s.t);
                // the wrapper's description of the EXPECTED configuration follows the source
                self.mk = s.mk.clone();
                self.dig = s.dig.clone();
                self.base = s.base;
                self.cfg = s.cfg.clone();
                true
            }
            None => false,
        }
    }
    fn as_any(&self) -> &dyn Any {
        self
    }
    fn base(&self) -> u8 {
        self.base
    }
    fn cfg_id(&self) -> String {
        self.cfg.clone()
    }
    fn width(&self) -> usize {
        N
    }
    fn digests(&self, key: &[u8], val: &[u8]) -> Option<(Vec<u8>, Vec<u8>)> {
        let d = self.dig.as_ref()?;
        let k = K::make(key, &[])?;
        let v = V::make(&[], Some(val))?;
        Some(d(&k, &v))
    }
}

/// `diff` over owned `(start, end, digest)` lists (keys are byte strings).
pub fn diff_owned(l: &[OwnedRange], r: &[OwnedRange]) -> Option<OwnedDiff> {
    catch_unwind(AssertUnwindSafe(|| {
        let lp: Vec<PageRange<'_, Vec<u8>>> = l
            .iter()
            .map(|(s, e, h)| PageRange::new(s, e, PageDigest::new(*h)))
            .collect();
        let rp: Vec<PageRange<'_, Vec<u8>>> = r
            .iter()
            .map(|(s, e, h)| PageRange::new(s, e, PageDigest::new(*h)))
            .collect();
        diff(lp, rp)
            .iter()
            .map(|d| (d.start().clone(), d.end().clone()))
            .collect()
    }))
    .ok()
}

/// `PageRange::new` on its own (does it accept the bounds?)
pub fn range_new_ok(s: &Vec<u8>, e: &Vec<u8>) -> bool {
    catch_unwind(AssertUnwindSafe(|| {
        let _ = PageRange::new(s, e, PageDigest::new([0; 16]));
        let _ = merkle_search_tree::diff::OwnedPageRange::new(
            s.clone(),
            e.clone(),
            PageDigest::new([0; 16]),
        );
    }))
    .is_ok()
}

#[derive(Clone, Debug, PartialEq, Eq)]
pub enum Ctor {
    Builder,
    /// `with_level_base` BEFORE `with_hasher`
    BuilderBaseFirst,
    Default,
    Deprecated,
}

#[derive(Clone, Debug)]
pub enum Kind {
    Table,
    SipDefault,
    SipSeed([u8; 16]),
}

#[derive(Clone, Debug, PartialEq, Eq)]
pub enum KeyKind {
    Bytes,
    Str,
    Fixed8,
}

fn table_tree<const N: usize>(base: u8, ctor: &Ctor) -> Result<Box<dyn AnyTree>, String> {
    let ctor = ctor.clone();
    if ctor != Ctor::Builder && ctor != Ctor::BuilderBaseFirst && base != 16 {
        return Err("only the builder takes a level base".into());
    }
    let mk: Rc<dyn Fn() -> MerkleSearchTree<TKey<N>, TVal<N>, TableHasher, N>> = match ctor {
        Ctor::Builder => Rc::new(move || {
            Builder::default()
                .with_hasher(TableHasher)
                .with_level_base(NonZeroU8::new(base).unwrap())
                .build()
        }),
        Ctor::BuilderBaseFirst => Rc::new(move || {
            Builder::default()
                .with_level_base(NonZeroU8::new(base).unwrap())
                .with_hasher(TableHasher)
                .build()
        }),
        #[allow(deprecated)]
        Ctor::Deprecated => Rc::new(|| MerkleSearchTree::new_with_hasher(TableHasher)),
        Ctor::Default => return Err("default() is SipHasher / 16 bytes only".into()),
    };
    Ok(Box::new(W {
        t: mk(),
        mk,
        dig: None,
        base,
        cfg: format!("table:n={N}:base={base}"),
    }))
}

macro_rules! dispatch_n {
    ($n:expr, $f:ident, $($a:expr),*) => {
        match $n {
            1 => $f::<1>($($a),*), 2 => $f::<2>($($a),*), 3 => $f::<3>($($a),*), 4 => $f::<4>($($a),*),
            5 => $f::<5>($($a),*), 6 => $f::<6>($($a),*), 7 => $f::<7>($($a),*), 8 => $f::<8>($($a),*),
            9 => $f::<9>($($a),*), 10 => $f::<10>($($a),*), 11 => $f::<11>($($a),*), 12 => $f::<12>($($a),*),
            13 => $f::<13>($($a),*), 14 => $f::<14>($($a),*), 15 => $f::<15>($($a),*), 16 => $f::<16>($($a),*),
            17 => $f::<17>($($a),*), 18 => $f::<18>($($a),*), 19 => $f::<19>($($a),*), 20 => $f::<20>($($a),*),
            21 => $f::<21>($($a),*), 22 => $f::<22>($($a),*), 23 => $f::<23>($($a),*), 24 => $f::<24>($($a),*),
            25 => $f::<25>($($a),*), 26 => $f::<26>($($a),*), 27 => $f::<27>($($a),*), 28 => $f::<28>($($a),*),
            29 => $f::<29>($($a),*), 30 => $f::<30>($($a),*), 31 => $f::<31>($($a),*), 32 => $f::<32>($($a),*),
            // beyond the widest digest the crate's own tests use: levels 65..=254
            33 => $f::<33>($($a),*), 48 => $f::<48>($($a),*), 64 => $f::<64>($($a),*), 127 => $f::<127>($($a),*),
            _ => Err(format!("unsupported digest width {}", $n)),
        }
    };
}

fn sip_tree<K: KeyT + std::hash::Hash>(
    base: u8,
    ctor: &Ctor,
    seed: Option<[u8; 16]>,
) -> Result<Box<dyn AnyTree>, String> {
    let hasher = match seed {
        Some(s) => SipHasher::new(&s),
        None => SipHasher::default(),
    };
    let h2 = hasher.clone();
    let mk: Rc<dyn Fn() -> MerkleSearchTree<K, Vec<u8>, SipHasher, 16>> = match ctor {
        Ctor::Builder => {
            let h = hasher.clone();
            Rc::new(move || {
                Builder::default()
                    .with_hasher(h.clone())
                    .with_level_base(NonZeroU8::new(base).unwrap())
                    .build()
            })
        }
        Ctor::BuilderBaseFirst => {
            let h = hasher.clone();
            Rc::new(move || {
                Builder::default()
                    .with_level_base(NonZeroU8::new(base).unwrap())
                    .with_hasher(h.clone())
                    .build()
            })
        }
        Ctor::Deprecated => {
            if base != 16 {
                return Err("only the builder takes a level base".into());
            }
            let h = hasher.clone();
            #[allow(deprecated)]
            Rc::new(move || MerkleSearchTree::new_with_hasher(h.clone()))
        }
        Ctor::Default => {
            if base != 16 || seed.is_some() {
                return Err("default() has no parameters".into());
            }
            Rc::new(MerkleSearchTree::default)
        }
    };
    let dig: Rc<dyn Fn(&K, &Vec<u8>) -> (Vec<u8>, Vec<u8>)> = Rc::new(move |k, v| {
        let kd: Digest<16> = h2.hash(k);
        let vd: Digest<16> = h2.hash(v);
        (kd.as_bytes().to_vec(), vd.as_bytes().to_vec())
    });
    Ok(Box::new(W {
        t: mk(),
        mk,
        dig: Some(dig),
        base,
        cfg: format!("sip:{:?}:base={base}:key={}", seed, std::any::type_name::<K>()),
    }))
}

pub fn make_tree(
    base: u8,
    n: usize,
    kind: &Kind,
    ctor: &Ctor,
    key: &KeyKind,
) -> Result<Box<dyn AnyTree>, String> {
    if base == 0 {
        return Err("base must be non-zero".into());
    }
    match kind {
        Kind::Table => dispatch_n!(n, table_tree, base, ctor),
        Kind::SipDefault | Kind::SipSeed(_) => {
            if n != 16 {
                return Err("SipHasher is 16 bytes wide".into());
            }
            let seed = match kind {
                Kind::SipSeed(s) => Some(*s),
                _ => None,
            };
            match key {
                KeyKind::Bytes => sip_tree::<Vec<u8>>(base, ctor, seed),
                KeyKind::Str => sip_tree::<String>(base, ctor, seed),
                KeyKind::Fixed8 => sip_tree::<[u8; 8]>(base, ctor, seed),
            }
        }
    }
}

/// Level the *library* assigns to a key digest (observed through a one-key tree; `digest::level`
/// itself is not public).
pub fn lib_level(digest: &[u8], base: u8) -> Result<u8, String> {
    let mut t = make_tree(base, digest.len(), &Kind::Table, &Ctor::Builder, &KeyKind::Bytes)?;
    let vd = vec![0u8; digest.len()];
    t.ups(b"k", digest, &vd, None)?;
    match t.events(Some(0)).first() {
        Some(Ev::VisitPage { level, .. }) => Ok(*level),
        _ => Err("no page".into()),
    }
}
