//! Stream generators. Every generator writes protocol lines through `Gen::op`, which executes the
//! line on the real implementation at once (so later lines may depend on earlier results), and
//! records script + implementation output + oracle failures + input distribution.

use std::{
    collections::{BTreeMap, BTreeSet, HashMap, HashSet},
    io::Write,
};

use crate::{exec::*, util::*};

pub struct Gen {
    pub exec: Exec,
    pub script: Box<dyn Write>,
    pub implout: Box<dyn Write>,
    pub lines: u64,
    pub cases: u64,
    pub shapes: HashSet<u64>,
    pub samples: Vec<String>,
    pub notes: BTreeMap<String, u64>,
}

fn fnv(s: &str) -> u64 {
    let mut h = 0xcbf29ce484222325u64;
    for b in s.bytes() {
        h ^= b as u64;
        h = h.wrapping_mul(0x100000001b3);
    }
    h
}

impl Gen {
    pub fn op(&mut self, line: String) -> String {
        let out = self.exec.run_line(&line);
        writeln!(self.script, "{line}").unwrap();
        writeln!(self.implout, "{out}").unwrap();
        self.lines += 1;
        out
    }
    pub fn note(&mut self, k: &str) {
        *self.notes.entry(k.to_string()).or_default() += 1;
    }
    /// record the erased shape (levels and keys, no digests) of a `trav` output as a distinct case
    pub fn shape(&mut self, trav: &str) {
        let erased: String = trav
            .split(' ')
            .map(|t| {
                if t.starts_with('P') || t.starts_with("[P") {
                    let f: Vec<&str> = t.split(':').collect();
                    format!("{}:{}:{}", f[0], f.get(2).unwrap_or(&""), f.get(3).unwrap_or(&""))
                } else {
                    t.to_string()
                }
            })
            .collect::<Vec<_>>()
            .join(" ");
        self.shapes.insert(fnv(&erased));
    }
    pub fn sample(&mut self, s: String) {
        if self.samples.len() < 3 {
            self.samples.push(s);
        }
    }
}

/// A key digest of width `n` whose level under `base` is exactly `lvl` (base > 1), made unique
/// per key by `salt` in the bytes that do not influence the level.
pub fn digest_for_level(lvl: u32, base: u8, n: usize, salt: u8) -> Vec<u8> {
    assert!(base > 1);
    let zeros = (lvl / 2) as usize;
    assert!(zeros < n || (zeros == n && lvl % 2 == 0), "level {lvl} does not fit {n} bytes");
    let mut d = vec![0u8; n];
    if zeros < n {
        d[zeros] = if lvl % 2 == 1 { base } else { 1 };
        for x in d.iter_mut().skip(zeros + 1) {
            *x = salt | 1;
        }
    }
    d
}

thread_local! {
    /// where in the value digest two values differ: 0 = first byte, 1 = last byte, 2 = byte 8 (or last)
    static VAL_POS: std::cell::Cell<u8> = const { std::cell::Cell::new(0) };
}

pub fn set_val_pos(mode: u8) {
    VAL_POS.with(|c| c.set(mode % 3));
}

/// Value digests of one case differ in exactly ONE byte whose position is chosen per case, so
/// that a hash that ignores part of the digest (head, tail, beyond a word) is exposed.
fn val_digest(v: u8, n: usize) -> Vec<u8> {
    let mut d = vec![0xa0u8; n];
    let pos = match VAL_POS.with(|c| c.get()) {
        0 => 0,
        1 => n - 1,
        _ => 8.min(n - 1),
    };
    d[pos] = v;
    d
}

// ------------------------------------------------------------------------------------------------
// T-small: exhaustive histories (DFS with clone), every level assignment, every hash placement
// ------------------------------------------------------------------------------------------------

pub fn tsmall(g: &mut Gen, u: usize, l: usize, nlev: u32, shard: usize, nshards: usize) {
    set_val_pos(shard as u8);
    let n = 2usize;
    let base = 16u8;
    let total = (nlev as usize).pow(u as u32);
    for a in 0..total {
        if a % nshards != shard {
            continue;
        }
        let levels: Vec<u32> = (0..u).map(|i| ((a / (nlev as usize).pow(i as u32)) % nlev as usize) as u32).collect();
        let keys: Vec<Vec<u8>> = (0..u).map(|i| vec![0x10 + i as u8]).collect();
        let kds: Vec<Vec<u8>> = (0..u).map(|i| digest_for_level(levels[i], base, n, i as u8 * 2)).collect();
        g.op(format!("new 0 {base} n={n}"));
        g.sample(format!("tsmall levels={levels:?} U={u} L={l}"));
        let mut present: Vec<Option<u8>> = vec![None; u];
        tsmall_dfs(g, 0, l, false, &keys, &kds, &mut present, n);
    }
}

#[allow(clippy::too_many_arguments)]
fn tsmall_dfs(
    g: &mut Gen,
    depth: usize,
    max: usize,
    last_was_hash: bool,
    keys: &[Vec<u8>],
    kds: &[Vec<u8>],
    present: &mut Vec<Option<u8>>,
    n: usize,
) {
    g.cases += 1;
    // the observable state here, hashed on a copy so that the history continues un-hashed
    g.op(format!("clone 900 {depth}"));
    g.op("hash 900".into());
    g.op("ser 900".into());
    if depth == max {
        g.op(format!("iter {depth}"));
        return;
    }
    let id = depth;
    let next = depth + 1;
    if !last_was_hash {
        // request the hash in the history itself, then continue (does not consume depth)
        g.op(format!("clone {} {}", 800 + depth, id));
        g.op(format!("hash {}", 800 + depth));
        // continue from the hashed copy with every upsert
        tsmall_children(g, 800 + depth, next, max, keys, kds, present, n);
        g.note("hash-then-continue");
    }
    tsmall_children(g, id, next, max, keys, kds, present, n);
}

#[allow(clippy::too_many_arguments)]
fn tsmall_children(
    g: &mut Gen,
    from: usize,
    next: usize,
    max: usize,
    keys: &[Vec<u8>],
    kds: &[Vec<u8>],
    present: &mut Vec<Option<u8>>,
    n: usize,
) {
    for i in 0..keys.len() {
        let vals: Vec<u8> = match present[i] {
            None => vec![1],
            Some(_) => vec![1, 2],
        };
        for v in vals {
            g.op(format!("clone {next} {from}"));
            g.op(format!("ups {next} {} {} {}", xtok(&keys[i]), xtok(&kds[i]), xtok(&val_digest(v, n))));
            g.op(format!("cach {next}"));
            let tr = g.op(format!("trav {next} -"));
            g.shape(&tr);
            let old = present[i];
            present[i] = Some(v);
            tsmall_dfs(g, next, max, false, keys, kds, present, n);
            present[i] = old;
        }
    }
    let _ = (max,);
}

// ------------------------------------------------------------------------------------------------
// T-rand: random histories, deep level structures, intermediate hashing
// ------------------------------------------------------------------------------------------------

pub struct TRandCfg {
    pub cases: usize,
    pub max_keys: usize,
    pub max_ops: usize,
    pub trav_every: usize,
}

fn geometric_level(r: &mut Rng, cap: u32) -> u32 {
    let mut l = 0;
    while l < cap && r.chance(1, 2) {
        l += 1;
    }
    l
}

fn random_key(r: &mut Rng, kind: u64, i: usize) -> Vec<u8> {
    match kind {
        0 => (i as u64).to_be_bytes().to_vec(),                                     // fixed 8 bytes
        1 => {
            // variable length incl. empty, shared prefixes
            let len = r.below(4) as usize;
            (0..len).map(|_| [0u8, 1, 0x61, 0xff][r.below(4) as usize]).collect()
        }
        _ => format!("k{:03}", r.below(500)).into_bytes(),                          // strings
    }
}

pub fn trand(g: &mut Gen, r: &mut Rng, cfg: &TRandCfg) {
    for case in 0..cfg.cases {
        let mut r = r.fork(case as u64);
        set_val_pos(r.below(3) as u8);
        let n = [2usize, 3, 8, 16, 20, 32][r.below(6) as usize];
        let base = [16u8, 2, 4, 255, 3][r.below(5) as usize];
        let cap = (2 * n as u32).min(6);
        let nkeys = 1 + r.below(cfg.max_keys as u64) as usize;
        let kind = r.below(3);
        let mut keyset = BTreeSet::new();
        for i in 0..nkeys {
            keyset.insert(random_key(&mut r, kind, i));
        }
        let mut keys: Vec<Vec<u8>> = keyset.into_iter().collect();
        let order = r.below(3);
        if order == 1 {
            keys.reverse()
        } else if order == 2 {
            r.shuffle(&mut keys)
        }
        let kds: Vec<Vec<u8>> = keys
            .iter()
            .enumerate()
            .map(|(i, _)| digest_for_level(geometric_level(&mut r, cap), base, n, (i as u8).wrapping_mul(2)))
            .collect();
        g.op(format!("new 0 {base} n={n}"));
        g.cases += 1;
        let nops = 1 + r.below(cfg.max_ops as u64) as usize;
        let mut inserted: Vec<usize> = vec![];
        let mut vals: BTreeMap<usize, u8> = BTreeMap::new();
        let mut next_new = 0usize;
        let mut snaps: BTreeSet<u64> = BTreeSet::new();
        for opi in 0..nops {
            let c = r.below(100);
            if c < 25 {
                g.op("hash 0".into());
                if r.chance(1, 4) {
                    g.op("ser 0".into());
                }
                if r.chance(1, 3) {
                    // owned snapshot kept across the rest of the history (C16)
                    let id = 70 + r.below(3);
                    g.op(format!("snap {id} 0"));
                    snaps.insert(id);
                    g.note("op:snapshot");
                }
                g.note("op:hash");
            } else {
                let (i, v) = if (c < 75 && next_new < keys.len()) || inserted.is_empty() {
                    if next_new >= keys.len() {
                        continue;
                    }
                    let i = next_new;
                    next_new += 1;
                    inserted.push(i);
                    g.note("op:new-key");
                    (i, 1 + r.below(3) as u8)
                } else if c < 85 {
                    let i = inserted[r.below(inserted.len() as u64) as usize];
                    g.note("op:same-value");
                    (i, vals[&i])
                } else {
                    let i = inserted[r.below(inserted.len() as u64) as usize];
                    g.note("op:overwrite");
                    (i, vals[&i].wrapping_add(1 + r.below(3) as u8))
                };
                vals.insert(i, v);
                g.op(format!("ups 0 {} {} {}", xtok(&keys[i]), xtok(&kds[i]), xtok(&val_digest(v, n))));
                if opi % cfg.trav_every == 0 || keys.len() <= 16 {
                    let tr = g.op("trav 0 -".into());
                    g.shape(&tr);
                }
                if r.chance(1, 8) {
                    g.op("cach 0".into());
                    g.op("ser 0".into());
                }
            }
        }
        g.op("hash 0".into());
        let tr = g.op("trav 0 -".into());
        g.shape(&tr);
        g.op("ser 0".into());
        g.op("iter 0".into());
        // the snapshots still describe the tree as it was; diff them against the current tree
        g.op("snap 79 0".into());
        for id in &snaps {
            g.op(format!("show {id}"));
            g.op(format!("ldiff {id} 79"));
            g.op(format!("ldiff 79 {id}"));
        }
        // visitor early stop at random callback indices
        let nev = tr.split(' ').count() as u64;
        for _ in 0..3 {
            g.op(format!("trav 0 {}", r.below(nev + 2)));
        }
        if case < 2 {
            g.sample(format!("trand case {case}: n={n} base={base} keys={} ops={nops}", keys.len()));
        }
    }
}

// ------------------------------------------------------------------------------------------------
// T-long: very long batches of upserts between two hash requests; the staleness gate and the
// regenerated hash are probed around the power-of-two batch lengths where narrow counters wrap
// ------------------------------------------------------------------------------------------------

pub fn tlong(g: &mut Gen, shard: usize) {
    if shard != 0 {
        return;
    }
    let n = 2usize;
    let base = 16u8;
    set_val_pos(1);
    let keys: Vec<Vec<u8>> = (0..3u8).map(|i| vec![0x50 + i]).collect();
    let kds: Vec<Vec<u8>> = (0..3).map(|i| digest_for_level(i as u32 % 2, base, n, i as u8 * 2)).collect();
    g.op(format!("new 0 {base} n={n}"));
    g.op("hash 0".into());
    let probes = [1usize, 2, 127, 128, 129, 255, 256, 257, 511, 512, 4095, 4096, 32767, 32768, 65535, 65536, 65537, 131072];
    let mut count = 0usize;
    let last = *probes.last().unwrap();
    while count < last {
        let i = count % 3;
        let v = 1 + ((count / 3) % 2) as u8;
        g.op(format!("ups 0 {} {} {}", xtok(&keys[i]), xtok(&kds[i]), xtok(&val_digest(v, n))));
        count += 1;
        if probes.contains(&count) {
            g.cases += 1;
            // batch of `count` upserts since the last hash: gate closed, then regenerate and compare
            g.op("cach 0".into());
            g.op("ser 0".into());
            g.op("clone 1 0".into());
            g.op("hash 1".into());
            g.op("ser 1".into());
            g.shapes.insert(count as u64);
        }
    }
    g.op("hash 0".into());
    g.op("trav 0 -".into());
    // ONE PAGE gaining exactly 255 / 256 / 257 / 511 / 512 / 513 / 768 NEW nodes between two hash
    // requests (no overwrite, no descent through it, no split of it): anything that summarises a page
    // in a narrow integer (node count, length) and trusts the summary instead of invalidating
    for (t, grow) in [255usize, 256, 257, 511, 512, 513, 768].into_iter().enumerate() {
        let t = 2 + t;
        g.op(format!("new {t} {base} n={n}"));
        g.op(format!("ups {t} x0000 {} {}", xtok(&digest_for_level(0, base, n, 2)), xtok(&val_digest(1, n))));
        g.op(format!("hash {t}"));
        for i in 0..grow {
            let k = vec![0x01, (i >> 8) as u8, i as u8];
            g.op(format!("ups {t} {} {} {}", xtok(&k), xtok(&digest_for_level(0, base, n, 4)), xtok(&val_digest(1, n))));
        }
        g.op(format!("cach {t}"));
        g.op(format!("hash {t}"));
        g.op(format!("ser {t}"));
        // and the same amount once more on the now-hashed wide page, appended at the front
        for i in 0..grow {
            let k = vec![0x00, 0x01, (i >> 8) as u8, i as u8];
            g.op(format!("ups {t} {} {} {}", xtok(&k), xtok(&digest_for_level(0, base, n, 6)), xtok(&val_digest(2, n))));
        }
        g.op(format!("hash {t}"));
        g.op(format!("trav {t} -"));
        g.cases += 1;
        g.shapes.insert(1_000_000 + grow as u64);
    }
    g.sample(format!("tlong: one batch of {last} upserts after a hash, probed at {probes:?}; one page growing by 255..768 nodes between two hash requests"));
}

// ------------------------------------------------------------------------------------------------
// T-pages: ONE tree with more than 2^16 PAGES (a table hasher gives a regular 4-level shape: every
// level-0 key is a page of its own), built with a hash request after every group; then hash
// requests that have to regenerate EXACTLY 255 / 256 / 257 / 65535 / 65536 / 65537 / all pages:
// anything that counts pages (rehashed, visited, serialised) in a narrow integer
// ------------------------------------------------------------------------------------------------

pub fn tpages(g: &mut Gen, shard: usize) {
    if shard > 3 {
        return;
    }
    let n = 4usize;
    let base = 16u8;
    set_val_pos(1);
    // shard 0: 256 groups x 256 leaf pages (65 794 pages); shard 1: 16 x 16 (274 pages), full oracles
    // (shards 0, 2, 3 build the same big tree and share the probes between them: wall time)
    let (ng, nj) = if shard != 1 { (256usize, 256usize) } else { (16, 16) };
    let quiet = if shard != 1 { "hashq" } else { "hash" };
    let kroot = vec![0xffu8, 0xff, 0xff, 0xff];
    let k2 = |gi: usize| vec![gi as u8, 0xff, 0xff];
    let k1 = |gi: usize, j: usize| vec![gi as u8, j as u8, 0x80];
    let k0 = |gi: usize, j: usize| vec![gi as u8, j as u8, 0x01];
    let d = |l: u32| digest_for_level(l, base, n, 0x10);
    g.op(format!("new 0 {base} n={n}"));
    g.cases += 1;
    if shard == 1 {
        g.op(format!("ups 0 {} {} {}", xtok(&kroot), xtok(&d(3)), xtok(&val_digest(1, n))));
    }
    for gi in 0..ng {
        for j in 0..nj {
            g.op(format!("ups 0 {} {} {}", xtok(&k0(gi, j)), xtok(&d(0)), xtok(&val_digest(1, n))));
            g.op(format!("ups 0 {} {} {}", xtok(&k1(gi, j)), xtok(&d(1)), xtok(&val_digest(1, n))));
        }
        g.op(format!("ups 0 {} {} {}", xtok(&k2(gi)), xtok(&d(2)), xtok(&val_digest(1, n))));
        g.op(format!("{quiet} 0"));
    }
    if shard != 1 {
        g.op(format!("ups 0 {} {} {}", xtok(&kroot), xtok(&d(3)), xtok(&val_digest(1, n))));
    }
    g.op("hash 0".into());
    g.op("cach 0".into());
    let total = 2 + ng + ng * nj;
    let ser = g.op("ser 0".into());
    if ser.split(' ').count() != total && ser != "panic" {
        eprintln!("tpages: expected {total} pages, serialisation has {}", ser.split(' ').count());
        std::process::exit(2);
    }
    let mut targets: Vec<usize> = match shard {
        0 => vec![255, 256, 257, 65536],
        2 => vec![65535, total],
        3 => vec![65537],
        _ => vec![255, 256, 257, total],
    };
    targets.retain(|t| *t <= total);
    for (p, &t) in targets.iter().enumerate() {
        // dirty pages = root + level-2 page + groups touched + leaf pages touched
        let gc = if t == total { ng } else { (t - 2 + nj) / (nj + 1) };
        let nkeys = t - 2 - gc;
        assert!(nkeys >= gc && nkeys <= gc * nj);
        let v = 2 + p as u8;
        for i in 0..nkeys {
            let (gi, j) = (i % gc, i / gc);
            g.op(format!("ups 0 {} {} {}", xtok(&k0(gi, j)), xtok(&d(0)), xtok(&val_digest(v, n))));
        }
        g.op("cach 0".into());
        g.op("ser 0".into());
        if t == 65536 || shard == 1 {
            let tr = g.op("trav 0 -".into());
            let dirty = tr.split(' ').filter(|x| x.trim_start_matches('[').starts_with('P') && x.split(':').nth(1) == Some("-")).count();
            g.note(&format!("dirty-pages-before-hash={dirty}"));
            if dirty != t && tr != "panic" {
                eprintln!("tpages: expected {t} dirty pages, saw {dirty}");
                std::process::exit(2);
            }
        }
        g.op("hash 0".into());
        g.op("cach 0".into());
        g.shapes.insert(t as u64);
        g.cases += 1;
        if t == 65536 || t == total {
            g.op("ser 0".into());
        }
    }
    // a clone that is hashed from scratch is not possible through the API (clones keep their caches);
    // a fresh tree with the same content hashed ONCE is what check_hashed's rebuild already does
    g.op("iter 0".into());
    if shard <= 1 {
        // tens of thousands of page ranges through the OWNED types: snapshots of > 2^16 ranges (and
        // > 2^16 distinct bounds), diffs in every representation against a diverged clone
        g.op("clone 1 0".into());
        for (gi, j) in [(0usize, 0usize), (ng / 2, nj / 2), (ng - 1, nj - 1)] {
            g.op(format!("ups 1 {} {} {}", xtok(&k0(gi, j)), xtok(&d(0)), xtok(&val_digest(0x77, n))));
        }
        g.op("hash 1".into());
        g.op("snap 8 0".into());
        g.op("snap 9 1".into());
        g.op("diff2 0 1".into());
        g.op("ldiff 8 9".into());
        g.cases += 1;
    }
    g.sample(format!("tpages shard {shard}: {total} pages, hash requests regenerating exactly {targets:?} pages"));
}

// ------------------------------------------------------------------------------------------------
// T-hash: tens of thousands of hash requests on one small tree (each after a small change, some
// after none): anything that depends on HOW OFTEN hashes were requested
// ------------------------------------------------------------------------------------------------

pub fn thash(g: &mut Gen, r: &mut Rng, shard: usize, requests: usize) {
    if shard > 1 {
        return;
    }
    let n = 2usize;
    let base = 16u8;
    set_val_pos(0);
    let nk = 5usize;
    let keys: Vec<Vec<u8>> = (0..nk as u8).map(|i| vec![0x60 + i]).collect();
    let kds: Vec<Vec<u8>> = (0..nk).map(|i| digest_for_level([0, 1, 0, 2, 0][i], base, n, i as u8 * 2)).collect();
    g.op(format!("new 0 {base} n={n}"));
    g.cases += 1;
    for i in 0..nk {
        g.op(format!("ups 0 {} {} {}", xtok(&keys[i]), xtok(&kds[i]), xtok(&val_digest(1, n))));
    }
    for step in 0..requests {
        // shard 0: a change before every request; shard 1: mostly repeated requests without a change
        if shard == 0 || r.chance(1, 50) {
            let i = r.below(nk as u64) as usize;
            let v = 1 + r.below(3) as u8;
            g.op(format!("ups 0 {} {} {}", xtok(&keys[i]), xtok(&kds[i]), xtok(&val_digest(v, n))));
        }
        g.op("hash 0".into());
        let c = step + 1;
        if c.is_power_of_two() || (c + 1).is_power_of_two() || (c - 1).is_power_of_two() && c > 2 {
            g.op("cach 0".into());
            g.op("ser 0".into());
            g.op("trav 0 -".into());
            g.shapes.insert(c as u64);
        }
    }
    g.op("trav 0 -".into());
    g.sample(format!("thash shard {shard}: {requests} hash requests on a {nk}-key tree"));
}

// ------------------------------------------------------------------------------------------------
// T-big: ONE tree with thousands of keys (realistic level distribution), a diverged clone, diffs
// ------------------------------------------------------------------------------------------------

pub fn tbig(g: &mut Gen, r: &mut Rng, shard: usize, nkeys: usize) {
    let n = [16usize, 16, 20, 8][(shard / 4) % 4];
    let base = [16u8, 16, 4, 32][shard % 4];
    set_val_pos(shard as u8);
    let mut r = r.fork(shard as u64);
    let nk = nkeys + r.below(nkeys as u64 / 4) as usize;
    g.op(format!("new 0 {base} n={n}"));
    g.cases += 1;
    let keys: Vec<Vec<u8>> = (0..nk).map(|i| (i as u32).to_be_bytes().to_vec()).collect();
    // "real" digests: uniformly random bytes, so levels follow the geometric law of the base
    let kds: Vec<Vec<u8>> = (0..nk).map(|_| (0..n).map(|_| r.below(256) as u8).collect()).collect();
    let mut order: Vec<usize> = (0..nk).collect();
    if shard % 2 == 1 {
        r.shuffle(&mut order);
    }
    for (step, &i) in order.iter().enumerate() {
        g.op(format!("ups 0 {} {} {}", xtok(&keys[i]), xtok(&kds[i]), xtok(&val_digest(1, n))));
        if (step + 1).is_power_of_two() || step + 1 == nk {
            g.op("hash 0".into());
            g.op("ser 0".into());
            g.op("iter 0".into());
            let tr = g.op("trav 0 -".into());
            g.shape(&tr);
        }
    }
    g.op("clone 1 0".into());
    for _ in 0..5 {
        let i = r.below(nk as u64) as usize;
        g.op(format!("ups 1 {} {} {}", xtok(&keys[i]), xtok(&kds[i]), xtok(&val_digest(2, n))));
    }
    g.op("hash 1".into());
    g.op("diff2 0 1".into());
    g.cases += 1;
    g.sample(format!("tbig shard {shard}: {nk} keys, base {base}"));
}

// ------------------------------------------------------------------------------------------------
// T-wide: pages with hundreds of nodes (skewed level distribution), re-upserts and overwrites
// ------------------------------------------------------------------------------------------------

pub fn twide(g: &mut Gen, r: &mut Rng, cases: usize, max_keys: usize) {
    for case in 0..cases {
        let mut r = r.fork(case as u64);
        set_val_pos(r.below(3) as u8);
        let n = 3usize;
        let base = 16u8;
        let nk = 260 + r.below(max_keys as u64 - 259) as usize;
        // one key in `every` sits on level 1 (or 2): the pages between them are wide
        let every = [0usize, 300, 97][r.below(3) as usize];
        let keys: Vec<Vec<u8>> = (0..nk).map(|i| (i as u16).to_be_bytes().to_vec()).collect();
        let kds: Vec<Vec<u8>> = (0..nk)
            .map(|i| {
                let l = if every > 0 && i % every == every - 1 { 1 + (i / every % 2) as u32 } else { 0 };
                digest_for_level(l, base, n, (i as u8).wrapping_mul(2))
            })
            .collect();
        g.op(format!("new 0 {base} n={n}"));
        g.cases += 1;
        let mut order: Vec<usize> = (0..nk).collect();
        match r.below(3) {
            0 => {}
            1 => order.reverse(),
            _ => r.shuffle(&mut order),
        }
        for (step, &i) in order.iter().enumerate() {
            g.op(format!("ups 0 {} {} {}", xtok(&keys[i]), xtok(&kds[i]), xtok(&val_digest(1, n))));
            if step % 97 == 96 {
                g.op("hash 0".into());
            }
        }
        g.op("hash 0".into());
        // re-upserts with the same and with a new value, everywhere in the wide pages
        for _ in 0..24 {
            let i = r.below(nk as u64) as usize;
            let v = 1 + r.below(2) as u8;
            g.op(format!("ups 0 {} {} {}", xtok(&keys[i]), xtok(&kds[i]), xtok(&val_digest(v, n))));
            if r.chance(1, 4) {
                g.op("hash 0".into());
            }
        }
        g.op("hash 0".into());
        let tr = g.op("trav 0 -".into());
        g.shape(&tr);
        g.op("ser 0".into());
        g.op("iter 0".into());
        // the SAME final content built once, in ascending order, without re-upserts: the two replicas
        // must be interchangeable and exchange nothing (the expected content is the executor's record)
        {
            let content: Vec<(Vec<u8>, Vec<u8>, Vec<u8>)> =
                g.exec.trees[&0].content.iter().map(|(k, (kd, vd, _))| (k.clone(), kd.clone(), vd.clone())).collect();
            g.op(format!("new 1 {base} n={n}"));
            for (k, kd, vd) in &content {
                g.op(format!("ups 1 {} {} {}", xtok(k), xtok(kd), xtok(vd)));
            }
            g.op("hash 1".into());
            g.op("diff2 0 1".into());
            g.op("same 0 1".into());
        }
        if case < 2 {
            g.sample(format!("twide case {case}: {nk} keys, a higher-level key every {every}"));
        }
    }
}

// ------------------------------------------------------------------------------------------------
// V-small: every tree over U keys (every subset, every level assignment) x EVERY stop index
// ------------------------------------------------------------------------------------------------

pub fn vsmall(g: &mut Gen, u: usize, nlev: u32, shard: usize, nshards: usize) {
    let n = 2usize;
    let base = 16u8;
    let total = (nlev as usize).pow(u as u32);
    for a in 0..total {
        if a % nshards != shard {
            continue;
        }
        let levels: Vec<u32> = (0..u).map(|i| ((a / (nlev as usize).pow(i as u32)) % nlev as usize) as u32).collect();
        for subset in 1..(1usize << u) {
            g.op(format!("new 0 {base} n={n}"));
            for i in 0..u {
                if subset & (1 << i) != 0 {
                    let kd = digest_for_level(levels[i], base, n, i as u8 * 2);
                    g.op(format!("ups 0 {} {} {}", xtok(&[0x10 + i as u8]), xtok(&kd), xtok(&val_digest(1, n))));
                }
            }
            if subset % 2 == 0 {
                g.op("hash 0".into());
            }
            let tr = g.op("trav 0 -".into());
            g.shape(&tr);
            g.op("iter 0".into());
            let nev = tr.split(' ').count();
            for stop in 0..=nev {
                g.op(format!("trav 0 {stop}"));
                g.cases += 1;
            }
        }
        g.sample(format!("vsmall levels={levels:?}: every non-empty subset of {u} keys x every stop index"));
    }
}

// ------------------------------------------------------------------------------------------------
// T-mid: many small DEEP histories (5-8 keys, uniform levels 0..nlev, random order, hash requests
// at random points): the shapes with >= 4 levels and populated high pages that exhaustive
// T-small cannot reach within the quick budget
// ------------------------------------------------------------------------------------------------

pub fn tmid(g: &mut Gen, r: &mut Rng, cases: usize) {
    let base = 16u8;
    for case in 0..cases {
        let mut r = r.fork(case as u64);
        set_val_pos(r.below(3) as u8);
        let n = [3usize, 3, 16, 20][r.below(4) as usize];
        let nk = 4 + r.below(5) as usize;
        let nlev = 3 + r.below(3) as u32;
        let mut order: Vec<usize> = (0..nk).collect();
        r.shuffle(&mut order);
        let kds: Vec<Vec<u8>> = (0..nk).map(|i| digest_for_level(r.below(nlev as u64) as u32, base, n, i as u8 * 2)).collect();
        g.op(format!("new 0 {base} n={n}"));
        g.cases += 1;
        let p_hash = 1 + r.below(3);
        for (step, &i) in order.iter().enumerate() {
            g.op(format!("ups 0 {} {} {}", xtok(&[0x20 + i as u8]), xtok(&kds[i]), xtok(&val_digest(1, n))));
            if r.chance(p_hash, 4) {
                g.op("hash 0".into());
                g.note("hash-between");
            }
            if step + 1 == order.len() || r.chance(1, 3) {
                let tr = g.op("trav 0 -".into());
                g.shape(&tr);
            }
        }
        // an overwrite and a same-value upsert late in the history
        if r.chance(1, 2) {
            let i = order[r.below(nk as u64) as usize];
            g.op(format!("ups 0 {} {} {}", xtok(&[0x20 + i as u8]), xtok(&kds[i]), xtok(&val_digest(1 + r.below(2) as u8, n))));
        }
        g.op("hash 0".into());
        g.op("ser 0".into());
        let tr = g.op("trav 0 -".into());
        g.shape(&tr);
        if case < 2 {
            g.sample(format!("tmid case {case}: keys={nk} levels<{nlev} order={order:?}"));
        }
    }
}

// ------------------------------------------------------------------------------------------------
// T-clone: several trees of one type; `clone` / `clone_from` between trees in EVERY combination of
// cache states (hashed / dirty / never hashed, empty / non-empty, same / other level base), each
// followed by every observation WITHOUT a hash request in between, then by further upserts
// ------------------------------------------------------------------------------------------------

pub fn tclone(g: &mut Gen, r: &mut Rng, cases: usize) {
    for case in 0..cases {
        let mut r = r.fork(case as u64);
        set_val_pos(r.below(3) as u8);
        let n = [3usize, 16, 20][r.below(3) as usize];
        let nk = 3 + r.below(6) as usize;
        let nlev = 2 + r.below(3) as u32;
        // digests built for base 4: the digit byte 0x04 is a zero digit under base 4 but NOT under base 16,
        // so a tree that keeps the wrong base after a clone places later keys on other levels
        let kds: Vec<Vec<u8>> = (0..nk).map(|i| digest_for_level(r.below(nlev as u64) as u32, 4, n, i as u8 * 2)).collect();
        let nt = 2 + r.below(2);
        for t in 0..nt {
            // mostly one base; sometimes a tree with another base (the clone must take the source's)
            let base = if r.chance(1, 5) { 4 } else { 16 };
            g.op(format!("new {t} {base} n={n}"));
        }
        g.cases += 1;
        let steps = 8 + r.below(20);
        for _ in 0..steps {
            let t = r.below(nt);
            match r.below(100) {
                0..=44 => {
                    let i = r.below(nk as u64) as usize;
                    g.op(format!("ups {t} {} {} {}", xtok(&[0x20 + i as u8]), xtok(&kds[i]), xtok(&val_digest(1 + r.below(2) as u8, n))));
                }
                45..=64 => {
                    g.op(format!("hash {t}"));
                }
                65..=99 => {
                    let mut src = r.below(nt);
                    if src == t {
                        src = (t + 1) % nt;
                    }
                    let from = r.chance(3, 4);
                    let st = |g: &Gen, t: u64| -> &'static str {
                        let s = &g.exec.trees[&t];
                        match s.tree.as_ref() {
                            None => "poisoned",
                            Some(tr) => match (tr.cached().is_some(), s.content.is_empty()) {
                                (true, true) => "hashed-empty",
                                (true, false) => "hashed",
                                (false, true) => "dirty-empty",
                                (false, false) => "dirty",
                            },
                        }
                    };
                    let note = format!("{}:{}<-{}", if from { "clone_from" } else { "clone" }, st(g, t), st(g, src));
                    g.note(&note);
                    g.op(format!("{} {t} {src}", if from { "clonefrom" } else { "clone" }));
                    // everything observable, with no hash request in between
                    g.op(format!("cach {t}"));
                    g.op(format!("ser {t}"));
                    let tr = g.op(format!("trav {t} -"));
                    g.shape(&tr);
                    g.op(format!("iter {t}"));
                    g.op(format!("diff2 {t} {src}"));
                    g.op(format!("same {t} {src}"));
                    if r.chance(1, 2) {
                        g.op(format!("hash {t}"));
                        g.op(format!("ser {t}"));
                        g.op(format!("diff2 {t} {src}"));
                    }
                    if r.chance(1, 2) {
                        // the SAME further upserts on the copy and on its source: they must stay
                        // interchangeable (same configuration, same content) and exchange nothing
                        for _ in 0..1 + r.below(3) {
                            let i = r.below(nk as u64) as usize;
                            let v = 1 + r.below(2) as u8;
                            for tt in [t, src] {
                                g.op(format!("ups {tt} {} {} {}", xtok(&[0x20 + i as u8]), xtok(&kds[i]), xtok(&val_digest(v, n))));
                            }
                        }
                        g.op(format!("hash {t}"));
                        g.op(format!("hash {src}"));
                        g.op(format!("diff2 {t} {src}"));
                        g.op(format!("same {t} {src}"));
                        g.note("clone-then-same-upserts");
                    }
                }
                _ => unreachable!(),
            }
        }
        for t in 0..nt {
            g.op(format!("cach {t}"));
            g.op(format!("ser {t}"));
            g.op(format!("hash {t}"));
            g.op(format!("ser {t}"));
            g.op(format!("trav {t} -"));
        }
        if case < 2 {
            g.sample(format!("tclone case {case}: {nt} trees, {nk} keys, levels<{nlev}, n={n}"));
        }
    }
}

// ------------------------------------------------------------------------------------------------
// T-deep: VERY deep trees (17..64 levels): chains of lt children, chains of high pages, zigzags
// ------------------------------------------------------------------------------------------------

pub fn tdeep(g: &mut Gen, r: &mut Rng, cases: usize) {
    for case in 0..cases {
        let mut r = r.fork(case as u64);
        set_val_pos(r.below(3) as u8);
        // widths beyond 32 bytes reach levels above 64 (the widest the crate's own tests use); a level
        // is at most 2n, so n = 127 reaches 253 - the last levels a u8 page level can carry
        let n = [9usize, 12, 16, 20, 32, 32, 48, 64, 127][r.below(9) as usize];
        let base = [16u8, 2, 4, 255, 3][r.below(5) as usize];
        let maxl = (2 * n as u32 - 1).min(254);
        // the spine: m keys on m DISTINCT levels
        let m = (17 + r.below(30) as u32).min(maxl) as usize;
        let mut levels: Vec<u32> = (0..maxl).collect();
        r.shuffle(&mut levels);
        levels.truncate(m);
        if n > 32 {
            // always include the top of the range and the neighbours of 64 / 128
            for (i, l) in [maxl - 1, 63, 64, 65, 66, 127.min(maxl - 1), 128.min(maxl - 1), 129.min(maxl - 1)].iter().enumerate() {
                if !levels.contains(l) {
                    levels[i] = *l;
                }
            }
            levels.sort();
            levels.dedup();
            r.shuffle(&mut levels);
        }
        let m = levels.len();
        let shape = r.below(4);
        match shape {
            0 => levels.sort(),                          // ascending with the key: a chain of lt children
            1 => { levels.sort(); levels.reverse() }     // descending: a chain of high pages
            2 => {                                       // zigzag: lt, high, lt, high ...
                levels.sort();
                levels.reverse();
                let mut lo = vec![];
                let mut hi = vec![];
                for (i, l) in levels.iter().enumerate() {
                    if i % 2 == 0 { lo.push(*l) } else { hi.push(*l) }
                }
                hi.reverse();
                lo.extend(hi);
                levels = lo;
            }
            _ => {}                                      // random permutation
        }
        // fillers on random levels between the spine keys
        let fill = r.below(12) as usize;
        let mut all: Vec<(Vec<u8>, u32)> = vec![];
        for (i, l) in levels.iter().enumerate() {
            all.push((vec![0x10 + i as u8, 0x80], *l));
        }
        for j in 0..fill {
            let pos = r.below(m as u64) as u8;
            all.push((vec![0x10 + pos, 0x81 + j as u8], r.below(maxl as u64) as u32));
        }
        let kds: Vec<Vec<u8>> = all.iter().enumerate().map(|(i, (_, l))| digest_for_level(*l, base, n, (i as u8).wrapping_mul(2))).collect();
        let mut order: Vec<usize> = (0..all.len()).collect();
        match r.below(3) {
            0 => {}
            1 => order.reverse(),
            _ => r.shuffle(&mut order),
        }
        g.op(format!("new 0 {base} n={n}"));
        g.cases += 1;
        g.note(&format!("tdeep-shape{shape}"));
        for (step, &i) in order.iter().enumerate() {
            g.op(format!("ups 0 {} {} {}", xtok(&all[i].0), xtok(&kds[i]), xtok(&val_digest(1, n))));
            if r.chance(1, 4) {
                g.op("hash 0".into());
            }
            if step % 9 == 8 {
                g.op("iter 0".into());
            }
        }
        g.op("hash 0".into());
        g.op("ser 0".into());
        let tr = g.op("trav 0 -".into());
        g.shape(&tr);
        g.op("iter 0".into());
        for _ in 0..4 {
            g.op(format!("trav 0 {}", r.below(6 * all.len() as u64)));
        }
        // a diverged clone: overwrite / add deep inside, diff both ways
        g.op("clone 1 0".into());
        for _ in 0..1 + r.below(3) {
            let i = r.below(all.len() as u64) as usize;
            g.op(format!("ups 1 {} {} {}", xtok(&all[i].0), xtok(&kds[i]), xtok(&val_digest(2, n))));
        }
        g.op("hash 1".into());
        g.op("ser 1".into());
        g.op("iter 1".into());
        g.op("diff2 0 1".into());
        if case < 2 {
            g.sample(format!("tdeep case {case}: spine of {m} levels (shape {shape}), {fill} fillers, n={n} base={base}"));
        }
    }
}

// ------------------------------------------------------------------------------------------------
// D-small: all ordered pairs of contents over U keys x all level assignments
// ------------------------------------------------------------------------------------------------

pub fn dsmall(g: &mut Gen, u: usize, nlev: u32, shard: usize, nshards: usize) {
    set_val_pos(shard as u8);
    // digest width varies with the shard: 2, 12 (not a multiple of 8), 20, 32 (beyond one 16-byte word)
    let n = [2usize, 12, 20, 32][(shard / 3) % 4];
    let base = 16u8;
    let total = (nlev as usize).pow(u as u32);
    let ntrees = 3usize.pow(u as u32);
    for a in 0..total {
        if a % nshards != shard {
            continue;
        }
        let levels: Vec<u32> = (0..u).map(|i| ((a / (nlev as usize).pow(i as u32)) % nlev as usize) as u32).collect();
        let keys: Vec<Vec<u8>> = (0..u).map(|i| vec![0x10 + i as u8]).collect();
        let kds: Vec<Vec<u8>> = (0..u).map(|i| digest_for_level(levels[i], base, n, i as u8 * 2)).collect();
        for t in 0..ntrees {
            g.op(format!("new {t} {base} n={n}"));
            for i in 0..u {
                let v = (t / 3usize.pow(i as u32)) % 3;
                if v > 0 {
                    g.op(format!("ups {t} {} {} {}", xtok(&keys[i]), xtok(&kds[i]), xtok(&val_digest(v as u8, n))));
                }
            }
            g.op(format!("hash {t}"));
        }
        for x in 0..ntrees {
            for y in x..ntrees {
                let out = g.op(format!("diff2 {x} {y}"));
                g.cases += 1;
                g.shapes.insert(fnv(&format!("{a}:{x}:{y}")) ^ if out == "[] | []" { 0 } else { 1 });
                if out != "[] | []" {
                    g.note("pair:nonempty-diff");
                } else {
                    g.note("pair:empty-diff");
                }
            }
        }
        g.sample(format!("dsmall levels={levels:?}: all {} ordered pairs of {} contents", ntrees * ntrees, ntrees));
    }
}

// ------------------------------------------------------------------------------------------------
// D-rand: random pairs with chosen span relations
// ------------------------------------------------------------------------------------------------

pub fn drand(g: &mut Gen, r: &mut Rng, cases: usize, max_keys: usize) {
    for case in 0..cases {
        let mut r = r.fork(case as u64);
        set_val_pos(r.below(3) as u8);
        let n = [2usize, 3, 16, 12, 32][r.below(5) as usize];
        let base = [16u8, 2, 4][r.below(3) as usize];
        let cap = (2 * n as u32).min(5);
        let nk = 2 + r.below(max_keys as u64 - 1) as usize;
        let keys: Vec<Vec<u8>> = (0..nk).map(|i| (i as u32).to_be_bytes().to_vec()).collect();
        let kds: Vec<Vec<u8>> = (0..nk)
            .map(|i| digest_for_level(geometric_level(&mut r, cap), base, n, (i as u8).wrapping_mul(2)))
            .collect();
        // span relation
        let rel = r.below(6);
        let (ra, rb): ((usize, usize), (usize, usize)) = match rel {
            0 => ((0, nk), (0, nk)),                                   // equal spans
            1 => ((nk / 4, 3 * nk / 4), (0, nk)),                      // nested
            2 => ((0, 2 * nk / 3), (nk / 3, nk)),                      // partial overlap
            3 => ((0, nk / 2), (nk / 2, nk)),                          // disjoint
            4 => ((0, 0), (0, nk)),                                    // empty vs full
            _ => ((0, nk), (0, nk)),
        };
        g.note(&format!("span-relation:{rel}"));
        g.op(format!("new 0 {base} n={n}"));
        g.op(format!("new 1 {base} n={n}"));
        let edits = r.below(4);
        let mut order: Vec<usize> = (0..nk).collect();
        r.shuffle(&mut order);
        for &i in &order {
            let in_a = i >= ra.0 && i < ra.1 && !r.chance(1, 6);
            let mut in_b = i >= rb.0 && i < rb.1;
            let mut vb = 1u8;
            if rel == 5 || rel == 0 {
                // derived: b = a with a few edits
                in_b = in_a;
                if r.below(nk as u64) < edits {
                    match r.below(3) {
                        0 => in_b = !in_b,
                        _ => vb = 2,
                    }
                }
            } else if r.chance(1, 8) {
                vb = 2;
            }
            if in_a {
                g.op(format!("ups 0 {} {} {}", xtok(&keys[i]), xtok(&kds[i]), xtok(&val_digest(1, n))));
            }
            if in_b {
                g.op(format!("ups 1 {} {} {}", xtok(&keys[i]), xtok(&kds[i]), xtok(&val_digest(vb, n))));
            }
            if r.chance(1, 10) {
                g.op("hash 0".into());
            }
        }
        g.op("hash 0".into());
        g.op("hash 1".into());
        let out = g.op("diff2 0 1".into());
        g.cases += 1;
        g.shapes.insert(fnv(&out) ^ case as u64);
        if case < 2 {
            g.sample(format!("drand case {case}: n={n} base={base} keys={nk} rel={rel} -> {out}"));
        }
        // a replica that diverges by local writes AFTER a sync point: clone the hashed tree (cached
        // digests and all), overwrite / add a few keys, hash, diff both ways
        if r.chance(1, 2) {
            g.op("clone 2 0".into());
            let edits = 1 + r.below(3);
            for _ in 0..edits {
                let i = r.below(nk as u64) as usize;
                let v = 2 + r.below(2) as u8;
                g.op(format!("ups 2 {} {} {}", xtok(&keys[i]), xtok(&kds[i]), xtok(&val_digest(v, n))));
            }
            g.op("hash 2".into());
            let out2 = g.op("diff2 0 2".into());
            g.cases += 1;
            g.note("diverged-clone");
            g.shapes.insert(fnv(&out2) ^ (case as u64) << 8);
        }
    }
}

// ------------------------------------------------------------------------------------------------
// D-pad: pairs of trees whose contents differ in ONE key replaced by a CONFUSABLE key of the same
// level and value: the key with trailing 0x00 / 0xff bytes added or removed, the empty key, a key
// extended by the first bytes of its value digest. Anything in the page hash (or in a key
// comparison) that pads, truncates or length-limits short keys makes such trees hash equal.
// ------------------------------------------------------------------------------------------------

pub fn dpad(g: &mut Gen, r: &mut Rng, cases: usize) {
    const ALPHA: [u8; 5] = [0x00, 0x01, 0x61, 0x80, 0xff];
    for case in 0..cases {
        let mut r = r.fork(0x9ad0 + case as u64);
        set_val_pos(r.below(3) as u8);
        let n = [3usize, 16, 20][r.below(3) as usize];
        let base = 16u8;
        let nk = 1 + r.below(6) as usize;
        let mut keys: BTreeSet<Vec<u8>> = BTreeSet::new();
        while keys.len() < nk {
            let len = [0usize, 1, 2, 3, 7, 8, 9, 15, 16, 17][r.below(10) as usize];
            keys.insert((0..len).map(|_| ALPHA[r.below(5) as usize]).collect());
        }
        let keys: Vec<Vec<u8>> = keys.into_iter().collect();
        let lv: Vec<u32> = (0..nk).map(|_| r.below(3) as u32).collect();
        let victim = r.below(nk as u64) as usize;
        let vd = val_digest(1, n);
        // the confusable twin of the victim key
        let mut twin = keys[victim].clone();
        let kind = r.below(6);
        match kind {
            0 => twin.push(0x00),
            1 => twin.extend([0x00, 0x00, 0x00]),
            2 => {
                while twin.last() == Some(&0) {
                    twin.pop();
                }
                if twin == keys[victim] {
                    twin.push(0x00)
                }
            }
            3 => twin.push(0xff),
            4 => twin.extend(&vd[..1 + r.below(2.min(n as u64 - 1)) as usize]),
            _ => {
                let pad = 8usize.saturating_sub(twin.len()).max(1);
                twin.extend(std::iter::repeat(0).take(pad));
            }
        }
        if keys.contains(&twin) {
            continue;
        }
        g.note(&format!("dpad-kind{kind}"));
        g.cases += 1;
        g.op(format!("new 0 {base} n={n}"));
        g.op(format!("new 1 {base} n={n}"));
        for (i, k) in keys.iter().enumerate() {
            let kd = digest_for_level(lv[i], base, n, 0x20);
            g.op(format!("ups 0 {} {} {}", xtok(k), xtok(&kd), xtok(&vd)));
            let kb = if i == victim { &twin } else { k };
            g.op(format!("ups 1 {} {} {}", xtok(kb), xtok(&kd), xtok(&vd)));
        }
        g.op("hash 0".into());
        g.op("hash 1".into());
        g.op("ser 0".into());
        g.op("ser 1".into());
        let out = g.op("diff2 0 1".into());
        g.shapes.insert(fnv(&out) ^ case as u64);
        // both keys in ONE tree: they must stay two entries
        g.op(format!("ups 0 {} {} {}", xtok(&twin), xtok(&digest_for_level(lv[victim], base, n, 0x20)), xtok(&vd)));
        g.op("hash 0".into());
        g.op("iter 0".into());
        g.op("diff2 0 1".into());
    }
}

// ------------------------------------------------------------------------------------------------
// S-wide: two replicas with WIDE trees (a root of 40..200 keys, each with a leaf page below it), in
// agreement except for 1..3 keys at chosen positions (the LAST pages, the first pages, anywhere),
// then the two-way rounds of `rsettle` with its rounds bound: a diff that drops, caps or reorders
// ranges when there are many of them stalls or needs more rounds than there are disagreeing keys
// ------------------------------------------------------------------------------------------------

pub fn swide(g: &mut Gen, r: &mut Rng, cases: usize) {
    for case in 0..cases {
        let mut r = r.fork(0x5a1de + case as u64);
        let n = [3usize, 16][r.below(2) as usize];
        let base = 16u8;
        // a third replica (starting EMPTY) in a third of the cases: join only (C06)
        let nrep = if r.chance(1, 3) { 3 } else { 2 };
        let m = if nrep == 3 || r.chance(2, 3) { "join" } else { "peer" };
        // a quarter of the cases: MORE than 255 root keys (one page of > 255 nodes)
        let np = if r.chance(1, 4) { 256 + r.below(60) as usize } else { 40 + r.below(160) as usize };
        let mut keys: Vec<(Vec<u8>, u32)> = vec![];
        for i in 0..np {
            keys.push((vec![(i >> 8) as u8, i as u8, 1], 0));
            if r.chance(1, 3) {
                keys.push((vec![(i >> 8) as u8, i as u8, 2], 0));
            }
            keys.push((vec![(i >> 8) as u8, i as u8, 0x80], 1));
        }
        let nk = keys.len();
        let kds: Vec<Vec<u8>> = keys.iter().enumerate().map(|(i, (_, l))| digest_for_level(*l, base, n, (i as u8).wrapping_mul(2))).collect();
        let val = |v: u8| -> Vec<u8> {
            let mut d = vec![0x40u8; n];
            d[n - 1] = v;
            d
        };
        g.op(format!("rnew 0 {base} n={n}"));
        g.op(format!("rnew 1 {base} n={n}"));
        if nrep == 3 {
            g.op(format!("rnew 2 {base} n={n}"));
        }
        g.cases += 1;
        for i in 0..nk {
            g.op(format!("rwrite 0 {} {} {} {m}", xtok(&keys[i].0), xtok(&kds[i]), xtok(&val(1))));
            g.op(format!("rwrite 1 {} {} {} {m}", xtok(&keys[i].0), xtok(&kds[i]), xtok(&val(1))));
        }
        let ndis = 1 + r.below(3) as usize;
        let where_ = r.below(3);
        for _ in 0..ndis {
            let i = match where_ {
                0 => nk - 1 - r.below((nk as u64 / 8).max(1)) as usize, // the last pages
                1 => r.below((nk as u64 / 8).max(1)) as usize,          // the first pages
                _ => r.below(nk as u64) as usize,
            };
            let rep = r.below(2);
            if r.chance(1, 4) {
                // a key only one replica holds
                let mut k = keys[i].0.clone();
                k.push(9);
                g.op(format!("rwrite {rep} {} {} {} {m}", xtok(&k), xtok(&digest_for_level(0, base, n, 0x33)), xtok(&val(5))));
            } else {
                g.op(format!("rwrite {rep} {} {} {} {m}", xtok(&keys[i].0), xtok(&kds[i]), xtok(&val(2 + r.below(3) as u8))));
            }
        }
        g.note(&format!("swide-{m}-where{where_}-rep{nrep}{}", if np > 255 { "-wide256" } else { "" }));
        g.op(format!("rsettle {m}"));
        if case < 1 {
            g.sample(format!("swide case {case}: {np} root keys, {nk} keys, {ndis} disagreements ({m})"));
        }
    }
}

// ------------------------------------------------------------------------------------------------
// D-wide: diffs of WIDE trees: a root (or mid-level) page with 130..400 children, so that one diff
// records hundreds of consistent / inconsistent ranges; few edits at chosen positions
// ------------------------------------------------------------------------------------------------

pub fn dwide(g: &mut Gen, r: &mut Rng, cases: usize, max_parents: usize) {
    for case in 0..cases {
        let mut r = r.fork(case as u64);
        set_val_pos(r.below(3) as u8);
        let n = [3usize, 16, 20][r.below(3) as usize];
        let base = 16u8;
        // `np` keys on the top level, each followed by 1..3 keys on level 0 (its right neighbour's lt child)
        let np = 130 + r.below(max_parents as u64 - 129) as usize;
        let top = 1 + r.below(2) as u32;
        let mut keys: Vec<(Vec<u8>, u32)> = vec![];
        for i in 0..np {
            let leafs = 1 + r.below(3) as usize;
            for j in 0..leafs {
                keys.push((vec![(i >> 8) as u8, i as u8, 1 + j as u8], if top == 2 && r.chance(1, 9) { 1 } else { 0 }));
            }
            keys.push((vec![(i >> 8) as u8, i as u8, 0x80], top));
        }
        // trailing leaf keys (the root's high page)
        if r.chance(2, 3) {
            keys.push((vec![0xff, 0xff, 1], 0));
        }
        // half of the cases: ONE key above the wide level below every other key, so that the wide
        // page is the ROOT'S HIGH PAGE (its hundreds of children follow it in the serialisation and
        // share the root's upper bound), instead of being the root itself
        let wide_is_high = case % 2 == 1 || r.chance(1, 3);
        if wide_is_high {
            keys.insert(0, (vec![0, 0, 0], top + 1));
            g.note("dwide-wide-page-is-roots-high-page");
        }
        let nk = keys.len();
        let kds: Vec<Vec<u8>> = keys.iter().enumerate().map(|(i, (_, l))| digest_for_level(*l, base, n, (i as u8).wrapping_mul(2))).collect();
        g.op(format!("new 0 {base} n={n}"));
        g.cases += 1;
        let mut order: Vec<usize> = (0..nk).collect();
        if r.chance(1, 2) {
            r.shuffle(&mut order);
        }
        for &i in &order {
            g.op(format!("ups 0 {} {} {}", xtok(&keys[i].0), xtok(&kds[i]), xtok(&val_digest(1, n))));
        }
        g.op("hash 0".into());
        g.op("ser 0".into());
        // IDENTICAL content: a clone, and a tree built independently in another order with hash
        // requests in between - both directions must exchange nothing, however many pages there are
        g.op("clone 5 0".into());
        g.op("diff2 0 5".into());
        g.op(format!("new 6 {base} n={n}"));
        let mut order2: Vec<usize> = (0..nk).collect();
        if r.chance(1, 2) {
            order2.reverse();
        } else {
            r.shuffle(&mut order2);
        }
        for (step, &i) in order2.iter().enumerate() {
            g.op(format!("ups 6 {} {} {}", xtok(&keys[i].0), xtok(&kds[i]), xtok(&val_digest(1, n))));
            if step % 97 == 96 {
                g.op("hashq 6".into());
            }
        }
        g.op("hash 6".into());
        g.op("diff2 0 6".into());
        g.op("same 0 6".into());
        g.cases += 2;
        // peers: clones with a few edits at chosen positions (first pages / around the 128th / 256th page / last pages)
        for variant in 0..3u64 {
            let t = 1 + variant;
            g.op(format!("clone {t} 0"));
            let edits = 1 + r.below(3);
            for _ in 0..edits {
                let i = match r.below(5) {
                    0 => r.below(8.min(nk as u64)) as usize,
                    1 => nk - 1 - r.below(8.min(nk as u64)) as usize,
                    2 => (nk * 128 / np + r.below(12) as usize).min(nk - 1),
                    3 => (nk * 256 / np.max(257) + r.below(12) as usize).min(nk - 1),
                    _ => r.below(nk as u64) as usize,
                };
                if r.chance(1, 4) {
                    // a key only this peer has
                    let mut k = keys[i].0.clone();
                    k.push(7);
                    g.op(format!("ups {t} {} {} {}", xtok(&k), xtok(&digest_for_level(0, base, n, 0x55)), xtok(&val_digest(2, n))));
                } else {
                    g.op(format!("ups {t} {} {} {}", xtok(&keys[i].0), xtok(&kds[i]), xtok(&val_digest(2, n))));
                }
            }
            g.op(format!("hash {t}"));
            let out = g.op(format!("diff2 0 {t}"));
            g.shapes.insert(fnv(&out) ^ (case as u64) << 4 ^ variant);
            g.cases += 1;
        }
        if case < 2 {
            g.sample(format!("dwide case {case}: {np} top-level keys on level {top}, {nk} keys, n={n}"));
        }
    }
}

// ------------------------------------------------------------------------------------------------
// T-keylen: LONG keys (lengths around 32, 64, 128, 224, 256, 512 and long common prefixes) in
// small deep trees, so that every byte of a key reaching the page hasher / comparisons is tied
// ------------------------------------------------------------------------------------------------

pub fn tkeylen(g: &mut Gen, r: &mut Rng, cases: usize) {
    const LENS: [usize; 24] = [0, 1, 7, 8, 9, 31, 32, 33, 63, 64, 65, 127, 128, 129, 207, 208, 209, 223, 224, 225, 255, 256, 257, 600];
    let base = 16u8;
    for case in 0..cases {
        let mut r = r.fork(case as u64);
        set_val_pos(r.below(3) as u8);
        let n = [16usize, 3, 32][r.below(3) as usize];
        let nk = 4 + r.below(5) as usize;
        let nlev = 2 + r.below(3) as u32;
        let mode = r.below(3); // 0: distinct first byte + padding; 1: long common prefix, differ at the END; 2: prefixes of one another
        let keys: Vec<Vec<u8>> = (0..nk)
            .map(|i| {
                let len = LENS[r.below(LENS.len() as u64) as usize];
                match mode {
                    0 => {
                        let mut k = vec![0x20 + i as u8];
                        k.extend((1..len).map(|j| (j % 251) as u8));
                        k
                    }
                    1 => {
                        let len = len.max(2);
                        let mut k: Vec<u8> = (0..len - 1).map(|j| (j % 7) as u8).collect();
                        let l0 = LENS[(case + 5) % LENS.len()].max(2) - 1;
                        k.resize(l0, 3);
                        k.push(0x20 + i as u8);
                        k
                    }
                    _ => vec![0x41; (i * 37) % 300 + i],
                }
            })
            .collect();
        let kds: Vec<Vec<u8>> = (0..nk).map(|i| digest_for_level(r.below(nlev as u64) as u32, base, n, i as u8 * 2)).collect();
        let mut order: Vec<usize> = (0..nk).collect();
        r.shuffle(&mut order);
        g.op(format!("new 0 {base} n={n}"));
        g.op(format!("new 1 {base} n={n}"));
        g.cases += 1;
        g.note(&format!("tkeylen-mode{mode}"));
        for &i in &order {
            g.op(format!("ups 0 {} {} {}", xtok(&keys[i]), xtok(&kds[i]), xtok(&val_digest(1, n))));
            // tree 1: same keys, ONE of them with another value / missing
            if i != order[0] {
                g.op(format!("ups 1 {} {} {}", xtok(&keys[i]), xtok(&kds[i]), xtok(&val_digest(1, n))));
            } else if r.chance(1, 2) {
                g.op(format!("ups 1 {} {} {}", xtok(&keys[i]), xtok(&kds[i]), xtok(&val_digest(2, n))));
            }
            if r.chance(1, 3) {
                g.op("hash 0".into());
            }
        }
        g.op("hash 0".into());
        g.op("hash 1".into());
        g.op("ser 0".into());
        let tr = g.op("trav 0 -".into());
        g.shape(&tr);
        g.op("iter 0".into());
        g.op("diff2 0 1".into());
        if case < 2 {
            g.sample(format!("tkeylen case {case}: mode {mode}, key lengths {:?}", keys.iter().map(|k| k.len()).collect::<Vec<_>>()));
        }
    }
}

// ------------------------------------------------------------------------------------------------
// D-near: pairs of real trees whose ROOT DIGESTS AGREE ON A 4-BYTE WINDOW (found by a birthday
// search over one contested value, on the real implementation): a diff / root comparison that
// looks at part of a digest only is exposed on real trees
// ------------------------------------------------------------------------------------------------

pub fn dnear(g: &mut Gen, r: &mut Rng, trees: usize) {
    use crate::tree::{make_tree, Ctor, KeyKind, Kind};
    let n = 16usize;
    let base = 16u8;
    let nk = 3 + r.below(4) as usize;
    let keys: Vec<Vec<u8>> = (0..nk).map(|i| vec![0x30 + i as u8]).collect();
    let kds: Vec<Vec<u8>> = (0..nk).map(|i| digest_for_level(r.below(3) as u32, base, n, i as u8 * 2)).collect();
    let contested = r.below(nk as u64) as usize;
    let salt = r.below(1 << 30);
    let vd_of = |j: u64| -> Vec<u8> {
        let mut d = vec![0xa0u8; n];
        d[..8].copy_from_slice(&(j ^ (salt << 32)).to_le_bytes());
        d
    };
    // root digest of every candidate
    let mut roots: Vec<[u8; 16]> = Vec::with_capacity(trees);
    for j in 0..trees as u64 {
        let mut t = make_tree(base, n, &Kind::Table, &Ctor::Builder, &KeyKind::Bytes).unwrap();
        for i in 0..nk {
            let vd = if i == contested { vd_of(j) } else { val_digest(1, n) };
            t.ups(&keys[i], &kds[i], &vd, None).unwrap();
        }
        roots.push(t.hash());
    }
    // pairs agreeing on bytes [w, w+4)
    let mut found: Vec<(usize, usize, usize)> = vec![];
    for w in 0..=12usize {
        let mut seen: HashMap<[u8; 4], usize> = HashMap::new();
        let mut per = 0;
        for (j, h) in roots.iter().enumerate() {
            let k: [u8; 4] = h[w..w + 4].try_into().unwrap();
            if let Some(&j0) = seen.get(&k) {
                if per < 2 {
                    found.push((w, j0, j));
                    per += 1;
                }
            } else {
                seen.insert(k, j);
            }
        }
    }
    g.note(&format!("dnear-pairs:{}", found.len().min(30)));
    for (w, a, b) in found {
        g.op(format!("new 0 {base} n={n}"));
        g.op(format!("new 1 {base} n={n}"));
        for i in 0..nk {
            let (va, vb) = if i == contested { (vd_of(a as u64), vd_of(b as u64)) } else { (val_digest(1, n), val_digest(1, n)) };
            g.op(format!("ups 0 {} {} {}", xtok(&keys[i]), xtok(&kds[i]), xtok(&va)));
            g.op(format!("ups 1 {} {} {}", xtok(&keys[i]), xtok(&kds[i]), xtok(&vb)));
        }
        g.op("hash 0".into());
        g.op("hash 1".into());
        let out = g.op("diff2 0 1".into());
        g.cases += 1;
        g.shapes.insert(fnv(&out) ^ w as u64);
        g.note(&format!("dnear-window:{w}"));
        if g.samples.len() < 2 {
            g.sample(format!("dnear: root digests {} / {} agree on bytes {w}..{}", hex(&roots[a]), hex(&roots[b]), w + 4));
        }
    }
}

// ------------------------------------------------------------------------------------------------
// L-small: all pairs of page-range lists over a small alphabet
// ------------------------------------------------------------------------------------------------

pub fn lsmall(g: &mut Gen, nkeys: usize, maxlen: usize, shard: usize, nshards: usize) {
    // items: all (s <= e) over nkeys keys x 2 digests
    let mut items = vec![];
    for s in 0..nkeys {
        for e in s..nkeys {
            for h in 0..2 {
                items.push(format!("{:02x}:{:02x}:{:02x}", 0x10 + s, 0x10 + e, h + 1));
            }
        }
    }
    let mut lists: Vec<Vec<usize>> = vec![vec![]];
    let mut frontier: Vec<Vec<usize>> = vec![vec![]];
    for _ in 0..maxlen {
        let mut nf = vec![];
        for l in &frontier {
            for i in 0..items.len() {
                let mut x = l.clone();
                x.push(i);
                nf.push(x);
            }
        }
        lists.extend(nf.iter().cloned());
        frontier = nf;
    }
    for (id, l) in lists.iter().enumerate() {
        g.op(format!("list {id} {}", l.iter().map(|i| items[*i].clone()).collect::<Vec<_>>().join(" ")));
    }
    g.sample(format!("lsmall: {} lists over {} items (len <= {}), all ordered pairs", lists.len(), items.len(), maxlen));
    for a in 0..lists.len() {
        if a % nshards != shard {
            continue;
        }
        for b in 0..lists.len() {
            let out = g.op(format!("ldiff {a} {b}"));
            g.cases += 1;
            if out != "[]" {
                g.shapes.insert(((a as u64) << 32) | b as u64);
            }
        }
    }
}

// ------------------------------------------------------------------------------------------------
// L-rand / L-mut: random lists and mutated real serialisations
// ------------------------------------------------------------------------------------------------

fn show_items(l: &[(Vec<u8>, Vec<u8>, Vec<u8>)]) -> String {
    l.iter().map(|(s, e, h)| format!("{}:{}:{}", hex(s), hex(e), hex(h))).collect::<Vec<_>>().join(" ")
}

/// L-long: LONG untrusted lists (150..700 entries): a root with hundreds of disjoint children (some
/// with children of their own), digests equal / different in chosen places, optionally scrambled,
/// truncated or with duplicated entries — so that one diff records hundreds of ranges of each kind.
pub fn llong(g: &mut Gen, r: &mut Rng, cases: usize) {
    for case in 0..cases {
        let mut r = r.fork(0x11000 + case as u64);
        let kids = 150 + r.below(550) as u16;
        let k2 = |x: u16| x.to_be_bytes().to_vec();
        let mk = |r: &mut Rng, flip_every: u64, salt: u8| {
            let mut l: Vec<(Vec<u8>, Vec<u8>, Vec<u8>)> = vec![];
            l.push((k2(0), k2(kids * 4 + 3), vec![9, salt]));
            for i in 0..kids {
                let h = if flip_every > 0 && r.below(flip_every) == 0 { vec![2, salt] } else { vec![1] };
                l.push((k2(i * 4), k2(i * 4 + 2), h));
                if r.chance(1, 5) {
                    l.push((k2(i * 4), k2(i * 4 + 1), vec![3, (i % 3) as u8]));
                }
            }
            l
        };
        let la = mk(&mut r, 0, 0);
        let fe = [0, 3, 40, 200][r.below(4) as usize];
        let mut lb = mk(&mut r, fe, 1);
        match r.below(5) {
            0 => r.shuffle(&mut lb[1..]),
            1 => {
                let cut = lb.len() / 2;
                lb.truncate(cut);
            }
            2 => {
                let i = 1 + r.below(lb.len() as u64 - 1) as usize;
                let it = lb[i].clone();
                lb.insert(i, it);
            }
            _ => {}
        }
        g.op(format!("list 0 {}", show_items(&la)));
        g.op(format!("list 1 {}", show_items(&lb)));
        let a = g.op("ldiff 0 1".into());
        let b = g.op("ldiff 1 0".into());
        g.cases += 2;
        g.shapes.insert(fnv(&a) ^ fnv(&b).rotate_left(7));
        g.note("llong");
        if case < 1 {
            g.sample(format!("llong case {case}: {} / {} entries", la.len(), lb.len()));
        }
    }
}

pub fn lrand(g: &mut Gen, r: &mut Rng, cases: usize, maxlen: usize) {
    for case in 0..cases {
        let mut r = r.fork(case as u64);
        let alphabet = 2 + r.below(12);
        let mk = |r: &mut Rng, len: usize, nested: bool| {
            let mut l = vec![];
            let (mut lo, mut hi) = (0u64, alphabet * 4);
            for _ in 0..len {
                let (s, e) = if nested && hi > lo + 1 && r.chance(2, 3) {
                    lo += r.below(2);
                    hi -= r.below(2).min(hi - lo);
                    (lo, hi)
                } else {
                    let a = r.below(alphabet * 4);
                    let b = r.below(alphabet * 4);
                    (a.min(b), a.max(b))
                };
                l.push((vec![s as u8], vec![e as u8], vec![1 + r.below(3) as u8]));
            }
            l
        };
        let (na, nesta) = (r.below(maxlen as u64 + 1) as usize, r.chance(1, 2));
        let la = mk(&mut r, na, nesta);
        let (nb, nestb) = (r.below(maxlen as u64 + 1) as usize, r.chance(1, 2));
        let mut lb = mk(&mut r, nb, nestb);
        if r.chance(1, 3) && !la.is_empty() {
            // peer derived from local: same ranges, a few digests changed, some entries moved,
            // so that many pages are digest-consistent but arrive out of key order
            lb = la.clone();
            let edits = 1 + r.below(3);
            for _ in 0..edits {
                let i = r.below(lb.len() as u64) as usize;
                lb[i].2[0] ^= 0x40;
            }
            for _ in 0..r.below(3) {
                let i = r.below(lb.len() as u64) as usize;
                let j = r.below(lb.len() as u64) as usize;
                lb.swap(i, j);
            }
            if r.chance(1, 2) {
                // an enclosing root with a fresh digest in front
                let lo = lb.iter().map(|x| x.0.clone()).min().unwrap();
                let hi = lb.iter().map(|x| x.1.clone()).max().unwrap();
                lb.insert(0, (lo, hi, vec![0x77]));
            }
            g.note("derived-peer");
        }
        g.op(format!("list 0 {}", show_items(&la)));
        g.op(format!("list 1 {}", show_items(&lb)));
        let out = g.op("ldiff 0 1".into());
        g.cases += 1;
        g.shapes.insert(fnv(&out) ^ (case as u64) << 20);
        if case < 2 {
            g.sample(format!("lrand: |local|={} |peer|={} -> {out}", la.len(), lb.len()));
        }
        // malformed item: start > end must be rejected by the constructor
        if r.chance(1, 10) {
            g.op("list 2 05:03:01".into());
            g.note("malformed-item");
        }
    }
}

/// nesting-depth stream: lists with controlled nesting (chains, combs, real serialisations);
/// compares the model's `diffDepth` with the depth observed through the crate's tracing spans
pub fn ldepth(g: &mut Gen, r: &mut Rng, cases: usize) {
    for case in 0..cases {
        let mut r = r.fork(case as u64);
        let depth = 1 + r.below(24);
        let mk = |r: &mut Rng, h: u8| {
            // a chain of `depth` strictly nested ranges, each optionally followed by leaf siblings
            let mut l: Vec<(Vec<u8>, Vec<u8>, Vec<u8>)> = vec![];
            let (mut lo, mut hi) = (0u64, 4 * depth + 8);
            for _ in 0..depth {
                l.push((vec![lo as u8], vec![hi as u8], vec![h.wrapping_add(r.below(2) as u8)]));
                if r.chance(1, 3) && hi > lo + 3 {
                    l.push((vec![lo as u8 + 1], vec![lo as u8 + 1], vec![h]));
                    lo += 1;
                }
                lo += 1;
                hi -= 1 + r.below(2);
                if hi <= lo {
                    break;
                }
            }
            if r.chance(1, 4) {
                r.shuffle(&mut l);
            }
            l
        };
        let la = mk(&mut r, 1);
        let hb = if r.chance(1, 2) { 1 } else { 3 };
        let lb = mk(&mut r, hb);
        g.op(format!("list 0 {}", show_items(&la)));
        g.op(format!("list 1 {}", show_items(&lb)));
        let d = g.op("ldepth 0 1".into());
        g.op("ldiff 0 1".into());
        g.cases += 1;
        g.note(&format!("depth:{d}"));
        g.shapes.insert(fnv(&format!("{la:?}{lb:?}")));
        if case < 2 {
            g.sample(format!("ldepth: |local|={} |peer|={} -> depth {d}", la.len(), lb.len()));
        }
    }
    // exact chains: model theorem C13_depth_chain says depth n
    for n in [0usize, 1, 2, 5, 17, 60, 120] {
        let mk = |h: u8| -> Vec<(Vec<u8>, Vec<u8>, Vec<u8>)> {
            (0..n).map(|i| (vec![i as u8], vec![(2 * n - i) as u8], vec![h])).collect()
        };
        g.op(format!("list 0 {}", show_items(&mk(1))));
        g.op(format!("list 1 {}", show_items(&mk(2))));
        let d = g.op("ldepth 0 1".into());
        // one-sided: nesting DEEPER than the chain is wrong; an implementation that nests less (an
        // explicit-stack walk) uses less stack than the model allows, which C13 does not forbid
        let deeper = match d.strip_prefix("depth=").and_then(|x| x.parse::<usize>().ok()) {
            Some(x) => x > n,
            None => true,
        };
        if deeper {
            g.exec.fails.push(OracleFail { prop: "C13", line_no: g.exec.line_no, msg: format!("nested chain of {n} ranges recursed to {d}") });
        }
        g.cases += 1;
    }
}

pub fn lmut(g: &mut Gen, r: &mut Rng, cases: usize, max_keys: usize) {
    for case in 0..cases {
        let mut r = r.fork(case as u64);
        let n = 2usize;
        let base = 16u8;
        let mut sers = vec![];
        for t in 0..2 {
            g.op(format!("new {t} {base} n={n}"));
            let nk = 1 + r.below(max_keys as u64) as usize;
            for i in 0..nk {
                if r.chance(3, 4) {
                    let kd = digest_for_level(geometric_level(&mut r, 4), base, n, i as u8 * 2);
                    g.op(format!("ups {t} {} {} {}", xtok(&[i as u8]), xtok(&kd), xtok(&val_digest(1 + r.below(2) as u8, n))));
                }
            }
            g.op(format!("hash {t}"));
            let s = g.op(format!("ser {t}"));
            let items: Vec<(Vec<u8>, Vec<u8>, Vec<u8>)> = s
                .trim_matches(|c| c == '[' || c == ']')
                .split(' ')
                .filter(|x| !x.is_empty())
                .filter_map(|it| {
                    let f: Vec<&str> = it.split(':').collect();
                    Some((unhex(f.first()?)?, unhex(f.get(1)?)?, unhex(f.get(2)?)?))
                })
                .collect();
            sers.push(items);
        }
        for (t, items) in sers.iter_mut().enumerate() {
            if items.is_empty() {
                continue;
            }
            let m = r.below(6);
            g.note(&format!("mutation:{m}"));
            match m {
                0 => r.shuffle(items),
                1 => items.truncate(r.below(items.len() as u64) as usize),
                2 => {
                    let i = r.below(items.len() as u64) as usize;
                    let d = items[i].clone();
                    items.insert(r.below(items.len() as u64 + 1) as usize, d);
                }
                3 => {
                    let i = r.below(items.len() as u64) as usize;
                    items[i].2[0] ^= 0x55;
                }
                4 => {
                    let i = r.below(items.len() as u64) as usize;
                    items.remove(i);
                }
                _ => {}
            }
            g.op(format!("list {t} {}", show_items(items)));
        }
        if sers.iter().all(|s| !s.is_empty()) || true {
            for t in 0..2 {
                if sers[t].is_empty() {
                    g.op(format!("list {t}"));
                }
            }
            let out = g.op("ldiff 0 1".into());
            g.op("ldiff 1 0".into());
            g.cases += 1;
            g.shapes.insert(fnv(&out) ^ (case as u64) << 20);
            if case < 2 {
                g.sample(format!("lmut case {case}: -> {out}"));
            }
        }
    }
}

// ------------------------------------------------------------------------------------------------
// S-rand: schedules of writes and pairwise pulls over 2..5 replicas, then a fair quiescent phase
// ------------------------------------------------------------------------------------------------

fn store_of(g: &Gen, r: u64) -> BTreeMap<Vec<u8>, Vec<u8>> {
    g.exec.reps[&r].store.iter().map(|(k, (_, v))| (k.clone(), v.clone())).collect()
}

pub fn srand(g: &mut Gen, r: &mut Rng, cases: usize, max_ops: usize) {
    for case in 0..cases {
        let mut r = r.fork(case as u64);
        let nrep = 2 + r.below(4);
        let join = nrep > 2 || r.chance(1, 2);
        let m = if join { "join" } else { "peer" };
        // digest width and the position of the byte in which two values differ vary per case
        let n = [2usize, 2, 3, 16, 20, 32][r.below(6) as usize];
        let vpos = [0usize, n - 1, 8.min(n - 1), 17.min(n - 1)][r.below(4) as usize];
        let mkv = |x: u8| -> Vec<u8> {
            let mut v = vec![0xa0u8; n];
            v[vpos] = x;
            v
        };
        let base = [16u8, 16, 4, 2, 3][r.below(5) as usize];
        let nk = 2 + r.below(14) as usize;
        let kds: Vec<Vec<u8>> = (0..nk).map(|i| digest_for_level(geometric_level(&mut r, 4), base, n, i as u8 * 2)).collect();
        let forked = r.chance(1, 3);
        let mut written: BTreeMap<Vec<u8>, Vec<u8>> = BTreeMap::new();
        if forked {
            // replicas bootstrapped by cloning a seed replica that already holds data and hashes
            g.op(format!("rnew 0 {base} n={n}"));
            for i in 0..(1 + r.below(nk as u64) as usize) {
                let v = mkv(1 + r.below(3) as u8);
                let key = vec![0x30 + i as u8];
                g.op(format!("rwrite 0 {} {} {} {m}", xtok(&key), xtok(&kds[i]), xtok(&v)));
                if join {
                    let e = written.entry(key).or_insert_with(|| v.clone());
                    if *e < v {
                        *e = v;
                    }
                }
            }
            if r.chance(1, 2) {
                g.op("rhash 0".into());
            }
            for i in 1..nrep {
                g.op(format!("rclone {i} 0"));
            }
            g.note("forked-replicas");
        } else {
            for i in 0..nrep {
                g.op(format!("rnew {i} {base} n={n}"));
            }
        }
        g.cases += 1;
        g.note(&format!("replicas:{nrep}:{m}"));
        let nops = r.below(max_ops as u64 + 1);
        let mut pending: Vec<(u64, u64)> = vec![];
        for _ in 0..nops {
            if r.chance(3, 5) {
                let i = r.below(nk as u64) as usize;
                let rep = r.below(nrep);
                let v = mkv(1 + r.below(6) as u8);
                let key = vec![0x30 + i as u8];
                g.op(format!("rwrite {rep} {} {} {} {m}", xtok(&key), xtok(&kds[i]), xtok(&v)));
                if join {
                    let e = written.entry(key).or_insert_with(|| v.clone());
                    if *e < v {
                        *e = v;
                    }
                }
            } else {
                let i = r.below(nrep);
                let mut j = r.below(nrep);
                if i == j {
                    j = (j + 1) % nrep;
                }
                if join && r.chance(1, 3) {
                    // an in-flight pull: the ranges are computed now and fetched later (stale)
                    if !pending.contains(&(i, j)) {
                        g.op(format!("rplan {i} {j}"));
                        pending.push((i, j));
                        g.note("op:stale-plan");
                    }
                } else {
                    g.op(format!("rpull {i} {j} {m}"));
                }
            }
            if !pending.is_empty() && r.chance(1, 3) {
                let (i, j) = pending.remove(r.below(pending.len() as u64) as usize);
                g.op(format!("rapply {i} {j} {m}"));
            }
            if r.chance(1, 6) {
                let h = r.below(nrep);
                g.op(format!("rhash {h}"));
            }
        }
        // writes stop: the fair quiescent phase (2 replicas: as many two-way rounds as disagreeing
        // keys; more: sweeps over all ordered pairs until nothing changes) is ONE op executed by both
        // sides, so that any (minimised) script ending in it is still a valid test of C05/C06
        let all: Vec<u64> = (0..nrep).collect();
        g.op(format!("rsettle {m}"));
        let roots: Vec<String> = all.iter().map(|i| g.op(format!("rhash {i}"))).collect();
        g.op("rtrav 0".into());
        if case < 2 {
            g.sample(format!("srand case {case}: {nrep} replicas, merge {m}, {nk} keys, {nops} ops"));
        }
        g.shapes.insert(fnv(&roots.join(",")) ^ case as u64);
    }
}

/// S-small: EVERY schedule of a given depth over 2 replicas / 2 keys / 2 values and the op alphabet
/// {write(r,k,v), pull(i<-j), hash(r)}, for every level assignment of the two keys, followed by two
/// quiescent rounds; both merge rules.
pub fn ssmall(g: &mut Gen, nrep: usize, depth: usize, shard: usize, nshards: usize) {
    let n = 2usize;
    let base = 16u8;
    let mut alphabet: Vec<String> = vec![];
    for r in 0..nrep {
        for k in 0..2 {
            for v in 1..=2u8 {
                alphabet.push(format!("W {r} {k} {v}"));
            }
        }
    }
    for i in 0..nrep {
        for j in 0..nrep {
            if i != j {
                alphabet.push(format!("P {i} {j}"));
            }
        }
    }
    for r in 0..nrep {
        alphabet.push(format!("H {r}"));
    }
    let total = alphabet.len().pow(depth as u32);
    let mut idx = 0usize;
    for lv in 0..9u32 {
        let kds = [digest_for_level(lv % 3, base, n, 0), digest_for_level(lv / 3, base, n, 2)];
        let merges: &[&str] = if nrep == 2 { &["join", "peer"] } else { &["join"] };
        for m in merges {
            for code in 0..total {
                idx += 1;
                if idx % nshards != shard {
                    continue;
                }
                for i in 0..nrep {
                    g.op(format!("rnew {i} {base} n={n}"));
                }
                g.cases += 1;
                let mut c = code;
                let mut sched = vec![];
                for _ in 0..depth {
                    sched.push(alphabet[c % alphabet.len()].clone());
                    c /= alphabet.len();
                }
                for op in &sched {
                    let t: Vec<&str> = op.split(' ').collect();
                    match t[0] {
                        "W" => {
                            let k: usize = t[2].parse().unwrap();
                            let v: u8 = t[3].parse().unwrap();
                            g.op(format!("rwrite {} {} {} {} {m}", t[1], xtok(&[0x40 + k as u8]), xtok(&kds[k]), xtok(&[v, 0xa0])));
                        }
                        "P" => {
                            g.op(format!("rpull {} {} {m}", t[1], t[2]));
                        }
                        _ => {
                            g.op(format!("rhash {}", t[1]));
                        }
                    }
                }
                g.op(format!("rsettle {m}"));
                g.shapes.insert(fnv(&format!("{lv}{m}{sched:?}")));
            }
        }
    }
    g.sample(format!("ssmall: {nrep} replicas, every schedule of depth {depth} over {} ops x 9 level assignments", alphabet.len()));
}

fn a0_join(w: &BTreeMap<Vec<u8>, Vec<u8>>) -> BTreeMap<Vec<u8>, Vec<u8>> {
    w.clone()
}

// ------------------------------------------------------------------------------------------------
// T-cfg: configurations (bases, widths, key kinds, hashers, constructors) + level / SipHash ties
// ------------------------------------------------------------------------------------------------

pub fn tcfg(g: &mut Gen, r: &mut Rng, bases: &[u8], widths: &[usize], per_cfg_keys: usize) {
    // level derivation, byte patterns that matter: zeros, multiples, non-multiples
    for &base in bases {
        for &n in widths {
            for _ in 0..6 {
                let mut d = vec![0u8; n];
                let zeros = r.below(n as u64 + 1) as usize;
                for (i, x) in d.iter_mut().enumerate() {
                    if i >= zeros {
                        *x = match r.below(4) {
                            0 => base,
                            1 => base.wrapping_mul(r.below(8) as u8 + 1),
                            2 => 0,
                            _ => r.below(256) as u8,
                        };
                    }
                }
                if n <= 32 {
                    g.op(format!("lvl {} {base}", xtok(&d)));
                    g.cases += 1;
                }
            }
        }
    }
    // the whole level table: every byte value as the first non-zero byte, after 0 and 1 zero bytes
    for &base in bases {
        for b in 1..=255u8 {
            g.op(format!("lvl {} {base}", xtok(&[b, 7])));
            g.op(format!("lvl {} {base}", xtok(&[0, b, 7])));
            g.cases += 2;
        }
        g.op(format!("lvl {} {base}", xtok(&[0, 0, 0])));
    }
    // SipHash tie: lengths around the 8-byte block boundaries, seeded and zero keys
    for len in 0..40usize {
        let m: Vec<u8> = (0..len).map(|_| r.below(256) as u8).collect();
        g.op(format!("sip x0000000000000000 x0000000000000000 {}", xtok(&m)));
        let k0: Vec<u8> = (0..8).map(|_| r.below(256) as u8).collect();
        let k1: Vec<u8> = (0..8).map(|_| r.below(256) as u8).collect();
        g.op(format!("sip {} {} {}", xtok(&k0), xtok(&k1), xtok(&m)));
    }
    // table hasher, every base x width, builder constructor; width 16 also via deprecated ctor
    for &base in bases {
        for &n in widths {
            g.op(format!("new 0 {base} n={n}"));
            g.op(format!("new 2 {base} n={n} ctor=builder2"));
            let dep = base == 16;
            if dep {
                g.op(format!("new 1 {base} n={n} ctor=deprecated"));
            }
            g.cases += 1;
            g.note(&format!("cfg:table:n={n}"));
            // the hasher must be a function of the key: remember each key's digest
            let mut kd_of: BTreeMap<Vec<u8>, Vec<u8>> = BTreeMap::new();
            for i in 0..per_cfg_keys {
                let kk = r.below(3);
                let key = random_key(r, kk, i);
                // random digests: realistic level distribution under this base
                let mut kd: Vec<u8> = (0..n).map(|_| r.below(256) as u8).collect();
                if r.chance(1, 3) {
                    kd[0] = 0;
                }
                if r.chance(1, 3) && n > 1 {
                    kd[0] = base.wrapping_mul(r.below(4) as u8);
                }
                let kd = kd_of.entry(key.clone()).or_insert(kd).clone();
                let vd: Vec<u8> = (0..n).map(|_| r.below(256) as u8).collect();
                g.op(format!("ups 0 {} {} {}", xtok(&key), xtok(&kd), xtok(&vd)));
                g.op(format!("ups 2 {} {} {}", xtok(&key), xtok(&kd), xtok(&vd)));
                if dep {
                    g.op(format!("ups 1 {} {} {}", xtok(&key), xtok(&kd), xtok(&vd)));
                }
                if r.chance(1, 5) {
                    g.op("hash 0".into());
                }
            }
            g.op("hash 0".into());
            let tr = g.op("trav 0 -".into());
            g.shape(&tr);
            g.op("ser 0".into());
            g.op("iter 0".into());
            // `clone_from` into an EXISTING tree built with ANOTHER level base and other content: the
            // destination must become interchangeable with the source (base included)
            {
                let other = if base == 2 { 16 } else { 2 };
                g.op(format!("new 9 {other} n={n}"));
                for (key, kd) in kd_of.iter().take(2) {
                    let vd: Vec<u8> = (0..n).map(|_| r.below(256) as u8).collect();
                    g.op(format!("ups 9 {} {} {}", xtok(key), xtok(kd), xtok(&vd)));
                }
                if r.chance(1, 2) {
                    g.op("hash 9".into());
                }
                g.op("clonefrom 9 0".into());
                g.note("clone_from:table");
                for i in 0..3 {
                    let key = vec![0xf1, i as u8];
                    let kd = digest_for_level(r.below((2 * n as u64).min(4)) as u32, base.max(2), n, 0x31 + 2 * i as u8);
                    let vd: Vec<u8> = (0..n).map(|_| r.below(256) as u8).collect();
                    g.op(format!("ups 0 {} {} {}", xtok(&key), xtok(&kd), xtok(&vd)));
                    g.op(format!("ups 9 {} {} {}", xtok(&key), xtok(&kd), xtok(&vd)));
                    g.op(format!("ups 2 {} {} {}", xtok(&key), xtok(&kd), xtok(&vd)));
                    if dep {
                        g.op(format!("ups 1 {} {} {}", xtok(&key), xtok(&kd), xtok(&vd)));
                    }
                }
                g.op("hash 0".into());
                g.op("hash 9".into());
                g.op("trav 9 -".into());
                g.op("diff2 0 9".into());
                g.op("same 0 9".into());
            }
            // a clone is interchangeable with its original: continue both with the same upserts
            g.op("clone 5 0".into());
            for i in 0..4 {
                let key = vec![0xf0, i as u8];
                let mut kd: Vec<u8> = (0..n).map(|_| r.below(256) as u8).collect();
                kd[0] = [base, base.wrapping_mul(2), 0, 1][i % 4];
                let vd: Vec<u8> = (0..n).map(|_| r.below(256) as u8).collect();
                for t in [0, 2, 5] {
                    g.op(format!("ups {t} {} {} {}", xtok(&key), xtok(&kd), xtok(&vd)));
                }
                if dep {
                    g.op(format!("ups 1 {} {} {}", xtok(&key), xtok(&kd), xtok(&vd)));
                }
            }
            g.op("hash 0".into());
            g.op("hash 5".into());
            g.op("trav 5 -".into());
            g.op("diff2 0 5".into());
            g.op("same 0 5".into());
            g.op("hash 2".into());
            g.op("trav 2 -".into());
            g.op("diff2 0 2".into());
            g.op("same 0 2".into());
            if dep {
                g.op("hash 1".into());
                g.op("ser 1".into());
                g.op("diff2 0 1".into());
                g.op("same 0 1".into());
            }
        }
    }
    // real hashers: default / seeded SipHasher, three key types, three constructors
    let seed: [u8; 16] = core::array::from_fn(|i| (i as u8).wrapping_mul(17).wrapping_add(3));
    for key_kind in ["bytes", "string", "fixed8"] {
        for (kind, ctors) in [
            ("sipdef".to_string(), vec!["builder", "builder2", "default", "deprecated"]),
            (format!("sipseed:{}", hex(&seed)), vec!["builder", "builder2", "deprecated"]),
        ] {
            for &base in &[16u8, bases[r.below(bases.len() as u64) as usize]] {
                let ctors: Vec<&str> = if base == 16 { ctors.clone() } else { vec!["builder", "builder2"] };
                for (ti, c) in ctors.iter().enumerate() {
                    g.op(format!("new {ti} {base} n=16 kind={kind} ctor={c} key={key_kind}"));
                }
                g.cases += 1;
                g.note(&format!("cfg:{}:{key_kind}", &kind[..6]));
                // tree 8: ANOTHER seed and base; it receives `clone_from(tree 0)` half-way
                let seed2: [u8; 16] = core::array::from_fn(|i| (i as u8).wrapping_mul(29).wrapping_add(base));
                let other = if base == 4 { 16 } else { 4 };
                g.op(format!("new 8 {other} n=16 kind=sipseed:{} ctor=builder key={key_kind}", hex(&seed2)));
                let mut cloned_from = false;
                let mut seen = BTreeSet::new();
                for i in 0..per_cfg_keys * 2 {
                    let key: Vec<u8> = match key_kind {
                        "fixed8" => (r.below(60)).to_be_bytes().to_vec(),
                        "string" => {
                            // a third: strings with unusual CONTENT (empty, NUL, multibyte UTF-8, 0xC3BF = ÿ,
                            // exactly 16 bytes like a page digest, trailing NUL)
                            const ODD: [&str; 10] = ["", "\u{0}", "é", "日本語", "key-\u{0}x", "a\u{ff}b", "0123456789abcdef", "ключ", "k\u{0}", "🦀"];
                            if r.chance(1, 3) {
                                ODD[r.below(10) as usize].as_bytes().to_vec()
                            } else {
                                format!("key-{}", r.below(60)).into_bytes()
                            }
                        }
                        _ => {
                            if r.chance(1, 4) {
                                // 16 bytes (the width of a page digest), high bytes, leading zero
                                let mut k: Vec<u8> = (0..16).map(|_| [0x00u8, 0xff, 0x80, 0x01][r.below(4) as usize]).collect();
                                k[0] = [0x00u8, 0xff][r.below(2) as usize];
                                k
                            } else {
                                let len = r.below(5) as usize;
                                (0..len).map(|_| r.below(4) as u8).collect()
                            }
                        }
                    };
                    seen.insert(key.clone());
                    let val: Vec<u8> = vec![r.below(3) as u8, (i % 2) as u8];
                    // ask the configured hasher (tree 0) for the digests
                    let (kd, vd) = g.exec.trees[&0].tree.as_ref().unwrap().digests(&key, &val).unwrap();
                    for ti in 0..ctors.len() {
                        g.op(format!("ups {ti} {} {} {} val={}", xtok(&key), xtok(&kd), xtok(&vd), xtok(&val)));
                    }
                    // the digests the stored hasher computes, compared with the model's SipHasher
                    g.op(format!("hdig 0 {} {}", xtok(&key), xtok(&val)));
                    if !cloned_from {
                        // before the clone_from tree 8 hashes with ITS OWN seed
                        let (kd8, vd8) = g.exec.trees[&8].tree.as_ref().unwrap().digests(&key, &val).unwrap();
                        g.op(format!("ups 8 {} {} {} val={}", xtok(&key), xtok(&kd8), xtok(&vd8), xtok(&val)));
                        g.op(format!("hdig 8 {} {}", xtok(&key), xtok(&val)));
                        if i == per_cfg_keys {
                            if r.chance(1, 2) {
                                g.op("hash 8".into());
                            }
                            g.op("clonefrom 8 0".into());
                            g.note("clone_from:sip");
                            cloned_from = true;
                        }
                    } else {
                        g.op(format!("ups 8 {} {} {} val={}", xtok(&key), xtok(&kd), xtok(&vd), xtok(&val)));
                    }
                    if r.chance(1, 6) {
                        g.op("hash 0".into());
                    }
                }
                g.op("hash 8".into());
                g.op("trav 8 -".into());
                let mut roots = vec![];
                for ti in 0..ctors.len() {
                    roots.push(g.op(format!("hash {ti}")));
                    g.op(format!("ser {ti}"));
                }
                let tr = g.op("trav 0 -".into());
                g.shape(&tr);
                g.op("iter 0".into());
                let _ = roots;
                for ti in 1..ctors.len() {
                    g.op(format!("diff2 0 {ti}"));
                    g.op(format!("same 0 {ti}"));
                }
                g.op("hash 0".into());
                g.op("diff2 0 8".into());
                g.op("same 0 8".into());
            }
        }
    }
}
