//! Independent reference implementation of the documented construction (property C14):
//! level derivation and page digests computed from the *content alone*, never through `upsert`.

use std::hash::Hasher as _;

use siphasher::sip128::{Hasher128, SipHasher24};

/// Level of a key digest: two per leading zero byte, one more if the next byte exists, is
/// non-zero and is a multiple of the base.
pub fn ref_level(digest: &[u8], base: u8) -> u32 {
    let zeros = digest.iter().take_while(|b| **b == 0).count();
    let mut lvl = 2 * zeros as u32;
    if let Some(b) = digest.get(zeros) {
        if *b % base == 0 {
            lvl += 1;
        }
    }
    lvl
}

pub type Range = (Vec<u8>, Vec<u8>, [u8; 16]);

/// `content`: ascending by key, `(key, level, value digest)`.
/// Returns the digest of the page covering the whole run and appends the pre-order page ranges.
fn build(content: &[(Vec<u8>, u32, Vec<u8>)], out: &mut Vec<Range>) -> [u8; 16] {
    assert!(!content.is_empty());
    let top = content.iter().map(|c| c.1).max().unwrap();
    let my_idx = out.len();
    out.push((
        content.first().unwrap().0.clone(),
        content.last().unwrap().0.clone(),
        [0; 16],
    ));
    let mut h = SipHasher24::new_with_keys(0, 0);
    let mut run_start = 0;
    for (i, (k, lvl, vd)) in content.iter().enumerate() {
        if *lvl == top {
            if run_start < i {
                let d = build(&content[run_start..i], out);
                h.write(&d);
            }
            h.write(k);
            h.write(vd);
            run_start = i + 1;
        }
    }
    if run_start < content.len() {
        let d = build(&content[run_start..], out);
        h.write(&d);
    }
    let d = h.finish128().as_bytes();
    out[my_idx].2 = d;
    d
}

/// Root digest and pre-order page ranges of the tree holding `content`.
pub fn ref_tree(content: &[(Vec<u8>, u32, Vec<u8>)]) -> ([u8; 16], Vec<Range>) {
    if content.is_empty() {
        let h = SipHasher24::new_with_keys(0, 0);
        return (h.finish128().as_bytes(), vec![]);
    }
    let mut out = vec![];
    let d = build(content, &mut out);
    (d, out)
}
