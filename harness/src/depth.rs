//! Observation of the real recursion depth of `diff` through the crate's own `tracing` spans
//! (feature `tracing`: `recurse_subtree` / `recurse_diff` are `#[tracing::instrument]`ed).
//! A minimal `Subscriber` counts how many `recurse_subtree` spans are entered at the same time.

#[cfg(feature = "mst_all")]
mod imp {
    use std::{
        cell::Cell,
        collections::HashMap,
        sync::{
            atomic::{AtomicU64, Ordering},
            Mutex, Once,
        },
    };

    use tracing::{
        span::{Attributes, Id, Record},
        Event, Metadata, Subscriber,
    };

    thread_local! {
        static CUR: Cell<usize> = const { Cell::new(0) };
        static MAX: Cell<usize> = const { Cell::new(0) };
    }

    struct DepthSub {
        next: AtomicU64,
        is_subtree: Mutex<HashMap<u64, bool>>,
    }

    impl Subscriber for DepthSub {
        fn enabled(&self, m: &Metadata<'_>) -> bool {
            m.is_span()
        }
        fn new_span(&self, attrs: &Attributes<'_>) -> Id {
            let id = self.next.fetch_add(1, Ordering::Relaxed) + 1;
            let sub = attrs.metadata().name() == "recurse_subtree";
            self.is_subtree.lock().unwrap().insert(id, sub);
            Id::from_u64(id)
        }
        fn record(&self, _: &Id, _: &Record<'_>) {}
        fn record_follows_from(&self, _: &Id, _: &Id) {}
        fn event(&self, _: &Event<'_>) {}
        fn enter(&self, id: &Id) {
            if self.is_subtree.lock().unwrap().get(&id.into_u64()).copied().unwrap_or(false) {
                CUR.with(|c| {
                    c.set(c.get() + 1);
                    MAX.with(|m| m.set(m.get().max(c.get())));
                });
            }
        }
        fn exit(&self, id: &Id) {
            if self.is_subtree.lock().unwrap().get(&id.into_u64()).copied().unwrap_or(false) {
                CUR.with(|c| c.set(c.get().saturating_sub(1)));
            }
        }
        fn try_close(&self, id: Id) -> bool {
            self.is_subtree.lock().unwrap().remove(&id.into_u64());
            true
        }
    }

    static INIT: Once = Once::new();

    /// Runs `f` and returns the maximal number of simultaneously entered `recurse_subtree` spans.
    pub fn measure<R>(f: impl FnOnce() -> R) -> (R, Option<usize>) {
        INIT.call_once(|| {
            let _ = tracing::subscriber::set_global_default(DepthSub {
                next: AtomicU64::new(0),
                is_subtree: Mutex::new(HashMap::new()),
            });
        });
        CUR.with(|c| c.set(0));
        MAX.with(|m| m.set(0));
        let r = f();
        (r, Some(MAX.with(|m| m.get())))
    }
}

#[cfg(not(feature = "mst_all"))]
mod imp {
    pub fn measure<R>(f: impl FnOnce() -> R) -> (R, Option<usize>) {
        (f(), None)
    }
}

pub use imp::measure;
