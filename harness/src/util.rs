//! Small helpers: hex, PRNG, canonical formatting shared with the Lean driver.

pub fn hex(bs: &[u8]) -> String {
    let mut s = String::with_capacity(bs.len() * 2);
    for b in bs {
        s.push(char::from_digit((b >> 4) as u32, 16).unwrap());
        s.push(char::from_digit((b & 15) as u32, 16).unwrap());
    }
    s
}

pub fn unhex(s: &str) -> Option<Vec<u8>> {
    let b = s.as_bytes();
    if b.len() % 2 != 0 {
        return None;
    }
    let mut out = Vec::with_capacity(b.len() / 2);
    for c in b.chunks(2) {
        let hi = (c[0] as char).to_digit(16)?;
        let lo = (c[1] as char).to_digit(16)?;
        out.push((hi * 16 + lo) as u8);
    }
    Some(out)
}

/// `x<hex>` token
pub fn xtok(bs: &[u8]) -> String {
    format!("x{}", hex(bs))
}

pub fn parse_xtok(s: &str) -> Option<Vec<u8>> {
    unhex(s.strip_prefix('x')?)
}

/// splitmix64 — every random choice of a run derives from one state.
#[derive(Clone, Debug)]
pub struct Rng(pub u64);

impl Rng {
    pub fn new(seed: u64) -> Self {
        Rng(seed ^ 0x9e37_79b9_7f4a_7c15)
    }
    pub fn next(&mut self) -> u64 {
        self.0 = self.0.wrapping_add(0x9e37_79b9_7f4a_7c15);
        let mut z = self.0;
        z = (z ^ (z >> 30)).wrapping_mul(0xbf58_476d_1ce4_e5b9);
        z = (z ^ (z >> 27)).wrapping_mul(0x94d0_49bb_1331_11eb);
        z ^ (z >> 31)
    }
    pub fn below(&mut self, n: u64) -> u64 {
        if n == 0 {
            0
        } else {
            self.next() % n
        }
    }
    pub fn chance(&mut self, num: u64, den: u64) -> bool {
        self.below(den) < num
    }
    pub fn fork(&mut self, tag: u64) -> Rng {
        Rng::new(self.next() ^ tag.wrapping_mul(0x2545_f491_4f6c_dd1d))
    }
    pub fn shuffle<T>(&mut self, v: &mut [T]) {
        for i in (1..v.len()).rev() {
            let j = self.below(i as u64 + 1) as usize;
            v.swap(i, j);
        }
    }
}
