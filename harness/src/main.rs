//! Correspondence harness for the Lean model of merkle-search-tree.
//!
//!   mstharness gen <stream> <tier> <seed> <shard> <nshards> <outprefix>
//!   mstharness replay <script>            (impl output on stdout, oracle failures on stderr)
//!   mstharness stack <depth>              (nested-chain diff on a 2 MiB thread)

mod depth;
mod exec;
mod gen;
mod refimpl;
mod tree;
mod util;

use std::{
    fs::File,
    io::{BufRead, BufReader, BufWriter, Write},
};

use exec::Exec;
use gen::*;
use util::Rng;

fn json_str(s: &str) -> String {
    let mut o = String::from("\"");
    for c in s.chars() {
        match c {
            '"' => o.push_str("\\\""),
            '\\' => o.push_str("\\\\"),
            '\n' => o.push_str("\\n"),
            c if (c as u32) < 0x20 => o.push_str(&format!("\\u{:04x}", c as u32)),
            c => o.push(c),
        }
    }
    o.push('"');
    o
}

fn main() {
    std::panic::set_hook(Box::new(|_| {}));
    let args: Vec<String> = std::env::args().collect();
    match args.get(1).map(|s| s.as_str()) {
        Some("gen") => {
            let stream = args[2].as_str();
            let tier = args[3].as_str();
            let seed: u64 = args[4].parse().unwrap();
            let shard: usize = args[5].parse().unwrap();
            let nshards: usize = args[6].parse().unwrap();
            let prefix = &args[7];
            let thorough = tier == "thorough";
            let oracle_every = match stream {
                "twide" => 53,
                "dwide" => 211,
                "thash" => 1009,
                "tbig" => 499,
                "tlong" => 4099,
                "tpages" => 50021,
                "trand" if thorough => 7,
                _ => 1,
            };
            let mut g = Gen {
                exec: Exec::new(oracle_every),
                script: Box::new(BufWriter::new(File::create(format!("{prefix}.script")).unwrap())),
                implout: Box::new(BufWriter::new(File::create(format!("{prefix}.impl")).unwrap())),
                lines: 0,
                cases: 0,
                shapes: Default::default(),
                samples: vec![],
                notes: Default::default(),
            };
            let mut r = Rng::new(seed.wrapping_mul(0x1000).wrapping_add(shard as u64) ^ util_hash(stream));
            let mut exhaustive = false;
            match stream {
                "tsmall" => {
                    exhaustive = true;
                    if thorough {
                        tsmall(&mut g, 4, 4, 3, shard, nshards);
                        tsmall(&mut g, 3, 5, 4, shard, nshards);
                    } else {
                        tsmall(&mut g, 3, 4, 3, shard, nshards);
                        tsmall(&mut g, 4, 3, 3, shard, nshards);
                    }
                }
                "trand" => {
                    let cfg = if thorough {
                        TRandCfg { cases: 60, max_keys: 2000, max_ops: 6000, trav_every: 97 }
                    } else {
                        TRandCfg { cases: 40, max_keys: 64, max_ops: 300, trav_every: 5 }
                    };
                    trand(&mut g, &mut r, &cfg);
                }
                "vsmall" => {
                    exhaustive = true;
                    if thorough {
                        vsmall(&mut g, 5, 3, shard, nshards);
                        vsmall(&mut g, 4, 4, shard, nshards);
                    } else {
                        vsmall(&mut g, 4, 3, shard, nshards);
                    }
                }
                "ssmall" => {
                    exhaustive = true;
                    ssmall(&mut g, 2, if thorough { 4 } else { 3 }, shard, nshards);
                    ssmall(&mut g, 3, if thorough { 3 } else { 2 }, shard, nshards);
                }
                "srand" => {
                    srand(&mut g, &mut r, if thorough { 3000 } else { 150 }, if thorough { 120 } else { 30 });
                    swide(&mut g, &mut r, if thorough { 60 } else { 6 });
                }
                "tlong" => tlong(&mut g, shard),
                "tpages" => tpages(&mut g, shard),
                "tclone" => tclone(&mut g, &mut r, if thorough { 20000 } else { 1200 }),
                "twide" => twide(&mut g, &mut r, if thorough { 12 } else { 2 }, if thorough { 900 } else { 420 }),
                "tdeep" => tdeep(&mut g, &mut r, if thorough { 600 } else { 40 }),
                "dwide" => dwide(&mut g, &mut r, if thorough { 12 } else { 2 }, if thorough { 900 } else { 420 }),
                "tkeylen" => tkeylen(&mut g, &mut r, if thorough { 6000 } else { 400 }),
                "dnear" => dnear(&mut g, &mut r, if thorough { 1 << 21 } else { 1 << 18 }),
                "thash" => thash(&mut g, &mut r, shard, if thorough { 300_000 } else { 70_000 }),
                "tbig" => tbig(&mut g, &mut r, shard, if thorough { 20_000 } else { 4_000 }),
                "tmid" => tmid(&mut g, &mut r, if thorough { 40000 } else { 2500 }),
                "dsmall" => {
                    exhaustive = true;
                    if thorough {
                        dsmall(&mut g, 5, 3, shard, nshards);
                        dsmall(&mut g, 4, 4, shard, nshards);
                    } else {
                        dsmall(&mut g, 4, 3, shard, nshards);
                    }
                }
                "drand" => {
                    drand(&mut g, &mut r, if thorough { 4000 } else { 250 }, if thorough { 200 } else { 40 });
                    dpad(&mut g, &mut r, if thorough { 4000 } else { 250 });
                }
                "lsmall" => {
                    exhaustive = true;
                    if thorough {
                        lsmall(&mut g, 3, 3, shard, nshards);
                        lsmall(&mut g, 4, 2, shard, nshards);
                    } else {
                        lsmall(&mut g, 3, 2, shard, nshards);
                        lsmall(&mut g, 4, 2, shard, nshards);
                    }
                }
                "ldepth" => ldepth(&mut g, &mut r, if thorough { 4000 } else { 300 }),
                "lrand" => {
                    lrand(&mut g, &mut r, if thorough { 20000 } else { 1500 }, if thorough { 300 } else { 40 });
                    lmut(&mut g, &mut r, if thorough { 5000 } else { 400 }, if thorough { 60 } else { 24 });
                    llong(&mut g, &mut r, if thorough { 40 } else { 3 });
                }
                "tcfg" => {
                    if thorough {
                        let bases: Vec<u8> = (1..=255u8).filter(|b| b % 16 == (shard as u8 % 16) || nshards == 1).collect();
                        let widths: Vec<usize> = (1..=32).collect();
                        tcfg(&mut g, &mut r, &bases, &widths, 24);
                    } else {
                        tcfg(&mut g, &mut r, &[1, 2, 3, 4, 16, 255], &[1, 2, 3, 8, 16, 32], 16);
                    }
                }
                other => {
                    eprintln!("unknown stream {other}");
                    std::process::exit(2);
                }
            }
            g.script.flush().unwrap();
            g.implout.flush().unwrap();
            let mut o = File::create(format!("{prefix}.oracle")).unwrap();
            for f in &g.exec.fails {
                writeln!(o, "{}\t{}\t{}", f.prop, f.line_no, f.msg).unwrap();
            }
            let mut s = File::create(format!("{prefix}.stats")).unwrap();
            let st = &g.exec.stats;
            let map = |m: &std::collections::HashMap<&'static str, u64>| {
                let mut v: Vec<_> = m.iter().collect();
                v.sort();
                format!("{{{}}}", v.iter().map(|(k, n)| format!("{}:{}", json_str(k), n)).collect::<Vec<_>>().join(","))
            };
            writeln!(
                s,
                "{{\"stream\":{},\"shard\":{},\"lines\":{},\"cases\":{},\"distinct\":{},\"exhaustive\":{},\"ops\":{},\"oracle_checks\":{},\"max_keys\":{},\"max_depth\":{},\"diffs_nonempty\":{},\"diffs_empty\":{},\"panics\":{},\"notes\":{{{}}},\"samples\":[{}],\"oracle_fails\":{}}}",
                json_str(stream), shard, g.lines, g.cases, g.shapes.len(), exhaustive,
                map(&st.ops), map(&st.oracle_checks), st.max_keys, st.max_depth, st.diffs_nonempty, st.diffs_empty, st.panics,
                g.notes.iter().map(|(k, n)| format!("{}:{}", json_str(k), n)).collect::<Vec<_>>().join(","),
                g.samples.iter().map(|x| json_str(x)).collect::<Vec<_>>().join(","),
                g.exec.fails.len()
            )
            .unwrap();
        }
        Some("replay") => {
            let f = BufReader::new(File::open(&args[2]).unwrap());
            let mut e = Exec::new(1);
            let out = std::io::stdout();
            let mut out = BufWriter::new(out.lock());
            for line in f.lines() {
                let line = line.unwrap();
                if line.trim().is_empty() || line.starts_with('#') {
                    continue;
                }
                let o = e.run_line(&line);
                writeln!(out, "{o}").unwrap();
            }
            out.flush().unwrap();
            for f in &e.fails {
                eprintln!("ORACLE\t{}\t{}\t{}", f.prop, f.line_no, f.msg);
            }
        }
        Some("fixture") => {
            // the repository's own compatibility fixture (tree.rs test_hash_fixture): 1000 IntKeys,
            // key bytes = big-endian u64, digests = SipHash-2-4-128(0,0) of write_u64(i)
            use siphasher::sip128::{Hasher128, SipHasher24};
            use std::hash::Hasher as _;
            println!("# tree::tests::test_hash_fixture of the repository, as a protocol script");
            println!("# expect-last: 394dc74259d9cfa688b52d506c505e03");
            println!("new 0 16 n=16");
            for i in 0u64..1000 {
                let mut h = SipHasher24::default();
                h.write_u64(i);
                let d = h.finish128().as_bytes();
                println!("ups 0 {} {} {}", util::xtok(&i.to_be_bytes()), util::xtok(&d), util::xtok(&d));
            }
            println!("hash 0");
        }
        Some("stack") => {
            // `stack <n>` = `stack nested <n>`; other shapes are LONG FLAT lists (no nesting at all)
            let (shape, depth): (String, usize) = if args.len() >= 4 {
                (args[2].clone(), args[3].parse().unwrap())
            } else {
                ("nested".into(), args[2].parse().unwrap())
            };
            let h = std::thread::Builder::new()
                .stack_size(2 * 1024 * 1024)
                .spawn(move || {
                    let key = |i: usize| (i as u32).to_be_bytes().to_vec();
                    // peer = local spans [i, 2d-i], i < d, different digests: a strictly nested chain
                    let nested = |h: u8| -> Vec<tree::OwnedRange> {
                        (0..depth).map(|i| (key(i), key(2 * depth - i), [h; 16])).collect()
                    };
                    // a root [0, 4n+4] with digest `hr` followed by n disjoint, non-touching children
                    // [4i+1, 4i+2] with digest `hc`
                    let flat = |hr: u8, hc: u8| -> Vec<tree::OwnedRange> {
                        let mut v = vec![(key(0), key(4 * depth + 4), [hr; 16])];
                        v.extend((0..depth).map(|i| (key(4 * i + 1), key(4 * i + 2), [hc; 16])));
                        v
                    };
                    let (l, p) = match shape.as_str() {
                        "nested" => (nested(1), nested(2)),
                        // inconsistent root, every child consistent: n holes punched out of one range
                        "flat-consistent" => (flat(1, 7), flat(2, 7)),
                        // inconsistent root and inconsistent children
                        "flat-inconsistent" => (flat(1, 3), flat(2, 4)),
                        // no common root: n top-level ranges on both sides, alternately equal / different
                        "flat-toplevel" => {
                            let mk = |x: u8| -> Vec<tree::OwnedRange> {
                                (0..depth).map(|i| (key(4 * i + 1), key(4 * i + 2), [if i % 2 == 0 { 9 } else { x }; 16])).collect()
                            };
                            (mk(1), mk(2))
                        }
                        // n copies of one range
                        "dups" => {
                            let mk = |x: u8| -> Vec<tree::OwnedRange> { (0..depth).map(|_| (key(1), key(9), [x; 16])).collect() };
                            (mk(1), mk(2))
                        }
                        // local empty, peer flat
                        "flat-empty-local" => (vec![], flat(2, 7)),
                        // a root followed by n single-key ranges in DESCENDING key order (every insert into
                        // the range lists is out of order), different digests
                        "flat-descending" => {
                            let mk = |hr: u8, hc: u8| -> Vec<tree::OwnedRange> {
                                let mut v = vec![(key(0), key(4 * depth + 4), [hr; 16])];
                                v.extend((0..depth).rev().map(|i| (key(4 * i + 1), key(4 * i + 1), [hc; 16])));
                                v
                            };
                            (vec![(key(0), key(4 * depth + 4), [1; 16])], mk(2, 4))
                        }
                        other => {
                            eprintln!("unknown shape {other}");
                            std::process::exit(2)
                        }
                    };
                    let d = tree::diff_owned(&l, &p);
                    match d {
                        Some(d) => println!("ok ranges={}", d.len()),
                        None => {
                            println!("panic");
                            std::process::exit(3)
                        }
                    }
                })
                .unwrap();
            h.join().unwrap();
        }
        _ => {
            eprintln!("usage: mstharness gen|replay|stack ...");
            std::process::exit(2);
        }
    }
}

fn util_hash(s: &str) -> u64 {
    let mut h = 0xcbf29ce484222325u64;
    for b in s.bytes() {
        h ^= b as u64;
        h = h.wrapping_mul(0x100000001b3);
    }
    h
}
