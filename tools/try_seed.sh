#!/bin/bash
# tools/try_seed.sh <scratch worktree> <seed name> <property id that it targets> [other property ids to run]
# Confirms the seeded change (suite passes, demo fails with / passes without), stores it under
# /verif/seeded/<name>/, runs the checks against /repo with the patch applied, and undoes it.
set -u
WT=$1; NAME=$2; shift 2; PROPS="$@"
OUT=/verif/seeded/$NAME
mkdir -p $OUT
cd $WT
git diff -- src > $OUT/patch.diff
cp tests/seed_demo.rs $OUT/seed_demo.rs 2>/dev/null
cp SEED_NOTES.md $OUT/SEED_NOTES.md 2>/dev/null
export CARGO_NET_OFFLINE=true
echo "== existing suite with the change"
cargo test --offline --no-fail-fast --lib --test sync > $OUT/suite_with.log 2>&1; SUITE=$?
cargo test --offline --doc >> $OUT/suite_with.log 2>&1; SUITE=$((SUITE + $?))
grep -E "^test result" $OUT/suite_with.log
echo "== demo with the change (must fail)"
cargo test --offline --test seed_demo > $OUT/demo_with.log 2>&1; DW=$?
echo "exit $DW"
git apply -R $OUT/patch.diff
echo "== demo without the change (must pass)"
cargo test --offline --test seed_demo > $OUT/demo_without.log 2>&1; DWO=$?
echo "exit $DWO"
git apply $OUT/patch.diff
echo "== checks against /repo with the patch"
cd /repo && git apply $OUT/patch.diff || { echo "patch does not apply to /repo"; exit 2; }
cd /verif
rm -rf /verif/.cache/evidence_backup && cp -r /verif/evidence /verif/.cache/evidence_backup
RES=""
for p in $PROPS; do
  o=$(./check $p 2>&1 | grep -E "VIOLATION|KNOWN|: ok" | head -3 | tr '\n' ';')
  echo "$p -> $o"
  RES="$RES\"$p\": \"$(echo $o | sed 's/"/\\"/g')\", "
  if [ -f replays/$p-1.txt ] && echo "$o" | grep -q VIOLATION; then cp replays/$p-1.txt $OUT/replay-$p.txt; fi
done
git -C /repo checkout -- .
rm -rf /verif/evidence && mv /verif/.cache/evidence_backup /verif/evidence
git -C /repo status --short | head -3
cat > $OUT/meta.json <<EOM
{
 "name": "$NAME",
 "targets_property": "$(echo $PROPS | cut -d' ' -f1)",
 "existing_suite_passes_with_change": $([ $SUITE -eq 0 ] && echo true || echo false),
 "demo_fails_with_change": $([ $DW -ne 0 ] && echo true || echo false),
 "demo_passes_without_change": $([ $DWO -eq 0 ] && echo true || echo false),
 "check_results": { ${RES%, } },
 "ran": "cargo test --offline --lib --test sync --doc; cargo test --offline --test seed_demo (with / without the src change); git -C /repo apply patch.diff; ./check <id>; git -C /repo checkout -- ."
}
EOM
cat $OUT/meta.json
