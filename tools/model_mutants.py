#!/usr/bin/env python3
"""How tight is the tie between the hand-written model and the code?  (machinery self-test)

The theorems are about the MODEL; only the correspondence check ties the model to /repo. This tool
turns the question round: it plants point mutations in the MODEL (Model/*.lean) - one at a time, in
a scratch copy of the Lean project - rebuilds the `mstmodel` driver and runs the quick correspondence
streams against the UNCHANGED implementation. Every mutant must be reported as a disagreement by at
least one stream: a surviving mutant marks behaviour of the model that no stream ties to the code
(the proofs would then be about something the code is not known to do).

usage: tools/model_mutants.py [--keep] [name-substring]
Writes tools/model_mutants.result.json (committed: which stream kills which mutant).
"""
import json, os, shutil, subprocess, sys, time
from concurrent.futures import ThreadPoolExecutor

ROOT = os.path.dirname(os.path.dirname(os.path.abspath(__file__)))
sys.path.insert(0, ROOT)
import importlib.machinery, importlib.util
loader = importlib.machinery.SourceFileLoader("chk", os.path.join(ROOT, "check"))
spec = importlib.util.spec_from_loader("chk", loader)
chk = importlib.util.module_from_spec(spec)
loader.exec_module(chk)

SCRATCH = "/tmp/mst-model-mutants"
STREAMS = ["tsmall", "tmid", "tdeep", "trand", "tclone", "vsmall", "dsmall", "drand", "dwide", "lsmall", "lrand",
           "ssmall", "srand", "tcfg", "twide", "tkeylen"]
SHARDS = [0, 5]          # two of the sixteen shards of every quick stream

T = "MstVerif/Model/Tree.lean"
DF = "MstVerif/Model/Diff.lean"
TR = "MstVerif/Model/Traverse.lean"
LV = "MstVerif/Model/Level.lean"
SY = "MstVerif/Model/Sync.lean"
SH = "MstVerif/Model/SipHash.lean"
AP = "MstVerif/Model/Api.lean"

# (name, file, old, new) - `old` must occur exactly once in the file
MUTANTS = [
    # --- split_off_lt: cache rules (the F1 family) and case structure
    ("split-allLt-keeps-cache (F1 pinned condition)", T, "let c' := if b.isSome then Option.none else c", "let c' := if a.isSome && b.isSome then Option.none else c"),
    ("split-allLt-always-invalidates", T, "let c' := if b.isSome then Option.none else c", "let c' := (Option.none : Option D)"),
    ("split-atHead-keeps-cache", T, "| .ok () => .ok (a, .some L (if a.isSome then Option.none else c) g high)", "| .ok () => .ok (a, .some L c g high)"),
    ("split-mid-left-keeps-cache", T, "| .ok () => .ok (.some L Option.none l a, .some L Option.none g high)", "| .ok () => .ok (.some L c l a, .some L Option.none g high)"),
    ("split-mid-right-keeps-cache", T, "| .ok () => .ok (.some L Option.none l a, .some L Option.none g high)", "| .ok () => .ok (.some L Option.none l a, .some L c g high)"),
    ("splitNd-le-becomes-lt", T, "    if key ≤ k then\n      match splitPg key lt with", "    if key < k then\n      match splitPg key lt with"),
    ("secondSplit-invalidates", T, "| .ok (hl, hr) => .ok (.some Lx cx nx hl, hr)", "| .ok (hl, hr) => .ok (.some Lx Option.none nx hl, hr)"),
    # --- upsert
    ("upsert-existing-key-keeps-old-value", T, "if k = key then .ok (.cons lt k val tl, high)", "if k = key then .ok (.cons lt k v tl, high)"),
    ("upsert-equal-level-keeps-cache", T, "| .ok (nodes', high') => .ok (.some L Option.none nodes' high', .complete)", "| .ok (nodes', high') => .ok (.some L c nodes' high', .complete)"),
    ("upsert-descend-keeps-cache", T, "| .ok (.some nodes') => .ok (.some L Option.none nodes' high, .complete)", "| .ok (.some nodes') => .ok (.some L c nodes' high, .complete)"),
    ("upsert-descend-high-keeps-cache", T, "| .ok high' => .ok (.some L Option.none nodes high', .complete)", "| .ok high' => .ok (.some L c nodes high', .complete)"),
    ("tree-upsert-keeps-rootHash", T, "| .ok (root', .complete) => .ok { root := root', rootHash := Option.none }", "| .ok (root', .complete) => .ok { root := root', rootHash := t.rootHash }"),
    ("intermediate-drops-gte-when-rest-empty", T, "if nr.isNil then .ok (.some level Option.none (.cons x' key val .nil) gte)", "if nr.isNil then .ok (.some level Option.none (.cons x' key val .nil) .none)"),
    ("empty-root-replacement-at-level-0", T, ".ok { root := .some level Option.none (.cons .none key val .nil) .none, rootHash := Option.none }", ".ok { root := .some 0 Option.none (.cons .none key val .nil) .none, rootHash := Option.none }"),
    # --- hashing
    ("gen-descends-into-cached-pages", T, "    | .some d => .some L (.some d) n h\n", "    | .some _ => let n' := genNd hc n; let h' := genPg hc h; .some L (.some (hc.h (n'.bytes hc ++ h'.cacheBytes hc))) n' h'\n"),
    ("hash-order-value-before-key", T, "lt.cacheBytes hc ++ hc.kb k ++ hc.vb v ++ tl.bytes hc", "lt.cacheBytes hc ++ hc.vb v ++ hc.kb k ++ tl.bytes hc"),
    ("hash-omits-high-page", T, ".some L (.some (hc.h (n'.bytes hc ++ h'.cacheBytes hc))) n' h'\ndef genNd", ".some L (.some (hc.h (n'.bytes hc))) n' h'\ndef genNd"),
    ("hash-child-after-key", T, "lt.cacheBytes hc ++ hc.kb k ++ hc.vb v ++ tl.bytes hc", "hc.kb k ++ lt.cacheBytes hc ++ hc.vb v ++ tl.bytes hc"),
    # --- diff
    ("superset-strict-end", DF, "decide (a.start ≤ b.start) && decide (b.end_ ≤ a.end_)", "decide (a.start ≤ b.start) && decide (b.end_ < a.end_)"),
    ("overlaps-strict", DF, "decide (self.1 ≤ p.2) && decide (p.1 ≤ self.2)", "decide (self.1 < p.2) && decide (p.1 ≤ self.2)"),
    ("diff-start-from-root-always", DF, "            | .some v => v.end_\n", "            | .some _ => root.start\n"),
    ("diff-end-unclamped", DF, "| lh :: _ => if p.end_ < lh.start then p.end_ else lh.start   -- `v.start().min(p.end())`", "| lh :: _ => lh.start"),
    ("diff-consistent-does-not-skip", DF, "| .ok b1 => .ok (b1, skipSubtree p peer1)", "| .ok b1 => .ok (b1, peer1)"),
    ("diff-no-shrink-local", DF, "let (l, loc2) := shrinkLocal p l0 loc1", "let (l, loc2) := (l0, loc1)"),
    ("diff-no-drain", DF, "      match drainSubtree root peer1 b1 with", "      match (Except.ok (peer1, b1) : Except String (List (PR K D) × Builder K)) with"),
    ("merge-touching-not-merged", DF, "else if r.1 ≤ last.2 then mergeGo (last.1, r.2) rs", "else if r.1 < last.2 then mergeGo (last.1, r.2) rs"),
    ("punch-left-piece-missing", DF, "(if bad.1 < good.1 then [(bad.1, good.1)] else []) ++", "([] : List (DR K)) ++"),
    ("punch-right-piece-nonstrict", DF, "(if good.2 < bad.2 then [(good.2, bad.2)] else [])", "(if good.2 ≤ bad.2 then [(good.2, bad.2)] else [])"),
    ("diff-local-superset-shortcut-removed", DF, "if localIsSuperset then .ok (peer1, loc, b)", "if false then .ok (peer1, loc, b)"),
    ("reduce-no-final-merge", DF, "  match mergeOverlapping bad' with\n  | .error e => .error e\n  | .ok m =>\n    match checkWindowsReduce m with", "  match (Except.ok bad' : Except String (List (DR K))) with\n  | .error e => .error e\n  | .ok m =>\n    match checkWindowsReduce m with"),
    # --- level
]


def sh(cmd, **kw):
    return subprocess.run(cmd, stdout=subprocess.PIPE, stderr=subprocess.STDOUT, text=True, **kw)


def extra_mutants():
    """mutants whose anchor text is read from the file (kept robust against reformatting)"""
    out = []
    lv = open(os.path.join(ROOT, "lean", LV)).read()
    if "% base" in lv:
        first = lv.index("% base")
        line_start = lv.rfind("\n", 0, first) + 1
        line_end = lv.index("\n", first)
        line = lv[line_start:line_end]
        out.append(("level-ignores-base-digit", LV, line, line.replace("% base", "% (base + 1)", 1)))
    return out


def prepare_streams(outdir):
    binp, err = chk.build_harness("debug", "")
    assert binp, err
    os.makedirs(outdir, exist_ok=True)
    jobs = [(s, k) for s in STREAMS for k in SHARDS]

    def gen(job):
        s, k = job
        prefix = os.path.join(outdir, f"{s}.{k}")
        r = sh([binp, "gen", s, "quick", "1", str(k), "16", prefix])
        return (s, k, prefix, r.returncode)
    with ThreadPoolExecutor(max_workers=16) as ex:
        res = list(ex.map(gen, jobs))
    return [(s, k, p) for s, k, p, rc in res if rc == 0 and os.path.getsize(p + ".script") > 0]


def run_model(model_bin, streams):
    """first disagreeing stream (name, line, op) or None"""
    def one(job):
        s, k, prefix = job
        with open(prefix + ".script") as fin:
            m = subprocess.run([model_bin], stdin=fin, stdout=subprocess.PIPE, stderr=subprocess.PIPE, text=True)
        if m.returncode != 0:
            return (s, 0, f"model driver exited {m.returncode}")
        with open(prefix + ".impl") as fi, open(prefix + ".script") as fs:
            for n, (a, b, op) in enumerate(zip(fi, m.stdout.splitlines(), fs), 1):
                if a.strip() != b.strip() and not chk.same_output(a.strip(), b.strip())[0]:
                    return (s, n, op.strip()[:120])
        return None
    with ThreadPoolExecutor(max_workers=16) as ex:
        res = [r for r in ex.map(one, streams) if r]
    return res


def main():
    flt = [a for a in sys.argv[1:] if not a.startswith("--")]
    if os.path.isdir(SCRATCH):
        shutil.rmtree(SCRATCH)
    os.makedirs(SCRATCH)
    lean = os.path.join(SCRATCH, "lean")
    shutil.copytree(os.path.join(ROOT, "lean"), lean, symlinks=True)
    streams = prepare_streams(os.path.join(SCRATCH, "streams"))
    print(f"{len(streams)} stream shards prepared")
    model_bin = os.path.join(lean, ".lake/build/bin/mstmodel")
    r = sh(["lake", "build", "mstmodel"], cwd=lean)
    assert r.returncode == 0, r.stdout[-2000:]
    base = run_model(model_bin, streams)
    assert not base, f"the UNMUTATED model already disagrees: {base[:3]}"
    results = []
    for name, f, old, new in MUTANTS + extra_mutants():
        if flt and not any(x in name for x in flt):
            continue
        path = os.path.join(lean, f)
        src = open(os.path.join(ROOT, "lean", f)).read()
        if src.count(old) != 1:
            results.append({"mutant": name, "file": f, "status": f"anchor occurs {src.count(old)} times - mutant not applied"})
            print(f"?? {name}: anchor occurs {src.count(old)} times")
            continue
        open(path, "w").write(src.replace(old, new))
        t0 = time.time()
        r = sh(["lake", "build", "mstmodel"], cwd=lean)
        if r.returncode != 0:
            results.append({"mutant": name, "file": f, "status": "does not compile", "detail": r.stdout[-300:]})
            print(f"-- {name}: does not compile")
        else:
            dis = run_model(model_bin, streams)
            if dis:
                killers = sorted({d[0] for d in dis})
                results.append({"mutant": name, "file": f, "status": "killed", "streams": killers,
                                "first": {"stream": dis[0][0], "line": dis[0][1], "op": dis[0][2]}})
                print(f"ok {name}: killed by {','.join(killers)}  ({time.time()-t0:.0f}s)")
            else:
                results.append({"mutant": name, "file": f, "status": "SURVIVED the correspondence streams"})
                print(f"!! {name}: SURVIVED")
        open(path, "w").write(src)
    json.dump({"streams": STREAMS, "shards": SHARDS, "results": results}, open(os.path.join(ROOT, "tools/model_mutants.result.json"), "w"), indent=1)
    n_k = sum(1 for r in results if r["status"] == "killed")
    print(f"{n_k} killed / {len(results)} mutants")
    if "--keep" not in sys.argv:
        shutil.rmtree(SCRATCH)


if __name__ == "__main__":
    main()
