#!/usr/bin/env python3
"""How tight is the tie between the hand-written model and the code?  (machinery self-test)

The theorems are about the MODEL; only the correspondence check ties the model to /repo. This tool
turns the question round: it plants point mutations in the MODEL (Model/*.lean) - one at a time, in
a scratch copy of the Lean project - rebuilds the `mstmodel` driver and runs the quick correspondence
streams against the UNCHANGED implementation. Every mutant must be reported as a disagreement by at
least one stream: a surviving mutant marks behaviour of the model that no stream ties to the code
(the proofs would then be about something the code is not known to do).

usage: tools/model_mutants.py [--keep] [name-substring]
Writes tools/model_mutants.result.json (committed: which stream kills which mutant).
"""
import json, os, shutil, subprocess, sys, time
from concurrent.futures import ThreadPoolExecutor

ROOT = os.path.dirname(os.path.dirname(os.path.abspath(__file__)))
sys.path.insert(0, ROOT)
import importlib.machinery, importlib.util
loader = importlib.machinery.SourceFileLoader("chk", os.path.join(ROOT, "check"))
spec = importlib.util.spec_from_loader("chk", loader)
chk = importlib.util.module_from_spec(spec)
loader.exec_module(chk)

SCRATCH = "/tmp/mst-model-mutants"
STREAMS = ["tsmall", "tmid", "tdeep", "trand", "tclone", "vsmall", "dsmall", "drand", "dwide", "lsmall", "lrand",
           "ssmall", "srand", "tcfg", "twide", "tkeylen"]
SHARDS = [int(x) for x in os.environ.get("MUTANT_SHARDS", "0,5").split(",")]          # which of the sixteen shards of every quick stream

T = "MstVerif/Model/Tree.lean"
DF = "MstVerif/Model/Diff.lean"
TR = "MstVerif/Model/Traverse.lean"
LV = "MstVerif/Model/Level.lean"
SY = "MstVerif/Model/Sync.lean"
SH = "MstVerif/Model/SipHash.lean"
AP = "MstVerif/Model/Api.lean"
SN = "MstVerif/Model/Snapshot.lean"

# (name, file, old, new) - `old` must occur exactly once in the file
MUTANTS = [
    # --- split_off_lt: cache rules (the F1 family) and case structure
    ("split-allLt-keeps-cache (F1 pinned condition)", T, "let c' := if b.isSome then Option.none else c", "let c' := if a.isSome && b.isSome then Option.none else c"),
    ("split-allLt-always-invalidates", T, "let c' := if b.isSome then Option.none else c", "let c' := (Option.none : Option D)"),
    ("split-atHead-keeps-cache", T, "| .ok () => .ok (a, .some L (if a.isSome then Option.none else c) g high)", "| .ok () => .ok (a, .some L c g high)"),
    ("split-mid-left-keeps-cache", T, "| .ok () => .ok (.some L Option.none l a, .some L Option.none g high)", "| .ok () => .ok (.some L c l a, .some L Option.none g high)"),
    ("split-mid-right-keeps-cache", T, "| .ok () => .ok (.some L Option.none l a, .some L Option.none g high)", "| .ok () => .ok (.some L Option.none l a, .some L c g high)"),
    ("splitNd-le-becomes-lt", T, "    if key ≤ k then\n      match splitPg key lt with", "    if key < k then\n      match splitPg key lt with"),
    ("secondSplit-invalidates", T, "| .ok (hl, hr) => .ok (.some Lx cx nx hl, hr)", "| .ok (hl, hr) => .ok (.some Lx Option.none nx hl, hr)"),
    # --- upsert
    ("upsert-existing-key-keeps-old-value", T, "if k = key then .ok (.cons lt k val tl, high)", "if k = key then .ok (.cons lt k v tl, high)"),
    ("upsert-equal-level-keeps-cache", T, "| .ok (nodes', high') => .ok (.some L Option.none nodes' high', .complete)", "| .ok (nodes', high') => .ok (.some L c nodes' high', .complete)"),
    ("upsert-descend-keeps-cache", T, "| .ok (.some nodes') => .ok (.some L Option.none nodes' high, .complete)", "| .ok (.some nodes') => .ok (.some L c nodes' high, .complete)"),
    ("upsert-descend-high-keeps-cache", T, "| .ok high' => .ok (.some L Option.none nodes high', .complete)", "| .ok high' => .ok (.some L c nodes high', .complete)"),
    ("tree-upsert-keeps-rootHash", T, "| .ok (root', .complete) => .ok { root := root', rootHash := Option.none }", "| .ok (root', .complete) => .ok { root := root', rootHash := t.rootHash }"),
    ("intermediate-drops-gte-when-rest-empty", T, "if nr.isNil then .ok (.some level Option.none (.cons x' key val .nil) gte)", "if nr.isNil then .ok (.some level Option.none (.cons x' key val .nil) .none)"),
    ("empty-root-replacement-at-level-0", T, ".ok { root := .some level Option.none (.cons .none key val .nil) .none, rootHash := Option.none }", ".ok { root := .some 0 Option.none (.cons .none key val .nil) .none, rootHash := Option.none }"),
    # --- hashing
    ("gen-descends-into-cached-pages", T, "    | .some d => .some L (.some d) n h\n", "    | .some _ => let n' := genNd hc n; let h' := genPg hc h; .some L (.some (hc.h (n'.bytes hc ++ h'.cacheBytes hc))) n' h'\n"),
    ("hash-order-value-before-key", T, "lt.cacheBytes hc ++ hc.kb k ++ hc.vb v ++ tl.bytes hc", "lt.cacheBytes hc ++ hc.vb v ++ hc.kb k ++ tl.bytes hc"),
    ("hash-omits-high-page", T, ".some L (.some (hc.h (n'.bytes hc ++ h'.cacheBytes hc))) n' h'\ndef genNd", ".some L (.some (hc.h (n'.bytes hc))) n' h'\ndef genNd"),
    ("hash-child-after-key", T, "lt.cacheBytes hc ++ hc.kb k ++ hc.vb v ++ tl.bytes hc", "hc.kb k ++ lt.cacheBytes hc ++ hc.vb v ++ tl.bytes hc"),
    # --- diff
    ("superset-strict-end", DF, "decide (a.start ≤ b.start) && decide (b.end_ ≤ a.end_)", "decide (a.start ≤ b.start) && decide (b.end_ < a.end_)"),
    ("overlaps-strict", DF, "decide (self.1 ≤ p.2) && decide (p.1 ≤ self.2)", "decide (self.1 < p.2) && decide (p.1 ≤ self.2)"),
    ("diff-start-from-root-always", DF, "            | .some v => v.end_\n", "            | .some _ => root.start\n"),
    ("diff-end-unclamped", DF, "| lh :: _ => if p.end_ < lh.start then p.end_ else lh.start   -- `v.start().min(p.end())`", "| lh :: _ => lh.start"),
    ("diff-consistent-does-not-skip", DF, "| .ok b1 => .ok (b1, skipSubtree p peer1)", "| .ok b1 => .ok (b1, peer1)"),
    ("diff-no-shrink-local", DF, "let (l, loc2) := shrinkLocal p l0 loc1", "let (l, loc2) := (l0, loc1)"),
    ("diff-no-drain", DF, "      match drainSubtree root peer1 b1 with", "      match (Except.ok (peer1, b1) : Except String (List (PR K D) × Builder K)) with"),
    ("merge-touching-not-merged", DF, "else if r.1 ≤ last.2 then mergeGo (last.1, r.2) rs", "else if r.1 < last.2 then mergeGo (last.1, r.2) rs"),
    ("punch-left-piece-missing", DF, "(if bad.1 < good.1 then [(bad.1, good.1)] else []) ++", "([] : List (DR K)) ++"),
    ("punch-right-piece-nonstrict", DF, "(if good.2 < bad.2 then [(good.2, bad.2)] else [])", "(if good.2 ≤ bad.2 then [(good.2, bad.2)] else [])"),
    ("diff-local-superset-shortcut-removed", DF, "if localIsSuperset then .ok (peer1, loc, b)", "if false then .ok (peer1, loc, b)"),
    ("reduce-no-final-merge", DF, "  match mergeOverlapping bad' with\n  | .error e => .error e\n  | .ok m =>\n    match checkWindowsReduce m with", "  match (Except.ok bad' : Except String (List (DR K))) with\n  | .error e => .error e\n  | .ok m =>\n    match checkWindowsReduce m with"),
    # --- traversal / visitor early stop / iterator / page ranges
    ("visitor-postNode-false-ignored", TR, "          match vis s (.postNode k v) with\n          | (s, false) => (s, false)\n          | (s, true) => runNd vis tl s", "          match vis s (.postNode k v) with\n          | (s, _) => runNd vis tl s"),
    ("visitor-postPage-false-ignored", TR, "        match vis s (.postPage L) with\n        | (s, false) => (s, false)\n        | (s, true) => runPg vis true h s", "        match vis s (.postPage L) with\n        | (s, _) => runPg vis true h s"),
    ("visitor-high-flag-false", TR, "        | (s, true) => runPg vis true h s", "        | (s, true) => runPg vis false h s"),
    ("trace-high-flag-false", TR, ".visitPage L c n.length high :: (traceNd n ++ (.postPage L :: tracePg true h))", ".visitPage L c n.length high :: (traceNd n ++ (.postPage L :: tracePg false h))"),
    ("iter-skips-high-page", TR, "        | .some hv => iterNext fuel (hv :: stack)\n", "        | .some _ => iterNext fuel stack\n"),
    ("maxSubtreeKey-ignores-high-page", TR, "    match h with\n    | .some .. => maxSubtreeKey h\n    | .none =>", "    match (Pg.none : Pg K V D) with\n    | .some .. => maxSubtreeKey h\n    | .none =>"),
    ("minSubtreeKey-no-descent", TR, "      | .some .. => minSubtreeKey lt", "      | .some .. => .ok k"),
    ("ranges-high-before-children", TR, "        | .ok rh => .ok (r :: (rn ++ rh))", "        | .ok rh => .ok (r :: (rh ++ rn))"),
    ("serialise-available-without-rootHash", TR, "  | .none => .ok .none\n  | .some _ =>\n    if t.root.nodesNil", "  | .none => (match rangesPg t.root with | .error e => .error e | .ok l => .ok (.some l))\n  | .some _ =>\n    if t.root.nodesNil"),
    # --- sync model
    ("join-keeps-old-value", SY, "| .joinMax, some o => Max.max o new", "| .joinMax, some o => o"),
    ("peerWins-keeps-old-value", SY, "| .peerWins, some _ => new", "| .peerWins, some o => o"),
    ("fetch-excludes-range-end", SY, "rs.any fun r => decide (r.1 ≤ k) && decide (k ≤ r.2)", "rs.any fun r => decide (r.1 ≤ k) && decide (k < r.2)"),
    ("pull-does-not-upsert-tree", SY, "  | .ok t => .ok { store := storeInsert kv.1 nv r.store, tree := t }", "  | .ok _ => .ok { store := storeInsert kv.1 nv r.store, tree := r.tree }"),
    # --- SipHash / std::hash framing / constructors
    ("siphash-rotation-13-to-14", SH, "let v1 := rotl s.v1 13", "let v1 := rotl s.v1 14"),
    ("siphash-finalisation-0xdd-to-0xde", SH, "v1 := s.v1 ^^^ 0xdd", "v1 := s.v1 ^^^ 0xde"),
    ("siphash-length-byte-missing", SH, "((bs.length.toUInt64 &&& 0xff) <<< 56) ||| leWord tail", "leWord tail"),
    ("builder-withHasher-resets-base", AP, "def TreeBuilder.withHasher (b : TreeBuilder) (h : HasherM) : TreeBuilder := { hasher := h, levelBase := b.levelBase }", "def TreeBuilder.withHasher (b : TreeBuilder) (h : HasherM) : TreeBuilder := { hasher := h, levelBase := defaultLevelBase }"),
    ("newWithHasher-default-base-8", AP, "def MST.newWithHasher (h : HasherM) : MST K D := { hasher := h, levelBase := defaultLevelBase, tree := Tree.empty }", "def MST.newWithHasher (h : HasherM) : MST K D := { hasher := h, levelBase := 8, tree := Tree.empty }"),
    ("snapshot-iter-drops-last-range", SN, "  s.items.mapM fun v => PR.new v.start v.end_ v.hash", "  s.items.dropLast.mapM fun v => PR.new v.start v.end_ v.hash"),
    ("snapshot-owned-end-is-start", SN, "def OwnedPR.ofPR (r : PR K D) : OwnedPR K D := { start := r.start, end_ := r.end_, hash := r.hash }", "def OwnedPR.ofPR (r : PR K D) : OwnedPR K D := { start := r.start, end_ := r.start, hash := r.hash }"),
    ("sipNew-swaps-key-words", AP, ".sip (Sip.leWord (seed.take 8)) (Sip.leWord ((seed.drop 8).take 8))", ".sip (Sip.leWord ((seed.drop 8).take 8)) (Sip.leWord (seed.take 8))"),
]

# Mutants that MUST survive: behaviour-preserving on every reachable input (analysis recorded here,
# DESIGN.md section 12.9). A survivor that is not listed is a gap in the streams.
EXPECTED_SURVIVORS = {
    "split-allLt-always-invalidates": "the model merely invalidates MORE than the code: every digest later exposed is recomputed and equal; the comparer's documented tolerance (cache presence is policy, cache VALUE must be the true digest) accepts it by design",
    "secondSplit-invalidates": "same: over-invalidation only (and the second split is a proved no-op: splitPg_all_lt)",
    "splitNd-le-becomes-lt": "differs only when the split key EQUALS a key of the page being split, i.e. when one key occurs on two levels - excluded by a deterministic hasher (the level is a function of the key); upsert of an existing key never splits",
    "intermediate-drops-gte-when-rest-empty": "`gte` is the remainder of the second split, proved to be always none (dead code, DESIGN 12.4b)",
    "gen-descends-into-cached-pages": "recomputing a cached page gives the cached digest again because caches are sound (CacheOK) on every reachable state",
    "overlaps-strict": "differs only for a single-point inconsistent range [x,x] meeting a consistent range starting at x; consistent ranges only arise under an inconsistent parent whose whole span is inconsistent and absorbs [x,x] in the merge; with root [x,x] every local page inside it is also a superset and is consumed by the shrink loop, so no consistent mark can follow",
    "diff-start-from-root-always": "ranges recorded at diff.rs:249 while walking the children of a page lie inside that page's span, which was recorded inconsistent as a whole before the descent; merge_overlapping absorbs them whatever their start",
}


def sh(cmd, **kw):
    return subprocess.run(cmd, stdout=subprocess.PIPE, stderr=subprocess.STDOUT, text=True, **kw)


def extra_mutants():
    """mutants whose anchor text is read from the file (kept robust against reformatting)"""
    out = []
    lv = open(os.path.join(ROOT, "lean", LV)).read()
    if "% base" in lv:
        first = lv.index("% base")
        line_start = lv.rfind("\n", 0, first) + 1
        line_end = lv.index("\n", first)
        line = lv[line_start:line_end]
        out.append(("level-ignores-base-digit", LV, line, line.replace("% base", "% (base + 1)", 1)))
    return out


def prepare_streams(outdir):
    binp, err = chk.build_harness("debug", "")
    assert binp, err
    os.makedirs(outdir, exist_ok=True)
    jobs = [(s, k) for s in STREAMS for k in SHARDS]

    def gen(job):
        s, k = job
        prefix = os.path.join(outdir, f"{s}.{k}")
        r = sh([binp, "gen", s, "quick", "1", str(k), "16", prefix])
        return (s, k, prefix, r.returncode)
    with ThreadPoolExecutor(max_workers=16) as ex:
        res = list(ex.map(gen, jobs))
    return [(s, k, p) for s, k, p, rc in res if rc == 0 and os.path.getsize(p + ".script") > 0]


def run_model(model_bin, streams):
    """first disagreeing stream (name, line, op) or None"""
    def one(job):
        s, k, prefix = job
        with open(prefix + ".script") as fin:
            m = subprocess.run([model_bin], stdin=fin, stdout=subprocess.PIPE, stderr=subprocess.PIPE, text=True)
        if m.returncode != 0:
            return (s, 0, f"model driver exited {m.returncode}")
        with open(prefix + ".impl") as fi, open(prefix + ".script") as fs:
            for n, (a, b, op) in enumerate(zip(fi, m.stdout.splitlines(), fs), 1):
                if a.strip() != b.strip() and not chk.same_output(a.strip(), b.strip())[0]:
                    return (s, n, op.strip()[:120])
        return None
    with ThreadPoolExecutor(max_workers=16) as ex:
        res = [r for r in ex.map(one, streams) if r]
    return res


def main():
    flt = [a for a in sys.argv[1:] if not a.startswith("--")]
    if os.path.isdir(SCRATCH):
        shutil.rmtree(SCRATCH)
    os.makedirs(SCRATCH)
    lean = os.path.join(SCRATCH, "lean")
    shutil.copytree(os.path.join(ROOT, "lean"), lean, symlinks=True)
    streams = prepare_streams(os.path.join(SCRATCH, "streams"))
    print(f"{len(streams)} stream shards prepared")
    model_bin = os.path.join(lean, ".lake/build/bin/mstmodel")
    r = sh(["lake", "build", "mstmodel"], cwd=lean)
    assert r.returncode == 0, r.stdout[-2000:]
    base = run_model(model_bin, streams)
    assert not base, f"the UNMUTATED model already disagrees: {base[:3]}"
    results = []
    for name, f, old, new in MUTANTS + extra_mutants():
        if flt and not any(x in name for x in flt):
            continue
        path = os.path.join(lean, f)
        src = open(os.path.join(ROOT, "lean", f)).read()
        if src.count(old) != 1:
            results.append({"mutant": name, "file": f, "status": f"anchor occurs {src.count(old)} times - mutant not applied"})
            print(f"?? {name}: anchor occurs {src.count(old)} times")
            continue
        open(path, "w").write(src.replace(old, new))
        t0 = time.time()
        r = sh(["lake", "build", "mstmodel"], cwd=lean)
        if r.returncode != 0:
            results.append({"mutant": name, "file": f, "status": "does not compile", "detail": r.stdout[-300:]})
            print(f"-- {name}: does not compile")
        else:
            dis = run_model(model_bin, streams)
            if dis:
                killers = sorted({d[0] for d in dis})
                results.append({"mutant": name, "file": f, "status": "killed", "streams": killers,
                                "first": {"stream": dis[0][0], "line": dis[0][1], "op": dis[0][2]}})
                print(f"ok {name}: killed by {','.join(killers)}  ({time.time()-t0:.0f}s)")
            else:
                why = EXPECTED_SURVIVORS.get(name)
                if not why:
                    # not executed by the driver? then the definition is tied through the THEOREMS that
                    # relate it to executed definitions: the property modules must stop compiling
                    pr = sh(["lake", "build"] + [f"MstVerif.Props.C{i:02d}" for i in range(1, 19)], cwd=lean)
                    if pr.returncode != 0:
                        bad = sorted({w for l in pr.stdout.splitlines() if l.startswith("✖") for w in l.split() if w.startswith("MstVerif.")})[:4]
                        results.append({"mutant": name, "file": f, "status": "killed", "streams": [], "by_proofs": bad or True})
                        print(f"ok {name}: survives the streams (definition not executed by the driver), killed by the PROOFS {bad}")
                        open(path, "w").write(src)
                        continue
                results.append({"mutant": name, "file": f, "status": "survived (equivalent)" if why else "SURVIVED the correspondence streams", "analysis": why or "NOT ANALYSED - a gap in the streams"})
                print(f"{'==' if why else '!!'} {name}: survived{' (expected: equivalent)' if why else ' - UNEXPECTED'}")
        open(path, "w").write(src)
    out_path = os.path.join(ROOT, "tools/model_mutants.result.json")
    if flt and os.path.exists(out_path):
        # a filtered run updates its own entries only
        prev = json.load(open(out_path)).get("results", [])
        names = {r["mutant"] for r in results}
        results = [r for r in prev if r["mutant"] not in names] + results
    json.dump({"streams": STREAMS, "shards": SHARDS, "results": results}, open(out_path, "w"), indent=1)
    n_k = sum(1 for r in results if r["status"] == "killed")
    n_e = sum(1 for r in results if r["status"].startswith("survived"))
    print(f"{n_k} killed, {n_e} equivalent (analysed), {len(results) - n_k - n_e} other / {len(results)} mutants")
    if "--keep" not in sys.argv:
        shutil.rmtree(SCRATCH)


if __name__ == "__main__":
    main()
