#!/bin/bash
# Implementation-side line coverage of /repo/src reached by the correspondence streams (quick tier):
# which lines of the modelled code are exercised — "a behaviour no stream exercises is not tied".
# Uses the nightly toolchain's llvm-tools (offline). Output: /verif/.cache/coverage/report.txt
set -e
cd /verif/harness
OUT=/verif/.cache/coverage; rm -rf $OUT; mkdir -p $OUT/prof $OUT/run
BIN=$(dirname $(find ~/.rustup/toolchains/nightly-x86_64-unknown-linux-gnu -name llvm-profdata | head -1))
export CARGO_NET_OFFLINE=true
RUSTFLAGS="-C instrument-coverage" cargo +nightly build --offline --features mst_all --target-dir target/cov 2>&1 | tail -1
H=target/cov/debug/mstharness
for s in tsmall tmid trand twide vsmall dsmall drand lsmall lrand ldepth tcfg srand ssmall; do
  for sh in 0 5 11; do
    LLVM_PROFILE_FILE=$OUT/prof/$s-$sh.profraw $H gen $s ${1:-quick} 1 $sh 16 $OUT/run/x >/dev/null 2>&1 || true
  done
done
for f in /verif/corpus/*.script; do LLVM_PROFILE_FILE=$OUT/prof/corpus-$(basename $f).profraw $H replay $f >/dev/null 2>&1 || true; done
LLVM_PROFILE_FILE=$OUT/prof/stack.profraw $H stack 300 >/dev/null 2>&1 || true
$BIN/llvm-profdata merge -sparse $OUT/prof/*.profraw -o $OUT/all.profdata
$BIN/llvm-cov report $H -instr-profile=$OUT/all.profdata --sources /repo/src > $OUT/report.txt 2>/dev/null || $BIN/llvm-cov report $H -instr-profile=$OUT/all.profdata > $OUT/report.txt
$BIN/llvm-cov show $H -instr-profile=$OUT/all.profdata --sources /repo/src --show-line-counts-or-regions > $OUT/show.txt 2>/dev/null || true
rm -rf $OUT/prof $OUT/run
grep -E "repo/src|TOTAL|Filename" $OUT/report.txt | cut -c1-200
