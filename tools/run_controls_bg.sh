#!/bin/bash
# Negative controls against a SNAPSHOT of /repo:  vp run --with-repo --timeout 6h -- tools/run_controls_bg.sh [pattern]
# every behaviour-preserving change in controls/*.diff is applied in turn; no check may print VIOLATION.
set -u
R=${VP_RUN_REPO:?run under vp run --with-repo}
export VERIF_REPO=$R CARGO_NET_OFFLINE=true
sed -i "s#path = \"/repo\"#path = \"$R\"#" harness/Cargo.toml
[ -f $R/Cargo.lock ] || cp /repo/Cargo.lock $R/Cargo.lock
./setup.sh > setup.log 2>&1 || { echo "setup failed"; tail -20 setup.log; exit 2; }
for c in controls/*${1:-}*.diff; do
  (cd $R && git apply $OLDPWD/$c) || { echo "$c: does not apply"; continue; }
  bad=0
  for p in C01 C02 C03 C04 C05 C06 C07 C08 C09 C10 C11 C12 C13 C14 C15 C16 C17 C18; do
    out=$(VERIF_NO_EXTRA_SEEDS=1 ./check $p 2>&1 | grep -E "VIOLATION|Traceback" | head -1)
    if [ -n "$out" ]; then echo "CONTROL $c [$p]: FALSE ALARM $out"; bad=1; cp replays/$p-1.txt replays/$(basename $c .diff)-$p.txt 2>/dev/null; fi
  done
  (cd $R && git apply -R $OLDPWD/$c)
  [ $bad -eq 0 ] && echo "$c: no alarm"
done
