#!/bin/bash
# Regression test of the machinery against every confirmed seeded change, WITHOUT touching /repo:
#   vp run --with-repo --timeout 6h -- tools/rerun_seeds_bg.sh [name-prefix]
# works in the snapshot of /verif (cwd) against the snapshot of /repo ($VP_RUN_REPO): the harness'
# path dependency and check's REPO are pointed at the snapshot, everything is rebuilt there.
set -u
R=${VP_RUN_REPO:?run under vp run --with-repo}
export VERIF_REPO=$R CARGO_NET_OFFLINE=true
sed -i "s#path = \"/repo\"#path = \"$R\"#" harness/Cargo.toml
[ -f $R/Cargo.lock ] || cp /repo/Cargo.lock $R/Cargo.lock     # untracked in the repository, not in the snapshot
./setup.sh > setup.log 2>&1 || { echo "setup failed"; tail -20 setup.log; exit 2; }
ok=0; miss=0
for d in seeded/${1:-}*/; do
  name=$(basename $d)
  prop=$(python3 -c "import json;print(json.load(open('$d/meta.json'))['targets_property'])")
  (cd $R && git apply $OLDPWD/$d/patch.diff) || { echo "$name: patch does not apply"; continue; }
  out=$(VERIF_NO_EXTRA_SEEDS=1 VERIF_NO_MINIMISE=1 VERIF_NO_ESCALATE=1 ./check $prop 2>&1 | grep -E "VIOLATION" | head -1)
  (cd $R && git apply -R $OLDPWD/$d/patch.diff)
  if [ -n "$out" ]; then ok=$((ok+1)); echo "$name [$prop]: $out"; else miss=$((miss+1)); echo "$name [$prop]: MISSED"; fi
done
echo "detected $ok, missed $miss"
# negative controls: no check may raise an alarm (SKIP_CONTROLS=1: seeds only; tools/run_controls_bg.sh runs them alone)
for c in $([ "${SKIP_CONTROLS:-0}" = 1 ] || ls controls/*.diff); do
  (cd $R && git apply $OLDPWD/$c) || { echo "$c: does not apply"; continue; }
  for p in C01 C02 C03 C04 C05 C06 C07 C08 C09 C10 C11 C12 C13 C14 C15 C16 C17 C18; do
    out=$(VERIF_NO_EXTRA_SEEDS=1 ./check $p 2>&1 | grep -E "VIOLATION" | head -1)
    [ -n "$out" ] && echo "CONTROL $c [$p]: FALSE ALARM $out"
  done
  (cd $R && git apply -R $OLDPWD/$c)
  echo "control $c done"
done
