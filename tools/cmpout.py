#!/usr/bin/env python3
"""cmpout.py <impl> <model>: line comparison with the comparer of ./check (cache-policy tolerant)."""
import importlib.machinery, importlib.util, os, sys
impl, model = sys.argv[1], sys.argv[2]
here = os.path.dirname(os.path.dirname(os.path.abspath(__file__)))
loader = importlib.machinery.SourceFileLoader("chk", os.path.join(here, "check"))
spec = importlib.util.spec_from_loader("chk", loader)
chk = importlib.util.module_from_spec(spec)
loader.exec_module(chk)
bad = 0
for n, (a, b) in enumerate(zip(open(impl), open(model)), 1):
    if a != b and not chk.same_output(a.strip(), b.strip())[0]:
        bad += 1
        if bad <= 3:
            print(f"line {n}:\n  impl : {a.strip()[:200]}\n  model: {b.strip()[:200]}")
print("disagreements:", bad)
