#!/bin/bash
# Regression test of the machinery itself: every confirmed seeded change must still be reported by
# the check of the property it targets. Usage: tools/rerun_seeds.sh [name-prefix]
cd /verif
rm -rf .cache/evidence_backup && cp -r evidence .cache/evidence_backup
ok=0; miss=0
for d in seeded/${1:-}*/; do
  name=$(basename $d)
  prop=$(python3 -c "import json;print(json.load(open('$d/meta.json'))['targets_property'])")
  (cd /repo && git apply /verif/$d/patch.diff) || { echo "$name: patch does not apply"; continue; }
  out=$(VERIF_NO_EXTRA_SEEDS=1 VERIF_NO_MINIMISE=1 VERIF_NO_ESCALATE=1 ./check $prop 2>&1 | grep -E "VIOLATION" | head -1)
  git -C /repo checkout -- .
  if [ -n "$out" ]; then ok=$((ok+1)); echo "$name [$prop]: $out"; else miss=$((miss+1)); echo "$name [$prop]: MISSED"; fi
done
rm -rf evidence && mv .cache/evidence_backup evidence
echo "detected $ok, missed $miss"
