/-
Exhaustive scan behind `C05_rounds_join` (DESIGN.md Appendix B, "C05 rounds, any join"): runs the
executable sync model (`Model/Sync.lean`) with the join merge on a NON-linear join-semilattice — `Nat`
bit masks, `Max.max := (· ||| ·)`, values 1, 2, 3 — for ALL pairs of stores over keys `0..nk-1` with
values {absent, 1, 2, 3} and ALL assignments of `nl` levels to the keys, and compares the number of
two-way rounds (`b←a; a←b`) needed to converge with the number of disagreeing keys.

  cd lean && lake env lean --run ../tools/join_rounds_scan.lean 3 2        # interpreted, seconds
  # compiled (nk=4 nl=3: 5.3 M pairs, about 2 minutes):
  cd lean && cp ../tools/join_rounds_scan.lean ScratchScan.lean \
    && lake env lean -c /tmp/scan.c ScratchScan.lean && rm ScratchScan.lean \
    && leanc -O2 -o /tmp/scan /tmp/scan.c .lake/build/ir/MstVerif/Model/{Tree,Traverse,Diff,Sync}.c.o.export \
    && /tmp/scan 4 3

Results when `C05_rounds_join` was proved: `nk=4 nl=3 total=5308416 bad=0 worstRounds=2`,
`nk=5 nl=2 total=33554432 bad=0 worstRounds=2` (15 minutes)
(bad = pairs needing more rounds than disagreeing keys, or not converging / panicking).
-/
import MstVerif.Model.Sync
open Mst

/-- Nat bitmasks under bitwise or: a non-linear join-semilattice -/
local instance orMax : Max Nat := ⟨fun a b => a ||| b⟩

def cfg : HashCfg Nat Nat (List UInt8) :=
  { kb := fun k => 4 :: (List.replicate k 0 ++ [1])
    vb := fun v => List.replicate v 0 ++ [1]
    db := fun d => 3 :: (d.flatMap (fun b => [2, b]) ++ [1])
    h := id }

def disagreeN (a b : List (Nat × Nat)) : Nat :=
  (((a.map Prod.fst ++ b.map Prod.fst).eraseDups).filter fun k => decide (lookupKV k a ≠ lookupKV k b)).length

def mkRep (lvl : Nat → Nat) (s : List (Nat × Nat)) : Except String (Replica Nat Nat (List UInt8)) :=
  Replica.absorbAll lvl .peerWins Replica.empty s

/-- all stores over keys 0..nk-1 with values in {absent,1,2,3} -/
def allStores : Nat → List (List (Nat × Nat))
  | 0 => [[]]
  | k + 1 => (allStores k).flatMap fun s => [s, s ++ [(k, 1)], s ++ [(k, 2)], s ++ [(k, 3)]]

def allLvls (nk nl : Nat) : List (List Nat) :=
  (List.range nk).foldl (fun acc _ => acc.flatMap fun l => (List.range nl).map fun x => l ++ [x]) [[]]

/-- rounds needed until equal (max 20) -/
def needed (lvl : Nat → Nat) (a b : Replica Nat Nat (List UInt8)) : Nat → Nat → Option Nat
  | 0, _ => none
  | fuel + 1, n =>
    if a.store = b.store then some n else
    match syncRound lvl cfg .joinMax a b with
    | .error _ => none
    | .ok (a', b') => needed lvl a' b' fuel (n + 1)

def scan (nk nl : Nat) : IO Unit := do
  let mut bad := 0
  let mut tot := 0
  let mut worst := 0
  for lv in allLvls nk nl do
    let lvl := fun k => lv.getD k 0
    for sa in allStores nk do
      for sb in allStores nk do
        match mkRep lvl sa, mkRep lvl sb with
        | .ok a, .ok b =>
          tot := tot + 1
          let d := disagreeN sa sb
          match needed lvl a b 30 0 with
          | none => IO.println s!"ERR/noconv lv={lv} a={sa} b={sb}"; bad := bad + 1
          | some n =>
            if n > worst then worst := n
            if n > d then
              bad := bad + 1
              if bad < 20 then IO.println s!"CEX lv={lv} a={sa} b={sb} disagree={d} needed={n}"
        | _, _ => IO.println "mk error"
  IO.println s!"nk={nk} nl={nl} total={tot} bad={bad} worstRounds={worst}"

def main (args : List String) : IO Unit := do
  let nk := args[0]!.toNat!
  let nl := args[1]!.toNat!
  scan nk nl
