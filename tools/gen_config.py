#!/usr/bin/env python3
"""Single source of truth for props_config.json and MANIFEST.json (run after editing)."""
import json, os
ROOT = os.path.dirname(os.path.dirname(os.path.abspath(__file__)))

def S(*names, **kw):
    return [dict(name=n, **kw) for n in names]

P = "Mst.Props."
A_TOTAL = "Rust Ord on the key type is a lawful total order (LinearOrder K)"
A_LVL = "the configured Hasher is a deterministic function of the key (lvl : K -> Nat), levels < 255 (true for digests <= 32 bytes: C14_level_bound)"
A_CF = "CollisionFree: no two different page pre-images among the pages of the trees involved receive the same 128-bit digest (hypothesis of the theorem, checked on every case by the harness)"
A_MODEL = "the hand-written Lean model is the code: tied by the correspondence streams listed in the evidence (DESIGN.md section 4)"

CFG = {
 "C01": dict(streams=S("tsmall","tmid","trand","twide","tdeep","tkeylen","tbig","tclone"), level="proof",
    theorems=[P+"C01"],
    text="Theorem C01 (kernel-checked, all histories/level assignments/hashers): histories with the same last-write-wins map yield, after a hash request, the identical tree, root hash and serialisation. Tied to /repo by exhaustive small-scope and random history streams with the full page structure compared after every operation, plus implementation-side oracles (fresh rebuild, reference construction).",
    assumptions=[A_TOTAL, A_LVL, A_MODEL]),
 "C02": dict(streams=S("tsmall","tmid","trand","twide","tdeep","tkeylen","tbig","tlong","thash","tclone") + S("tpages", profiles=["debug","release"]), level="proof",
    theorems=[P+"C02_no_stale_cache", P+"C02_fresh", P+"C02_gate", P+"C02_regenerated"],
    text="Theorems: the CacheOK invariant holds at every reachable (content, cache-state) pair; a hash request after any interleaving equals the freshly built tree page for page; after any upsert cached root hash and serialisation are unavailable; a hash request restores them. The F1 defect (stale digest) was found by this check and repaired in /repo.",
    assumptions=[A_TOTAL, A_LVL, A_MODEL]),
 "C03": dict(streams=S("dsmall","drand","tcfg","tdeep","tkeylen","dwide","dnear","tbig"), level="proof",
    theorems=[P+"C03", P+"C03_histories", P+"C03_one_upsert"],
    text="Theorem: equal root digests imply equal content for any two trees whose page pre-images are collision free (Merkle induction over lt-child, node and high-page tokens); corollaries for histories and for a single upsert. SipHash itself is modelled, not verified.",
    assumptions=[A_TOTAL, A_LVL, A_CF, A_MODEL]),
 "C04": dict(streams=S("dsmall","drand","tdeep","dwide","tkeylen","dnear","tbig"), level="proof",
    theorems=[P+"C04", P+"C04_some_direction", P+"C04_start_held", P+"C04_histories"],
    text="Theorems (all pairs of hashed real trees: any contents, spans nested / partially overlapping / disjoint / empty, any level structure): both diffs empty implies equal content; if contents differ some direction reports a range; every reported range starts at a key the peer holds. Tied by exhaustive ordered-pair streams (all contents over 4-5 keys x all level assignments) and the implementation-side oracle.",
    assumptions=[A_TOTAL, A_LVL, A_CF, A_MODEL]),
 "C05": dict(streams=S("dsmall","drand","ssmall","srand"), level="proof",
    theorems=[P+"C05_progress_join", P+"C05_rounds_join", P+"C05_quiescent_join", P+"C05_progress", P+"C05_rounds", P+"C05_quiescent", P+"C05_reachable"],
    text="Theorems on the replica model (Model/Sync.lean: store + incrementally maintained tree; pull = hash both, serialise, diff, fetch ranges, merge, upsert): for replicas with different content a pull in at least one direction changes the receiver (join and peer-wins); n >= number of disagreeing keys two-way rounds end with equal stores and equal root hashes; under join the result is the pointwise join; converged replicas exchange nothing. The replica model itself is tied to the real code by the srand stream (schedules executed on real trees and on the model, ranges / fetched keys / stores / root hashes compared).",
    assumptions=[A_TOTAL, A_LVL, "NoCollisions: no digest collision among page pre-images during the run", "values are identified with their digests; merge = the join of ANY join-semilattice on the values (SemilatticeSup; *_join theorems; the max of a linear order is the special case under the old names), or peer-wins", A_MODEL]),
 "C06": dict(streams=S("ssmall","srand","drand"), level="proof",
    theorems=[P+"C06_refine_join", P+"C06_safe_join", P+"C06_live_join", P+"C06_refine_stale_join", P+"C06_safe_stale_join", P+"C06_live_stale_join", P+"C06_join_not_held_before_pulls", P+"C06_refine", P+"C06_safe", P+"C06_live", P+"C06_peerWins_three_replicas_counterexample", P+"C06_refine_stale", P+"C06_safe_stale", P+"C06_live_stale"],
    text="Join merge (peer-wins with >= 3 replicas is refuted by a theorem); pulls may be atomic OR split into a plan and a later fetch of stale/arbitrary ranges (C06_*_stale); full in the quantifiers it covers: for ANY number of replicas and ANY schedule of writes and pulls (theorem, unbounded): no panic and every replica's tree mirrors its store at every step whatever its cache state (refinement); under join nothing is lost or invented (safety); after writes stop, n*|ops|+1 sweeps pulling between all ordered pairs in any order bring every replica to the join of everything written with equal root hashes (liveness). Peer-wins with >= 3 replicas admits a fair schedule that never converges: proved as a theorem on the model (C06_peerWins_three_replicas_counterexample), so that clause cannot hold for that merge; two-replica peer-wins is C05. In-flight (planned, later applied) pulls are also exercised on the real code by the srand stream.",
    assumptions=[A_TOTAL, A_LVL, "NoCollisions", "join merge = the join of ANY join-semilattice on the values (SemilatticeSup; *_join theorems: the join of everything written is the least upper bound of the stores; for the max of a linear order, old names, it is held by some replica); values identified with their digests", A_MODEL]),
 "C07": dict(streams=S("dsmall","drand","tdeep","dwide","tkeylen","dnear","tbig"), level="proof",
    theorems=[P+"C07", P+"C07_empty_local", P+"C07_histories"],
    text="Theorems: under the span condition every peer entry the local tree lacks or holds with another digest lies in a returned range (soundness of every consistent mark via Merkle injectivity + contiguity of sub-pages; the whole peer span is marked inconsistent at the first iteration; reduce keeps bad minus good); an empty replica obtains the whole span.",
    assumptions=[A_TOTAL, A_LVL, A_CF, A_MODEL]),
 "C08": dict(streams=S("dsmall","drand","tsmall","tdeep","dwide","tbig","twide","tclone"), level="proof",
    theorems=[P+"C08", P+"C08_histories", P+"C08_empty_peer"],
    text="Theorems: hashed trees with equal content diff to nothing in both directions, for any pair of histories reaching that content; a diff against an empty peer is empty for any local list.",
    assumptions=[A_TOTAL, A_LVL, A_MODEL]),
 "C09": dict(streams=S("tsmall","tmid","trand","twide","tdeep","tkeylen","tbig","tclone"), level="proof",
    theorems=[P+"C09", P+"C09_prefix", P+"C09_canonical"],
    text="Theorem: at every state reachable by any history the in-order keys are strictly ascending and the level stratification / non-emptiness invariant holds; these conditions force the unique shape (root_unique).",
    assumptions=[A_TOTAL, A_LVL, A_MODEL]),
 "C10": dict(streams=S("tsmall","tmid","trand","twide","tdeep","tkeylen","tbig","tclone"), level="proof",
    theorems=[P+"C10", P+"C10_frame"],
    text="Theorem: after any history the content is the key-sorted last-write-wins map (each key once, latest value digest); an upsert leaves every other key's entry untouched.",
    assumptions=[A_TOTAL, A_LVL, A_MODEL]),
 "C11": dict(streams=S("tsmall","tmid","trand","twide","tdeep","tkeylen","tbig","tcfg","tpages","tclone"), level="proof",
    theorems=[P+"C11_preorder", P+"C11_once", P+"C11_entry", P+"C11_first", P+"C11_nested", P+"C11_siblings", P+"C11_histories"],
    text="Theorems (every reachable hashed tree): the serialisation succeeds and is the pre-order list of pages, each exactly once, each as (first key, last key of its subtree, its digest); first entry spans the tree with the root hash; entries nest inside every page they are listed under; sibling spans are disjoint and ascending; empty tree gives the empty list. Every serialisation produced in the streams is compared with the model's and with an independent reference implementation.",
    assumptions=[A_TOTAL, A_LVL, A_MODEL]),
 "C12": dict(streams=S("lsmall","lrand", profiles=["debug","release"]) + S("dsmall","drand","tdeep","dwide","tbig"), level="proof",
    theorems=[P+"C12_list", P+"C12_tree"],
    text="Theorems: for arbitrary valid page-range lists the output is ascending, disjoint without shared end points, start<=end; for real trees every range additionally lies within the peer's span, starts at a peer key and ends at a peer or local key.",
    assumptions=[A_TOTAL, A_LVL, A_MODEL]),
 "C13": dict(streams=S("lsmall","lrand", profiles=["debug","release"]) + [dict(name="ldepth", features=["mst_all"])], level="proof", stack_ladder=True,
    theorems=[P+"C13_partial", P+"C13_constructor", P+"C13_depth_refines", P+"C13_depth_le_input", P+"C13_depth_chain", P+"C13_depth_le_nesting", P+"C13_depth_flat", P+"C13_depth_real_tree"],
    text="PARTIAL. Theorem C13_partial (all finite lists with start<=end, any length/nesting/order/digests): diff terminates, trips no assertion, returns sorted disjoint well-formed ranges with bounds from the input. Not provable in a functional model: stack boundedness; its model-level shadow IS proved: the depth-instrumented walk refines the walk, depth <= |peer| always and, sharper, depth <= the longest chain of nested ranges occurring in the peer list (so long FLAT lists never nest more than one frame pair, whatever their length), a nested chain of n ranges reaches depth n, and against the serialisation of a REAL tree the depth is <= root level + 1 (so library-produced trees are always safe and no fixed stack suffices for untrusted input: this clause is false of the algorithm as written = known finding F2). The model depth is tied to the REAL recursion depth observed through the crate's own tracing spans (ldepth stream, feature tracing). The stack part itself is decided by replaying lists on a 2 MiB thread in debug and release: nested chains of depth <= 4096 and long flat lists (one root with n consistent / inconsistent children, n top-level ranges, n duplicates, empty local; n up to 100000) must pass; the overflow on nested chains at depth ~12000 is known finding F2.",
    assumptions=[A_TOTAL, A_MODEL, "machine stack not modelled (known finding F2)"]),
 "C14": dict(streams=S("tcfg","tmid","trand","twide","tdeep","tkeylen","tbig","tsmall"), level="proof",
    theorems=[P+"C14_level", P+"C14_level_bound", P+"C14_level_machine", P+"C14_level_machine_overflow", P+"C14_root", P+"C14_pages"],
    text="Theorems: level = declarative reference for every byte string and base; after any history the root hash and every page digest equal those of the reference construction built from the sorted content alone. The byte level (token order, SipHash-2-4-128 zero key, finish128 byte order) is executable Lean tied to the siphasher crate and the library by the sip/lvl/hash streams over bases and widths; an independent Rust reference implementation is the implementation-side oracle.",
    assumptions=[A_TOTAL, A_LVL, A_MODEL, "SipHash-2-4-128 modelled, not verified"]),
 "C15": dict(streams=S("tsmall","tmid","trand","twide","tdeep","tkeylen","tbig","tlong","thash","tclone","tpages","dsmall","drand","dwide", profiles=["debug","release"]), level="proof",
    theorems=[P+"C15_history", P+"C15_serialise", P+"C15_iter", P+"C15_traverse", P+"C15_diff"],
    text="Theorems: with every panic/unwrap/expect/assert/debug_assert site of the modelled code an explicit error, every history of upserts and hash requests, serialisation at every state (and Some after a hash), node iteration, traversal and the diff of any two hashed real trees return ok - no assertion is reachable. Streams run in debug (assertions on) and release profiles with catch_unwind around every operation.",
    assumptions=[A_TOTAL, A_LVL, A_MODEL, "allocation failure / stack not modelled"]),
 "C16": dict(streams=S("dsmall","drand","trand","dwide","tpages"), level="proof",
    theorems=[P+"C16_roundtrip", P+"C16_diff", P+"C16_snapshot_roundtrip", P+"C16_owned_constructor", P+"C16_snapshot_diff", P+"C16_snapshot_clone", P+"C16_snapshot_stable"],
    text="PARTIAL. page_range_snapshot.rs is modelled (Model/Snapshot.lean: OwnedPageRange with the assertion of new, PageRangeSnapshot, the four conversions, iter() re-building every range through PageRange::new, Clone/clone_from/PartialEq, and a tree that keeps a snapshot while it is written to). Theorems: rebuilding ranges from accessor values never panics and yields equal ranges; a snapshot iterates to exactly the borrowed ranges; owned ranges built through new() equal the From conversion; both collection routes agree; diff is the same with rebuilt ranges or snapshots in either argument position; clone / clone_from into any existing snapshot yield the source; and (C16_snapshot_stable) a snapshot taken from a tree in ANY reachable state keeps iterating to the page ranges the tree had at that moment under EVERY continuation of upserts, none of which panics. Not expressible in a functional model: that the Rust snapshot shares no memory with the tree (ownership / aliasing) - decided by the harness with real PageRangeSnapshot objects kept across later upserts, compared with the earlier serialisation and used in diffs, plus == between snapshots built through four routes and clone_from both ways.",
    assumptions=[A_TOTAL, A_LVL, A_MODEL, "aliasing between snapshot and tree (ownership) is not expressible in the functional model"]),
 "C17": dict(streams=S("vsmall","tsmall","tmid","trand","twide","tdeep","tkeylen","tbig"), level="proof",
    theorems=[P+"C17_iter", P+"C17_stop", P+"C17_stop_prefix", P+"C17_protocol_page", P+"C17_protocol_node", P+"C17_protocol", P+"C17_default_visitor"],
    text="Theorems (every tree, every visitor, every stop index): the node iterator yields exactly the visit_node sequence; a visitor sees exactly the full callback sequence cut after the first false; a visitor implementing only visit_node (the trait's defaults elsewhere) is never stopped and sees exactly the in-order nodes; the nesting protocol is the (6-line) definition of the trace, tied to the code by comparing every callback sequence incl. early stops, and checked independently by a grammar parser on the implementation side.",
    assumptions=[A_MODEL]),
 "C18": dict(streams=[dict(name="tcfg", profiles=["debug","release"], features=["","mst_default","mst_all"]), dict(name="tclone"),
      # the feature-gated call sites (tracing macros in diff.rs / tree.rs / page.rs, Display impls) sit on the upsert, hash and diff paths:
      dict(name="tmid", features=["mst_all"]), dict(name="drand", profiles=["debug","release"], features=["mst_all"]), dict(name="lrand", features=["mst_all"]), dict(name="srand", features=["mst_all"])], level="proof",
    theorems=[P+"C18_base_content", P+"C18_generic", P+"C18_constructors", P+"C18_api_constructors", P+"C18_api_interchangeable", P+"C18_api_three_constructors", P+"C18_api_hash_framing"],
    text="PARTIAL. Theorems: every property theorem is universally quantified over key type, digest types, level function (hasher x base) and page hasher; the base changes only the shape, never the content; equal configurations agree. The construction layer is modelled (Model/Api.lean: Builder and its setters, build, default(), new_with_hasher, Clone/clone_from, the stored hasher and base, SipHasher::default()/new(seed) over the std Hash byte streams of the key/value types, upsert(key,value) computing digests and level) and proved to refine tree-level histories: trees storing the same hasher and base, however constructed, are interchangeable under any two API histories with the same last value per key (C18_api_interchangeable). Decided by correspondence only: cargo feature sets and build profiles (tcfg stream across 3 feature sets x 2 profiles: bases, widths, key kinds, default/seeded/custom hashers, all constructors, both builder orders, clone and clone_from between differently configured trees, the digests of the stored hasher compared with the model's).",
    assumptions=[A_TOTAL, A_LVL, A_MODEL, "what std::hash::Hash writes for Vec<u8>/[u8;N]/String (length prefix / 0xff terminator) is recorded in Model/Api.lean and tied by the hdig lines", "cargo features / build profiles are decided by correspondence only"]),

}

def main():
    cfg = {}
    for pid, c in CFG.items():
        cfg[pid] = {k: c[k] for k in ("streams", "level", "theorems", "assumptions")}
        if c.get("stack_ladder"):
            cfg[pid]["stack_ladder"] = True
    json.dump(cfg, open(os.path.join(ROOT, "props_config.json"), "w"), indent=1)
    checks = []
    for pid, c in CFG.items():
        tech = ("Lean 4 kernel-checked theorems about an executable model + differential correspondence check of the model against /repo"
                if c["level"] == "proof" else
                "Lean 4 executable model + differential correspondence check against /repo (theorems in progress)")
        checks.append({
            "property_id": pid,
            "quick_cmd": f"./check {pid} --tier quick",
            "thorough_cmd": f"./check {pid} --tier thorough",
            "evidence_file": f"/verif/evidence/{pid}.json",
            "replay_cmd_template": f"./check {pid} --replay {{path}}",
            "engine": "lean4-model+correspondence",
            "level_claimed": {"category": c["level"], "text": c["text"], "design_ref": "DESIGN.md §7 " + pid},
            "level_note": "trusted: Lean kernel; axioms propext/Classical.choice/Quot.sound; hand-written model tied by the correspondence check (Rust harness, Lean driver, comparer); " + "; ".join(c["assumptions"]),
            "technique": tech,
        })
    m = {"version": 1,
         "setup_cmd": "./setup.sh",
         "hooks": {"guard": "mst_verif",
                   "enable": "no source hooks are needed: the public Visitor API and Builder::with_hasher expose every observation (DESIGN.md §1)",
                   "baseline_off_cmd": "cd /repo && cargo test --workspace --no-fail-fast --offline",
                   "source_commits": [], "add_only": True},
         "engines": [{"name": "lean4-model+correspondence", "path": "/verif/check",
                      "serves_properties": list(CFG.keys()),
                      "kind_free_text": "Lean 4 theorems about a hand-written executable model (/verif/lean) + differential correspondence check of the model against /repo (/verif/harness)"}],
         "checks": checks,
         "notes": "F1 (stale cached page digest, C02) repaired in /repo by a fix: commit; F2 (diff stack overflow on deeply nested untrusted input, C13) is a known finding. See DESIGN.md §9 and known_findings.txt.",
         "not_applicable": []}
    json.dump(m, open(os.path.join(ROOT, "MANIFEST.json"), "w"), indent=1)

if __name__ == "__main__":
    main()
