#!/bin/bash
# every registered thorough command once on the unchanged tree (machinery self-test; run under `vp run`)
./setup.sh > setup.log 2>&1 || { echo setup failed; tail setup.log; exit 2; }
for p in C13 C16 C12 C08 C07 C04 C03 C05 C06 C17 C11 C14 C09 C10 C01 C02 C18 C15; do
  s=$(date +%s)
  ./check $p --tier thorough 2>&1 | grep -E "^C[0-9]+:|VIOLATION|KNOWN|Traceback|Error" | head -8
  echo "  [$p thorough: $(( $(date +%s) - s )) s]"
done
