#!/bin/bash
# every registered thorough command once on the unchanged tree (machinery self-test; run under `vp run`)
# run with `vp run --with-repo`: works against the SNAPSHOT of /repo, so that seeding experiments in /repo
# itself cannot leak into this run (they did once: three bogus alarms)
R=${VP_RUN_REPO:?run under vp run --with-repo}
export VERIF_REPO=$R CARGO_NET_OFFLINE=true
sed -i "s#path = \"/repo\"#path = \"$R\"#" harness/Cargo.toml
[ -f $R/Cargo.lock ] || cp /repo/Cargo.lock $R/Cargo.lock
./setup.sh > setup.log 2>&1 || { echo setup failed; tail setup.log; exit 2; }
for p in C13 C16 C12 C08 C07 C04 C03 C05 C06 C17 C11 C14 C09 C10 C01 C02 C18 C15; do
  s=$(date +%s)
  ./check $p --tier thorough 2>&1 | grep -E "^C[0-9]+:|VIOLATION|KNOWN|Traceback|Error" | head -8
  echo "  [$p thorough: $(( $(date +%s) - s )) s]"
done
