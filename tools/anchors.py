#!/usr/bin/env python3
"""Source anchors: fingerprints of the modelled Rust files (non-test code, comments and
whitespace stripped) and an inventory of their panic sites. `anchors.py --write` records the
baseline the model was written against; `check` compares on every run. A difference is NOT a
violation: it widens the search (extra seeds for the random streams) and is recorded in the
evidence, so that an edit in a rarely exercised branch is met with more cases."""
import hashlib, json, os, re, sys

REPO = os.environ.get("VERIF_REPO", "/repo")   # VERIF_REPO: machinery self-tests against a scratch copy (tools/rerun_seeds_bg.sh); registered checks never set it
ROOT = os.path.dirname(os.path.dirname(os.path.abspath(__file__)))
MODELLED = ["src/page.rs", "src/node.rs", "src/tree.rs", "src/node_iter.rs", "src/diff.rs",
            "src/diff/diff_builder.rs", "src/diff/range_list.rs", "src/diff/page_range.rs",
            "src/diff/page_range_snapshot.rs", "src/digest/trait.rs", "src/digest/wrappers.rs",
            "src/digest/siphash.rs", "src/visitor/page_range_hash.rs", "src/visitor/trait.rs", "src/builder.rs"]
PANIC = re.compile(r"\b(debug_assert(?:_eq|_ne)?!|assert(?:_eq|_ne)?!|panic!|unreachable!|unimplemented!|todo!)|\.unwrap\(\)|\.expect\(")


def non_test(src):
    i = src.find("#[cfg(test)]\nmod tests")
    return src if i < 0 else src[:i]


def strip(src):
    src = re.sub(r"/\*.*?\*/", "", src, flags=re.S)
    src = re.sub(r"//[^\n]*", "", src)
    return re.sub(r"\s+", " ", src).strip()


def compute():
    out = {"files": {}, "panic_sites": {}}
    for f in MODELLED:
        p = os.path.join(REPO, f)
        if not os.path.exists(p):
            out["files"][f] = "missing"
            continue
        code = non_test(open(p).read())
        out["files"][f] = hashlib.sha256(strip(code).encode()).hexdigest()[:16]
        sites = []
        fn = "?"
        for line in re.sub(r"/\*.*?\*/", "", code, flags=re.S).splitlines():
            line = re.sub(r"//.*", "", line)
            m = re.search(r"\bfn\s+([a-zA-Z0-9_]+)", line)
            if m:
                fn = m.group(1)
            for mm in PANIC.finditer(line):
                txt = re.sub(r"\s+", " ", line.strip())[:90]
                sites.append(fn + ": " + txt)
        out["panic_sites"][f] = sites
    return out


def compare(base, cur):
    changed = [f for f in MODELLED if base["files"].get(f) != cur["files"].get(f)]
    site_diff = {}
    for f in MODELLED:
        b, c = base["panic_sites"].get(f, []), cur["panic_sites"].get(f, [])
        if sorted(b) != sorted(c):
            site_diff[f] = {"removed": sorted(set(b) - set(c)), "added": sorted(set(c) - set(b))}
    return changed, site_diff


if __name__ == "__main__":
    cur = compute()
    path = os.path.join(ROOT, "anchors.json")
    if "--write" in sys.argv:
        json.dump(cur, open(path, "w"), indent=1)
        print("baseline written:", sum(len(v) for v in cur["panic_sites"].values()), "panic sites in", len(MODELLED), "files")
    else:
        base = json.load(open(path))
        print(json.dumps(dict(zip(("changed_files", "panic_site_changes"), compare(base, cur))), indent=1))
