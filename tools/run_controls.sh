#!/bin/bash
# Every negative control must pass every check (no VIOLATION line).
cd /verif
rm -rf .cache/evidence_backup && cp -r evidence .cache/evidence_backup
for d in controls/*.diff; do
  (cd /repo && git apply /verif/$d) || { echo "$d: does not apply"; continue; }
  bad=0
  for p in ${CONTROL_PROPS:-C01 C02 C03 C04 C05 C06 C07 C08 C09 C10 C11 C12 C13 C14 C15 C16 C17 C18}; do
    out=$(./check $p 2>&1 | grep -E "VIOLATION" | head -1)
    if [ -n "$out" ]; then echo "$d [$p]: FALSE ALARM $out"; bad=1; fi
  done
  git -C /repo checkout -- .
  [ $bad -eq 0 ] && echo "$d: no alarm"
done
rm -rf evidence && mv .cache/evidence_backup evidence
