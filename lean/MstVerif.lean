import MstVerif.Model.Tree
import MstVerif.Model.Level
import MstVerif.Model.SipHash
import MstVerif.Model.Traverse
import MstVerif.Model.Diff
