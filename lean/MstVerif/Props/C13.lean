/-
C13 — Diff is total on untrusted page-range input.
(The machine stack is outside any functional model: see `C13_partial` note below and DESIGN §9, F2.)
-/
import MstVerif.Proofs.DiffList
import MstVerif.Proofs.DiffDepth
import MstVerif.Proofs.DepthTree
import Mathlib.Data.Nat.Basic

namespace Mst.Props
open Mst
variable {K D : Type} [LinearOrder K] [DecidableEq D]

/-- For ANY two finite lists of page ranges that each satisfy `start ≤ end` — any length, any
nesting, any order, arbitrary digests — `diff` terminates (the fuel, linear in the peer length,
never runs out), trips none of the `assert!`/`debug_assert!` sites of `diff.rs`, `range_list.rs`,
`diff_builder.rs`, and returns ranges that are ascending, pairwise disjoint without shared end
points, each with `start ≤ end`, whose bounds all occurred as bounds in the input.
`C13_partial`: everything the property states except stack boundedness, which no functional model
can express; the implementation's stack use is decided by the depth ladder replay (known finding F2). -/
theorem C13_partial (loc peer : List (PR K D)) (hl : PRValid loc) (hp : PRValid peer) :
    ∃ out, diff loc peer = .ok out ∧ DRChain out ∧ DRValid out ∧
      (∀ r ∈ out, IsBound r.1 (prBounds (loc ++ peer)) ∧ IsBound r.2 (prBounds (loc ++ peer))) :=
  diff_total loc peer hl hp

/-- The page-range constructor rejects exactly the inverted bounds (`assert!(start <= end)`), so
"each satisfies start ≤ end" is precisely what a caller who got its ranges through the public
constructor can rely on. -/
theorem C13_constructor (s e : K) (h : D) : (∃ r, PR.new s e h = .ok r) ↔ s ≤ e :=
  PR_new_ok_iff s e h

/-! ### The stack, as far as a functional model can carry it
`diffDepth` (Model/DiffDepth.lean) is the same walk instrumented with the number of nested
`recurse_subtree → recurse_diff` frame pairs — one Rust stack frame pair per unit. -/

/-- The instrumented walk IS the walk: forgetting the depth gives exactly `recurseDiff`. -/
theorem C13_depth_refines (fuel : Nat) (root : PR K D) (lastP : Option (PR K D))
    (peer loc : List (PR K D)) (b : Builder K) :
    (match recurseDiffD fuel root lastP peer loc b with
     | .error e => Except.error e
     | .ok (p, l, b', _) => .ok (p, l, b')) = recurseDiff fuel root lastP peer loc b :=
  recurseDiffD_erase fuel root lastP peer loc b

/-- Stack use is bounded by the input: the nesting depth never exceeds the length of the peer list. -/
theorem C13_depth_le_input (loc peer : List (PR K D)) (hl : PRValid loc) (hp : PRValid peer) :
    ∃ d, diffDepth loc peer = .ok d ∧ d ≤ peer.length :=
  diffDepth_total loc peer hl hp

/-- … and that bound is attained: a strictly nested chain of `n` ranges drives the recursion to
depth `n`. So NO fixed stack suffices for "however deeply nested" untrusted lists: the clause of
the property about the call stack is false of the algorithm as written (known finding F2); the
implementation-side replay shows the overflow at depth ≈ 12 000 on a 2 MiB stack. -/
theorem C13_depth_chain (n : Nat) (h₁ h₂ : D) (hne : h₁ ≠ h₂) :
    diffDepth (chain n h₁) (chain n h₂) = .ok n :=
  diffDepth_chain n h₁ h₂ hne

/-- The sharp form of the bound: the recursion is driven by NESTING, not by length. The depth never
exceeds the length of the longest chain `r₁ ⊇ r₂ ⊇ …` of nested ranges occurring in order in the peer
list — for any local list, any length. -/
theorem C13_depth_le_nesting (loc peer : List (PR K D)) (n : Nat)
    (hn : ∀ c : List (PR K D), c.Sublist peer → IsNestChain c → c.length ≤ n)
    (d : Nat) (hd : diffDepth loc peer = .ok d) : d ≤ n :=
  diffDepth_le_nesting loc peer n hn d hd

/-- In particular LONG FLAT lists are safe at every length: if no range of the peer list contains a
later one, the walk never nests more than one `recurse_subtree` frame pair, however long the two
lists are (the stack probes replay such lists of 10⁵ ranges on the implementation). -/
theorem C13_depth_flat (loc peer : List (PR K D))
    (hflat : peer.Pairwise (fun a b => a.supersetOf b = false))
    (d : Nat) (hd : diffDepth loc peer = .ok d) : d ≤ 1 := by
  refine diffDepth_le_nesting loc peer 1 ?_ d hd
  intro c hc hch
  match c, hc, hch with
  | [], _, _ => simp
  | [_], _, _ => simp
  | a :: b :: r, hc, hch =>
    exfalso
    have hab : a.supersetOf b = true := by
      have := hch
      simp only [IsNestChain, List.isChain_cons_cons] at this
      exact this.1
    have hp := hflat.sublist hc
    simp only [List.pairwise_cons] at hp
    have := hp.1 b (by simp)
    rw [hab] at this
    cases this

/-- Non-vacuity of `C13_depth_flat` (test): a flat peer list of three disjoint ranges. -/
example : ([⟨1, 2, 7⟩, ⟨4, 5, 7⟩, ⟨7, 9, 7⟩] : List (PR Nat Nat)).Pairwise (fun a b => a.supersetOf b = false) := by
  decide

/-- Real trees are safe: diffing against the serialisation of a real (hashed) peer tree recurses at
most (root level + 1) deep — whatever the local list is. Levels are `u8` (and < 65 for digests up to
32 bytes), so trees produced by this library can never exhaust the stack; only untrusted,
artificially nested input can (F2). -/
theorem C13_depth_real_tree {V : Type} (lvl : K → Nat) (hc : HashCfg K V D) (tP : Tree K V D)
    (hP : Hashed lvl hc tP) (L : Nat) (hL : tP.root.level? = some L)
    (loc : List (PR K D)) (d : Nat) (hd : diffDepth loc (pageRanges hc tP) = .ok d) : d ≤ L + 1 :=
  diffDepth_real_tree lvl hc tP hP L hL loc d hd

/-- Non-vacuity (test): a nested, unordered, duplicated pair of lists. -/
example : ∃ out, diff ([⟨3, 9, 1⟩, ⟨1, 20, 2⟩, ⟨3, 9, 1⟩] : List (PR Nat Nat))
    [⟨0, 30, 5⟩, ⟨2, 10, 7⟩, ⟨4, 4, 1⟩, ⟨2, 10, 7⟩] = .ok out := by
  exact (C13_partial _ _ (by simp [PRValid]) (by simp [PRValid])).imp fun _ h => h.1

end Mst.Props
