/-
C06 — Under any schedule of writes and pulls, replicas converge once writes stop.
Scope notes (DESIGN §7 C06): (i) join merge — under peer-wins with ≥ 3 replicas a fair pull
sequence that never converges exists at the store level whatever the tree does, so convergence
under every continuation is not a property the library could have for that merge (two-replica
peer-wins is C05); (ii) pulls are atomic in the theorem; stale in-flight snapshots are exercised
by the `srand` correspondence stream.
-/
import MstVerif.Proofs.SyncN
import MstVerif.Proofs.PeerWins3
import MstVerif.Proofs.SyncStale

namespace Mst.Props
open Mst
variable {K V D : Type} [LinearOrder K] [LinearOrder V] [DecidableEq D]

/-- Refinement, for ANY number of replicas, ANY schedule over {write, pull}, either merge rule:
no operation panics and every replica's incrementally maintained tree — with whatever cache state
its own history of hashing left — satisfies the tree invariant and mirrors its store at every step. -/
theorem C06_refine (lvl : K → Nat) (hlvl : ∀ k, lvl k < 255) (hc : HashCfg K V D) (m : Merge)
    (n : Nat) (ops : List (SyncOp K V)) :
    ∃ rs, syncRun lvl hc m (freshReplicas n : List (Replica K V D)) ops = .ok rs ∧
      rs.length = n ∧ ∀ r ∈ rs, RInv lvl hc r := by
  have h0 : ∀ r ∈ (freshReplicas n : List (Replica K V D)), RInv lvl hc r := by
    intro r hr
    simp only [freshReplicas, List.mem_replicate] at hr
    rw [hr.2]; exact Replica.empty_inv lvl hc
  obtain ⟨rs, h1, h2, h3⟩ := syncRun_inv lvl hlvl hc m _ h0 ops
  exact ⟨rs, h1, by simpa [freshReplicas] using h2, h3⟩

/-- Safety under the join merge: nothing written is lost and nothing is invented — every replica
holds at most the join of everything written, and for every key that join is held by some replica. -/
theorem C06_safe (lvl : K → Nat) (hlvl : ∀ k, lvl k < 255) (hc : HashCfg K V D)
    (n : Nat) (ops : List (SyncOp K V))
    (hw : ∀ op ∈ ops, match op with | .write r _ _ => r < n | .pull i j => i < n ∧ j < n) :
    ∃ rs, syncRun lvl hc .joinMax (freshReplicas n : List (Replica K V D)) ops = .ok rs ∧ rs.length = n ∧
      (∀ r ∈ rs, ∀ k, optLe (lookupKV k r.store) (written ops k)) ∧
      (∀ k v, written ops k = some v → ∃ r ∈ rs, lookupKV k r.store = some v) :=
  syncRun_safe lvl hlvl hc n ops hw

/-- Liveness: once writes stop, every continuation that keeps pulling between all pairs
(`n·|ops| + 1` sweeps, each containing every ordered pair, in any order, with any extra pulls)
reaches a state where all replicas hold exactly the join of everything ever written and report
the same root hash. -/
theorem C06_live (lvl : K → Nat) (hlvl : ∀ k, lvl k < 255) (hc : HashCfg K V D)
    (hnc : NoCollisions hc) (n : Nat) (ops : List (SyncOp K V))
    (hw : ∀ op ∈ ops, match op with | .write r _ _ => r < n | .pull i j => i < n ∧ j < n)
    (sweeps : List (List (SyncOp K V))) (hs : ∀ s ∈ sweeps, IsSweep n s)
    (hlen : n * ops.length + 1 ≤ sweeps.length) :
    ∃ rs, syncRun lvl hc .joinMax (freshReplicas n : List (Replica K V D)) (ops ++ sweeps.flatten) = .ok rs ∧
      rs.length = n ∧
      (∀ r ∈ rs, ∀ k, lookupKV k r.store = written ops k) ∧
      (∀ r₁ ∈ rs, ∀ r₂ ∈ rs, r₁.store = r₂.store ∧
        (r₁.tree.genRootHash hc).rootHash = (r₂.tree.genRootHash hc).rootHash) :=
  syncRun_live lvl hlvl hc hnc n ops hw sweeps hs hlen

/-! ### Stale in-flight snapshots (scope note (ii) lifted)
`SyncOp2` (Model/Sync.lean) adds `hash r` and `fetchStale recv send ranges`: the receiver absorbs the
sender's CURRENT entries inside ARBITRARY ranges — which subsumes every pull whose ranges were
computed from snapshots taken earlier, partially applied, duplicated or reordered. -/

/-- Refinement with stale fetches, any merge rule: no panic, every tree mirrors its store. -/
theorem C06_refine_stale (lvl : K → Nat) (hlvl : ∀ k, lvl k < 255) (hc : HashCfg K V D) (m : Merge)
    (rs : List (Replica K V D)) (hrs : ∀ r ∈ rs, RInv lvl hc r) (ops : List (SyncOp2 K V)) :
    ∃ rs', syncRun2 lvl hc m rs ops = .ok rs' ∧ rs'.length = rs.length ∧ ∀ r ∈ rs', RInv lvl hc r :=
  syncRun2_inv lvl hlvl hc m rs hrs ops

/-- Safety with stale fetches (join): nothing is lost, nothing invented. -/
theorem C06_safe_stale (lvl : K → Nat) (hlvl : ∀ k, lvl k < 255) (hc : HashCfg K V D)
    (n : Nat) (ops : List (SyncOp2 K V))
    (hw : ∀ op ∈ ops, match op with | .write r _ _ => r < n | _ => True) :
    ∃ rs, syncRun2 lvl hc .joinMax (freshReplicas n : List (Replica K V D)) ops = .ok rs ∧ rs.length = n ∧
      (∀ r ∈ rs, RInv lvl hc r) ∧
      (∀ r ∈ rs, ∀ k, optLe (lookupKV k r.store) (written2 ops k)) ∧
      (∀ k v, written2 ops k = some v → ∃ r ∈ rs, lookupKV k r.store = some v) :=
  syncRun2_safe lvl hlvl hc n ops hw

/-- Liveness after ANY schedule including stale fetches: enough fair sweeps of fresh pulls bring
every replica to the join of everything written, with equal root hashes. -/
theorem C06_live_stale (lvl : K → Nat) (hlvl : ∀ k, lvl k < 255) (hc : HashCfg K V D)
    (hnc : NoCollisions hc) (n : Nat) (ops : List (SyncOp2 K V))
    (hw : ∀ op ∈ ops, match op with | .write r _ _ => r < n | _ => True)
    (sweeps : List (List (SyncOp K V))) (hs : ∀ s ∈ sweeps, IsSweep n s)
    (hlen : n * countWrites2 ops + 1 ≤ sweeps.length) :
    ∃ rs₀ rs, syncRun2 lvl hc .joinMax (freshReplicas n : List (Replica K V D)) ops = .ok rs₀ ∧
      syncRun lvl hc .joinMax rs₀ sweeps.flatten = .ok rs ∧ rs.length = n ∧
      (∀ r ∈ rs, ∀ k, lookupKV k r.store = written2 ops k) ∧
      (∀ r₁ ∈ rs, ∀ r₂ ∈ rs, r₁.store = r₂.store ∧
        (r₁.tree.genRootHash hc).rootHash = (r₂.tree.genRootHash hc).rootHash) :=
  syncRun2_live lvl hlvl hc hnc n ops hw sweeps hs hlen

/-- Scope note (i) as a theorem: under PEER-WINS with three replicas a fair schedule — every ordered
pair of replicas pulls in every period — never converges: after the three initial writes and any
number of periods two different values are still present. Hence the convergence clause of the
property cannot hold for peer-wins with ≥ 3 replicas, whatever the library does; it is proved for
the join merge (`C06_live`) and, for two replicas, for peer-wins as well (`C05_rounds`). -/
theorem C06_peerWins_three_replicas_counterexample (n : Nat) :
    IsSweep 3 pwCycle ∧
    ∃ rs : List (Replica Nat Nat (List UInt8)),
      syncRun lvl0 perfectCfg .peerWins (freshReplicas 3) (pwStart ++ (List.replicate n pwCycle).flatten) = .ok rs ∧
      rs.length = 3 ∧ ∃ r₁ ∈ rs, ∃ r₂ ∈ rs, r₁.store ≠ r₂.store :=
  ⟨pwCycle_isSweep, peerWins_fair_schedule_never_converges n⟩

end Mst.Props
