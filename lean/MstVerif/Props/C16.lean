/-
C16 — Owned snapshots and wire round-trips are equivalent to borrowed page ranges.
`src/diff/page_range_snapshot.rs` is modelled in `Model/Snapshot.lean`: `OwnedPageRange` (with the
assertion of `new`), `PageRangeSnapshot`, the four conversions, `iter()` (which rebuilds every range
through `PageRange::new` and so re-asserts `start <= end`), the derived `Clone` / `clone_from` /
`PartialEq`, and a tree that keeps a snapshot while it is written to (`Served`).
What a functional model cannot express is ALIASING: that the Rust snapshot shares no memory with the
tree is a fact about ownership (the snapshot clones the keys), decided by the `snap` correspondence
stream with real `PageRangeSnapshot` objects kept across later upserts (DESIGN §7 C16); the theorems
below prove everything else — in particular that the snapshot VALUE taken from a reachable tree keeps
yielding the page ranges of the tree as it was, for every continuation of upserts.
-/
import MstVerif.Proofs.DiffList
import MstVerif.Proofs.Snapshot

namespace Mst.Props
open Mst
variable {K D : Type} [LinearOrder K] [DecidableEq D]

/-- `PageRange::new(start(), end(), hash().clone())` over a whole list / `PageRangeSnapshot::iter`. -/
def rebuild : List (PR K D) → Except String (List (PR K D))
  | [] => .ok []
  | r :: rs =>
    match PR.new r.start r.end_ r.hash, rebuild rs with
    | .ok r', .ok rs' => .ok (r' :: rs')
    | .error e, _ => .error e
    | _, .error e => .error e

omit [DecidableEq D] in
/-- Rebuilding well-formed ranges from their accessor values never panics and returns ranges equal
to the originals. -/
theorem C16_roundtrip (l : List (PR K D)) (h : PRValid l) : rebuild l = .ok l := by
  induction l with
  | nil => rfl
  | cons r rs ih =>
    have hr : r.start ≤ r.end_ := h r (by simp)
    have ih' := ih (fun x hx => h x (by simp [hx]))
    simp [rebuild, PR.new, hr, ih']

/-- Hence the diff result is the same with rebuilt/owned ranges in either argument position. -/
theorem C16_diff (l p : List (PR K D)) (hl : PRValid l) (hp : PRValid p) :
    ∀ l' p', rebuild l = .ok l' → rebuild p = .ok p' →
      diff l' p' = diff l p ∧ diff l' p = diff l p ∧ diff l p' = diff l p := by
  intro l' p' h1 h2
  rw [C16_roundtrip l hl] at h1
  rw [C16_roundtrip p hp] at h2
  cases h1; cases h2
  exact ⟨rfl, rfl, rfl⟩

/-! ### Owned ranges and snapshots (`Model/Snapshot.lean`) -/

omit [DecidableEq D] in
/-- An owned snapshot of well-formed ranges iterates to exactly those ranges, without panicking;
the route through `OwnedPageRange::new` on the accessor values gives the same owned ranges as
`From<PageRange>`, and the two ways of collecting a snapshot agree (also under `==`). -/
theorem C16_snapshot_roundtrip (l : List (PR K D)) (h : PRValid l) :
    (Snapshot.ofRanges l).iter = .ok l ∧
    (∀ r ∈ l, OwnedPR.new r.start r.end_ r.hash = .ok (OwnedPR.ofPR r)) ∧
    Snapshot.ofOwned (l.map OwnedPR.ofPR) = Snapshot.ofRanges l :=
  ⟨Snapshot.iter_ofRanges l h, fun r hr => OwnedPR.new_of_valid r (h r hr), rfl⟩

omit [DecidableEq D] in
/-- `OwnedPageRange::new` rejects exactly `start > end`. -/
theorem C16_owned_constructor (s e : K) (h : D) : (∃ o, OwnedPR.new s e h = .ok o) ↔ s ≤ e :=
  OwnedPR.new_ok_iff s e h

/-- The diff computed from snapshots (either or both sides) is the diff of the borrowed ranges. -/
theorem C16_snapshot_diff (l p : List (PR K D)) (hl : PRValid l) (hp : PRValid p) :
    ∀ l' p', (Snapshot.ofRanges l).iter = .ok l' → (Snapshot.ofRanges p).iter = .ok p' →
      diff l' p' = diff l p ∧ diff l' p = diff l p ∧ diff l p' = diff l p := by
  intro l' p' h1 h2
  rw [Snapshot.iter_ofRanges l hl] at h1
  rw [Snapshot.iter_ofRanges p hp] at h2
  cases h1; cases h2
  exact ⟨rfl, rfl, rfl⟩

omit [LinearOrder K] [DecidableEq D] in
/-- `clone` and `clone_from` (into ANY existing snapshot, longer or shorter) yield the source. -/
theorem C16_snapshot_clone (dst src : Snapshot K D) : src.clone = src ∧ dst.cloneFrom src = src :=
  ⟨rfl, rfl⟩

/-- A snapshot keeps describing the tree as it was when taken: take a snapshot of a tree in ANY
reachable state (hash, serialise, own), then run ANY continuation of upserts — nothing panics, the
snapshot is untouched, and iterating it still yields exactly the page ranges the tree had when the
snapshot was taken (while the tree itself has moved on: its serialisation is unavailable until the
next hash request, C02). -/
theorem C16_snapshot_stable {V : Type} (lvl : K → Nat) (hlvl : ∀ k, lvl k < 255) (hc : HashCfg K V D)
    (s : Served K V D) (hi : Inv lvl hc s.tree) (ops : List (K × V)) :
    ∃ s₁ s₂, s.take hc = .ok s₁ ∧ s₁.upserts lvl ops = .ok s₂ ∧
      s₂.snap = s₁.snap ∧
      (∃ sn, s₂.snap = some sn ∧ sn.iter = .ok (pageRanges hc (s.tree.genRootHash hc))) ∧
      s₁.tree.serialise = .ok (some (pageRanges hc (s.tree.genRootHash hc))) := by
  obtain ⟨s₁, h1, ht, hsn, hh⟩ := Served.take_spec lvl hc s hi
  obtain ⟨s₂, h2, hkeep, -⟩ := Served.upserts_snap lvl hlvl hc ops s₁ hh.inv
  refine ⟨s₁, s₂, h1, h2, hkeep, ⟨_, hkeep.trans hsn, ?_⟩, ?_⟩
  · exact Snapshot.iter_ofRanges _ (pageRanges_valid lvl hc _ (ht ▸ hh))
  · rw [ht] at hh ⊢
    exact serialise_eq_pageRanges lvl hc _ hh

/-- Non-vacuity (test): a snapshot of two ranges round-trips. -/
example : (Snapshot.ofRanges ([⟨1, 5, 7⟩, ⟨2, 2, 9⟩] : List (PR Nat Nat))).iter = .ok [⟨1, 5, 7⟩, ⟨2, 2, 9⟩] := by
  decide

end Mst.Props
