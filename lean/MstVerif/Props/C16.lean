/-
C16 — Owned snapshots and wire round-trips are equivalent to borrowed page ranges.
In a functional model a page range is a value `(start, end, digest)`: borrowed ranges, ranges
rebuilt from their accessor values and owned snapshots are the same value, so equality and
`diff` congruence hold by construction. What remains to prove is that rebuilding never panics.
"A snapshot keeps describing the tree as it was" is ownership/aliasing — modelled, not proved;
it is decided by the `snap` correspondence stream (DESIGN §7 C16).
-/
import MstVerif.Proofs.DiffList

namespace Mst.Props
open Mst
variable {K D : Type} [LinearOrder K] [DecidableEq D]

/-- `PageRange::new(start(), end(), hash().clone())` over a whole list / `PageRangeSnapshot::iter`. -/
def rebuild : List (PR K D) → Except String (List (PR K D))
  | [] => .ok []
  | r :: rs =>
    match PR.new r.start r.end_ r.hash, rebuild rs with
    | .ok r', .ok rs' => .ok (r' :: rs')
    | .error e, _ => .error e
    | _, .error e => .error e

omit [DecidableEq D] in
/-- Rebuilding well-formed ranges from their accessor values never panics and returns ranges equal
to the originals. -/
theorem C16_roundtrip (l : List (PR K D)) (h : PRValid l) : rebuild l = .ok l := by
  induction l with
  | nil => rfl
  | cons r rs ih =>
    have hr : r.start ≤ r.end_ := h r (by simp)
    have ih' := ih (fun x hx => h x (by simp [hx]))
    simp [rebuild, PR.new, hr, ih']

/-- Hence the diff result is the same with rebuilt/owned ranges in either argument position. -/
theorem C16_diff (l p : List (PR K D)) (hl : PRValid l) (hp : PRValid p) :
    ∀ l' p', rebuild l = .ok l' → rebuild p = .ok p' →
      diff l' p' = diff l p ∧ diff l' p = diff l p ∧ diff l p' = diff l p := by
  intro l' p' h1 h2
  rw [C16_roundtrip l hl] at h1
  rw [C16_roundtrip p hp] at h2
  cases h1; cases h2
  exact ⟨rfl, rfl, rfl⟩

end Mst.Props
