/-
C15 — No operation on a tree panics, for any history.
The model is the debug-assertions-ON semantics: every `panic!/unwrap/expect/assert!/debug_assert!`
site of the modelled Rust is an `Except.error`; `= .ok _` therefore says none of them is reachable
(release builds have a subset of these sites).
-/
import MstVerif.Proofs.Reach

namespace Mst.Props
open Mst
variable {K V D : Type} [LinearOrder K] [DecidableEq D]

/-- Upserting and hashing: every history runs to completion without tripping an assertion. -/
theorem C15_history (lvl : K → Nat) (hlvl : ∀ k, lvl k < 255) (hc : HashCfg K V D)
    (ops : List (Op K V)) : ∃ t, run lvl hc ops = .ok t := by
  obtain ⟨t, r, _, _⟩ := run_inv lvl hlvl hc ops
  exact ⟨t, r⟩

/-- Serialising, at every reachable state: `None` without panic before a hash request, and after a
hash request it always succeeds (the `expect("… prior hash regeneration")` and the
`min_key`/`max_key` unwraps are unreachable). -/
theorem C15_serialise (lvl : K → Nat) (hlvl : ∀ k, lvl k < 255) (hc : HashCfg K V D)
    (ops : List (Op K V)) :
    (∃ t r, run lvl hc ops = .ok t ∧ t.serialise = .ok r) ∧
    (∃ t l, run lvl hc (ops ++ [.hash]) = .ok t ∧ t.serialise = .ok (some l)) := by
  constructor
  · obtain ⟨t, r, i, _⟩ := run_inv lvl hlvl hc ops
    cases hrh : t.rootHash with
    | none => exact ⟨t, none, r, serialise_none t hrh⟩
    | some d =>
      obtain ⟨l, hl, _⟩ := serialise_spec lvl hc t i (by simp [hrh])
      exact ⟨t, some l, r, hl⟩
  · obtain ⟨t, r, hh, _⟩ := hashed_of_run lvl hlvl hc ops
    exact ⟨t, pageRanges hc t, r, serialise_eq_pageRanges lvl hc t hh⟩

/-- Iterating: the node iterator never trips `assert!(n.lt_pointer().is_some())` — on any tree. -/
theorem C15_iter (p : Pg K V D) : ∃ l, iterAll p = .ok l := ⟨_, iterAll_eq_content p⟩

/-- Traversing is a total function in the model (`tracePg`/`runPg` cannot fail); nothing to prove
beyond their definitions being total, which Lean's termination checker established. -/
theorem C15_traverse {σ : Type} (vis : σ → Event K V D → σ × Bool) (p : Pg K V D) (s : σ) :
    ∃ r, runPg vis false p s = r := ⟨_, rfl⟩

/-- Diffing real trees never panics. -/
theorem C15_diff (lvl : K → Nat) (hc : HashCfg K V D) (tL tP : Tree K V D)
    (hL : Hashed lvl hc tL) (hP : Hashed lvl hc tP) :
    ∃ out, diff (pageRanges hc tL) (pageRanges hc tP) = .ok out := by
  obtain ⟨out, h, _⟩ := diff_trees_ok lvl hc tL tP hL hP
  exact ⟨out, h⟩

end Mst.Props
