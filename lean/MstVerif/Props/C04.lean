/-
C04 — No false convergence: empty diffs in both directions imply equal content.
-/
import MstVerif.Proofs.Reach

namespace Mst.Props
open Mst
variable {K V D : Type} [LinearOrder K] [DecidableEq D]

/-- If diffing A against B and B against A both return no ranges, A and B hold exactly the same
keys with the same value digests — for every pair of hashed real trees (overlapping, nested,
partially overlapping, disjoint spans, empty trees), every level structure; up to collisions of
the page digest. -/
theorem C04 (lvl : K → Nat) (hc : HashCfg K V D) (tA tB : Tree K V D)
    (hA : Hashed lvl hc tA) (hB : Hashed lvl hc tB)
    (hcf : CollisionFree hc (tA.root.allToks hc ++ tB.root.allToks hc))
    (h1 : diff (pageRanges hc tA) (pageRanges hc tB) = .ok [])
    (h2 : diff (pageRanges hc tB) (pageRanges hc tA) = .ok []) :
    tA.root.content = tB.root.content :=
  no_false_convergence lvl hc tA tB hA hB hcf h1 h2

/-- Equivalently: whenever two replicas differ, at least one direction reports a range. -/
theorem C04_some_direction (lvl : K → Nat) (hc : HashCfg K V D) (tA tB : Tree K V D)
    (hA : Hashed lvl hc tA) (hB : Hashed lvl hc tB)
    (hcf : CollisionFree hc (tA.root.allToks hc ++ tB.root.allToks hc))
    (hne : tA.root.content ≠ tB.root.content) :
    (∃ r out, diff (pageRanges hc tA) (pageRanges hc tB) = .ok (r :: out)) ∨
    (∃ r out, diff (pageRanges hc tB) (pageRanges hc tA) = .ok (r :: out)) := by
  obtain ⟨o1, e1, _, _⟩ := diff_trees_ok lvl hc tA tB hA hB
  obtain ⟨o2, e2, _, _⟩ := diff_trees_ok lvl hc tB tA hB hA
  cases o1 with
  | cons r out => exact Or.inl ⟨r, out, e1⟩
  | nil =>
    cases o2 with
    | cons r out => exact Or.inr ⟨r, out, e2⟩
    | nil => exact absurd (C04 lvl hc tA tB hA hB hcf e1 e2) hne

/-- Every reported range starts at a key the peer really holds, so a non-empty diff always
fetches at least one key. -/
theorem C04_start_held (lvl : K → Nat) (hc : HashCfg K V D) (tL tP : Tree K V D)
    (hL : Hashed lvl hc tL) (hP : Hashed lvl hc tP) (out : List (DR K))
    (h : diff (pageRanges hc tL) (pageRanges hc tP) = .ok out) :
    ∀ r ∈ out, r.1 ∈ tP.root.keys ∧ DR.mem r.1 r := by
  intro r hr
  obtain ⟨o, e, _, hv⟩ := diff_trees_ok lvl hc tL tP hL hP
  rw [h] at e
  cases e
  exact ⟨(diff_trees_confined lvl hc tL tP hL hP out h r hr).1, le_refl _, hv r hr⟩

/-- For histories: if the two real serialisations diff to nothing in both directions, the two
last-write-wins maps are equal. -/
theorem C04_histories (lvl : K → Nat) (hlvl : ∀ k, lvl k < 255) (hc : HashCfg K V D)
    (hnc : ∀ p q : Pg K V D, CollisionFree hc (p.allToks hc ++ q.allToks hc))
    (opsA opsB : List (Op K V)) :
    ∃ tA tB lA lB, run lvl hc (opsA ++ [.hash]) = .ok tA ∧ run lvl hc (opsB ++ [.hash]) = .ok tB ∧
      tA.serialise = .ok (some lA) ∧ tB.serialise = .ok (some lB) ∧
      (diff lA lB = .ok [] → diff lB lA = .ok [] → finalContent opsA = finalContent opsB) := by
  obtain ⟨tA, rA, hA, cA⟩ := hashed_of_run lvl hlvl hc opsA
  obtain ⟨tB, rB, hB, cB⟩ := hashed_of_run lvl hlvl hc opsB
  refine ⟨tA, tB, _, _, rA, rB, serialise_eq_pageRanges lvl hc tA hA, serialise_eq_pageRanges lvl hc tB hB, ?_⟩
  intro h1 h2
  rw [← cA, ← cB]
  exact C04 lvl hc tA tB hA hB (hnc _ _) h1 h2

end Mst.Props
