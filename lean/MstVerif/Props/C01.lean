/-
C01 — Root hash and page ranges depend only on final content, not on history.
Property theorems only; helper lemmas live in `MstVerif/Proofs`.
-/
import MstVerif.Proofs.History
import MstVerif.Proofs.Traverse
import Mathlib.Data.Nat.Basic

namespace Mst.Props
open Mst
variable {K V D : Type} [LinearOrder K]

/-- Any two histories (any key order, duplicates, overwrites, hash requests anywhere) with the same
last-write-wins map run without panic and — once the hash is requested — yield the *identical*
observable tree: same shape, same cached digest on every page, same root hash, same page-range
serialisation. Quantified over every level assignment `lvl` (hasher + base) and page hasher `hc`. -/
theorem C01 (lvl : K → Nat) (hlvl : ∀ k, lvl k < 255) (hc : HashCfg K V D)
    (ops₁ ops₂ : List (Op K V)) (h : ∀ k, lastWrite ops₁ k = lastWrite ops₂ k) :
    ∃ t₁ t₂, run lvl hc ops₁ = .ok t₁ ∧ run lvl hc ops₂ = .ok t₂ ∧
      t₁.root.erase = t₂.root.erase ∧
      t₁.genRootHash hc = t₂.genRootHash hc ∧
      (t₁.genRootHash hc).rootHash = (t₂.genRootHash hc).rootHash ∧
      (t₁.genRootHash hc).serialise = (t₂.genRootHash hc).serialise := by
  obtain ⟨t₁, r₁, i₁, c₁⟩ := run_inv lvl hlvl hc ops₁
  obtain ⟨t₂, r₂, i₂, c₂⟩ := run_inv lvl hlvl hc ops₂
  have hcont : t₁.root.content = t₂.root.content := by
    rw [c₁, c₂, finalContent_ext ops₁ ops₂ h]
  have her : t₁.root.erase = t₂.root.erase := root_unique lvl _ _ i₁.shape i₂.shape hcont
  obtain ⟨_, g₁, _, e₁, cl₁⟩ := genRootHash_inv lvl hc t₁ i₁
  obtain ⟨_, g₂, _, e₂, cl₂⟩ := genRootHash_inv lvl hc t₂ i₂
  have hroot : (t₁.genRootHash hc).root = (t₂.genRootHash hc).root :=
    clean_eq_of_erase_eq hc _ _ cl₁ cl₂ (by rw [e₁, e₂, her])
  have hrh : (t₁.genRootHash hc).rootHash = (t₂.genRootHash hc).rootHash := by
    rw [g₁, g₂, ← trueHash_erase hc t₁.root, ← trueHash_erase hc t₂.root, her]
  have heq : t₁.genRootHash hc = t₂.genRootHash hc := by
    cases h₁ : t₁.genRootHash hc with
    | mk ra ha =>
      cases h₂ : t₂.genRootHash hc with
      | mk rb hb =>
        rw [h₁, h₂] at hroot hrh
        simp only at hroot hrh
        rw [hroot, hrh]
  exact ⟨t₁, t₂, r₁, r₂, her, heq, hrh, by rw [heq]⟩

/-- Non-vacuity (a test, not part of the claim): two different histories over three keys on three
levels, one with an intermediate hash request, reach the same map. -/
example : ∃ ops₁ ops₂ : List (Op Nat Nat), ops₁ ≠ ops₂ ∧ ∀ k, lastWrite ops₁ k = lastWrite ops₂ k :=
  ⟨[.ups 1 10, .ups 3 30, .hash, .ups 2 20, .ups 1 11], [.ups 2 20, .ups 1 11, .ups 3 30],
   by simp, by intro k; simp only [lastWrite, lastWriteFrom]; grind⟩

end Mst.Props
