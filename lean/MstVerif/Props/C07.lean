/-
C07 — One pull is complete when the peer's key span covers the local span.
-/
import MstVerif.Proofs.Reach

namespace Mst.Props
open Mst
variable {K V D : Type} [LinearOrder K] [DecidableEq D]

/-- If the peer's smallest and largest keys enclose all local keys (`SpanCovers`; vacuously true
for an empty local tree; equal spans included), then every entry the peer holds that the local
tree lacks or holds with a different value digest lies inside one of the returned ranges — for
every pair of hashed real trees, every level structure, every placement of the differing keys,
up to collisions of the page digest. -/
theorem C07 (lvl : K → Nat) (hc : HashCfg K V D) (tL tP : Tree K V D)
    (hL : Hashed lvl hc tL) (hP : Hashed lvl hc tP)
    (hcf : CollisionFree hc (tL.root.allToks hc ++ tP.root.allToks hc))
    (hspan : SpanCovers tL tP)
    (kv : K × V) (hkv : kv ∈ tP.root.content) (hdiff : kv ∉ tL.root.content) :
    ∃ out, diff (pageRanges hc tL) (pageRanges hc tP) = .ok out ∧ Covered kv.1 out :=
  diff_trees_complete lvl hc tL tP hL hP hcf hspan kv hkv hdiff

/-- An empty replica obtains the peer's entire key span in a single diff (no collision hypothesis
needed). -/
theorem C07_empty_local (lvl : K → Nat) (hc : HashCfg K V D) (tL tP : Tree K V D)
    (hL : Hashed lvl hc tL) (hP : Hashed lvl hc tP) (he : tL.root.content = [])
    (a z : K × V) (ha : tP.root.content.head? = some a) (hz : tP.root.content.getLast? = some z) :
    diff (pageRanges hc tL) (pageRanges hc tP) = .ok [(a.1, z.1)] :=
  diff_trees_local_empty lvl hc tL tP hL hP he a z ha hz

/-- The same for every pair of HISTORIES (any order, overwrites, intermediate hash requests), each
followed by the hash request serialisation needs: the diff of the two real serialisations covers
every entry of the peer's final map that the local final map lacks or holds with another digest. -/
theorem C07_histories (lvl : K → Nat) (hlvl : ∀ k, lvl k < 255) (hc : HashCfg K V D)
    (hnc : ∀ p q : Pg K V D, CollisionFree hc (p.allToks hc ++ q.allToks hc))
    (opsL opsP : List (Op K V))
    (hspan : ∀ x ∈ (finalContent opsL).map Prod.fst,
      (∃ a ∈ (finalContent opsP).map Prod.fst, a ≤ x) ∧ (∃ b ∈ (finalContent opsP).map Prod.fst, x ≤ b))
    (kv : K × V) (hkv : kv ∈ finalContent opsP) (hdiff : kv ∉ finalContent opsL) :
    ∃ tL tP lL lP out, run lvl hc (opsL ++ [.hash]) = .ok tL ∧ run lvl hc (opsP ++ [.hash]) = .ok tP ∧
      tL.serialise = .ok (some lL) ∧ tP.serialise = .ok (some lP) ∧
      diff lL lP = .ok out ∧ Covered kv.1 out := by
  obtain ⟨tL, rL, hL, cL⟩ := hashed_of_run lvl hlvl hc opsL
  obtain ⟨tP, rP, hP, cP⟩ := hashed_of_run lvl hlvl hc opsP
  have hsp : SpanCovers tL tP := by
    intro x hx
    simp only [Pg.keys, cL, cP] at hx ⊢
    exact hspan x hx
  obtain ⟨out, h1, h2⟩ := C07 lvl hc tL tP hL hP (hnc _ _) hsp kv (by rw [cP]; exact hkv) (by rw [cL]; exact hdiff)
  exact ⟨tL, tP, _, _, out, rL, rP, serialise_eq_pageRanges lvl hc tL hL,
    serialise_eq_pageRanges lvl hc tP hP, h1, h2⟩

end Mst.Props
