/-
C17 — Traversal APIs agree and honour the visitor protocol.
-/
import MstVerif.Proofs.Traverse
import MstVerif.Proofs.Protocol

namespace Mst.Props
open Mst
variable {K V D : Type}

/-- The node iterator yields exactly the nodes an in-order traversal visits (its `visit_node`
callbacks), in the same order — for EVERY tree, no invariant needed; the iterator never trips its
assertion. -/
theorem C17_iter (p : Pg K V D) :
    iterAll p = .ok ((tracePg false p).filterMap Event.node?) := by
  rw [trace_visitNodes]; exact iterAll_eq_content p

/-- For every visitor (any state machine answering `false` at any callback), the callbacks it
receives are exactly the full traversal cut right after the first callback that returned `false`:
the traversal stops at once and what was seen is a prefix of the full traversal. -/
theorem C17_stop {σ : Type} (vis : σ → Event K V D → σ × Bool) (p : Pg K V D) (s : σ) :
    runPg vis false p s = foldUntil vis s (tracePg false p) :=
  runPg_eq_foldUntil vis false p s

/-- In particular, for the recording visitor asked to stop at callback index `n`: it has seen
exactly the first `n+1` callbacks of the full traversal. -/
theorem C17_stop_prefix (n : Nat) (p : Pg K V D) :
    runRecorded (some n) p = (tracePg false p).take (n + 1) := by
  simpa using runRecorded_eq_take (some n) p

/-- The nesting protocol is the definition of the full traversal, stated outright:
page entry, then per key: pre-visit, the key's lower subtree (not flagged), visit, post-visit;
then page exit; then — flagged as reached through a high-page link — the high page. -/
theorem C17_protocol_page (high : Bool) (L : Nat) (c : Option D) (n : Nd K V D) (h : Pg K V D) :
    tracePg high (.some L c n h) =
      [Event.visitPage L c n.length high] ++ traceNd n ++ [Event.postPage L] ++ tracePg true h := by
  simp [tracePg]

theorem C17_protocol_node (lt : Pg K V D) (k : K) (v : V) (tl : Nd K V D) :
    traceNd (.cons lt k v tl) =
      [Event.preNode k v] ++ tracePg false lt ++ [Event.visitNode k v, Event.postNode k v] ++ traceNd tl := by
  simp [traceNd]

/-- The nesting protocol as an independent grammar (`IsPageTrace`, Protocol.lean): the full callback
sequence of every traversal is: page entry (flagged iff reached through a high-page link), then
for each of the page's keys pre-visit / the key's lower subtree (an unflagged page trace, if any) /
visit / post-visit, then page exit, then the flagged trace of the high page, if any. -/
theorem C17_protocol (high : Bool) (p : Pg K V D) : IsOptPageTrace high (tracePg high p) :=
  tracePg_wellformed high p

/-- The visitor most users write: it implements only the required `visit_node` (collecting the
nodes) and relies on the trait's DEFAULT implementations — no-ops returning `true` — for
`pre_visit_node`, `post_visit_node`, `visit_page` and `post_visit_page`. -/
def minimalVis : List (K × V) → Event K V D → List (K × V) × Bool :=
  fun acc e => (match Event.node? e with | some kv => acc ++ [kv] | none => acc, true)

theorem foldUntil_minimalVis (acc : List (K × V)) (l : List (Event K V D)) :
    foldUntil minimalVis acc l = (acc ++ l.filterMap Event.node?, true) := by
  induction l generalizing acc with
  | nil => simp [foldUntil]
  | cons e es ih =>
    unfold foldUntil
    cases h : Event.node? e with
    | none => simp [minimalVis, h, ih]
    | some kv => simp [minimalVis, h, ih, List.append_assoc]

/-- Such a visitor is never stopped early and sees exactly the in-order nodes of the tree — the same
sequence the node iterator yields — for every tree. -/
theorem C17_default_visitor (p : Pg K V D) :
    runPg minimalVis false p [] = (p.content, true) ∧ iterAll p = .ok p.content := by
  refine ⟨?_, iterAll_eq_content p⟩
  rw [runPg_eq_foldUntil, foldUntil_minimalVis, List.nil_append, tracePg_visitNodes]

/-- Non-vacuity (test): a two-level tree with a high page; stop index 3. -/
example :
    runRecorded (some 3)
      (Pg.some 1 none (.cons (.some 0 none (.cons .none 1 10 .nil) .none) 2 20 .nil)
        (.some 0 none (.cons .none 3 30 .nil) .none) : Pg Nat Nat Nat)
      = [.visitPage 1 none 1 false, .preNode 2 20, .visitPage 0 none 1 false, .preNode 1 10] := by
  decide

end Mst.Props
