/-
C12 — Diff output is sorted, disjoint, well-formed and confined to the peer's span.
-/
import MstVerif.Proofs.Reach

namespace Mst.Props
open Mst
variable {K V D : Type} [LinearOrder K] [DecidableEq D]

/-- For ARBITRARY page-range lists with `start ≤ end`: the returned ranges are ascending and
pairwise non-overlapping, not even sharing an end point (`a.end < b.start`), each with
`start ≤ end`. -/
theorem C12_list (loc peer : List (PR K D)) (hl : PRValid loc) (hp : PRValid peer) :
    ∃ out, diff loc peer = .ok out ∧ out.Pairwise (fun a b => a.2 < b.1) ∧ ∀ r ∈ out, r.1 ≤ r.2 := by
  obtain ⟨out, h1, h2, h3, _⟩ := diff_total loc peer hl hp
  exact ⟨out, h1, h2, h3⟩

/-- For page ranges taken from real trees: additionally every range lies within the peer's
smallest and largest key, starts at a key the peer holds and ends at a key held by the peer or the
local tree. -/
theorem C12_tree (lvl : K → Nat) (hc : HashCfg K V D) (tL tP : Tree K V D)
    (hL : Hashed lvl hc tL) (hP : Hashed lvl hc tP) :
    ∃ out, diff (pageRanges hc tL) (pageRanges hc tP) = .ok out ∧
      out.Pairwise (fun a b => a.2 < b.1) ∧ (∀ r ∈ out, r.1 ≤ r.2) ∧
      ∀ r ∈ out, r.1 ∈ tP.root.keys ∧ (r.2 ∈ tP.root.keys ∨ r.2 ∈ tL.root.keys) ∧
        (∀ a z : K × V, tP.root.content.head? = some a → tP.root.content.getLast? = some z →
          a.1 ≤ r.1 ∧ r.2 ≤ z.1) := by
  obtain ⟨out, h1, h2, h3⟩ := diff_trees_ok lvl hc tL tP hL hP
  exact ⟨out, h1, h2, h3, diff_trees_confined lvl hc tL tP hL hP out h1⟩

end Mst.Props
