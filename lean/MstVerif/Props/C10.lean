/-
C10 — Upsert has exact map semantics: nothing lost, duplicated or left stale.
-/
import MstVerif.Proofs.History

namespace Mst.Props
open Mst
variable {K V D : Type} [LinearOrder K]

/-- After any history the tree's in-order content is strictly ascending by key (each key once) and
its entries are exactly the last write of every key ever upserted. -/
theorem C10 (lvl : K → Nat) (hlvl : ∀ k, lvl k < 255) (hc : HashCfg K V D) (ops : List (Op K V)) :
    ∃ t, run lvl hc ops = .ok t ∧ KSorted t.root.content ∧
      ∀ k v, (k, v) ∈ t.root.content ↔ lastWrite ops k = some v := by
  obtain ⟨t, r, _, c⟩ := run_inv lvl hlvl hc ops
  refine ⟨t, r, ?_, ?_⟩
  · rw [c]; exact finalContent_sorted ops
  · intro k v; rw [c]; exact mem_finalContent ops k v

/-- Upserting a key never alters the stored digest of any other key. -/
theorem C10_frame (lvl : K → Nat) (hlvl : ∀ k, lvl k < 255) (hc : HashCfg K V D)
    (ops : List (Op K V)) (k : K) (v : V) (k' : K) (hne : k' ≠ k) :
    ∃ t t', run lvl hc ops = .ok t ∧ run lvl hc (ops ++ [.ups k v]) = .ok t' ∧
      (∀ w, (k', w) ∈ t'.root.content ↔ (k', w) ∈ t.root.content) ∧
      (k, v) ∈ t'.root.content := by
  obtain ⟨t, r, i, c⟩ := run_inv lvl hlvl hc ops
  obtain ⟨t', h1, _, h3, _⟩ := Tree.upsert_inv lvl hlvl hc t i k v
  refine ⟨t, t', r, ?_, ?_, ?_⟩
  · unfold run at r ⊢
    rw [runFrom_append, r]
    simp [runFrom, Tree.step, h1]
  · intro w
    have hs : KSorted t.root.content := by rw [c]; exact finalContent_sorted ops
    rw [h3, mem_insertKV k v _ hs]
    constructor
    · rintro (⟨e, _⟩ | ⟨_, hm⟩)
      · exact absurd e hne
      · exact hm
    · intro hm; exact Or.inr ⟨hne, hm⟩
  · have hs : KSorted t.root.content := by rw [c]; exact finalContent_sorted ops
    rw [h3, mem_insertKV k v _ hs]
    exact Or.inl ⟨rfl, rfl⟩

end Mst.Props
