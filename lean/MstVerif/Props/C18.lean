/-
C18 — All guarantees hold for every configuration, and equal configurations agree.
Every theorem in `Props/` is universally quantified over the key type (`LinearOrder K`), the value
and page digest types, the level function `lvl : K → Nat` (hasher × level base, levels < 255) and
the page hasher configuration `hc`. This file records the consequences the property names.
What is NOT modelled — the three constructors, `Builder`, `SipHasher::new(seed)`, feature-gated
code — is decided by the `tcfg` correspondence stream over feature sets × profiles (DESIGN §7 C18).
-/
import MstVerif.Props.C01
import MstVerif.Props.C10

namespace Mst.Props
open Mst
variable {K V D : Type} [LinearOrder K]

/-- The level base (and hasher) changes only the shape, never the key/value content:
the same history under two different level functions holds the same in-order content. -/
theorem C18_base_content (lvl₁ lvl₂ : K → Nat) (h₁ : ∀ k, lvl₁ k < 255) (h₂ : ∀ k, lvl₂ k < 255)
    (hc : HashCfg K V D) (ops : List (Op K V)) :
    ∃ t₁ t₂, run lvl₁ hc ops = .ok t₁ ∧ run lvl₂ hc ops = .ok t₂ ∧
      t₁.root.content = t₂.root.content := by
  obtain ⟨t₁, r₁, _, c₁⟩ := run_inv lvl₁ h₁ hc ops
  obtain ⟨t₂, r₂, _, c₂⟩ := run_inv lvl₂ h₂ hc ops
  exact ⟨t₁, t₂, r₁, r₂, by rw [c₁, c₂]⟩

/-- Equal configurations agree: two trees driven by the same level function and page hasher
through histories with the same final map are interchangeable (same hashes, same page ranges) —
whatever the key type, digest width, base, hasher or seed. (Instance of C01, stated with every
parameter explicit.) -/
theorem C18_generic (K V D : Type) [LinearOrder K] (lvl : K → Nat) (hlvl : ∀ k, lvl k < 255)
    (hc : HashCfg K V D) (ops₁ ops₂ : List (Op K V)) (h : ∀ k, lastWrite ops₁ k = lastWrite ops₂ k) :
    ∃ t₁ t₂, run lvl hc ops₁ = .ok t₁ ∧ run lvl hc ops₂ = .ok t₂ ∧
      t₁.genRootHash hc = t₂.genRootHash hc := by
  obtain ⟨t₁, t₂, r₁, r₂, _, e, _, _⟩ := C01 lvl hlvl hc ops₁ ops₂ h
  exact ⟨t₁, t₂, r₁, r₂, e⟩

/-- The three constructors yield the same (empty) tree; hence, driven by the same level function
through histories with the same final map, they are interchangeable (by `C18_generic`). The stored
hasher/base themselves are glue tied by the `tcfg` stream (three constructors × two builder setter
orders × clone, identical dumps required). -/
theorem C18_constructors :
    (Tree.default : Tree K V D) = Tree.builderBuild ∧ (Tree.default : Tree K V D) = Tree.newWithHasher ∧
    (Tree.default : Tree K V D) = Tree.empty :=
  ⟨rfl, rfl, rfl⟩

end Mst.Props
