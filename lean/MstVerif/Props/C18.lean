/-
C18 — All guarantees hold for every configuration, and equal configurations agree.
Every theorem in `Props/` is universally quantified over the key type (`LinearOrder K`), the value
and page digest types, the level function `lvl : K → Nat` (hasher × level base, levels < 255) and
the page hasher configuration `hc`. This file records the consequences the property names.
The construction layer — `Builder` and its two setters, `build`, `default()`, the deprecated
`new_with_hasher`, `Clone`/`clone_from`, the stored hasher and level base, `SipHasher::default()` /
`SipHasher::new(seed)` over the `std::hash::Hash` byte streams of the key/value types, and
`upsert(key, value)` computing digests and the level from them — is modelled in `Model/Api.lean`; the
`C18_api_*` theorems below lift the tree-level results to it. What remains decided by correspondence
only: cargo features (display / tracing code) and the build profiles (`tcfg` stream over feature
sets × profiles, DESIGN §7 C18).
-/
import MstVerif.Props.C01
import MstVerif.Props.C10
import MstVerif.Proofs.Api

namespace Mst.Props
open Mst
variable {K V D : Type} [LinearOrder K]

/-- The level base (and hasher) changes only the shape, never the key/value content:
the same history under two different level functions holds the same in-order content. -/
theorem C18_base_content (lvl₁ lvl₂ : K → Nat) (h₁ : ∀ k, lvl₁ k < 255) (h₂ : ∀ k, lvl₂ k < 255)
    (hc : HashCfg K V D) (ops : List (Op K V)) :
    ∃ t₁ t₂, run lvl₁ hc ops = .ok t₁ ∧ run lvl₂ hc ops = .ok t₂ ∧
      t₁.root.content = t₂.root.content := by
  obtain ⟨t₁, r₁, _, c₁⟩ := run_inv lvl₁ h₁ hc ops
  obtain ⟨t₂, r₂, _, c₂⟩ := run_inv lvl₂ h₂ hc ops
  exact ⟨t₁, t₂, r₁, r₂, by rw [c₁, c₂]⟩

/-- Equal configurations agree: two trees driven by the same level function and page hasher
through histories with the same final map are interchangeable (same hashes, same page ranges) —
whatever the key type, digest width, base, hasher or seed. (Instance of C01, stated with every
parameter explicit.) -/
theorem C18_generic (K V D : Type) [LinearOrder K] (lvl : K → Nat) (hlvl : ∀ k, lvl k < 255)
    (hc : HashCfg K V D) (ops₁ ops₂ : List (Op K V)) (h : ∀ k, lastWrite ops₁ k = lastWrite ops₂ k) :
    ∃ t₁ t₂, run lvl hc ops₁ = .ok t₁ ∧ run lvl hc ops₂ = .ok t₂ ∧
      t₁.genRootHash hc = t₂.genRootHash hc := by
  obtain ⟨t₁, t₂, r₁, r₂, _, e, _, _⟩ := C01 lvl hlvl hc ops₁ ops₂ h
  exact ⟨t₁, t₂, r₁, r₂, e⟩

/-- The three constructors yield the same (empty) tree; hence, driven by the same level function
through histories with the same final map, they are interchangeable (by `C18_generic`). The stored
hasher/base themselves are glue tied by the `tcfg` stream (three constructors × two builder setter
orders × clone, identical dumps required). -/
theorem C18_constructors :
    (Tree.default : Tree K V D) = Tree.builderBuild ∧ (Tree.default : Tree K V D) = Tree.newWithHasher ∧
    (Tree.default : Tree K V D) = Tree.empty :=
  ⟨rfl, rfl, rfl⟩

/-! ### The construction / configuration layer (`Model/Api.lean`) -/

/-- The three constructors agree: `Builder::default().build()` is `MerkleSearchTree::default()`,
`Builder::default().with_hasher(h).build()` is the deprecated `new_with_hasher(h)`; the builder's two
setters commute and `build` stores exactly the last hasher and the last base supplied, whatever the
order of the calls; `clone` and `clone_from` yield the source (hasher and base included). -/
theorem C18_api_constructors (b : TreeBuilder) (h : HasherM) (n : Nat) (m m' : MST K D) :
    (TreeBuilder.default.build : MST K D) = MST.default ∧
    ((TreeBuilder.default.withHasher h).build : MST K D) = MST.newWithHasher h ∧
    (b.withHasher h).withLevelBase n = (b.withLevelBase n).withHasher h ∧
    (((b.withHasher h).withLevelBase n).build : MST K D) = { hasher := h, levelBase := n, tree := Tree.empty } ∧
    (((b.withLevelBase n).withHasher h).build : MST K D) = { hasher := h, levelBase := n, tree := Tree.empty } ∧
    m.clone = m ∧ m'.cloneFrom m = m :=
  ⟨rfl, rfl, rfl, rfl, rfl, rfl, rfl⟩

/-- **Equal configurations agree, at the level of the public API.** Two freshly constructed trees
that store the same hasher and the same level base — however they were obtained: `default()`, the
builder with its setters in either order, the deprecated constructor, a clone — driven through ANY
two histories of `upsert(key, value)` / `root_hash()` calls that leave the same last value per key,
never panic and end, after a hash request, in the identical tree: same root hash, same page ranges.
Holds for the default and every seeded `SipHasher` (16-byte digests) and for every custom hasher
with digests of at most 32 bytes, every level base, every key type / `Hash` encoding. -/
theorem C18_api_interchangeable (hc : HashCfg K (List UInt8) D) (e : Enc K)
    (hw : ∀ r, (e.envK r).length ≤ 32)
    (m₁ m₂ : MST K D) (h₁ : m₁.tree = Tree.empty) (h₂ : m₂.tree = Tree.empty)
    (hh : m₂.hasher = m₁.hasher) (hb : m₂.levelBase = m₁.levelBase)
    (ops₁ ops₂ : List (AOp K)) (h : ∀ k, lastWriteA k none ops₁ = lastWriteA k none ops₂) :
    ∃ r₁ r₂, MST.runFrom hc e m₁ ops₁ = .ok r₁ ∧ MST.runFrom hc e m₂ ops₂ = .ok r₂ ∧
      r₁.hasher = m₁.hasher ∧ r₁.levelBase = m₁.levelBase ∧
      r₂.hasher = r₁.hasher ∧ r₂.levelBase = r₁.levelBase ∧
      (r₁.genRootHash hc).tree = (r₂.genRootHash hc).tree ∧
      (r₁.genRootHash hc).tree.rootHash = (r₂.genRootHash hc).tree.rootHash ∧
      (r₁.genRootHash hc).tree.serialise = (r₂.genRootHash hc).tree.serialise := by
  have hk : m₂.keyLevel e = m₁.keyLevel e := MST.keyLevel_congr e m₁ m₂ hh hb
  have ht : m₂.toOp e = m₁.toOp e := MST.toOp_congr e m₁ m₂ hh
  have hlw : ∀ k, lastWrite (ops₁.map (m₁.toOp e)) k = lastWrite (ops₂.map (m₁.toOp e)) k := by
    intro k
    have a := lastWriteFrom_map_toOp m₁ e k ops₁ none
    have b := lastWriteFrom_map_toOp m₁ e k ops₂ none
    simp only [Option.map_none] at a b
    unfold lastWrite
    rw [a, b, h k]
  obtain ⟨t₁, t₂, e₁, e₂, _, g, gr, gs⟩ :=
    C01 (m₁.keyLevel e) (MST.keyLevel_lt_255 m₁ e hw) hc _ _ hlw
  refine ⟨{ m₁ with tree := t₁ }, { m₂ with tree := t₂ }, ?_, ?_, rfl, rfl, hh, hb, g, gr, gs⟩
  · rw [MST.runFrom_refines, h₁]
    have : Mst.runFrom (m₁.keyLevel e) hc Tree.empty (ops₁.map (m₁.toOp e)) = .ok t₁ := e₁
    rw [this]
  · rw [MST.runFrom_refines, h₂, hk, ht]
    have : Mst.runFrom (m₁.keyLevel e) hc Tree.empty (ops₂.map (m₁.toOp e)) = .ok t₂ := e₂
    rw [this]

/-- Instance: a tree from the builder (setters in either order) with base 16 and hasher `h`, one from
the deprecated constructor with `h`, and — for the default hasher — `default()` are interchangeable. -/
theorem C18_api_three_constructors (hc : HashCfg K (List UInt8) D) (e : Enc K)
    (hw : ∀ r, (e.envK r).length ≤ 32) (h : HasherM)
    (ops₁ ops₂ : List (AOp K)) (hl : ∀ k, lastWriteA k none ops₁ = lastWriteA k none ops₂) :
    ∃ r₁ r₂, MST.runFrom hc e (((TreeBuilder.default.withLevelBase defaultLevelBase).withHasher h).build) ops₁ = .ok r₁ ∧
      MST.runFrom hc e (MST.newWithHasher h) ops₂ = .ok r₂ ∧
      (r₁.genRootHash hc).tree = (r₂.genRootHash hc).tree := by
  obtain ⟨r₁, r₂, a, b, _, _, _, _, c, _⟩ :=
    C18_api_interchangeable hc e hw (((TreeBuilder.default.withLevelBase defaultLevelBase).withHasher h).build)
      (MST.newWithHasher h) rfl rfl rfl rfl ops₁ ops₂ hl
  exact ⟨r₁, r₂, a, b, c⟩

/-- Different values of one key/value type feed different byte streams to the hasher (`impl Hash`
framing: length prefix for byte slices and arrays, `0xff` terminator for strings). -/
theorem C18_api_hash_framing (kind : HKind) (a b : List UInt8)
    (h : stdHashBytes kind a = stdHashBytes kind b) : a = b := stdHashBytes_injective kind a b h

end Mst.Props
