/-
C14 — Hash construction and level derivation match the stable reference construction.
-/
import MstVerif.Proofs.History
import MstVerif.Proofs.Level
import MstVerif.Proofs.Ref
import MstVerif.Proofs.HashExtra
import MstVerif.Proofs.LevelU8

namespace Mst.Props
open Mst
variable {K V D : Type} [LinearOrder K]

/-- A key's level is the count of leading zero digits of its digest under the base: two per zero
byte, one more if the next byte is a non-zero multiple of the base — for every byte string (any
digest width) and every base. -/
theorem C14_level (d : List UInt8) (base : Nat) : level d base = refLevel d base :=
  level_eq_refLevel d base

/-- … and it never overflows the `u8` the Rust uses for digests up to 32 bytes. -/
theorem C14_level_bound (d : List UInt8) (base : Nat) (h : d.length ≤ 32) : level d base < 255 :=
  level_lt_255 d base h

/-- After ANY history (any order, overwrites, intermediate hash requests) the root hash reported
equals the digest of the reference construction (`refRoot`, Ref.lean: built from the sorted content
alone, never through `upsert`) of the final content; the construction feeds the page hasher, per
key in ascending order, the digest of the page just below that key if there is one, the key bytes
and the value digest, followed by the digest of the high page if there is one (`Pg.hashBytes`). -/
theorem C14_root (lvl : K → Nat) (hlvl : ∀ k, lvl k < 255) (hc : HashCfg K V D) (ops : List (Op K V)) :
    ∃ t, run lvl hc ops = .ok t ∧
      (t.genRootHash hc).rootHash = refRoot lvl hc (finalContent ops) ∧
      (t.genRootHash hc).root.erase = (refRootPg (D := D) lvl (finalContent ops)).erase := by
  obtain ⟨t, r, i, c⟩ := run_inv lvl hlvl hc ops
  obtain ⟨_, g, _, e, _⟩ := genRootHash_inv lvl hc t i
  refine ⟨t, r, ?_, ?_⟩
  · rw [g, trueHash_eq_refRoot lvl hc t.root i.shape, c]
  · rw [e, erase_eq_ref lvl t.root i.shape, c]

/-- The Rust accumulates the level in a `u8` (src/digest/trait.rs:78-90). For every digest of at most
127 bytes (the property quantifies over widths 1..32) and every base, in BOTH build profiles (overflow
checks on / off), that machine computation returns exactly the model's level, which is < 255. At 128
zero bytes it overflows: a panic with overflow checks, a silent wrap to level 0 without — outside the
quantifier, recorded so that the `Nat` in the model hides nothing. -/
theorem C14_level_machine (checked : Bool) (d : List UInt8) (base : Nat) (h : d.length ≤ 127) :
    levelU8 checked d base = .ok (UInt8.ofNat (level d base)) ∧ level d base < 255 :=
  levelU8_eq_level checked d base h

theorem C14_level_machine_overflow (base : Nat) :
    (levelU8 true (List.replicate 128 0) base).toOption = none ∧
    (levelU8 false (List.replicate 128 0) base).toOption = some 0 ∧
    level (List.replicate 128 0) base = 256 :=
  ⟨levelU8_overflow_checked base, (levelU8_overflow_wraps base).1, (levelU8_overflow_wraps base).2⟩

/-- Every page digest (not only the root's) is the reference one: the hashed tree is, page for
page, the hashed (cache-free) reference tree. -/
theorem C14_pages (lvl : K → Nat) (hlvl : ∀ k, lvl k < 255) (hc : HashCfg K V D) (ops : List (Op K V)) :
    ∃ t, run lvl hc ops = .ok t ∧
      (t.genRootHash hc).root = genPg hc (refRootPg (D := D) lvl (finalContent ops)).erase := by
  obtain ⟨t, r, i, c⟩ := run_inv lvl hlvl hc ops
  obtain ⟨_, _, _, e, cl⟩ := genRootHash_inv lvl hc t i
  refine ⟨t, r, ?_⟩
  obtain ⟨cl2, e2⟩ := genPg_spec hc (refRootPg (D := D) lvl (finalContent ops)).erase
    (cacheOK_erasePg hc _)
  apply clean_eq_of_erase_eq hc _ _ cl cl2
  rw [e, e2, erase_erasePg, erase_eq_ref lvl t.root i.shape, c]

end Mst.Props
