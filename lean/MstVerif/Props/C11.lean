/-
C11 — Serialised page ranges describe the tree faithfully and in diffable order.
-/
import MstVerif.Proofs.Reach

namespace Mst.Props
open Mst
variable {K V D : Type} [LinearOrder K] [DecidableEq D]

/-- A sub-page of a sorted tree is sorted. -/
theorem subpage_sorted (p q : Pg K V D) (hs : p.Sorted) (hq : q ∈ p.preorder) : q.Sorted := by
  obtain ⟨pre, suf, e⟩ := preorder_infix p q hq
  have h := hs.pw
  rw [e] at h
  exact List.pairwise_map.2 h.left.right

/-- Once the root hash has been generated (`Hashed`: any reachable state after a hash request),
`serialise_page_ranges()` succeeds and lists every page in pre-order — the page, then the subtree
under each of its keys in key order, then its high page (`Pg.preorder`) — each as
(smallest key, largest key of the page's whole subtree, the page's digest) (`rangeOf`);
an empty tree serialises to the empty list. -/
theorem C11_preorder (lvl : K → Nat) (hc : HashCfg K V D) (t : Tree K V D) (h : Hashed lvl hc t) :
    ∃ l, t.serialise = .ok (some l) ∧
      (t.root.content = [] → l = []) ∧
      (t.root.content ≠ [] → l.map some = t.root.preorder.map (rangeOf hc)) :=
  serialise_spec lvl hc t h.inv h.hashed

/-- Each page exactly once: as many entries as the tree has pages. -/
theorem C11_once (lvl : K → Nat) (hc : HashCfg K V D) (t : Tree K V D) (h : Hashed lvl hc t)
    (hne : t.root.content ≠ []) :
    ∃ l, t.serialise = .ok (some l) ∧ l.length = t.root.pageCount := by
  obtain ⟨l, h1, _, h3⟩ := C11_preorder lvl hc t h
  refine ⟨l, h1, ?_⟩
  have := congrArg List.length (h3 hne)
  simpa [preorder_length] using this

/-- The entry of a page carries the first and last key of the page's subtree and its true digest. -/
theorem C11_entry (lvl : K → Nat) (hc : HashCfg K V D) (b : Nat) (q : Pg K V D)
    (hlv : LvPg lvl b q) (hq : q.isSome = true) :
    ∃ a z d, q.content.head? = some a ∧ q.content.getLast? = some z ∧ q.trueHash hc = some d ∧
      rangeOf hc q = some { start := a.1, end_ := z.1, hash := d } :=
  rangeOf_some lvl hc b q hlv hq

/-- The first entry spans the whole tree and carries the root hash. -/
theorem C11_first (lvl : K → Nat) (hc : HashCfg K V D) (t : Tree K V D) (h : Hashed lvl hc t)
    (a z : K × V) (ha : t.root.content.head? = some a) (hz : t.root.content.getLast? = some z) :
    ∃ d rest, t.rootHash = some d ∧
      t.serialise = .ok (some ({ start := a.1, end_ := z.1, hash := d } :: rest)) := by
  obtain ⟨d, rest, h1, h2⟩ := pageRanges_head lvl hc t h a z ha hz
  exact ⟨d, rest, h1, by rw [serialise_eq_pageRanges lvl hc t h, h2]⟩

/-- Every entry lies inside the span of every page it is listed under (in particular its parent). -/
theorem C11_nested (lvl : K → Nat) (hc : HashCfg K V D) (t : Tree K V D) (h : Hashed lvl hc t)
    (p q : Pg K V D) (hp : p ∈ t.root.preorder) (hq : q ∈ p.preorder)
    (rp rq : PR K D) (hrp : rangeOf hc p = some rp) (hrq : rangeOf hc q = some rq) :
    rp.start ≤ rq.start ∧ rq.end_ ≤ rp.end_ := by
  have hsp : p.Sorted := subpage_sorted _ _ h.inv.sorted hp
  -- `preorder_nested` does not use its level hypothesis beyond typing; supply the one the sub-page has
  have hroot := h.inv.shape
  cases hr : t.root with
  | none => rw [hr] at hp; simp [Pg.preorder] at hp
  | some L c n hi =>
    rw [hr] at hroot hp
    by_cases hn : n = .nil
    · -- empty root: its only pre-order entry is itself, which has no range
      obtain ⟨_, hh⟩ := hroot.1 hn
      subst hn; subst hh
      simp only [Pg.preorder, Nd.preorder, List.append_nil, List.mem_singleton] at hp
      subst hp
      simp [rangeOf, Pg.content, Nd.content] at hrp
    · have hlvroot : LvPg lvl (L + 1) (Pg.some L c n hi) := by
        simp only [LvPg]; exact ⟨Nat.lt_succ_self _, hn, hroot.2.1, hroot.2.2⟩
      obtain ⟨b', hb'⟩ := preorder_Lv lvl (L + 1) _ p hlvroot hp
      exact preorder_nested lvl hc b' p q hb' hsp hq rp rq hrp hrq

/-- Sibling spans (the children of any page, in serialisation order) are disjoint and ascending. -/
theorem C11_siblings (lvl : K → Nat) (hc : HashCfg K V D) (t : Tree K V D) (h : Hashed lvl hc t)
    (p : Pg K V D) (hp : p ∈ t.root.preorder) :
    (p.children.filterMap (rangeOf hc)).Pairwise (fun r s => r.end_ < s.start) := by
  have hsp : p.Sorted := subpage_sorted _ _ h.inv.sorted hp
  have hroot := h.inv.shape
  cases hr : t.root with
  | none => rw [hr] at hp; simp [Pg.preorder] at hp
  | some L c n hi =>
    rw [hr] at hroot hp
    by_cases hn : n = .nil
    · obtain ⟨_, hh⟩ := hroot.1 hn
      subst hn; subst hh
      simp only [Pg.preorder, Nd.preorder, List.append_nil, List.mem_singleton] at hp
      subst hp
      simp [Pg.children, Nd.children]
    · have hlvroot : LvPg lvl (L + 1) (Pg.some L c n hi) := by
        simp only [LvPg]; exact ⟨Nat.lt_succ_self _, hn, hroot.2.1, hroot.2.2⟩
      obtain ⟨b', hb'⟩ := preorder_Lv lvl (L + 1) _ p hlvroot hp
      exact siblings_chain lvl hc b' p hb' hsp

/-- For every reachable tree: any history followed by the hash request. -/
theorem C11_histories (lvl : K → Nat) (hlvl : ∀ k, lvl k < 255) (hc : HashCfg K V D)
    (ops : List (Op K V)) :
    ∃ t l, run lvl hc (ops ++ [.hash]) = .ok t ∧ Hashed lvl hc t ∧ t.serialise = .ok (some l) ∧
      (finalContent ops = [] → l = []) ∧
      (finalContent ops ≠ [] → l.map some = t.root.preorder.map (rangeOf hc)) := by
  obtain ⟨t, r, hh, c⟩ := hashed_of_run lvl hlvl hc ops
  obtain ⟨l, h1, h2, h3⟩ := C11_preorder lvl hc t hh
  exact ⟨t, l, r, hh, h1, fun e => h2 (by rw [c, e]), fun e => h3 (by rw [c]; exact e)⟩

end Mst.Props
