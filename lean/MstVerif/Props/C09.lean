/-
C09 — The tree is always an ordered, level-stratified, canonical search tree.
-/
import MstVerif.Proofs.History

namespace Mst.Props
open Mst
variable {K V D : Type} [LinearOrder K]

/-- At every state reachable by any history (every prefix of a history is a history, so this is
every intermediate state): in-order keys strictly ascending; every page below another has a
strictly lower level, every key sits on the page whose level is the key's own level, and no page
other than the root of an empty tree is empty (`LvRoot`, Defs.lean). -/
theorem C09 (lvl : K → Nat) (hlvl : ∀ k, lvl k < 255) (hc : HashCfg K V D) (ops : List (Op K V)) :
    ∃ t, run lvl hc ops = .ok t ∧ t.root.Sorted ∧ LvRoot lvl t.root := by
  obtain ⟨t, r, i, _⟩ := run_inv lvl hlvl hc ops
  exact ⟨t, r, i.sorted, i.shape⟩

/-- The same at every intermediate state, stated explicitly for prefixes. -/
theorem C09_prefix (lvl : K → Nat) (hlvl : ∀ k, lvl k < 255) (hc : HashCfg K V D)
    (pre suf : List (Op K V)) :
    ∃ tp t, run lvl hc pre = .ok tp ∧ run lvl hc (pre ++ suf) = .ok t ∧
      tp.root.Sorted ∧ LvRoot lvl tp.root ∧ t.root.Sorted ∧ LvRoot lvl t.root := by
  obtain ⟨tp, rp, ip, _⟩ := run_inv lvl hlvl hc pre
  obtain ⟨t, r, i, _⟩ := run_inv lvl hlvl hc (pre ++ suf)
  exact ⟨tp, t, rp, r, ip.sorted, ip.shape, i.sorted, i.shape⟩

omit [LinearOrder K] in
/-- These conditions force the unique canonical shape for the content: two trees satisfying them
with the same content have the same pages, levels, nodes and links. -/
theorem C09_canonical (lvl : K → Nat) (p q : Pg K V D) (hp : LvRoot lvl p) (hq : LvRoot lvl q)
    (h : p.content = q.content) : p.erase = q.erase :=
  root_unique lvl p q hp hq h

end Mst.Props
