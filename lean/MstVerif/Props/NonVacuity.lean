/-
Non-vacuity of the hypotheses used by the property theorems: concrete, non-trivial states that
satisfy them (tests, labelled as tests — not part of any claim). Key/value type `Nat`, page
digests `List UInt8`, the injective page hasher `perfectCfg` (so `CollisionFree`/`NoCollisions`
hold), key level = key mod 3 (three tree levels).
-/
import MstVerif.Proofs.Reach
import MstVerif.Proofs.Extras
import MstVerif.Proofs.SyncN

namespace Mst.Props
open Mst

def lvl3 : Nat → Nat := fun k => k % 3

theorem lvl3_lt : ∀ k, lvl3 k < 255 := fun k => by unfold lvl3; omega

/-- Every history reaches a hashed real tree (`Hashed`), e.g. this one with three levels, a
populated high page and an intermediate hash request (the F1 shape). -/
example : ∃ t, run lvl3 perfectCfg ([.ups 4 1, .ups 6 1, .hash, .ups 5 1] ++ [Op.hash]) = .ok t ∧
    Hashed lvl3 perfectCfg t ∧ t.root.content = [(4, 1), (5, 1), (6, 1)] := by
  obtain ⟨t, h1, h2, h3⟩ := hashed_of_run lvl3 lvl3_lt perfectCfg [.ups 4 1, .ups 6 1, .hash, .ups 5 1]
  exact ⟨t, h1, h2, by rw [h3]; decide⟩

/-- The hypotheses of C07 (two hashed trees, collision-freeness, the span condition, a key the
peer holds with a different value digest) are jointly satisfiable. -/
example : ∃ tL tP : Tree Nat Nat (List UInt8),
    Hashed lvl3 perfectCfg tL ∧ Hashed lvl3 perfectCfg tP ∧
    CollisionFree perfectCfg (tL.root.allToks perfectCfg ++ tP.root.allToks perfectCfg) ∧
    SpanCovers tL tP ∧ (2, 21) ∈ tP.root.content ∧ (2, 21) ∉ tL.root.content := by
  obtain ⟨tL, _, hL, cL⟩ := hashed_of_run lvl3 lvl3_lt perfectCfg [.ups 2 20]
  obtain ⟨tP, _, hP, cP⟩ := hashed_of_run lvl3 lvl3_lt perfectCfg [.ups 1 10, .ups 3 30, .ups 2 21]
  refine ⟨tL, tP, hL, hP, perfectCfg_noCollisions _ _, ?_, ?_, ?_⟩
  · intro x hx
    simp only [Pg.keys, cL, cP] at hx ⊢
    have hx' : x = 2 := by simpa [finalContent, applyOps, insertKV] using hx
    subst hx'
    exact ⟨⟨1, by decide, by decide⟩, ⟨3, by decide, by decide⟩⟩
  · rw [cP]; decide
  · rw [cL]; decide

/-- The hypotheses of C04/C05 on a pair with partially overlapping spans and different content. -/
example : ∃ tA tB : Tree Nat Nat (List UInt8),
    Hashed lvl3 perfectCfg tA ∧ Hashed lvl3 perfectCfg tB ∧ tA.root.content ≠ tB.root.content := by
  obtain ⟨tA, _, hA, cA⟩ := hashed_of_run lvl3 lvl3_lt perfectCfg [.ups 1 1, .ups 5 1]
  obtain ⟨tB, _, hB, cB⟩ := hashed_of_run lvl3 lvl3_lt perfectCfg [.ups 3 1, .ups 9 1]
  exact ⟨tA, tB, hA, hB, by rw [cA, cB]; decide⟩

/-- Replica states satisfying `RInv` with different stores exist (reached by writes), and the
`NoCollisions` hypothesis of C05/C06 holds for `perfectCfg`. -/
example : NoCollisions perfectCfg ∧
    ∃ rs : List (Replica Nat Nat (List UInt8)),
      syncRun lvl3 perfectCfg .joinMax (freshReplicas 2) [.write 0 1 5, .write 1 2 7] = .ok rs ∧
      rs.length = 2 ∧ ∀ r ∈ rs, RInv lvl3 perfectCfg r := by
  refine ⟨perfectCfg_noCollisions, ?_⟩
  have h0 : ∀ r ∈ (freshReplicas 2 : List (Replica Nat Nat (List UInt8))), RInv lvl3 perfectCfg r := by
    intro r hr
    simp only [freshReplicas, List.mem_replicate] at hr
    rw [hr.2]; exact Replica.empty_inv lvl3 perfectCfg
  obtain ⟨rs, h1, h2, h3⟩ := syncRun_inv lvl3 lvl3_lt perfectCfg .joinMax _ h0 [.write 0 1 5, .write 1 2 7]
  exact ⟨rs, h1, by simpa [freshReplicas] using h2, h3⟩

end Mst.Props
