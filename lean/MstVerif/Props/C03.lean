/-
C03 — Trees with different content have different root hashes (up to digest collisions).
-/
import MstVerif.Proofs.History

namespace Mst.Props
open Mst
variable {K V D : Type}

/-- Equal (cache-free) root digests imply equal content, for any two trees whose page pre-images
are collision free under the page hasher — i.e. exactly "up to collisions of the page digest"
(`CollisionFree`, Hash.lean). No shape hypothesis is needed: the induction covers a difference at
any position (node key, value digest, lt-child or high-page subtree).
CAVEAT made visible by the hypothesis: `encodeTok` has no length prefixes, so two *different*
pre-images can have the *same* byte stream (variable-length keys with adversarial value digests);
`CollisionFree` counts that as a collision too. -/
theorem C03 (hc : HashCfg K V D) (p q : Pg K V D)
    (hcf : CollisionFree hc (p.allToks hc ++ q.allToks hc))
    (h : p.trueHash hc = q.trueHash hc) : p.content = q.content :=
  merkle_inj hc p q hcf h

/-- The caveat, machine-checked (a test, not part of the claim): with the library's raw byte
encoding (keys, value digests and page digests written back to back, no length prefixes) two
DIFFERENT page pre-images can have the SAME byte stream — here key `[1]` with value digest `[2,3]`
versus key `[1,2]` with value digest `[3]`. No hash function can tell them apart, which is why
`CollisionFree` is stated on pre-images rather than on byte streams. (With the fixed digest width
of a real tree this needs variable-length keys and adversarially chosen value digests.) -/
example :
    let hc : HashCfg (List UInt8) (List UInt8) (List UInt8) := { kb := id, vb := id, db := id, h := id }
    ([(none, [1], [2, 3])], none) ≠ (([(none, [1, 2], [3])], none) : PageTok (List UInt8) (List UInt8) (List UInt8)) ∧
    encodeTok hc ([(none, [1], [2, 3])], none) = encodeTok hc ([(none, [1, 2], [3])], none) := by
  decide

variable [LinearOrder K]

/-- For trees reached by histories: if the last-write-wins maps differ in any key or value digest,
the root hashes reported after a hash request differ. -/
theorem C03_histories (lvl : K → Nat) (hlvl : ∀ k, lvl k < 255) (hc : HashCfg K V D)
    (ops₁ ops₂ : List (Op K V)) (k : K) (hdiff : lastWrite ops₁ k ≠ lastWrite ops₂ k) :
    ∃ t₁ t₂, run lvl hc ops₁ = .ok t₁ ∧ run lvl hc ops₂ = .ok t₂ ∧
      (CollisionFree hc (t₁.root.allToks hc ++ t₂.root.allToks hc) →
        (t₁.genRootHash hc).rootHash ≠ (t₂.genRootHash hc).rootHash) := by
  obtain ⟨t₁, r₁, i₁, c₁⟩ := run_inv lvl hlvl hc ops₁
  obtain ⟨t₂, r₂, i₂, c₂⟩ := run_inv lvl hlvl hc ops₂
  refine ⟨t₁, t₂, r₁, r₂, ?_⟩
  intro hcf heq
  obtain ⟨_, g₁, _, _, _⟩ := genRootHash_inv lvl hc t₁ i₁
  obtain ⟨_, g₂, _, _, _⟩ := genRootHash_inv lvl hc t₂ i₂
  rw [g₁, g₂] at heq
  have hcont := merkle_inj hc _ _ hcf heq
  rw [c₁, c₂] at hcont
  apply hdiff
  -- equal final contents give equal last writes
  cases h1 : lastWrite ops₁ k with
  | none =>
    cases h2 : lastWrite ops₂ k with
    | none => rfl
    | some v =>
      have := (mem_finalContent ops₂ k v).2 h2
      rw [← hcont] at this
      rw [(mem_finalContent ops₁ k v).1 this] at h1
      exact absurd h1 (by simp)
  | some v =>
    have := (mem_finalContent ops₁ k v).2 h1
    rw [hcont] at this
    exact ((mem_finalContent ops₂ k v).1 this).symm

/-- In particular adding a key, or changing one value, always changes the root hash. -/
theorem C03_one_upsert (lvl : K → Nat) (hlvl : ∀ k, lvl k < 255) (hc : HashCfg K V D)
    (ops : List (Op K V)) (k : K) (v : V) (hnew : lastWrite ops k ≠ some v) :
    ∃ t₁ t₂, run lvl hc ops = .ok t₁ ∧ run lvl hc (ops ++ [.ups k v]) = .ok t₂ ∧
      (CollisionFree hc (t₁.root.allToks hc ++ t₂.root.allToks hc) →
        (t₁.genRootHash hc).rootHash ≠ (t₂.genRootHash hc).rootHash) := by
  apply C03_histories lvl hlvl hc ops (ops ++ [Op.ups k v]) k
  have : lastWrite (ops ++ [.ups k v]) k = some v := by
    have gen : ∀ (o : List (Op K V)) (acc : Option V),
        lastWriteFrom k acc (o ++ [.ups k v]) = some v := by
      intro o
      induction o with
      | nil => intro acc; simp [lastWriteFrom]
      | cons op o ih =>
        intro acc
        cases op with
        | ups k' v' => simp only [List.cons_append, lastWriteFrom]; exact ih _
        | hash => simp only [List.cons_append, lastWriteFrom]; exact ih _
    exact gen ops none
  rw [this]
  exact hnew

end Mst.Props
