/-
C05 — Anti-entropy always makes progress and converges in bounded rounds.
Replicas are modelled in `Model/Sync.lean` (store + incrementally maintained tree; a pull hashes
both trees, serialises, diffs, fetches the returned ranges from the sender's store, merges and
upserts). Values are identified with their digests. Merge rules: join and peer-wins, where the join
is the `⊔` of ANY join-semilattice on the values (`…_join` theorems, `[SemilatticeSup V]`); the max
of a linear order is the special case proved first historically and kept under the old names, now
as corollaries.
-/
import MstVerif.Proofs.SyncConv
import MstVerif.Proofs.JoinExample

namespace Mst.Props
open Mst

/-! ### Any deterministic join (arbitrary join-semilattice), or peer-wins -/

section Join
variable {K V D : Type} [LinearOrder K] [SemilatticeSup V] [DecidableEq V] [DecidableEq D]

/-- For any two replicas with different content, pulling the diff ranges in at least one of the
two directions and merging — by the join `⊔` of ANY join-semilattice on the values, or by
peer-wins — changes the receiver: for every pair of contents, every level structure, whatever cache
state the two trees carry; up to digest collisions. (If neither pull changed its receiver then at a
differing key `x ⊔ y = x` and `y ⊔ x = y`, hence `x = y`.) -/
theorem C05_progress_join (lvl : K → Nat) (hlvl : ∀ k, lvl k < 255) (hc : HashCfg K V D)
    (hnc : NoCollisions hc) (m : Merge)
    (a b : Replica K V D) (ha : RInv lvl hc a) (hb : RInv lvl hc b) (hne : a.store ≠ b.store) :
    (∃ a' b', pull lvl hc m a b = .ok (a', b') ∧ a'.store ≠ a.store) ∨
    (∃ b' a', pull lvl hc m b a = .ok (b', a') ∧ b'.store ≠ b.store) :=
  pull_progress lvl hlvl hc hnc m a b ha hb hne

/-- Non-vacuity of `C05_progress_join` on a NON-linear lattice (`Bits`: bit masks under `|||`, where
`1` and `2` are incomparable): two consistent replicas with different stores, holding incomparable
values at a common key, under a collision-free hasher; hence one of the two pulls changes its
receiver. -/
example : ∃ a b : Replica Nat Bits (List UInt8), RInv Bits.lvl Bits.cfg a ∧ RInv Bits.lvl Bits.cfg b ∧
    a.store = [(1, 1), (5, 1)] ∧ b.store = [(1, 2)] ∧ NoCollisions Bits.cfg ∧
    ((∃ a' b', pull Bits.lvl Bits.cfg .joinMax a b = .ok (a', b') ∧ a'.store ≠ a.store) ∨
     (∃ b' a', pull Bits.lvl Bits.cfg .joinMax b a = .ok (b', a') ∧ b'.store ≠ b.store)) := by
  obtain ⟨a, ha, sa⟩ := Bits.exists_replica [(1, 1), (5, 1)]
  obtain ⟨b, hb, sb⟩ := Bits.exists_replica [(1, 2)]
  have ea : a.store = [(1, 1), (5, 1)] := sa
  have eb : b.store = [(1, 2)] := sb
  refine ⟨a, b, ha, hb, ea, eb, Bits.cfg_noCollisions, ?_⟩
  exact C05_progress_join Bits.lvl Bits.lvl_lt Bits.cfg Bits.cfg_noCollisions .joinMax a b ha hb
    (by rw [ea, eb]; decide)

/-- Repeated two-way sync rounds (as `tests/sync.rs`: b pulls from a, then a pulls from b) never
panic and, after at most as many rounds as there were disagreeing keys, both replicas hold the
same content and report the same root hash; under the join merge — the `⊔` of ANY join-semilattice —
the common content is exactly the pointwise join of the two initial contents.

The bound `disagree` survives the generalisation although a fetched key no longer agrees after the
fetch (the receiver moves to `x ⊔ y`, which may differ from both `x` and `y`, and one diff is complete
only under the span condition of C07): a case analysis on the two key spans (`round_agree`,
`Proofs/SyncJoin.lean`) shows that the reverse pull of the same round covers such a key, or that
another disagreeing key is settled. Exhaustive runs of the model (`tools/join_rounds_scan.lean`) over
all pairs of stores with ≤ 4 keys × values {absent, 1, 2, 3} (bit masks) × all assignments of 3
levels (5.3 M pairs), and ≤ 5 keys × 2 levels (33.5 M pairs), found no pair needing more than
`disagree` rounds before the proof was attempted. -/
theorem C05_rounds_join (lvl : K → Nat) (hlvl : ∀ k, lvl k < 255) (hc : HashCfg K V D)
    (hnc : NoCollisions hc) (m : Merge)
    (a b : Replica K V D) (ha : RInv lvl hc a) (hb : RInv lvl hc b)
    (n : Nat) (hn : disagree a.store b.store ≤ n) :
    ∃ a' b', syncRounds lvl hc m n a b = .ok (a', b') ∧ RInv lvl hc a' ∧ RInv lvl hc b' ∧
      a'.store = b'.store ∧
      (a'.tree.genRootHash hc).rootHash = (b'.tree.genRootHash hc).rootHash ∧
      (m = .joinMax → ∀ k, lookupKV k a'.store = joinLookup a.store b.store k) :=
  sync_converges lvl hlvl hc hnc m a b ha hb n hn

/-- Non-vacuity of `C05_rounds_join` on the non-linear lattice `Bits`: the replicas above disagree on
two keys; after two rounds both hold, at the common key, the join `3 = 1 ⊔ 2` that NEITHER held
before, and the key only one of them had. -/
example : ∃ a b a' b' : Replica Nat Bits (List UInt8),
    a.store = [(1, 1), (5, 1)] ∧ b.store = [(1, 2)] ∧ disagree a.store b.store = 2 ∧
    syncRounds Bits.lvl Bits.cfg .joinMax 2 a b = .ok (a', b') ∧ a'.store = b'.store ∧
    lookupKV 1 a'.store = some 3 ∧ lookupKV 5 a'.store = some 1 := by
  obtain ⟨a, ha, sa⟩ := Bits.exists_replica [(1, 1), (5, 1)]
  obtain ⟨b, hb, sb⟩ := Bits.exists_replica [(1, 2)]
  have ea : a.store = [(1, 1), (5, 1)] := sa
  have eb : b.store = [(1, 2)] := sb
  have hd : disagree a.store b.store = 2 := by rw [ea, eb]; decide
  obtain ⟨a', b', h1, -, -, h2, -, h3⟩ :=
    C05_rounds_join Bits.lvl Bits.lvl_lt Bits.cfg Bits.cfg_noCollisions .joinMax a b ha hb 2 (le_of_eq hd)
  refine ⟨a, b, a', b', ea, eb, hd, h1, h2, ?_, ?_⟩
  · rw [h3 rfl, ea, eb]; decide
  · rw [h3 rfl, ea, eb]; decide

/-- Quiescence: once converged, further rounds exchange nothing (any join, or peer-wins). -/
theorem C05_quiescent_join (lvl : K → Nat) (hlvl : ∀ k, lvl k < 255) (hc : HashCfg K V D) (m : Merge)
    (a b : Replica K V D) (ha : RInv lvl hc a) (hb : RInv lvl hc b) (heq : a.store = b.store) :
    ∃ a' b', syncRound lvl hc m a b = .ok (a', b') ∧ a'.store = a.store ∧ b'.store = b.store :=
  sync_quiescent lvl hlvl hc m a b ha hb heq

end Join

/-! ### The max of a linear order (corollaries: a linear order is a join-semilattice with `⊔ = max`) -/

variable {K V D : Type} [LinearOrder K] [LinearOrder V] [DecidableEq D]

/-- On a linear order the join merge of the model is the former "keep the larger value". -/
theorem C05_joinMax_linear (o v : V) :
    Merge.apply .joinMax (some o) v = if o < v then v else o :=
  apply_joinMax_linear o v

/-- For any two replicas with different content, pulling the diff ranges in at least one of the
two directions and merging (join or peer-wins) changes the receiver — for every pair of contents,
every level structure, whatever cache state the two trees carry; up to digest collisions. -/
theorem C05_progress (lvl : K → Nat) (hlvl : ∀ k, lvl k < 255) (hc : HashCfg K V D)
    (hnc : NoCollisions hc) (m : Merge)
    (a b : Replica K V D) (ha : RInv lvl hc a) (hb : RInv lvl hc b) (hne : a.store ≠ b.store) :
    (∃ a' b', pull lvl hc m a b = .ok (a', b') ∧ a'.store ≠ a.store) ∨
    (∃ b' a', pull lvl hc m b a = .ok (b', a') ∧ b'.store ≠ b.store) :=
  C05_progress_join lvl hlvl hc hnc m a b ha hb hne

/-- Repeated two-way sync rounds (as `tests/sync.rs`: b pulls from a, then a pulls from b) never
panic and, after at most as many rounds as there were disagreeing keys, both replicas hold the
same content and report the same root hash; under the join merge the common content is exactly
the join of the two initial contents. -/
theorem C05_rounds (lvl : K → Nat) (hlvl : ∀ k, lvl k < 255) (hc : HashCfg K V D)
    (hnc : NoCollisions hc) (m : Merge)
    (a b : Replica K V D) (ha : RInv lvl hc a) (hb : RInv lvl hc b)
    (n : Nat) (hn : disagree a.store b.store ≤ n) :
    ∃ a' b', syncRounds lvl hc m n a b = .ok (a', b') ∧ RInv lvl hc a' ∧ RInv lvl hc b' ∧
      a'.store = b'.store ∧
      (a'.tree.genRootHash hc).rootHash = (b'.tree.genRootHash hc).rootHash ∧
      (m = .joinMax → ∀ k, lookupKV k a'.store = joinLookup a.store b.store k) :=
  C05_rounds_join lvl hlvl hc hnc m a b ha hb n hn

/-- Quiescence: once converged, further rounds exchange nothing. -/
theorem C05_quiescent (lvl : K → Nat) (hlvl : ∀ k, lvl k < 255) (hc : HashCfg K V D) (m : Merge)
    (a b : Replica K V D) (ha : RInv lvl hc a) (hb : RInv lvl hc b) (heq : a.store = b.store) :
    ∃ a' b', syncRound lvl hc m a b = .ok (a', b') ∧ a'.store = a.store ∧ b'.store = b.store :=
  C05_quiescent_join lvl hlvl hc m a b ha hb heq

/-- The hypotheses are met by every replica state reachable from fresh replicas (see C06_refine);
in particular by the fresh replica. -/
theorem C05_reachable (lvl : K → Nat) (hc : HashCfg K V D) : RInv lvl hc (Replica.empty : Replica K V D) :=
  Replica.empty_inv lvl hc

end Mst.Props

#print axioms Mst.Props.C05_progress_join
#print axioms Mst.Props.C05_rounds_join
#print axioms Mst.Props.C05_quiescent_join
#print axioms Mst.Props.C05_progress
#print axioms Mst.Props.C05_rounds
