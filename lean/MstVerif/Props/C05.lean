/-
C05 — Anti-entropy always makes progress and converges in bounded rounds.
Replicas are modelled in `Model/Sync.lean` (store + incrementally maintained tree; a pull hashes
both trees, serialises, diffs, fetches the returned ranges from the sender's store, merges and
upserts). Values are identified with their digests. Merge rules: join (max) and peer-wins.
-/
import MstVerif.Proofs.SyncConv

namespace Mst.Props
open Mst
variable {K V D : Type} [LinearOrder K] [LinearOrder V] [DecidableEq D]

/-- For any two replicas with different content, pulling the diff ranges in at least one of the
two directions and merging (join or peer-wins) changes the receiver — for every pair of contents,
every level structure, whatever cache state the two trees carry; up to digest collisions. -/
theorem C05_progress (lvl : K → Nat) (hlvl : ∀ k, lvl k < 255) (hc : HashCfg K V D)
    (hnc : NoCollisions hc) (m : Merge)
    (a b : Replica K V D) (ha : RInv lvl hc a) (hb : RInv lvl hc b) (hne : a.store ≠ b.store) :
    (∃ a' b', pull lvl hc m a b = .ok (a', b') ∧ a'.store ≠ a.store) ∨
    (∃ b' a', pull lvl hc m b a = .ok (b', a') ∧ b'.store ≠ b.store) :=
  pull_progress lvl hlvl hc hnc m a b ha hb hne

/-- Repeated two-way sync rounds (as `tests/sync.rs`: b pulls from a, then a pulls from b) never
panic and, after at most as many rounds as there were disagreeing keys, both replicas hold the
same content and report the same root hash; under the join merge the common content is exactly
the join of the two initial contents. -/
theorem C05_rounds (lvl : K → Nat) (hlvl : ∀ k, lvl k < 255) (hc : HashCfg K V D)
    (hnc : NoCollisions hc) (m : Merge)
    (a b : Replica K V D) (ha : RInv lvl hc a) (hb : RInv lvl hc b)
    (n : Nat) (hn : disagree a.store b.store ≤ n) :
    ∃ a' b', syncRounds lvl hc m n a b = .ok (a', b') ∧ RInv lvl hc a' ∧ RInv lvl hc b' ∧
      a'.store = b'.store ∧
      (a'.tree.genRootHash hc).rootHash = (b'.tree.genRootHash hc).rootHash ∧
      (m = .joinMax → ∀ k, lookupKV k a'.store = joinLookup a.store b.store k) :=
  sync_converges lvl hlvl hc hnc m a b ha hb n hn

/-- Quiescence: once converged, further rounds exchange nothing. -/
theorem C05_quiescent (lvl : K → Nat) (hlvl : ∀ k, lvl k < 255) (hc : HashCfg K V D) (m : Merge)
    (a b : Replica K V D) (ha : RInv lvl hc a) (hb : RInv lvl hc b) (heq : a.store = b.store) :
    ∃ a' b', syncRound lvl hc m a b = .ok (a', b') ∧ a'.store = a.store ∧ b'.store = b.store :=
  sync_quiescent lvl hlvl hc m a b ha hb heq

/-- The hypotheses are met by every replica state reachable from fresh replicas (see C06_refine);
in particular by the fresh replica. -/
theorem C05_reachable (lvl : K → Nat) (hc : HashCfg K V D) : RInv lvl hc (Replica.empty : Replica K V D) :=
  Replica.empty_inv lvl hc

end Mst.Props
