/-
C02 — Lazily cached hashes are never stale; the staleness gate.
-/
import MstVerif.Proofs.History
import MstVerif.Proofs.Traverse
import Mathlib.Data.Nat.Basic

namespace Mst.Props
open Mst
variable {K V D : Type} [LinearOrder K]

/-- The hash-free history that builds a content freshly: one upsert per entry. -/
def freshOps (c : List (K × V)) : List (Op K V) := c.map fun kv => Op.ups kv.1 kv.2

/-- The CacheOK invariant at every reachable (content, cache-state) pair — every prefix of every
history over {upsert, hash} is itself a history, so this covers all interleavings: every cached
page digest anywhere in the tree is the true digest of that page's current subtree. -/
theorem C02_no_stale_cache (lvl : K → Nat) (hlvl : ∀ k, lvl k < 255) (hc : HashCfg K V D)
    (ops : List (Op K V)) :
    ∃ t, run lvl hc ops = .ok t ∧ CacheOKPg hc t.root ∧
      (∀ d, t.rootHash = some d → some d = t.root.trueHash hc) := by
  obtain ⟨t, r, i, _⟩ := run_inv lvl hlvl hc ops
  refine ⟨t, r, i.cacheOK, ?_⟩
  intro d hd
  have hcache := i.rootHash d hd
  have hclean : CleanPg hc t.root := by
    cases hroot : t.root with
    | none => simp [CleanPg]
    | some L c n h =>
      have hco := i.cacheOK
      rw [hroot] at hco hcache
      simp only [Pg.cache?] at hcache
      subst hcache
      exact hco.1 rfl
  rw [← hcache]
  exact clean_cache hc t.root hclean

/-- After ANY interleaving of upserts and hash requests, a hash request yields exactly the tree
(root hash, every page's cached digest, page ranges) that a tree freshly built from the same
content by upserts only and hashed once reports. -/
theorem C02_fresh (lvl : K → Nat) (hlvl : ∀ k, lvl k < 255) (hc : HashCfg K V D)
    (ops : List (Op K V)) :
    ∃ t f, run lvl hc ops = .ok t ∧ run lvl hc (freshOps (finalContent ops)) = .ok f ∧
      t.genRootHash hc = f.genRootHash hc := by
  obtain ⟨t, r₁, i₁, c₁⟩ := run_inv lvl hlvl hc ops
  obtain ⟨f, r₂, i₂, c₂⟩ := run_inv lvl hlvl hc (freshOps (finalContent ops))
  refine ⟨t, f, r₁, r₂, ?_⟩
  -- the fresh history reaches the same content
  have hfc : finalContent (freshOps (finalContent ops)) = finalContent ops := by
    have key : ∀ (c acc : List (K × V)), KSorted (acc ++ c) →
        applyOps acc (freshOps c) = acc ++ c := by
      intro c
      induction c with
      | nil => intro acc _; simp [freshOps, applyOps]
      | cons kv rest ih =>
        intro acc hs
        have hins : insertKV kv.1 kv.2 acc = acc ++ [kv] := by
          have hlt : ∀ x ∈ acc, x.1 < kv.1 := by
            intro x hx
            simp only [KSorted, List.map_append, List.map_cons, List.pairwise_append] at hs
            exact hs.2.2 x.1 (List.mem_map_of_mem hx) kv.1 (by simp)
          clear hs ih
          induction acc with
          | nil => simp [insertKV]
          | cons a acc iha =>
            have h1 : a.1 < kv.1 := hlt a (by simp)
            have : ¬ kv.1 < a.1 := not_lt.mpr (le_of_lt h1)
            have h2 : ¬ kv.1 = a.1 := fun e => (ne_of_lt h1) e.symm
            simp only [insertKV, this, h2, if_false, List.cons_append]
            rw [iha (fun x hx => hlt x (List.mem_cons_of_mem _ hx))]
        have := ih (acc ++ [kv]) (by simpa using hs)
        simp only [freshOps, List.map_cons, applyOps] at this ⊢
        rw [hins]
        simpa [freshOps] using this
    have := key (finalContent ops) [] (by simpa using finalContent_sorted ops)
    simpa [finalContent] using this
  have hcont : t.root.content = f.root.content := by rw [c₁, c₂, hfc]
  have her : t.root.erase = f.root.erase := root_unique lvl _ _ i₁.shape i₂.shape hcont
  obtain ⟨_, g₁, _, e₁, cl₁⟩ := genRootHash_inv lvl hc t i₁
  obtain ⟨_, g₂, _, e₂, cl₂⟩ := genRootHash_inv lvl hc f i₂
  have hroot : (t.genRootHash hc).root = (f.genRootHash hc).root :=
    clean_eq_of_erase_eq hc _ _ cl₁ cl₂ (by rw [e₁, e₂, her])
  have hrh : (t.genRootHash hc).rootHash = (f.genRootHash hc).rootHash := by
    rw [g₁, g₂, ← trueHash_erase hc t.root, ← trueHash_erase hc f.root, her]
  cases h₁ : t.genRootHash hc with
  | mk ra ha =>
    cases h₂ : f.genRootHash hc with
    | mk rb hb =>
      rw [h₁, h₂] at hroot hrh
      simp only at hroot hrh
      rw [hroot, hrh]

/-- The staleness gate: after any upsert from any reachable state — also one that leaves the value
unchanged — the cached root hash and the page-range serialisation are unavailable. -/
theorem C02_gate (lvl : K → Nat) (hlvl : ∀ k, lvl k < 255) (hc : HashCfg K V D)
    (ops : List (Op K V)) (k : K) (v : V) :
    ∃ t, run lvl hc (ops ++ [.ups k v]) = .ok t ∧ t.rootHashCached = none ∧ t.serialise = .ok none := by
  obtain ⟨t₀, r₀, i₀, _⟩ := run_inv lvl hlvl hc ops
  obtain ⟨t, h1, _, _, h4⟩ := Tree.upsert_inv lvl hlvl hc t₀ i₀ k v
  refine ⟨t, ?_, h4, serialise_none t h4⟩
  unfold run at r₀ ⊢
  rw [runFrom_append, r₀]
  simp [runFrom, Tree.step, h1]

/-- … and a hash request makes both available again, up to date. -/
theorem C02_regenerated (lvl : K → Nat) (hlvl : ∀ k, lvl k < 255) (hc : HashCfg K V D)
    (ops : List (Op K V)) :
    ∃ t, run lvl hc (ops ++ [.hash]) = .ok t ∧ t.rootHashCached = t.root.trueHash hc ∧
      t.rootHashCached.isSome ∧ ∃ l, t.serialise = .ok (some l) := by
  obtain ⟨t₀, r₀, i₀, _⟩ := run_inv lvl hlvl hc ops
  obtain ⟨i₁, g, gs, e, _⟩ := genRootHash_inv lvl hc t₀ i₀
  refine ⟨t₀.genRootHash hc, ?_, ?_, gs, ?_⟩
  · unfold run at r₀ ⊢
    rw [runFrom_append, r₀]
    simp [runFrom, Tree.step]
  · show (t₀.genRootHash hc).rootHash = _
    rw [g, ← trueHash_erase hc (t₀.genRootHash hc).root, e, trueHash_erase]
  · obtain ⟨l, hl, _⟩ := serialise_spec lvl hc _ i₁ gs
    exact ⟨l, hl⟩

/-- Non-vacuity (test): the F1 history — hash between upserts on three levels — is a history. -/
example : (([.ups 0 1, .ups 2 1, .hash, .ups 1 1] : List (Op Nat Nat)).length = 4) := rfl

end Mst.Props
