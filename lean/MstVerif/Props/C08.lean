/-
C08 — Replicas with identical content exchange nothing.
-/
import MstVerif.Proofs.Reach

namespace Mst.Props
open Mst
variable {K V D : Type} [LinearOrder K] [DecidableEq D]

/-- Two hashed real trees with the same content: the diff is empty (in either direction, by
symmetry of the hypothesis). -/
theorem C08 (lvl : K → Nat) (hc : HashCfg K V D) (tL tP : Tree K V D)
    (hL : Hashed lvl hc tL) (hP : Hashed lvl hc tP) (h : tL.root.content = tP.root.content) :
    diff (pageRanges hc tL) (pageRanges hc tP) = .ok [] ∧
    diff (pageRanges hc tP) (pageRanges hc tL) = .ok [] :=
  ⟨diff_trees_same_content lvl hc tL tP hL hP h, diff_trees_same_content lvl hc tP tL hP hL h.symm⟩

/-- However each tree's history of upserts and hash requests looked: any two histories with the
same last-write-wins map, each followed by the hash request serialisation needs. -/
theorem C08_histories (lvl : K → Nat) (hlvl : ∀ k, lvl k < 255) (hc : HashCfg K V D)
    (ops₁ ops₂ : List (Op K V)) (h : ∀ k, lastWrite ops₁ k = lastWrite ops₂ k) :
    ∃ t₁ t₂, run lvl hc (ops₁ ++ [.hash]) = .ok t₁ ∧ run lvl hc (ops₂ ++ [.hash]) = .ok t₂ ∧
      t₁.serialise = .ok (some (pageRanges hc t₁)) ∧ t₂.serialise = .ok (some (pageRanges hc t₂)) ∧
      diff (pageRanges hc t₁) (pageRanges hc t₂) = .ok [] ∧
      diff (pageRanges hc t₂) (pageRanges hc t₁) = .ok [] := by
  obtain ⟨t₁, r₁, h₁, c₁⟩ := hashed_of_run lvl hlvl hc ops₁
  obtain ⟨t₂, r₂, h₂, c₂⟩ := hashed_of_run lvl hlvl hc ops₂
  have hc' : t₁.root.content = t₂.root.content := by rw [c₁, c₂, finalContent_ext ops₁ ops₂ h]
  obtain ⟨d1, d2⟩ := C08 lvl hc t₁ t₂ h₁ h₂ hc'
  exact ⟨t₁, t₂, r₁, r₂, serialise_eq_pageRanges lvl hc t₁ h₁, serialise_eq_pageRanges lvl hc t₂ h₂, d1, d2⟩

/-- A diff against an empty peer is empty — for ANY local list. -/
theorem C08_empty_peer (loc : List (PR K D)) : diff loc ([] : List (PR K D)) = .ok [] :=
  diff_empty_peer loc

end Mst.Props
