import MstVerif.Proofs.Defs
