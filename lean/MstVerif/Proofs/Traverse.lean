/-
L5: traversal APIs agree (C17) and the serialisation is the pre-order list of page ranges (C11).
-/
import MstVerif.Proofs.Defs
import Mathlib.Order.Defs.LinearOrder

namespace Mst
variable {K V D : Type}

/-! ### Visitor with early stop -/

/-- Feed events to a visitor until it asks to stop. -/
def foldUntil {σ ε : Type} (vis : σ → ε → σ × Bool) : σ → List ε → σ × Bool
  | s, [] => (s, true)
  | s, e :: es =>
    match vis s e with
    | (s', false) => (s', false)
    | (s', true) => foldUntil vis s' es

theorem foldUntil_append {σ ε : Type} (vis : σ → ε → σ × Bool) (s : σ) (l1 l2 : List ε) :
    foldUntil vis s (l1 ++ l2) =
      match foldUntil vis s l1 with
      | (s', false) => (s', false)
      | (s', true) => foldUntil vis s' l2 := by
  induction l1 generalizing s with
  | nil => simp [foldUntil]
  | cons e es ih =>
    simp only [List.cons_append, foldUntil]
    rcases hv : vis s e with ⟨s1, b1⟩
    cases b1
    · simp
    · simp [ih]

mutual
theorem runPg_eq_aux {σ : Type} (vis : σ → Event K V D → σ × Bool) :
    ∀ (p : Pg K V D) (high : Bool) (s : σ), runPg vis high p s = foldUntil vis s (tracePg high p)
  | .none, high, s => by simp [runPg, tracePg, foldUntil]
  | .some L c n h, high, s => by
    rw [runPg, tracePg]
    simp only [foldUntil]
    rcases hv : vis s (.visitPage L c n.length high) with ⟨s1, b1⟩
    cases b1
    · simp
    · simp only [foldUntil_append, ← runNd_eq_aux vis n s1]
      rcases hn : runNd vis n s1 with ⟨s2, b2⟩
      cases b2
      · simp
      · simp only [foldUntil]
        rcases hp : vis s2 (.postPage L) with ⟨s3, b3⟩
        cases b3
        · simp
        · simp [runPg_eq_aux vis h true s3]
theorem runNd_eq_aux {σ : Type} (vis : σ → Event K V D → σ × Bool) :
    ∀ (n : Nd K V D) (s : σ), runNd vis n s = foldUntil vis s (traceNd n)
  | .nil, s => by simp [runNd, traceNd, foldUntil]
  | .cons lt k v tl, s => by
    rw [runNd, traceNd]
    simp only [foldUntil]
    rcases hv : vis s (.preNode k v) with ⟨s1, b1⟩
    cases b1
    · simp
    · simp only [foldUntil_append, ← runPg_eq_aux vis lt false s1]
      rcases hn : runPg vis false lt s1 with ⟨s2, b2⟩
      cases b2
      · simp
      · simp only [foldUntil]
        rcases hp : vis s2 (.visitNode k v) with ⟨s3, b3⟩
        cases b3
        · simp
        · simp only []
          rcases hq : vis s3 (.postNode k v) with ⟨s4, b4⟩
          cases b4
          · simp
          · simp [runNd_eq_aux vis tl s4]
end

/-- The early-return structure of `in_order_traversal` / `depth_first` delivers exactly the full
callback sequence cut at the first callback that returns `false` — for EVERY visitor. -/
theorem runPg_eq_foldUntil {σ : Type} (vis : σ → Event K V D → σ × Bool) (high : Bool)
    (p : Pg K V D) (s : σ) : runPg vis high p s = foldUntil vis s (tracePg high p) := by
  exact runPg_eq_aux vis p high s

theorem foldUntil_recVis_none (acc l : List (Event K V D)) :
    foldUntil (recVis none) acc l = (l.reverse ++ acc, true) := by
  induction l generalizing acc with
  | nil => simp [foldUntil]
  | cons e es ih => simp [foldUntil, recVis, ih]

theorem foldUntil_recVis_some (n : Nat) (acc l : List (Event K V D)) (hacc : acc.length ≤ n) :
    (foldUntil (recVis (some n)) acc l).1 = (l.take (n + 1 - acc.length)).reverse ++ acc := by
  induction l generalizing acc with
  | nil => simp [foldUntil]
  | cons e es ih =>
    simp only [foldUntil, recVis]
    by_cases hn : acc.length = n
    · simp [hn]
    · have h1 : (e :: acc).length ≤ n := by simp; omega
      have h2 : n + 1 - acc.length = (n + 1 - (e :: acc).length) + 1 := by simp; omega
      simp only [ne_eq, hn, not_false_eq_true, decide_true]
      rw [ih (e :: acc) h1, h2, List.take_succ_cons]
      simp

/-- The recording visitor: what it has seen is the `(stop+1)`-prefix of the full trace. -/
theorem runRecorded_eq_take (stop : Option Nat) (p : Pg K V D) :
    runRecorded stop p =
      match stop with
      | none => tracePg false p
      | some n => (tracePg false p).take (n + 1) := by
  unfold runRecorded
  rw [runPg_eq_foldUntil]
  cases stop with
  | none => simp [foldUntil_recVis_none]
  | some n => simp [foldUntil_recVis_some]

def Event.node? : Event K V D → Option (K × V)
  | .visitNode k v => some (k, v)
  | _ => none

mutual
theorem tracePg_visitNodes : ∀ (p : Pg K V D) (high : Bool),
    (tracePg high p).filterMap Event.node? = p.content
  | .none, _ => by simp [tracePg, Pg.content]
  | .some L c n h, high => by
    simp [tracePg, Pg.content, List.filterMap_append, List.filterMap_cons, Event.node?,
      traceNd_visitNodes n, tracePg_visitNodes h true]
theorem traceNd_visitNodes : ∀ (n : Nd K V D),
    (traceNd n).filterMap Event.node? = n.content
  | .nil => by simp [traceNd, Nd.content]
  | .cons lt k v tl => by
    simp [traceNd, Nd.content, List.filterMap_append, List.filterMap_cons, Event.node?,
      traceNd_visitNodes tl, tracePg_visitNodes lt false]
end

/-- The `visit_node` callbacks of a full traversal are the in-order content. -/
theorem trace_visitNodes (high : Bool) (p : Pg K V D) :
    (tracePg high p).filterMap Event.node? = p.content := by
  exact tracePg_visitNodes p high

/-! #### NodeIter: stack invariant, remaining content and potential -/

/-- What a frame still has to yield (including everything below its remaining nodes). -/
def frameContent (f : PageVisit K V D) : List (K × V) :=
  match f.state, f.rest with
  | .unvisited, rest => rest.content ++ f.high.content
  | .descended, .nil => f.high.content
  | .descended, .cons _ k v tl => (k, v) :: (tl.content ++ f.high.content)

def stackContent : List (PageVisit K V D) → List (K × V)
  | [] => []
  | f :: fs => frameContent f ++ stackContent fs

/-- A `descended` frame sits on a node whose `lt_pointer` is `Some`. -/
def frameOK (f : PageVisit K V D) : Prop :=
  f.state = .descended → ∃ lt k v tl, f.rest = .cons lt k v tl ∧ lt.isSome = true

def stackOK (st : List (PageVisit K V D)) : Prop := ∀ f ∈ st, frameOK f

/-- Potential of a frame: bounds the number of loop iterations it can still cause. -/
def framePot (f : PageVisit K V D) : Nat :=
  match f.state, f.rest with
  | .unvisited, rest => 2 * rest.size + 2 * f.high.size + 1
  | .descended, .nil => 2 * f.high.size + 1
  | .descended, .cons _ _ _ tl => 2 * (1 + tl.size) + 2 * f.high.size + 1

def stackPot : List (PageVisit K V D) → Nat
  | [] => 0
  | f :: fs => framePot f + stackPot fs

theorem iterNext_spec : ∀ (fuel : Nat) (st : List (PageVisit K V D)),
    stackOK st → stackPot st < fuel →
    ∃ st', iterNext fuel st = .ok ((stackContent st).head?, st') ∧
      stackContent st' = (stackContent st).tail ∧ stackOK st' ∧ stackPot st' ≤ stackPot st
  | 0, _, _, hp => by omega
  | fuel + 1, [], _, _ => ⟨[], by simp [iterNext, stackContent, stackOK, stackPot]⟩
  | fuel + 1, ⟨rest, high, state⟩ :: st, hok, hp => by
    have hok' : stackOK st := fun f hf => hok f (List.mem_cons_of_mem _ hf)
    have hf0 : frameOK (⟨rest, high, state⟩ : PageVisit K V D) := hok _ (List.mem_cons_self ..)
    cases rest with
    | nil =>
      cases high with
      | none =>
        have hc : stackContent (⟨.nil, .none, state⟩ :: st) = stackContent st := by
          cases state <;> simp [stackContent, frameContent, Pg.content, Nd.content]
        have hpot : stackPot st < stackPot (⟨.nil, .none, state⟩ :: st) := by
          cases state <;> simp [stackPot, framePot]
        obtain ⟨st', h1, h2, h3, h4⟩ := iterNext_spec fuel st hok' (by omega)
        refine ⟨st', ?_, ?_, h3, by omega⟩
        · rw [hc]; simpa [iterNext, pageVisitOf] using h1
        · rw [hc]; exact h2
      | some L c n h =>
        have hc : stackContent (⟨.nil, .some L c n h, state⟩ :: st)
            = stackContent (⟨n, h, .unvisited⟩ :: st) := by
          cases state <;> simp [stackContent, frameContent, Pg.content, Nd.content]
        have hpot : stackPot (⟨n, h, .unvisited⟩ :: st)
            < stackPot (⟨.nil, .some L c n h, state⟩ :: st) := by
          cases state <;> simp [stackPot, framePot, Pg.size, Nd.size] <;> omega
        have hok2 : stackOK (⟨n, h, .unvisited⟩ :: st) := by
          intro f hf
          rcases List.mem_cons.1 hf with rfl | hf
          · intro hd; cases hd
          · exact hok' f hf
        obtain ⟨st', h1, h2, h3, h4⟩ := iterNext_spec fuel _ hok2 (by omega)
        refine ⟨st', ?_, ?_, h3, by omega⟩
        · rw [hc]; simpa [iterNext, pageVisitOf] using h1
        · rw [hc]; exact h2
    | cons lt k v tl =>
      have hok3 : stackOK (⟨tl, high, .unvisited⟩ :: st) := by
        intro f hf
        rcases List.mem_cons.1 hf with rfl | hf
        · intro hd; cases hd
        · exact hok' f hf
      cases state with
      | unvisited =>
        cases lt with
        | none =>
          refine ⟨⟨tl, high, .unvisited⟩ :: st, ?_, ?_, hok3, ?_⟩
          · simp [iterNext, pageVisitOf, stackContent, frameContent, Pg.content, Nd.content]
          · simp [stackContent, frameContent, Pg.content, Nd.content]
          · simp [stackPot, framePot, Pg.size, Nd.size]; omega
        | some L c n h =>
          have hc : stackContent (⟨.cons (.some L c n h) k v tl, high, .unvisited⟩ :: st)
              = stackContent (⟨n, h, .unvisited⟩ ::
                  ⟨.cons (.some L c n h) k v tl, high, .descended⟩ :: st) := by
            simp [stackContent, frameContent, Pg.content, Nd.content]
          have hpot : stackPot (⟨n, h, .unvisited⟩ ::
                  ⟨.cons (.some L c n h) k v tl, high, .descended⟩ :: st)
              < stackPot (⟨.cons (.some L c n h) k v tl, high, .unvisited⟩ :: st) := by
            simp [stackPot, framePot, Pg.size, Nd.size]; omega
          have hok2 : stackOK (⟨n, h, .unvisited⟩ ::
                  ⟨.cons (.some L c n h) k v tl, high, .descended⟩ :: st) := by
            intro f hf
            rcases List.mem_cons.1 hf with rfl | hf
            · intro hd; cases hd
            · rcases List.mem_cons.1 hf with rfl | hf
              · intro _; exact ⟨_, _, _, _, rfl, rfl⟩
              · exact hok' f hf
          obtain ⟨st', h1, h2, h3, h4⟩ := iterNext_spec fuel _ hok2 (by omega)
          refine ⟨st', ?_, ?_, h3, by omega⟩
          · rw [hc]; simpa [iterNext, pageVisitOf] using h1
          · rw [hc]; exact h2
      | descended =>
        obtain ⟨lt', k', v', tl', heq, hsome⟩ := hf0 rfl
        cases heq
        refine ⟨⟨tl, high, .unvisited⟩ :: st, ?_, ?_, hok3, ?_⟩
        · simp [iterNext, hsome, stackContent, frameContent]
        · simp [stackContent, frameContent]
        · simp [stackPot, framePot]; omega

theorem iterAllGo_spec (perCall : Nat) : ∀ (fuel : Nat) (st : List (PageVisit K V D))
    (acc : List (K × V)), stackOK st → stackPot st < perCall →
    (stackContent st).length < fuel →
    iterAllGo perCall fuel st acc = .ok (acc.reverse ++ stackContent st)
  | 0, _, _, _, _, hl => by omega
  | fuel + 1, st, acc, hok, hp, hl => by
    obtain ⟨st', h1, h2, h3, h4⟩ := iterNext_spec perCall st hok hp
    rw [iterAllGo, h1]
    cases hc : stackContent st with
    | nil => simp
    | cons kv rest =>
      rw [hc] at h2 hl
      simp only [List.head?_cons, List.tail_cons] at h2 ⊢
      rw [iterAllGo_spec perCall fuel st' (kv :: acc) h3 (by omega)
        (by rw [h2]; simp at hl; omega), h2]
      simp

mutual
theorem Pg.content_length_le : ∀ (p : Pg K V D), p.content.length ≤ p.size
  | .none => by simp [Pg.content, Pg.size]
  | .some _ _ n h => by
    have := Nd.content_length_le n
    have := Pg.content_length_le h
    simp [Pg.content, Pg.size]; omega
theorem Nd.content_length_le : ∀ (n : Nd K V D), n.content.length ≤ n.size
  | .nil => by simp [Nd.content, Nd.size]
  | .cons lt _ _ tl => by
    have := Pg.content_length_le lt
    have := Nd.content_length_le tl
    simp [Nd.content, Nd.size]; omega
end

/-- `NodeIter` yields exactly the in-order content (for every tree; no invariant needed), never
trips its assertion and never runs out of fuel. -/
theorem iterAll_eq_content (p : Pg K V D) : iterAll p = .ok p.content := by
  cases p with
  | none => simp [iterAll, pageVisitOf, Pg.content]
  | some L c n h =>
    have hlen := Pg.content_length_le (.some L c n h)
    have hc : stackContent [(⟨n, h, .unvisited⟩ : PageVisit K V D)] = (Pg.some L c n h).content := by
      simp [stackContent, frameContent, Pg.content]
    have hok : stackOK [(⟨n, h, .unvisited⟩ : PageVisit K V D)] := by
      intro f hf
      rcases List.mem_cons.1 hf with rfl | hf
      · intro hd; cases hd
      · cases hf
    simp only [iterAll, pageVisitOf]
    rw [iterAllGo_spec _ _ _ [] hok, hc]
    · simp
    · simp [stackPot, framePot, Pg.size]; omega
    · rw [hc]; omega

/-! ### Serialisation -/

mutual
/-- All pages of a subtree in pre-order: page, the subtrees under its keys in key order, high page. -/
def Pg.preorder : Pg K V D → List (Pg K V D)
  | .none => []
  | .some L c n h => .some L c n h :: (n.preorder ++ h.preorder)
def Nd.preorder : Nd K V D → List (Pg K V D)
  | .nil => []
  | .cons lt _ _ tl => lt.preorder ++ tl.preorder
end

/-- smallest key, largest key of the page's whole subtree and the page's true digest -/
def rangeOf (hc : HashCfg K V D) (q : Pg K V D) : Option (PR K D) :=
  match q.content.head?, q.content.getLast?, q.trueHash hc with
  | some a, some b, some d => some { start := a.1, end_ := b.1, hash := d }
  | _, _, _ => none

theorem minKey_aux : ∀ (p : Pg K V D) (lvl : K → Nat) (b : Nat), LvPg lvl b p → p.isSome = true →
    ∃ kv, p.content.head? = some kv ∧ minSubtreeKey p = .ok kv.1
  | .none, _, _, _, hs => by simp [Pg.isSome] at hs
  | .some L c .nil h, _, _, hlv, _ => by simp [LvPg] at hlv
  | .some L c (.cons .none k v tl) h, _, _, _, _ =>
    ⟨(k, v), by simp [Pg.content, Nd.content], by simp [minSubtreeKey]⟩
  | .some L c (.cons (.some L' c' n' h') k v tl) h, lvl, b, hlv, _ => by
    have hlt : LvPg lvl L (.some L' c' n' h') := by
      simp only [LvPg, LvNd] at hlv
      simpa only [LvPg] using hlv.2.2.1.1
    obtain ⟨kv, h1, h2⟩ := minKey_aux (.some L' c' n' h') lvl L hlt rfl
    refine ⟨kv, ?_, ?_⟩
    · rw [Pg.content, Nd.content]
      simp [List.head?_append, h1]
    · rw [minSubtreeKey]; exact h2

theorem minSubtreeKey_eq (lvl : K → Nat) (b : Nat) (L : Nat) (c : Option D) (n : Nd K V D) (h : Pg K V D)
    (hlv : LvPg lvl b (.some L c n h)) :
    ∃ kv, (Pg.some L c n h).content.head? = some kv ∧ minSubtreeKey (.some L c n h) = .ok kv.1 := by
  exact minKey_aux _ lvl b hlv rfl

theorem Nd.lastKey?_spec : ∀ (n : Nd K V D), n ≠ .nil →
    ∃ kv, n.content.getLast? = some kv ∧ n.lastKey? = some kv.1
  | .nil, hn => absurd rfl hn
  | .cons lt k v .nil, _ =>
    ⟨(k, v), by simp [Nd.content], by simp [Nd.lastKey?]⟩
  | .cons lt k v (.cons lt2 k2 v2 tl2), _ => by
    obtain ⟨kv, h1, h2⟩ := Nd.lastKey?_spec (.cons lt2 k2 v2 tl2) (by simp)
    refine ⟨kv, ?_, ?_⟩
    · rw [Nd.content]
      simp [List.getLast?_append, List.getLast?_cons, h1]
    · simpa [Nd.lastKey?] using h2

theorem maxKey_aux : ∀ (p : Pg K V D) (lvl : K → Nat) (b : Nat), LvPg lvl b p → p.isSome = true →
    ∃ kv, p.content.getLast? = some kv ∧ maxSubtreeKey p = .ok kv.1
  | .none, _, _, _, hs => by simp [Pg.isSome] at hs
  | .some L c n .none, _, _, hlv, _ => by
    have hn : n ≠ .nil := by simp only [LvPg] at hlv; exact hlv.2.1
    obtain ⟨kv, h1, h2⟩ := Nd.lastKey?_spec n hn
    exact ⟨kv, by simp [Pg.content, h1], by simp [maxSubtreeKey, h2]⟩
  | .some L c n (.some L' c' n' h'), lvl, b, hlv, _ => by
    have hh : LvPg lvl L (.some L' c' n' h') := by
      simp only [LvPg] at hlv
      simpa only [LvPg] using hlv.2.2.2
    obtain ⟨kv, h1, h2⟩ := maxKey_aux (.some L' c' n' h') lvl L hh rfl
    refine ⟨kv, ?_, ?_⟩
    · rw [Pg.content]
      simp [List.getLast?_append, h1]
    · rw [maxSubtreeKey]; exact h2

theorem maxSubtreeKey_eq (lvl : K → Nat) (b : Nat) (L : Nat) (c : Option D) (n : Nd K V D) (h : Pg K V D)
    (hlv : LvPg lvl b (.some L c n h)) :
    ∃ kv, (Pg.some L c n h).content.getLast? = some kv ∧ maxSubtreeKey (.some L c n h) = .ok kv.1 := by
  exact maxKey_aux _ lvl b hlv rfl

mutual
theorem rangesPg_aux (lvl : K → Nat) (hc : HashCfg K V D) : ∀ (p : Pg K V D) (b : Nat),
    LvPg lvl b p → CleanPg hc p →
    ∃ l, rangesPg p = .ok l ∧ l.map some = p.preorder.map (rangeOf hc)
  | .none, _, _, _ => ⟨[], by simp [rangesPg, Pg.preorder]⟩
  | .some L c n h, b, hlv, hcl => by
    simp only [CleanPg] at hcl
    obtain ⟨rfl, hcn, hch⟩ := hcl
    obtain ⟨kv1, hmin1, hmin2⟩ := minSubtreeKey_eq lvl b L _ n h hlv
    obtain ⟨kv2, hmax1, hmax2⟩ := maxSubtreeKey_eq lvl b L _ n h hlv
    simp only [LvPg] at hlv
    obtain ⟨ln, hn1, hn2⟩ := rangesNd_aux lvl hc n L hlv.2.2.1 hcn
    obtain ⟨lh, hh1, hh2⟩ := rangesPg_aux lvl hc h L hlv.2.2.2 hch
    refine ⟨{ start := kv1.1, end_ := kv2.1,
              hash := hc.h (n.hashBytes hc ++ h.hashBytes hc) } :: (ln ++ lh), ?_, ?_⟩
    · rw [rangesPg]
      simp only [pageRangeOf, hmin2, hmax2, Pg.cache?, hn1, hh1]
    · simp only [Pg.preorder, List.map_cons, List.map_append, hn2, hh2]
      congr 1
      simp only [rangeOf, hmin1, hmax1, Pg.trueHash]
theorem rangesNd_aux (lvl : K → Nat) (hc : HashCfg K V D) : ∀ (n : Nd K V D) (L : Nat),
    LvNd lvl L n → CleanNd hc n →
    ∃ l, rangesNd n = .ok l ∧ l.map some = n.preorder.map (rangeOf hc)
  | .nil, _, _, _ => ⟨[], by simp [rangesNd, Nd.preorder]⟩
  | .cons lt k v tl, L, hlv, hcl => by
    simp only [LvNd] at hlv
    simp only [CleanNd] at hcl
    obtain ⟨ll, hl1, hl2⟩ := rangesPg_aux lvl hc lt L hlv.1 hcl.1
    obtain ⟨lt', ht1, ht2⟩ := rangesNd_aux lvl hc tl L hlv.2.2 hcl.2
    refine ⟨ll ++ lt', ?_, ?_⟩
    · rw [rangesNd]; simp only [hl1, ht1]
    · simp only [Nd.preorder, List.map_append, hl2, ht2]
end

/-- On a clean, well-shaped subtree the page-range visitor succeeds and emits, for every page in
pre-order, (min key, max key, true digest) of that page's subtree. -/
theorem rangesPg_spec (lvl : K → Nat) (hc : HashCfg K V D) (b : Nat) (p : Pg K V D)
    (hlv : LvPg lvl b p) (hcl : CleanPg hc p) :
    ∃ l, rangesPg p = .ok l ∧ l.map some = p.preorder.map (rangeOf hc) := by
  exact rangesPg_aux lvl hc p b hlv hcl

/-- `serialise_page_ranges` after `root_hash()` always succeeds; empty tree ↦ empty list. -/
theorem serialise_spec [LT K] (lvl : K → Nat) (hc : HashCfg K V D) (t : Tree K V D)
    (hinv : Inv lvl hc t) (hh : t.rootHash.isSome) :
    ∃ l, t.serialise = .ok (some l) ∧
      (t.root.content = [] → l = []) ∧
      (t.root.content ≠ [] → l.map some = t.root.preorder.map (rangeOf hc)) := by
  obtain ⟨root, rh⟩ := t
  obtain ⟨shape, -, cacheOK, hroot⟩ := hinv
  simp only at shape cacheOK hroot hh ⊢
  cases rh with
  | none => simp at hh
  | some d =>
    have hcache := hroot d rfl
    cases root with
    | none => simp [LvRoot] at shape
    | some L c n h =>
      simp only [Pg.cache?] at hcache
      subst hcache
      simp only [LvRoot] at shape
      simp only [CacheOKPg] at cacheOK
      have hclean : CleanPg hc (.some L (some d) n h) := cacheOK.1 rfl
      cases n with
      | nil =>
        obtain ⟨-, hhn⟩ := shape.1 rfl
        subst hhn
        refine ⟨[], by simp [Tree.serialise, Pg.nodesNil, Nd.isNil], fun _ => rfl, ?_⟩
        intro hne
        simp [Pg.content, Nd.content] at hne
      | cons lt k v tl =>
        have hlv : LvPg lvl (L + 1) (.some L (some d) (.cons lt k v tl) h) := by
          simp only [LvPg]
          exact ⟨Nat.lt_succ_self L, by simp, shape.2.1, shape.2.2⟩
        obtain ⟨l, h1, h2⟩ := rangesPg_spec lvl hc (L + 1) _ hlv hclean
        obtain ⟨kv, hkv, -⟩ := minSubtreeKey_eq lvl (L + 1) L (some d) (.cons lt k v tl) h hlv
        refine ⟨l, by simp [Tree.serialise, Pg.nodesNil, Nd.isNil, h1], ?_, fun _ => h2⟩
        intro hnil
        rw [hnil] at hkv
        simp at hkv

/-- Without a cached root hash the serialisation is unavailable (the staleness gate, C02). -/
theorem serialise_none (t : Tree K V D) (h : t.rootHash = none) : t.serialise = .ok none := by
  simp [Tree.serialise, h]

end Mst
