/-
L5: traversal APIs agree (C17) and the serialisation is the pre-order list of page ranges (C11).
-/
import MstVerif.Proofs.Defs
import Mathlib.Order.Defs.LinearOrder

namespace Mst
variable {K V D : Type}

/-! ### Visitor with early stop -/

/-- Feed events to a visitor until it asks to stop. -/
def foldUntil {σ ε : Type} (vis : σ → ε → σ × Bool) : σ → List ε → σ × Bool
  | s, [] => (s, true)
  | s, e :: es =>
    match vis s e with
    | (s', false) => (s', false)
    | (s', true) => foldUntil vis s' es

/-- The early-return structure of `in_order_traversal` / `depth_first` delivers exactly the full
callback sequence cut at the first callback that returns `false` — for EVERY visitor. -/
theorem runPg_eq_foldUntil {σ : Type} (vis : σ → Event K V D → σ × Bool) (high : Bool)
    (p : Pg K V D) (s : σ) : runPg vis high p s = foldUntil vis s (tracePg high p) := by
  sorry

/-- The recording visitor: what it has seen is the `(stop+1)`-prefix of the full trace. -/
theorem runRecorded_eq_take (stop : Option Nat) (p : Pg K V D) :
    runRecorded stop p =
      match stop with
      | none => tracePg false p
      | some n => (tracePg false p).take (n + 1) := by
  sorry

def Event.node? : Event K V D → Option (K × V)
  | .visitNode k v => some (k, v)
  | _ => none

/-- The `visit_node` callbacks of a full traversal are the in-order content. -/
theorem trace_visitNodes (high : Bool) (p : Pg K V D) :
    (tracePg high p).filterMap Event.node? = p.content := by
  sorry

/-- `NodeIter` yields exactly the in-order content (for every tree; no invariant needed), never
trips its assertion and never runs out of fuel. -/
theorem iterAll_eq_content (p : Pg K V D) : iterAll p = .ok p.content := by
  sorry

/-! ### Serialisation -/

mutual
/-- All pages of a subtree in pre-order: page, the subtrees under its keys in key order, high page. -/
def Pg.preorder : Pg K V D → List (Pg K V D)
  | .none => []
  | .some L c n h => .some L c n h :: (n.preorder ++ h.preorder)
def Nd.preorder : Nd K V D → List (Pg K V D)
  | .nil => []
  | .cons lt _ _ tl => lt.preorder ++ tl.preorder
end

/-- smallest key, largest key of the page's whole subtree and the page's true digest -/
def rangeOf (hc : HashCfg K V D) (q : Pg K V D) : Option (PR K D) :=
  match q.content.head?, q.content.getLast?, q.trueHash hc with
  | some a, some b, some d => some { start := a.1, end_ := b.1, hash := d }
  | _, _, _ => none

theorem minSubtreeKey_eq (lvl : K → Nat) (b : Nat) (L : Nat) (c : Option D) (n : Nd K V D) (h : Pg K V D)
    (hlv : LvPg lvl b (.some L c n h)) :
    ∃ kv, (Pg.some L c n h).content.head? = some kv ∧ minSubtreeKey (.some L c n h) = .ok kv.1 := by
  sorry

theorem maxSubtreeKey_eq (lvl : K → Nat) (b : Nat) (L : Nat) (c : Option D) (n : Nd K V D) (h : Pg K V D)
    (hlv : LvPg lvl b (.some L c n h)) :
    ∃ kv, (Pg.some L c n h).content.getLast? = some kv ∧ maxSubtreeKey (.some L c n h) = .ok kv.1 := by
  sorry

/-- On a clean, well-shaped subtree the page-range visitor succeeds and emits, for every page in
pre-order, (min key, max key, true digest) of that page's subtree. -/
theorem rangesPg_spec (lvl : K → Nat) (hc : HashCfg K V D) (b : Nat) (p : Pg K V D)
    (hlv : LvPg lvl b p) (hcl : CleanPg hc p) :
    ∃ l, rangesPg p = .ok l ∧ l.map some = p.preorder.map (rangeOf hc) := by
  sorry

/-- `serialise_page_ranges` after `root_hash()` always succeeds; empty tree ↦ empty list. -/
theorem serialise_spec [LT K] (lvl : K → Nat) (hc : HashCfg K V D) (t : Tree K V D)
    (hinv : Inv lvl hc t) (hh : t.rootHash.isSome) :
    ∃ l, t.serialise = .ok (some l) ∧
      (t.root.content = [] → l = []) ∧
      (t.root.content ≠ [] → l.map some = t.root.preorder.map (rangeOf hc)) := by
  sorry

/-- Without a cached root hash the serialisation is unavailable (the staleness gate, C02). -/
theorem serialise_none (t : Tree K V D) (h : t.rootHash = none) : t.serialise = .ok none := by
  sorry

end Mst
