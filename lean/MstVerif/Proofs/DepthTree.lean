/-
C13 (stack part) for REAL trees: the recursion depth of `diff` is bounded by the longest chain of
nested ranges in the peer list, and for the serialisation of a real tree such chains are no longer
than the number of tree levels on a root-to-leaf path — so real trees (≤ 256 levels with `u8`
levels, in practice a handful) can never exhaust the stack; only untrusted input can (F2).
-/
import MstVerif.Proofs.DiffDepth
import Mathlib.Data.List.Chain

set_option linter.unusedSectionVars false
set_option linter.unusedVariables false

namespace Mst
variable {K V D : Type} [LinearOrder K] [DecidableEq D]

/-- A chain of nested ranges taken in list order: each range is a superset of the next. -/
def IsNestChain (c : List (PR K D)) : Prop :=
  List.IsChain (fun a b => a.supersetOf b = true) c

/-! ### Part 1: the walk's depth is bounded by the longest nested chain -/

/-- Every nested chain occurring in `l` (as a subsequence) whose first element lies inside `root`
has length at most `m`. -/
def ChainBnd (root : PR K D) (l : List (PR K D)) (m : Nat) : Prop :=
  ∀ c : List (PR K D), c.Sublist l → IsNestChain c →
    (∀ x ∈ c.head?, root.supersetOf x = true) → c.length ≤ m

theorem ChainBnd.suffix {root : PR K D} {l l' : List (PR K D)} {m : Nat}
    (h : ChainBnd root l m) (hs : l' <:+ l) : ChainBnd root l' m :=
  fun c hc hch hh => h c (hc.trans hs.sublist) hch hh

theorem ChainBnd.pos {root p : PR K D} {l : List (PR K D)} {m : Nat}
    (h : ChainBnd root (p :: l) m) (hsup : root.supersetOf p = true) : 1 ≤ m := by
  have := h [p] (by simp) (List.IsChain.singleton p) (by simp [hsup])
  simpa using this

theorem ChainBnd.child {root p : PR K D} {l : List (PR K D)} {m : Nat}
    (h : ChainBnd root (p :: l) m) (hsup : root.supersetOf p = true) :
    ChainBnd p l (m - 1) := by
  intro c hc hch hh
  have hch' : IsNestChain (p :: c) := List.IsChain.cons hch hh
  have := h (p :: c) (hc.cons_cons p) hch' (by simp [hsup])
  simp only [List.length_cons] at this
  omega

theorem skipSubtree_suffix (root : PR K D) (l : List (PR K D)) : skipSubtree root l <:+ l := by
  induction l with
  | nil => simp [skipSubtree]
  | cons v rest ih =>
    unfold skipSubtree
    by_cases h : root.supersetOf v = true
    · rw [if_pos h]; exact ih.trans (List.suffix_cons _ _)
    · rw [if_neg h]; exact List.suffix_refl _

theorem drainSubtree_suffix (root : PR K D) (peer : List (PR K D)) :
    ∀ (b : Builder K) (peer' : List (PR K D)) (b' : Builder K),
      drainSubtree root peer b = .ok (peer', b') → peer' <:+ peer := by
  induction peer with
  | nil =>
    intro b peer' b' h
    simp only [drainSubtree] at h
    cases h
    exact List.suffix_refl _
  | cons v rest ih =>
    intro b peer' b' h
    unfold drainSubtree at h
    split_ifs at h with hs
    · split at h
      · cases h
      · exact (ih _ _ _ h).trans (List.suffix_cons _ _)
    · cases h
      exact List.suffix_refl _

/-- The walk only drops a prefix of the peer list, and its depth is bounded by the longest nested
chain below `root` in the part of the peer list still to be consumed. -/
theorem nest_bound : ∀ fuel : Nat,
    (∀ (root : PR K D) (lastP : Option (PR K D)) (peer loc : List (PR K D)) (b : Builder K)
        (peer' loc' : List (PR K D)) (b' : Builder K) (d m : Nat),
      ChainBnd root peer m →
      recurseDiffD fuel root lastP peer loc b = .ok (peer', loc', b', d) →
        peer' <:+ peer ∧ d ≤ m) ∧
    (∀ (root : PR K D) (peer loc : List (PR K D)) (b : Builder K)
        (peer' loc' : List (PR K D)) (b' : Builder K) (d m : Nat),
      ChainBnd root peer m →
      recurseSubtreeD fuel root peer loc b = .ok (peer', loc', b', d) →
        peer' <:+ peer ∧ d ≤ m + 1) := by
  intro fuel
  induction fuel with
  | zero =>
    constructor
    · intro root lastP peer loc b peer' loc' b' d m _ h
      rw [recurseDiffD] at h; cases h
    · intro root peer loc b peer' loc' b' d m _ h
      rw [recurseSubtreeD] at h; cases h
  | succ fuel ih =>
    obtain ⟨ihD, ihS⟩ := ih
    constructor
    · intro root lastP peer loc b peer' loc' b' d m hbnd h
      rw [recurseDiffD_succ] at h
      rcases advWithin_cases root peer with h1 | ⟨p, peer1, rfl, hsup, h1⟩
      · rw [h1] at h
        cases h
        exact ⟨List.suffix_refl _, Nat.zero_le _⟩
      · rw [h1] at h
        dsimp only at h
        have hsuf1 : peer1 <:+ p :: peer1 := List.suffix_cons _ _
        rcases advWithin_cases p loc with h2 | ⟨l0, loc1, rfl, hsup2, h2⟩
        · rw [h2] at h
          dsimp only at h
          split_ifs at h
          · cases h; exact ⟨hsuf1, Nat.zero_le _⟩
          · split at h
            · cases h
            · cases h; exact ⟨hsuf1, Nat.zero_le _⟩
          · cases h; exact ⟨hsuf1, Nat.zero_le _⟩
        · rw [h2] at h
          dsimp only at h
          rw [hsup] at h
          simp only [Bool.not_true, Bool.false_eq_true, if_false] at h
          rcases hsl : shrinkLocal p l0 loc1 with ⟨l, loc2⟩
          rw [hsl] at h
          dsimp only at h
          have hpos : 1 ≤ m := hbnd.pos hsup
          have hchild : ChainBnd p peer1 (m - 1) := hbnd.child hsup
          have tail : ∀ (b1 : Builder K) (peer2 : List (PR K D)), peer2 <:+ peer1 →
              (match recurseSubtreeD fuel p peer2 loc2 b1 with
                | .error e => Except.error e
                | .ok (peer3, loc3, b2, d1) =>
                  match recurseDiffD fuel root (.some p) peer3 loc3 b2 with
                  | .error e => .error e
                  | .ok (peer4, loc4, b3, d2) => .ok (peer4, loc4, b3, max d1 d2)) =
                .ok (peer', loc', b', d) →
              peer' <:+ p :: peer1 ∧ d ≤ m := by
            intro b1 peer2 hsuf2 ht
            rcases hS : recurseSubtreeD fuel p peer2 loc2 b1 with e | ⟨peer3, loc3, b2, d1⟩
            · rw [hS] at ht; cases ht
            · rw [hS] at ht
              dsimp only at ht
              rcases hD : recurseDiffD fuel root (some p) peer3 loc3 b2 with
                e | ⟨peer4, loc4, b3, d2⟩
              · rw [hD] at ht; cases ht
              · rw [hD] at ht
                cases ht
                have hs := ihS _ _ _ _ _ _ _ _ _ (hchild.suffix hsuf2) hS
                have hsuf3 : peer3 <:+ p :: peer1 := (hs.1.trans hsuf2).trans hsuf1
                have hd := ihD _ _ _ _ _ _ _ _ _ _ (hbnd.suffix hsuf3) hD
                constructor
                · exact hd.1.trans hsuf3
                · exact max_le (by omega) hd.2
          by_cases hh : l.hash = p.hash
          · rw [if_pos hh] at h
            rcases hc : b.consistent p.start p.end_ with e | b1
            · rw [hc] at h; cases h
            · rw [hc] at h
              exact tail b1 _ (skipSubtree_suffix p peer1) h
          · rw [if_neg hh] at h
            rcases hc : b.inconsistent p.start p.end_ with e | b1
            · rw [hc] at h; cases h
            · rw [hc] at h
              exact tail b1 _ (List.suffix_refl _) h
    · intro root peer loc b peer' loc' b' d m hbnd h
      rw [recurseSubtreeD] at h
      rcases hD : recurseDiffD fuel root none peer loc b with e | ⟨peer1, loc1, b1, d0⟩
      · rw [hD] at h; cases h
      · rw [hD] at h
        dsimp only at h
        have hd := ihD _ _ _ _ _ _ _ _ _ _ hbnd hD
        rcases hdr : drainSubtree root peer1 b1 with e | ⟨peer2, b2⟩
        · rw [hdr] at h; cases h
        · rw [hdr] at h
          dsimp only at h
          have hl := drainSubtree_suffix _ _ _ _ _ hdr
          cases peer2 with
          | nil =>
            cases h
            exact ⟨hl.trans hd.1, by omega⟩
          | cons v rest =>
            dsimp only at h
            split_ifs at h
            cases h
            exact ⟨hl.trans hd.1, by omega⟩

/-- The nesting depth reached by `diff` never exceeds the length of the longest chain of nested
ranges occurring (as a subsequence, in order) in the peer list. -/
theorem diffDepth_le_nesting (loc peer : List (PR K D)) (n : Nat)
    (hn : ∀ c : List (PR K D), c.Sublist peer → IsNestChain c → c.length ≤ n)
    (d : Nat) (hd : diffDepth loc peer = .ok d) : d ≤ n := by
  cases peer with
  | nil =>
    unfold diffDepth at hd
    cases hd
    exact Nat.zero_le _
  | cons root rest =>
    unfold diffDepth at hd
    dsimp only at hd
    rcases hD : recurseDiffD (2 * (root :: rest).length + 2) root none (root :: rest) loc
      Builder.empty with e | ⟨peer1, loc1, b1, d'⟩
    · rw [hD] at hd; cases hd
    · rw [hD] at hd
      cases hd
      exact ((nest_bound _).1 _ _ _ _ _ _ _ _ _ n (fun c hc hch _ => hn c hc hch) hD).2

/-! ### Part 2: nested chains in the page ranges of a real tree -/

/-- Every nested chain occurring in `l` (as a subsequence) has length at most `m`. -/
def NB (l : List (PR K D)) (m : Nat) : Prop :=
  ∀ c : List (PR K D), c.Sublist l → IsNestChain c → c.length ≤ m

theorem NB.mono {l : List (PR K D)} {m m' : Nat} (h : NB l m) (hm : m ≤ m') : NB l m' :=
  fun c hc hch => le_trans (h c hc hch) hm

theorem NB.cons {l : List (PR K D)} {m : Nat} (x : PR K D) (h : NB l m) :
    NB (x :: l) (m + 1) := by
  intro c hc hch
  rcases List.sublist_cons_iff.1 hc with hc' | ⟨r, rfl, hr⟩
  · exact le_trans (h c hc' hch) (Nat.le_succ _)
  · have hch' : IsNestChain r := List.IsChain.tail hch
    simp only [List.length_cons]
    exact Nat.succ_le_succ (h r hr hch')

/-- Two blocks such that no element of the first is a superset of an element of the second:
a nested chain lies within one block. -/
theorem NB.append {l₁ l₂ : List (PR K D)} {m : Nat} (h1 : NB l₁ m) (h2 : NB l₂ m)
    (hx : ∀ a ∈ l₁, ∀ b ∈ l₂, a.supersetOf b = false) : NB (l₁ ++ l₂) m := by
  intro c hc hch
  obtain ⟨c₁, c₂, rfl, hc1, hc2⟩ := List.sublist_append_iff.1 hc
  have hch' := List.isChain_append.1 hch
  by_cases e2 : c₂ = []
  · subst e2
    simpa using h1 c₁ hc1 hch'.1
  by_cases e1 : c₁ = []
  · subst e1
    simpa using h2 c₂ hc2 hch'.2.1
  exfalso
  obtain ⟨_, x, -, hx1⟩ := exists_head_last e1
  obtain ⟨y, _, hy, -⟩ := exists_head_last e2
  have hrel : x.supersetOf y = true := hch'.2.2 x hx1 y hy
  have hxm : x ∈ l₁ := hc1.subset (mem_of_getLast? hx1)
  have hym : y ∈ l₂ := hc2.subset (mem_of_head? hy)
  rw [hx _ hxm _ hym] at hrel
  cases hrel

/-- Ranges of pages whose keys all lie in `X` are never supersets of ranges of pages whose keys
all lie in `Y`, when `X` is entirely below `Y`. -/
theorem cross_not_superset (hc : HashCfg K V D) (l₁ l₂ : List (Pg K V D)) (X Y : List (K × V))
    (h1 : ∀ q ∈ l₁, ∀ x ∈ q.content, x ∈ X) (h2 : ∀ q ∈ l₂, ∀ x ∈ q.content, x ∈ Y)
    (hXY : ∀ x ∈ X, ∀ y ∈ Y, x.1 < y.1) :
    ∀ a ∈ l₁.filterMap (rangeOf hc), ∀ b ∈ l₂.filterMap (rangeOf hc),
      a.supersetOf b = false := by
  intro a ha b hb
  obtain ⟨q, hq, hqa⟩ := List.mem_filterMap.1 ha
  obtain ⟨q', hq', hqb⟩ := List.mem_filterMap.1 hb
  obtain ⟨_, za, _, hza, _, ea⟩ := rangeOf_eq_some hc q a hqa
  obtain ⟨_, zb, _, hzb, _, eb⟩ := rangeOf_eq_some hc q' b hqb
  have hlt : a.end_ < b.end_ := by
    rw [ea, eb]
    exact hXY _ (h1 q hq _ (mem_of_getLast? hza)) _ (h2 q' hq' _ (mem_of_getLast? hzb))
  have hdec : decide (b.end_ ≤ a.end_) = false := decide_eq_false (not_le.2 hlt)
  simp [PR.supersetOf, hdec]

mutual
/-- Nested chains among the ranges of a subtree are no longer than the level bound. -/
theorem nbPg (lvl : K → Nat) (hc : HashCfg K V D) : ∀ (p : Pg K V D) (b : Nat),
    LvPg lvl b p → PW p.content → NB (p.preorder.filterMap (rangeOf hc)) b
  | .none, b, _, _ => by
    intro c hcs _
    simp only [Pg.preorder, List.filterMap_nil, List.sublist_nil] at hcs
    subst hcs
    exact Nat.zero_le _
  | .some L c n h, b, hlv, hs => by
    simp only [LvPg] at hlv
    obtain ⟨hLb, -, hln, hlh⟩ := hlv
    rw [Pg.content] at hs
    have hn := nbNd lvl hc n L hln hs.left
    have hh := nbPg lvl hc h L hlh hs.right
    have hcross := cross_not_superset hc n.preorder h.preorder n.content h.content
      (fun q hq => Nd.preorder_content_subset n q hq)
      (fun q hq => preorder_content_subset h q hq)
      (fun x hx y hy => hs.cross hx hy)
    have happ := NB.append hn hh hcross
    rw [Pg.preorder, List.filterMap_cons, List.filterMap_append]
    cases rangeOf hc (.some L c n h) with
    | none => exact happ.mono (by omega)
    | some r => exact (happ.cons r).mono (by omega)
theorem nbNd (lvl : K → Nat) (hc : HashCfg K V D) : ∀ (n : Nd K V D) (L : Nat),
    LvNd lvl L n → PW n.content → NB (n.preorder.filterMap (rangeOf hc)) L
  | .nil, L, _, _ => by
    intro c hcs _
    simp only [Nd.preorder, List.filterMap_nil, List.sublist_nil] at hcs
    subst hcs
    exact Nat.zero_le _
  | .cons lt k v tl, L, hlv, hs => by
    simp only [LvNd] at hlv
    rw [Nd.content] at hs
    have htl : PW tl.content := (List.pairwise_cons.1 hs.right).2
    have h1 := nbPg lvl hc lt L hlv.1 hs.left
    have h2 := nbNd lvl hc tl L hlv.2.2 htl
    have hcross := cross_not_superset hc lt.preorder tl.preorder lt.content tl.content
      (fun q hq => preorder_content_subset lt q hq)
      (fun q hq => Nd.preorder_content_subset tl q hq)
      (fun x hx y hy => hs.cross hx (List.mem_cons_of_mem _ hy))
    rw [Nd.preorder, List.filterMap_append]
    exact NB.append h1 h2 hcross
end

/-- The level of the root page. -/
def Pg.level? : Pg K V D → Option Nat
  | .none => Option.none
  | .some L _ _ _ => Option.some L

/-- In the page ranges of a real tree, a chain of nested ranges is a chain of ancestors, whose
levels strictly decrease: it is no longer than the root level plus one. -/
theorem pageRanges_nest_chain_le (lvl : K → Nat) (hc : HashCfg K V D) (t : Tree K V D)
    (h : Hashed lvl hc t) (L : Nat) (hL : t.root.level? = some L)
    (c : List (PR K D)) (hsub : c.Sublist (pageRanges hc t)) (hch : IsNestChain c) :
    c.length ≤ L + 1 := by
  obtain ⟨L', c', n, hp, hroot, -, hsorted, hlv⟩ := h.facts
  have hLL : L' = L := by
    rw [hroot] at hL
    simpa [Pg.level?] using hL
  subst hLL
  by_cases hcnt : t.root.content = []
  · rw [pageRanges_of_nil hc t hcnt] at hsub
    rw [List.sublist_nil.1 hsub]
    exact Nat.zero_le _
  · rw [pageRanges_of_ne_nil hc t hcnt] at hsub
    exact nbPg lvl hc t.root (L' + 1) (hlv hcnt) hsorted.pw c hsub hch

/-- Diffing against a real tree recurses at most (root level + 1) deep — whatever the local list is. -/
theorem diffDepth_real_tree (lvl : K → Nat) (hc : HashCfg K V D) (tP : Tree K V D)
    (hP : Hashed lvl hc tP) (L : Nat) (hL : tP.root.level? = some L)
    (loc : List (PR K D)) (d : Nat) (hd : diffDepth loc (pageRanges hc tP) = .ok d) : d ≤ L + 1 :=
  diffDepth_le_nesting loc (pageRanges hc tP) (L + 1)
    (fun c hs hc' => pageRanges_nest_chain_le lvl hc tP hP L hL c hs hc') d hd

end Mst

#print axioms Mst.diffDepth_le_nesting
#print axioms Mst.pageRanges_nest_chain_le
#print axioms Mst.diffDepth_real_tree
