/-
L1b: `Tree.upsert` preserves the tree invariant, never panics, and has map semantics.
-/
import MstVerif.Proofs.Split

namespace Mst
variable {K V D : Type} [LinearOrder K]

/-! ### `insertKV` -/

theorem insertKV_keys_mem (k : K) (v : V) : ∀ (l : List (K × V)) (x : K),
    x ∈ (insertKV k v l).map Prod.fst → x = k ∨ x ∈ l.map Prod.fst
  | [], x, h => by simpa [insertKV] using h
  | (k', v') :: rest, x, h => by
    simp only [insertKV] at h
    split_ifs at h with h1 h2
    · simp only [List.map_cons, List.mem_cons] at h ⊢
      exact h
    · simp only [List.map_cons, List.mem_cons] at h ⊢
      rcases h with h | h
      · exact Or.inl h
      · exact Or.inr (Or.inr h)
    · simp only [List.map_cons, List.mem_cons] at h ⊢
      rcases h with h | h
      · exact Or.inr (Or.inl h)
      · rcases insertKV_keys_mem k v rest x h with h | h
        · exact Or.inl h
        · exact Or.inr (Or.inr h)

/-- `insertKV` keeps a strictly ascending key list strictly ascending. -/
theorem insertKV_sorted (k : K) (v : V) (l : List (K × V))
    (h : (l.map Prod.fst).Pairwise (· < ·)) :
    ((insertKV k v l).map Prod.fst).Pairwise (· < ·) := by
  induction l with
  | nil => simp [insertKV]
  | cons hd rest ih =>
    obtain ⟨k', v'⟩ := hd
    simp only [List.map_cons, List.pairwise_cons] at h
    obtain ⟨h1, h2⟩ := h
    simp only [insertKV]
    split_ifs with hlt heq
    · simp only [List.map_cons, List.pairwise_cons, List.mem_cons]
      refine ⟨?_, h1, h2⟩
      rintro a (rfl | ha)
      · exact hlt
      · exact lt_trans hlt (h1 a ha)
    · subst heq
      simp only [List.map_cons, List.pairwise_cons]
      exact ⟨h1, h2⟩
    · simp only [List.map_cons, List.pairwise_cons]
      refine ⟨?_, ih h2⟩
      intro a ha
      rcases insertKV_keys_mem k v rest a ha with rfl | ha
      · exact lt_of_le_of_ne (not_lt.mp hlt) (Ne.symm heq)
      · exact h1 a ha

theorem insertKV_append_of_lt (k : K) (v : V) (l1 l2 : List (K × V))
    (h : ∀ x ∈ l1.map Prod.fst, x < k) : insertKV k v (l1 ++ l2) = l1 ++ insertKV k v l2 := by
  induction l1 with
  | nil => rfl
  | cons hd rest ih =>
    obtain ⟨k', v'⟩ := hd
    have hk : k' < k := h k' (by simp)
    have ih' := ih (fun x hx => h x (by simp only [List.map_cons, List.mem_cons]; right; exact hx))
    simp only [List.cons_append, insertKV, not_lt.mpr (le_of_lt hk), if_false, (ne_of_lt hk).symm, ih']

theorem insertKV_append_of_gt (k : K) (v : V) (l1 l2 : List (K × V))
    (h : ∀ x ∈ l2.map Prod.fst, k < x) : insertKV k v (l1 ++ l2) = insertKV k v l1 ++ l2 := by
  induction l1 with
  | nil =>
    cases l2 with
    | nil => rfl
    | cons hd rest =>
      obtain ⟨k', v'⟩ := hd
      have hk : k < k' := h k' (by simp)
      simp [insertKV, hk]
  | cons hd rest ih =>
    obtain ⟨k', v'⟩ := hd
    simp only [List.cons_append, insertKV, ih]
    split_ifs <;> rfl

theorem insertKV_mid (k : K) (v : V) (l1 l2 : List (K × V))
    (h1 : ∀ x ∈ l1.map Prod.fst, x < k) (h2 : ∀ x ∈ l2.map Prod.fst, k < x) :
    insertKV k v (l1 ++ l2) = l1 ++ (k, v) :: l2 := by
  rw [insertKV_append_of_lt k v l1 l2 h1]
  have := insertKV_append_of_gt k v [] l2 h2
  simpa [insertKV] using this

/-! ### levels of stored keys -/

omit [LinearOrder K] in
mutual
theorem LvPg_keys_lt (lvl : K → Nat) : ∀ (p : Pg K V D) (bound : Nat), LvPg lvl bound p →
    ∀ k ∈ p.keys, lvl k < bound
  | .none, _, _, k, hk => by simp at hk
  | .some L c n h, bound, hlv, k, hk => by
    simp only [LvPg] at hlv
    simp only [Pg.keys_some, List.mem_append] at hk
    rcases hk with hk | hk
    · have := LvNd_keys_le lvl n L hlv.2.2.1 k hk; omega
    · have := LvPg_keys_lt lvl h L hlv.2.2.2 k hk; omega
theorem LvNd_keys_le (lvl : K → Nat) : ∀ (n : Nd K V D) (L : Nat), LvNd lvl L n →
    ∀ k ∈ n.keys, lvl k ≤ L
  | .nil, _, _, k, hk => by simp at hk
  | .cons lt k0 v tl, L, hlv, k, hk => by
    simp only [LvNd] at hlv
    simp only [Nd.keys_cons, List.mem_append, List.mem_cons] at hk
    rcases hk with hk | hk | hk
    · have := LvPg_keys_lt lvl lt L hlv.1 k hk; omega
    · rw [hk]; omega
    · exact LvNd_keys_le lvl tl L hlv.2.2 k hk
end

omit [LinearOrder K] in
theorem LvPg_not_mem (lvl : K → Nat) (p : Pg K V D) (bound : Nat) (hlv : LvPg lvl bound p)
    (key : K) (hk : bound ≤ lvl key) : key ∉ p.keys := fun hmem => by
  have := LvPg_keys_lt lvl p bound hlv key hmem; omega

/-! ### the second split is a no-op -/

theorem secondSplit_noop (lvl : K → Nat) (s1 s2 s3 : String) (L : Nat) (key : K) (x : Pg K V D)
    (hlv : LvPg lvl L x) (hlt : ∀ k ∈ x.keys, k < key) :
    secondSplit s1 s2 s3 L key x = .ok (x, .none) := by
  cases x with
  | none => rfl
  | some Lx cx nx hx =>
    simp only [LvPg] at hlv
    obtain ⟨h1, h2, _, h4⟩ := hlv
    have e1 : assertT s1 (decide (Lx < L)) = .ok () := assertT_ok (by simp [h1])
    have e2 : assertT s2 (!nx.isNil) = .ok () := by
      cases nx with
      | nil => exact absurd rfl h2
      | cons => rfl
    have e3 := assertKeyLt_last s3 nx key h2 (fun k hk => hlt k (by simp [hk]))
    have e4 := splitPg_all_lt lvl key Lx hx h4 (fun k hk => hlt k (by simp [hk]))
    simp only [secondSplit, e1, e2, e3, e4]

theorem splitForInsert_spec (lvl : K → Nat) (hc : HashCfg K V D) (key : K) (L : Nat)
    (slot high : Pg K V D) (b : Bool)
    (hlv : LvPg lvl L slot) (hs : slot.Sorted) (hne : key ∉ slot.keys) (hco : CacheOKPg hc slot) :
    ∃ x slot', splitForInsert L key slot high b = .ok (x, slot', if b then slot' else high) ∧
      slot.content = x.content ++ slot'.content ∧
      (∀ k ∈ x.keys, k < key) ∧ (∀ k ∈ slot'.keys, key < k) ∧
      LvPg lvl L x ∧ LvPg lvl L slot' ∧ CacheOKPg hc x ∧ CacheOKPg hc slot' := by
  obtain ⟨x, slot', h1, h2, h3, h4, h5, h6, h7, h8⟩ := splitPg_spec lvl hc key L slot hlv hs hne hco
  refine ⟨x, slot', ?_, h2, h3, h4, h5, h6, h7, h8⟩
  have e2 := secondSplit_noop lvl "page.rs:330" "page.rs:331" "page.rs:332" L key x h5 h3
  simp only [splitForInsert, h1, e2, attachHigh]

/-! ### `upsert_node` -/

theorem upsertNd_spec (lvl : K → Nat) (hc : HashCfg K V D) (key : K) (val : V) (L : Nat)
    (hL : lvl key = L) : ∀ (n : Nd K V D) (high : Pg K V D),
    LvNd lvl L n → LvPg lvl L high → (n.keys ++ high.keys).Pairwise (· < ·) →
    CacheOKNd hc n → CacheOKPg hc high →
    ∃ n' high', upsertNd L key val n high = .ok (n', high') ∧ n' ≠ .nil ∧
      LvNd lvl L n' ∧ LvPg lvl L high' ∧
      n'.content ++ high'.content = insertKV key val (n.content ++ high.content) ∧
      CacheOKNd hc n' ∧ CacheOKPg hc high'
  | .nil, high, _, hlvh, hs, _, hch => by
    simp only [Nd.keys_nil, List.nil_append] at hs
    obtain ⟨x, slot', h1, h2, h3, h4, h5, h6, h7, h8⟩ :=
      splitForInsert_spec lvl hc key L high high true hlvh hs
        (LvPg_not_mem lvl high L hlvh key (by omega)) hch
    refine ⟨.cons x key val .nil, slot', by simp [upsertNd, h1], by simp, ?_, h6, ?_, ?_, h8⟩
    · simp only [LvNd]; exact ⟨h5, hL, trivial⟩
    · simp only [Nd.content, List.nil_append, h2, List.append_assoc, List.cons_append]
      exact (insertKV_mid key val _ _ h3 h4).symm
    · simp only [CacheOKNd]; exact ⟨h7, trivial⟩
  | .cons lt k v tl, high, hlvn, hlvh, hs, hcn, hch => by
    simp only [LvNd] at hlvn
    obtain ⟨hlvlt, hlvk, hlvtl⟩ := hlvn
    simp only [CacheOKNd] at hcn
    obtain ⟨hclt, hctl⟩ := hcn
    simp only [Nd.keys_cons, List.append_assoc, List.cons_append, List.pairwise_append,
      List.pairwise_cons] at hs
    obtain ⟨hslt, ⟨hkrest, hsrest⟩, hltall⟩ := hs
    have hltk : ∀ k' ∈ lt.keys, k' < k := fun k' hk' => hltall k' hk' k (by simp)
    by_cases hle : key ≤ k
    · by_cases heq : k = key
      · refine ⟨.cons lt k val tl, high, by simp [upsertNd, heq], by simp, ?_, hlvh, ?_, ?_,
          hch⟩
        · simp only [LvNd]; exact ⟨hlvlt, hlvk, hlvtl⟩
        · subst heq
          simp only [Nd.content, List.append_assoc, List.cons_append]
          rw [insertKV_append_of_lt k val _ _ hltk]
          simp [insertKV]
        · simp only [CacheOKNd]; exact ⟨hclt, hctl⟩
      · have hlt : key < k := lt_of_le_of_ne hle (Ne.symm heq)
        obtain ⟨x, lt', h1, h2, h3, h4, h5, h6, h7, h8⟩ :=
          splitForInsert_spec lvl hc key L lt high false hlvlt hslt
            (LvPg_not_mem lvl lt L hlvlt key (by omega)) hclt
        refine ⟨.cons x key val (.cons lt' k v tl), high, by simp [upsertNd, hle, heq, h1],
          by simp, ?_, hlvh, ?_, ?_, hch⟩
        · simp only [LvNd]; exact ⟨h5, hL, h6, hlvk, hlvtl⟩
        · simp only [Nd.content, List.append_assoc, List.cons_append, h2]
          refine (insertKV_mid key val _ _ h3 ?_).symm
          intro k' hk'
          simp only [List.map_append, List.map_cons, List.mem_append, List.mem_cons] at hk'
          rcases hk' with hk' | hk' | hk' | hk'
          · exact h4 k' hk'
          · rw [hk']; exact hlt
          · exact lt_trans hlt (hkrest k' (by
              simp only [List.mem_append]; left; exact hk'))
          · exact lt_trans hlt (hkrest k' (by
              simp only [List.mem_append]; right; exact hk'))
        · simp only [CacheOKNd]; exact ⟨h7, h8, hctl⟩
    · have hlt : k < key := not_le.mp hle
      obtain ⟨tl', high', h1, _, h3, h4, h5, h6, h7⟩ :=
        upsertNd_spec lvl hc key val L hL tl high hlvtl hlvh (List.pairwise_append.mpr hsrest) hctl hch
      refine ⟨.cons lt k v tl', high', by simp [upsertNd, hle, h1], by simp, ?_, h4, ?_, ?_, h7⟩
      · simp only [LvNd]; exact ⟨hlvlt, hlvk, h3⟩
      · simp only [Nd.content, List.append_assoc, List.cons_append, h5]
        have : ∀ x ∈ (lt.content ++ [(k, v)]).map Prod.fst, x < key := by
          intro x hx
          simp only [List.map_append, List.map_cons, List.map_nil, List.mem_append, List.mem_cons,
            List.not_mem_nil, or_false] at hx
          rcases hx with hx | hx
          · exact lt_trans (hltk x hx) hlt
          · rw [hx]; exact hlt
        have := insertKV_append_of_lt key val (lt.content ++ [(k, v)])
          (tl.content ++ high.content) this
        simpa using this.symm
      · simp only [CacheOKNd]; exact ⟨hclt, h6⟩

/-! ### `insert_intermediate_page` -/

theorem insertIntermediate_spec (lvl : K → Nat) (hc : HashCfg K V D) (key : K) (val : V)
    (child : Pg K V D) (hsome : child ≠ .none)
    (hlv : LvPg lvl (lvl key) child) (hs : child.Sorted) (hco : CacheOKPg hc child) :
    ∃ x rest, insertIntermediate child key (lvl key) val =
        .ok (.some (lvl key) Option.none (.cons x key val .nil) rest) ∧
      LvPg lvl (lvl key) x ∧ LvPg lvl (lvl key) rest ∧
      x.content ++ (key, val) :: rest.content = insertKV key val child.content ∧
      CacheOKPg hc x ∧ CacheOKPg hc rest := by
  obtain ⟨x, rest, h1, h2, h3, h4, h5, h6, h7, h8⟩ :=
    splitPg_spec lvl hc key (lvl key) child hlv hs
      (LvPg_not_mem lvl child (lvl key) hlv key (Nat.le_refl _)) hco
  have e2 := secondSplit_noop lvl "page.rs:590" "page.rs:591" "page.rs:592" (lvl key) key x h5 h3
  refine ⟨x, rest, ?_, h5, h6, ?_, h7, h8⟩
  · cases child with
    | none => exact absurd rfl hsome
    | some Lc cc nc hh =>
      have hlv' := hlv
      simp only [LvPg] at hlv'
      obtain ⟨q1, q2, _, _⟩ := hlv'
      have e0 : assertT "page.rs:525" (decide (Lc < lvl key)) = .ok () := assertT_ok (by simp [q1])
      have e1 : assertT "page.rs:526" (!nc.isNil) = .ok () := by
        cases nc with
        | nil => exact absurd rfl q2
        | cons => rfl
      simp only [insertIntermediate, e0, e1, h1, e2, assertGte]
      cases rest with
      | none => rfl
      | some Lr cr nr hr =>
        simp only [LvPg] at h6
        obtain ⟨r1, r2, _, _⟩ := h6
        have e3 := assertKeyGt_last "page.rs:633" nr key r2 (fun k hk => h4 k (by simp [hk]))
        have e4 : assertT "page.rs:634" (decide (Lr < lvl key)) = .ok () :=
          assertT_ok (by simp [r1])
        cases nr with
        | nil => exact absurd rfl r2
        | cons lt1 k1 v1 tl1 =>
          simp only [Nd.isNil, Bool.false_eq_true, if_false, e3, e4]
  · rw [h2]; exact (insertKV_mid key val _ _ h3 h4).symm

/-! ### `Page::upsert` -/

def Pg.level : Pg K V D → Nat
  | .none => 0
  | .some L _ _ _ => L

/-- The statement proved about `upsertPg` on a page at or above the key's level. -/
def UpOK (lvl : K → Nat) (hc : HashCfg K V D) (key : K) (val : V) (p : Pg K V D) : Prop :=
  lvl key ≤ p.level →
    ∃ n' h', upsertPg key (lvl key) val p = .ok (.some p.level Option.none n' h', .complete) ∧
      n' ≠ .nil ∧ LvNd lvl p.level n' ∧ LvPg lvl p.level h' ∧
      n'.content ++ h'.content = insertKV key val p.content ∧
      CacheOKNd hc n' ∧ CacheOKPg hc h'

omit [LinearOrder K] in
theorem LvRoot_of_LvPg (lvl : K → Nat) (bound : Nat) (p : Pg K V D) (hp : p ≠ .none)
    (hlv : LvPg lvl bound p) : LvRoot lvl p := by
  cases p with
  | none => exact absurd rfl hp
  | some L c n h =>
    simp only [LvPg] at hlv
    simp only [LvRoot]
    exact ⟨fun e => absurd e hlv.2.1, hlv.2.2⟩

theorem childFinish_spec (lvl : K → Nat) (hc : HashCfg K V D) (key : K) (val : V) (L : Nat)
    (hlt : lvl key < L) (slot : Pg K V D) (hlv : LvPg lvl L slot) (hs : slot.Sorted)
    (hco : CacheOKPg hc slot) (ih : slot ≠ .none → UpOK lvl hc key val slot) :
    ∃ p', childFinish key (lvl key) val slot (upsertPg key (lvl key) val slot) = .ok p' ∧
      LvPg lvl L p' ∧ p'.content = insertKV key val slot.content ∧ CacheOKPg hc p' := by
  cases slot with
  | none =>
    obtain ⟨n', h', e, q1, q2, q3, q4, q5, q6⟩ :=
      upsertNd_spec lvl hc key val (lvl key) rfl (.nil : Nd K V D) .none
        (by simp [LvNd]) (by simp [LvPg]) (by simp) (by simp [CacheOKNd]) (by simp [CacheOKPg])
    refine ⟨.some (lvl key) Option.none n' h', by simp only [childFinish, e], ?_, ?_, ?_⟩
    · simp only [LvPg]; exact ⟨hlt, q1, q2, q3⟩
    · simpa [Pg.content, Nd.content] using q4
    · simp only [CacheOKPg]; exact ⟨by simp, q5, q6⟩
  | some Ls cs ns hs' =>
    have hlv' := hlv
    simp only [LvPg] at hlv'
    obtain ⟨q1, q2, q3, q4⟩ := hlv'
    by_cases hle : lvl key ≤ Ls
    · obtain ⟨n', h', e, r1, r2, r3, r4, r5, r6⟩ := ih (by simp) hle
      simp only [Pg.level] at e r2 r3
      refine ⟨.some Ls Option.none n' h', by simp only [childFinish, e], ?_, ?_, ?_⟩
      · simp only [LvPg]; exact ⟨q1, r1, r2, r3⟩
      · simpa [Pg.content] using r4
      · simp only [CacheOKPg]; exact ⟨by simp, r5, r6⟩
    · have hgt : Ls < lvl key := by omega
      have e : upsertPg key (lvl key) val (.some Ls cs ns hs') =
          .ok (.some Ls cs ns hs', .insertIntermediate) := by
        rw [upsertPg.eq_2]
        simp only [if_neg (show ¬ lvl key < Ls by omega), if_neg (show ¬ lvl key = Ls by omega)]
      have hlvk : LvPg lvl (lvl key) (.some Ls cs ns hs') := by
        simp only [LvPg]; exact ⟨hgt, q2, q3, q4⟩
      obtain ⟨x, rest, e2, r1, r2, r3, r4, r5⟩ :=
        insertIntermediate_spec lvl hc key val (.some Ls cs ns hs') (by simp) hlvk hs hco
      refine ⟨.some (lvl key) Option.none (.cons x key val .nil) rest,
        by simp only [childFinish, e, e2], ?_, ?_, ?_⟩
      · simp [LvPg, LvNd, hlt, r1, r2]
      · simpa [Pg.content, Nd.content] using r3
      · simp only [CacheOKPg, CacheOKNd]; exact ⟨by simp, ⟨r4, trivial⟩, r5⟩

/-- What `upsertDescNd` returns under the invariants. -/
def DescSpec (lvl : K → Nat) (hc : HashCfg K V D) (key : K) (val : V) (L : Nat) (n : Nd K V D) :
    Option (Nd K V D) → Prop
  | .none => ∀ k ∈ n.keys, k < key
  | .some n' => n' ≠ .nil ∧ LvNd lvl L n' ∧ n'.content = insertKV key val n.content ∧
      CacheOKNd hc n' ∧ ∃ k ∈ n.keys, key < k

mutual
theorem upsertPg_spec (lvl : K → Nat) (hlvl : ∀ k, lvl k < 255) (hc : HashCfg K V D) (key : K)
    (val : V) : ∀ (p : Pg K V D), LvRoot lvl p → p.Sorted → CacheOKPg hc p → UpOK lvl hc key val p
  | .none, hroot, _, _ => by simp [LvRoot] at hroot
  | .some L c n h, hroot, hs, hco => by
    intro hle
    simp only [Pg.level] at hle ⊢
    simp only [LvRoot] at hroot
    obtain ⟨hnil, hlvn, hlvh⟩ := hroot
    simp only [CacheOKPg] at hco
    obtain ⟨_, hcn, hch⟩ := hco
    have hs' := hs
    simp only [Pg.Sorted, Pg.keys_some, List.pairwise_append] at hs'
    obtain ⟨hsn, hsh, hnh⟩ := hs'
    by_cases hlt : lvl key < L
    · have hnn : n ≠ .nil := fun e => by have := (hnil e).1; omega
      have hL : L ≠ 255 := by
        cases n with
        | nil => exact absurd rfl hnn
        | cons lt k0 v0 tl =>
          simp only [LvNd] at hlvn
          have := hlvl k0; omega
      have e0 : assertT "page.rs:233" (L != 255) = .ok () := assertT_ok (by simp [hL])
      have e1 : assertT "page.rs:234" (!n.isNil) = .ok () := by
        cases n with
        | nil => exact absurd rfl hnn
        | cons => rfl
      obtain ⟨r, hr, hspec⟩ := upsertDescNd_spec lvl hlvl hc key val n L hlt hlvn hsn hcn
      cases r with
      | none =>
        simp only [DescSpec] at hspec
        obtain ⟨h', e2, q1, q2, q3⟩ := childFinish_spec lvl hc key val L hlt h hlvh hsh hch
          (fun hne => upsertPg_spec lvl hlvl hc key val h (LvRoot_of_LvPg lvl L h hne hlvh) hsh hch)
        refine ⟨n, h', ?_, hnn, hlvn, q1, ?_, hcn, q3⟩
        · rw [upsertPg.eq_2]
          simp only [if_pos hlt, e0, e1, hr, e2]
        · simp only [Pg.content, q2]
          exact (insertKV_append_of_lt key val _ _ hspec).symm
      | some n' =>
        simp only [DescSpec] at hspec
        obtain ⟨q1, q2, q3, q4, k0, hk0, hk0lt⟩ := hspec
        refine ⟨n', h, ?_, q1, q2, hlvh, ?_, q4, hch⟩
        · rw [upsertPg.eq_2]
          simp only [if_pos hlt, e0, e1, hr]
        · simp only [Pg.content, q3]
          refine (insertKV_append_of_gt key val _ _ ?_).symm
          intro k hk
          exact lt_trans hk0lt (hnh k0 hk0 k hk)
    · have heq : lvl key = L := by omega
      obtain ⟨n', h', e, q1, q2, q3, q4, q5, q6⟩ :=
        upsertNd_spec lvl hc key val L heq n h hlvn hlvh (by simpa [Pg.Sorted] using hs) hcn hch
      refine ⟨n', h', ?_, q1, q2, q3, by simpa [Pg.content] using q4, q5, q6⟩
      rw [upsertPg.eq_2]
      simp only [if_neg hlt, if_pos heq, e]
theorem upsertDescNd_spec (lvl : K → Nat) (hlvl : ∀ k, lvl k < 255) (hc : HashCfg K V D) (key : K)
    (val : V) : ∀ (n : Nd K V D) (L : Nat), lvl key < L → LvNd lvl L n → n.Sorted →
      CacheOKNd hc n →
      ∃ r, upsertDescNd key (lvl key) val n = .ok r ∧ DescSpec lvl hc key val L n r
  | .nil, L, _, _, _, _ => ⟨.none, by simp [upsertDescNd], by simp [DescSpec]⟩
  | .cons lt k v tl, L, hlt, hlv, hs, hco => by
    simp only [LvNd] at hlv
    obtain ⟨hlvlt, hlvk, hlvtl⟩ := hlv
    simp only [Nd.Sorted, Nd.keys_cons, List.pairwise_append, List.pairwise_cons] at hs
    obtain ⟨hslt, ⟨hktl, hstl⟩, hltk⟩ := hs
    simp only [CacheOKNd] at hco
    obtain ⟨hclt, hctl⟩ := hco
    have hnek : key ≠ k := fun e => by rw [e] at hlt; omega
    by_cases hle : key ≤ k
    · have hkk : key < k := lt_of_le_of_ne hle hnek
      have e0 : assertT "page.rs:244" (decide (key < k)) = .ok () := assertT_ok (by simp [hkk])
      obtain ⟨lt', e1, q1, q2, q3⟩ := childFinish_spec lvl hc key val L hlt lt hlvlt hslt hclt
        (fun hne => upsertPg_spec lvl hlvl hc key val lt (LvRoot_of_LvPg lvl L lt hne hlvlt)
          hslt hclt)
      refine ⟨.some (.cons lt' k v tl), ?_, ?_⟩
      · rw [upsertDescNd.eq_2]
        simp only [if_pos hle, e0, e1]
      · simp only [DescSpec, LvNd, CacheOKNd]
        refine ⟨by simp, ⟨q1, hlvk, hlvtl⟩, ?_, ⟨q3, hctl⟩, k, by simp, hkk⟩
        simp only [Nd.content, q2]
        refine (insertKV_append_of_gt key val _ _ ?_).symm
        intro k' hk'
        simp only [List.map_cons, List.mem_cons] at hk'
        rcases hk' with hk' | hk'
        · rw [hk']; exact hkk
        · exact lt_trans hkk (hktl k' hk')
    · have hkk : k < key := not_le.mp hle
      have hpre : ∀ x ∈ (lt.content ++ [(k, v)]).map Prod.fst, x < key := by
        intro x hx
        simp only [List.map_append, List.map_cons, List.map_nil, List.mem_append, List.mem_cons,
          List.not_mem_nil, or_false] at hx
        rcases hx with hx | hx
        · exact lt_trans (hltk x hx k (by simp)) hkk
        · rw [hx]; exact hkk
      obtain ⟨r, hr, hspec⟩ := upsertDescNd_spec lvl hlvl hc key val tl L hlt hlvtl hstl hctl
      cases r with
      | none =>
        refine ⟨.none, ?_, ?_⟩
        · rw [upsertDescNd.eq_2]
          simp only [if_neg hle, hr]
        · simp only [DescSpec] at hspec ⊢
          intro k' hk'
          simp only [Nd.keys_cons, List.mem_append, List.mem_cons] at hk'
          rcases hk' with hk' | hk' | hk'
          · exact hpre k' (by simp [Pg.keys] at hk'; simp [hk'])
          · rw [hk']; exact hkk
          · exact hspec k' hk'
      | some tl' =>
        refine ⟨.some (.cons lt k v tl'), ?_, ?_⟩
        · rw [upsertDescNd.eq_2]
          simp only [if_neg hle, hr]
        · simp only [DescSpec] at hspec ⊢
          obtain ⟨q1, q2, q3, q4, k0, hk0, hk0lt⟩ := hspec
          simp only [LvNd, CacheOKNd]
          refine ⟨by simp, ⟨hlvlt, hlvk, q2⟩, ?_, ⟨hclt, q4⟩, k0, by simp [hk0], hk0lt⟩
          simp only [Nd.content, q3]
          have := insertKV_append_of_lt key val (lt.content ++ [(k, v)]) tl.content hpre
          simpa using this.symm
end

/-! ### the tree -/

/-- Main invariant theorem: one `upsert` from any state satisfying `Inv`. -/
theorem Tree.upsert_inv (lvl : K → Nat) (hlvl : ∀ k, lvl k < 255) (hc : HashCfg K V D)
    (t : Tree K V D) (hinv : Inv lvl hc t) (k : K) (v : V) :
    ∃ t', t.upsert k (lvl k) v = .ok t' ∧ Inv lvl hc t' ∧
      t'.root.content = insertKV k v t.root.content ∧ t'.rootHash = none := by
  obtain ⟨root, rh⟩ := t
  obtain ⟨hshape, hsorted, hcache, _⟩ := hinv
  simp only at hshape hsorted hcache
  cases root with
  | none => simp [LvRoot] at hshape
  | some L c n h =>
    by_cases hle : lvl k ≤ L
    · obtain ⟨n', h', e, q1, q2, q3, q4, q5, q6⟩ :=
        upsertPg_spec lvl hlvl hc k v (.some L c n h) hshape hsorted hcache hle
      simp only [Pg.level] at e q2 q3
      refine ⟨⟨.some L Option.none n' h', Option.none⟩, by simp only [Tree.upsert, e], ?_, ?_, rfl⟩
      · refine ⟨?_, ?_, ?_, ?_⟩
        · simp only [LvRoot]; exact ⟨fun e => absurd e q1, q2, q3⟩
        · have := insertKV_sorted k v _ hsorted
          simp only [Pg.Sorted, Pg.keys, Pg.content]
          rw [q4]; exact this
        · simp only [CacheOKPg]; exact ⟨by simp, q5, q6⟩
        · intro d hd; simp at hd
      · simpa [Pg.content] using q4
    · have hgt : L < lvl k := by omega
      have e : upsertPg k (lvl k) v (.some L c n h) = .ok (.some L c n h, .insertIntermediate) := by
        rw [upsertPg.eq_2]
        simp only [if_neg (show ¬ lvl k < L by omega), if_neg (show ¬ lvl k = L by omega)]
      simp only [LvRoot] at hshape
      obtain ⟨hnil, hlvn, hlvh⟩ := hshape
      cases n with
      | nil =>
        obtain ⟨hL0, hh⟩ := hnil rfl
        subst hh
        refine ⟨⟨.some (lvl k) Option.none (.cons .none k v .nil) .none, Option.none⟩, ?_, ?_, ?_,
          rfl⟩
        · simp only [Tree.upsert, e, Pg.nodesNil, Nd.isNil, if_true]
        · refine ⟨?_, ?_, ?_, ?_⟩
          · simp [LvRoot, LvNd, LvPg]
          · simp [Pg.Sorted]
          · simp [CacheOKPg, CacheOKNd]
          · intro d hd; simp at hd
        · simp [Pg.content, Nd.content, insertKV]
      | cons lt k0 v0 tl =>
        have hlvk : LvPg lvl (lvl k) (.some L c (.cons lt k0 v0 tl) h) := by
          simp only [LvPg]; exact ⟨hgt, by simp, hlvn, hlvh⟩
        obtain ⟨x, rest, e2, r1, r2, r3, r4, r5⟩ :=
          insertIntermediate_spec lvl hc k v _ (by simp) hlvk hsorted hcache
        refine ⟨⟨.some (lvl k) Option.none (.cons x k v .nil) rest, Option.none⟩, by
          simp only [Tree.upsert, e, Pg.nodesNil, Nd.isNil, Bool.false_eq_true, if_false, e2],
          ?_, ?_, rfl⟩
        · refine ⟨?_, ?_, ?_, ?_⟩
          · simp [LvRoot, LvNd, r1, r2]
          · have := insertKV_sorted k v _ hsorted
            rw [← r3] at this
            simpa [Pg.Sorted, Pg.keys, Pg.content, Nd.content] using this
          · simp only [CacheOKPg, CacheOKNd]; exact ⟨by simp, ⟨r4, trivial⟩, r5⟩
          · intro d hd; simp at hd
        · simpa [Pg.content, Nd.content] using r3

theorem Tree.empty_inv (lvl : K → Nat) (hc : HashCfg K V D) :
    Inv lvl hc (Tree.empty : Tree K V D) ∧ (Tree.empty : Tree K V D).root.content = [] := by
  refine ⟨⟨?_, ?_, ?_, ?_⟩, ?_⟩
  · simp [Tree.empty, LvRoot, LvNd, LvPg]
  · simp [Tree.empty, Pg.Sorted]
  · simp [Tree.empty, CacheOKPg, CacheOKNd]
  · intro d hd; simp [Tree.empty] at hd
  · simp [Tree.empty, Pg.content, Nd.content]

end Mst
