/-
L1b: `Tree.upsert` preserves the tree invariant, never panics, and has map semantics.
-/
import MstVerif.Proofs.Split

namespace Mst
variable {K V D : Type} [LinearOrder K]

/-- `insertKV` keeps a strictly ascending key list strictly ascending. -/
theorem insertKV_sorted (k : K) (v : V) (l : List (K × V))
    (h : (l.map Prod.fst).Pairwise (· < ·)) :
    ((insertKV k v l).map Prod.fst).Pairwise (· < ·) := by
  sorry

/-- Main invariant theorem: one `upsert` from any state satisfying `Inv`. -/
theorem Tree.upsert_inv (lvl : K → Nat) (hlvl : ∀ k, lvl k < 255) (hc : HashCfg K V D)
    (t : Tree K V D) (hinv : Inv lvl hc t) (k : K) (v : V) :
    ∃ t', t.upsert k (lvl k) v = .ok t' ∧ Inv lvl hc t' ∧
      t'.root.content = insertKV k v t.root.content ∧ t'.rootHash = none := by
  sorry

theorem Tree.empty_inv (lvl : K → Nat) (hc : HashCfg K V D) :
    Inv lvl hc (Tree.empty : Tree K V D) ∧ (Tree.empty : Tree K V D).root.content = [] := by
  sorry

end Mst
