/-
The `u8` arithmetic of `digest::level` agrees with the `Nat` model for digests of at most 127 bytes
(both profiles), and overflows at 128 zero bytes: a panic with overflow checks, level 0 (!) without.
-/
import MstVerif.Model.LevelU8
import MstVerif.Proofs.Level

namespace Mst

theorem levelU8Loop_eq (checked : Bool) (base : Nat) (d : List UInt8) (out : UInt8)
    (h : out.toNat + 2 * d.length < 256) :
    levelU8Loop checked base d out = .ok (UInt8.ofNat (out.toNat + level d base)) := by
  induction d generalizing out with
  | nil => simp [levelU8Loop, level]
  | cons b rest ih =>
    simp only [List.length_cons] at h
    unfold levelU8Loop level
    rcases hb : baseCountZero b base with _ | _ | _ | n
    · simp
    · have : ¬ (out.toNat + 1 ≥ 256) := by omega
      simp only [this, decide_false, Bool.and_false, Bool.false_eq_true, ↓reduceIte]
      congr 1
    · have h2 : ¬ (out.toNat + 2 ≥ 256) := by omega
      simp only [h2, decide_false, Bool.and_false, Bool.false_eq_true, ↓reduceIte]
      have ho : (out + 2).toNat = out.toNat + 2 := by
        simp [UInt8.toNat_add]; omega
      rw [ih (out + 2) (by rw [ho]; omega), ho]
      congr 2; omega
    · simp

/-- For every digest of at most 127 bytes and every base, in both build profiles, the Rust's `u8`
computation returns exactly the model's level. -/
theorem levelU8_eq_level (checked : Bool) (d : List UInt8) (base : Nat) (h : d.length ≤ 127) :
    levelU8 checked d base = .ok (UInt8.ofNat (level d base)) ∧ level d base < 255 := by
  constructor
  · have := levelU8Loop_eq checked base d 0 (by simp; omega)
    simpa [levelU8] using this
  · have := level_le d base; omega

/-- On zero bytes the base is irrelevant. -/
theorem levelU8Loop_zeros (checked : Bool) (base : Nat) (n : Nat) (out : UInt8) :
    levelU8Loop checked base (List.replicate n 0) out = levelU8Loop checked 1 (List.replicate n 0) out := by
  induction n generalizing out with
  | zero => rfl
  | succ n ih =>
    simp only [List.replicate_succ, levelU8Loop, baseCountZero, ↓reduceIte]
    split
    · rfl
    · exact ih _

theorem level_zeros (base : Nat) (n : Nat) : level (List.replicate n 0) base = 2 * n := by
  induction n with
  | zero => rfl
  | succ n ih => simp only [List.replicate_succ, level, baseCountZero, ↓reduceIte, ih]; omega

/-- At 128 zero bytes the accumulator overflows: with overflow checks the call panics … -/
theorem levelU8_overflow_checked (base : Nat) :
    (levelU8 true (List.replicate 128 0) base).toOption = none := by
  unfold levelU8
  rw [levelU8Loop_zeros]
  decide +kernel

/-- … and without them it silently wraps to level 0 although the true level is 256. -/
theorem levelU8_overflow_wraps (base : Nat) :
    (levelU8 false (List.replicate 128 0) base).toOption = some 0 ∧ level (List.replicate 128 0) base = 256 := by
  constructor
  · unfold levelU8
    rw [levelU8Loop_zeros]
    decide +kernel
  · rw [level_zeros]

end Mst
