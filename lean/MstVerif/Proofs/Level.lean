/-
L0: the level function equals its declarative reference (C14, first half).
-/
import MstVerif.Model.Level

namespace Mst

/-- Reference: two per leading zero byte, one more if the next byte exists and is a (necessarily
non-zero) multiple of the base. -/
def refLevel (d : List UInt8) (base : Nat) : Nat :=
  let z := (d.takeWhile (· = 0)).length
  2 * z + (match d.drop z with
           | [] => 0
           | b :: _ => if b.toNat % base = 0 then 1 else 0)

theorem level_cons_zero (rest : List UInt8) (base : Nat) :
    level (0 :: rest) base = 2 + level rest base := by
  simp [level, baseCountZero]

theorem level_cons_ne_zero (b : UInt8) (rest : List UInt8) (base : Nat) (hb : b ≠ 0) :
    level (b :: rest) base = if b.toNat % base = 0 then 1 else 0 := by
  by_cases hm : b.toNat % base = 0 <;> simp [level, baseCountZero, hb, hm]

theorem refLevel_cons_zero (rest : List UInt8) (base : Nat) :
    refLevel (0 :: rest) base = 2 + refLevel rest base := by
  simp only [refLevel, List.takeWhile_cons, decide_true, if_true, List.length_cons,
    List.drop_succ_cons]
  omega

theorem refLevel_cons_ne_zero (b : UInt8) (rest : List UInt8) (base : Nat) (hb : b ≠ 0) :
    refLevel (b :: rest) base = if b.toNat % base = 0 then 1 else 0 := by
  simp [refLevel, hb]

theorem level_eq_refLevel (d : List UInt8) (base : Nat) : level d base = refLevel d base := by
  induction d with
  | nil => simp [level, refLevel]
  | cons b rest ih =>
    by_cases hb : b = 0
    · subst hb
      rw [level_cons_zero, refLevel_cons_zero, ih]
    · rw [level_cons_ne_zero b rest base hb, refLevel_cons_ne_zero b rest base hb]

/-- No `u8` overflow for digests narrower than 128 bytes: the level is at most `2·width`. -/
theorem level_le (d : List UInt8) (base : Nat) : level d base ≤ 2 * d.length := by
  induction d with
  | nil => simp [level]
  | cons b rest ih =>
    by_cases hb : b = 0
    · subst hb
      rw [level_cons_zero, List.length_cons]
      omega
    · rw [level_cons_ne_zero b rest base hb, List.length_cons]
      split <;> omega

/-- Levels of digests up to 32 bytes wide stay far below the `u8`/255 limit the tree asserts on. -/
theorem level_lt_255 (d : List UInt8) (base : Nat) (h : d.length ≤ 32) : level d base < 255 := by
  have := level_le d base
  omega

end Mst
