/-
Bridge: every history ending in a hash request reaches a `Hashed` tree (what `diff` consumes).
-/
import MstVerif.Proofs.History
import MstVerif.Proofs.DiffTree2

namespace Mst
variable {K V D : Type} [LinearOrder K] [DecidableEq D]

theorem hashed_of_run (lvl : K → Nat) (hlvl : ∀ k, lvl k < 255) (hc : HashCfg K V D)
    (ops : List (Op K V)) :
    ∃ t, run lvl hc (ops ++ [.hash]) = .ok t ∧ Hashed lvl hc t ∧ t.root.content = finalContent ops := by
  obtain ⟨t₀, r₀, i₀, c₀⟩ := run_inv lvl hlvl hc ops
  obtain ⟨i₁, _, gs, e, _⟩ := genRootHash_inv lvl hc t₀ i₀
  refine ⟨t₀.genRootHash hc, ?_, ⟨i₁, gs⟩, ?_⟩
  · unfold run at r₀ ⊢
    rw [runFrom_append, r₀]
    simp [runFrom, Tree.step]
  · rw [← c₀, ← content_erase, e, content_erase]

end Mst
