/-
L9a: replicas — the tree mirrors the store through writes and pulls (no panic), and what one pull
fetches, derived from the tree-level diff theorems (C07, C04, C08).
-/
import MstVerif.Model.Sync
import MstVerif.Proofs.Reach

namespace Mst
variable {K V D : Type} [LinearOrder K] [LinearOrder V] [DecidableEq D]

/-- No digest collision occurs among any page pre-images (the "up to collisions of the 128-bit page
digest" proviso of C03–C07, assumed for the whole run in the schedule-level theorems). -/
def NoCollisions (hc : HashCfg K V D) : Prop :=
  ∀ p q : Pg K V D, CollisionFree hc (p.allToks hc ++ q.allToks hc)

/-- Replica invariant: the tree satisfies the tree invariant and holds exactly the store. -/
structure RInv (lvl : K → Nat) (hc : HashCfg K V D) (r : Replica K V D) : Prop where
  inv : Inv lvl hc r.tree
  mirror : r.tree.root.content = r.store

theorem storeInsert_eq (k : K) (v : V) (s : List (K × V)) : storeInsert k v s = insertKV k v s := by
  sorry

theorem RInv.sorted {lvl : K → Nat} {hc : HashCfg K V D} {r : Replica K V D} (h : RInv lvl hc r) :
    KSorted r.store := by
  sorry

theorem lookupKV_eq_some (s : List (K × V)) (hs : KSorted s) (k : K) (v : V) :
    lookupKV k s = some v ↔ (k, v) ∈ s := by
  sorry

theorem lookupKV_eq_none (s : List (K × V)) (k : K) :
    lookupKV k s = none ↔ ∀ v, (k, v) ∉ s := by
  sorry

theorem Replica.empty_inv (lvl : K → Nat) (hc : HashCfg K V D) :
    RInv lvl hc (Replica.empty : Replica K V D) := by
  sorry

/-- Store-level effect of absorbing entries. -/
def absorbStore (m : Merge) : List (K × V) → List (K × V) → List (K × V)
  | s, [] => s
  | s, kv :: rest => absorbStore m (insertKV kv.1 (m.apply (lookupKV kv.1 s) kv.2) s) rest

/-- Absorbing entries never panics, keeps the replica invariant and acts on the store as `absorbStore`. -/
theorem absorbAll_spec (lvl : K → Nat) (hlvl : ∀ k, lvl k < 255) (hc : HashCfg K V D) (m : Merge)
    (r : Replica K V D) (hr : RInv lvl hc r) (items : List (K × V)) :
    ∃ r', r.absorbAll lvl m items = .ok r' ∧ RInv lvl hc r' ∧ r'.store = absorbStore m r.store items := by
  sorry

theorem write_spec (lvl : K → Nat) (hlvl : ∀ k, lvl k < 255) (hc : HashCfg K V D) (m : Merge)
    (r : Replica K V D) (hr : RInv lvl hc r) (k : K) (v : V) :
    ∃ r', r.write lvl m k v = .ok r' ∧ RInv lvl hc r' ∧
      r'.store = insertKV k (m.apply (lookupKV k r.store) v) r.store := by
  sorry

/-- Lookup after absorbing, on sorted stores with distinct item keys: an absorbed key holds the
merge of its old value with the item's value; other keys are untouched. -/
theorem lookup_absorbStore (m : Merge) (s items : List (K × V)) (hs : KSorted s) (hi : KSorted items)
    (k : K) :
    lookupKV k (absorbStore m s items) =
      match lookupKV k items with
      | none => lookupKV k s
      | some v => some (m.apply (lookupKV k s) v) := by
  sorry

theorem absorbStore_sorted (m : Merge) (s items : List (K × V)) (hs : KSorted s) :
    KSorted (absorbStore m s items) := by
  sorry

theorem fetch_sorted (s : List (K × V)) (hs : KSorted s) (rs : List (DR K)) : KSorted (fetch s rs) := by
  sorry

theorem lookup_fetch (s : List (K × V)) (hs : KSorted s) (rs : List (DR K)) (k : K) :
    lookupKV k (fetch s rs) = if inRanges rs k then lookupKV k s else none := by
  sorry

/-- What one pull does, and which keys it is guaranteed to fetch. -/
theorem pull_spec (lvl : K → Nat) (hlvl : ∀ k, lvl k < 255) (hc : HashCfg K V D) (m : Merge)
    (a b : Replica K V D) (ha : RInv lvl hc a) (hb : RInv lvl hc b) :
    ∃ ranges a' b', pull lvl hc m a b = .ok (a', b') ∧ RInv lvl hc a' ∧ RInv lvl hc b' ∧
      b'.store = b.store ∧
      a'.store = absorbStore m a.store (fetch b.store ranges) ∧
      -- identical stores exchange nothing (C08)
      (a.store = b.store → ranges = []) ∧
      -- every requested range starts at a key the sender holds (C04/C12)
      (∀ r ∈ ranges, ∃ v, (r.1, v) ∈ b.store) ∧
      -- completeness under the span condition (C07), up to digest collisions
      (NoCollisions hc →
        (∀ x ∈ a.store.map Prod.fst, (∃ y ∈ b.store.map Prod.fst, y ≤ x) ∧ (∃ z ∈ b.store.map Prod.fst, x ≤ z)) →
        ∀ kv ∈ b.store, kv ∉ a.store → inRanges ranges kv.1 = true) ∧
      -- the sender starts strictly first and ends strictly first: its smallest key is fetched
      (∀ a0 a1 b0 b1 : K × V, a.store.head? = some a0 → a.store.getLast? = some a1 →
        b.store.head? = some b0 → b.store.getLast? = some b1 → b0.1 < a0.1 → b1.1 < a1.1 →
        inRanges ranges b0.1 = true) := by
  sorry

/-- The store a pull produces depends only on the two stores, not on the cache states of the trees. -/
theorem pull_store_congr (lvl : K → Nat) (hlvl : ∀ k, lvl k < 255) (hc : HashCfg K V D) (m : Merge)
    (a b a' b' : Replica K V D) (ha : RInv lvl hc a) (hb : RInv lvl hc b)
    (ha' : RInv lvl hc a') (hb' : RInv lvl hc b') (h1 : a.store = a'.store) (h2 : b.store = b'.store) :
    ∃ x y x' y', pull lvl hc m a b = .ok (x, y) ∧ pull lvl hc m a' b' = .ok (x', y') ∧
      x.store = x'.store ∧ y.store = y'.store := by
  sorry

end Mst
