/-
L9a: replicas — the tree mirrors the store through writes and pulls (no panic), and what one pull
fetches, derived from the tree-level diff theorems (C07, C04, C08).
-/
import MstVerif.Model.Sync
import MstVerif.Proofs.Reach

set_option linter.unusedSectionVars false
set_option linter.unusedVariables false

namespace Mst
variable {K V D : Type} [LinearOrder K] [Max V] [DecidableEq D]

/-- No digest collision occurs among any page pre-images (the "up to collisions of the 128-bit page
digest" proviso of C03–C07, assumed for the whole run in the schedule-level theorems). -/
def NoCollisions (hc : HashCfg K V D) : Prop :=
  ∀ p q : Pg K V D, CollisionFree hc (p.allToks hc ++ q.allToks hc)

/-- Replica invariant: the tree satisfies the tree invariant and holds exactly the store. -/
structure RInv (lvl : K → Nat) (hc : HashCfg K V D) (r : Replica K V D) : Prop where
  inv : Inv lvl hc r.tree
  mirror : r.tree.root.content = r.store

theorem storeInsert_eq (k : K) (v : V) (s : List (K × V)) : storeInsert k v s = insertKV k v s := by
  induction s with
  | nil => rfl
  | cons hd rest ih =>
    obtain ⟨k', v'⟩ := hd
    simp only [storeInsert, insertKV, ih]

theorem RInv.sorted {lvl : K → Nat} {hc : HashCfg K V D} {r : Replica K V D} (h : RInv lvl hc r) :
    KSorted r.store := by
  have := h.inv.sorted
  unfold Pg.Sorted Pg.keys at this
  rw [h.mirror] at this
  exact this

theorem lookupKV_eq_some (s : List (K × V)) (hs : KSorted s) (k : K) (v : V) :
    lookupKV k s = some v ↔ (k, v) ∈ s := by
  induction s with
  | nil => simp [lookupKV]
  | cons hd rest ih =>
    obtain ⟨k0, v0⟩ := hd
    have hs' : KSorted rest := by simp [KSorted] at hs ⊢; exact hs.2
    have hlt : ∀ kv ∈ rest, k0 < kv.1 := by
      simp [KSorted] at hs
      intro kv hkv
      exact hs.1 kv.1 kv.2 hkv
    simp only [lookupKV, List.mem_cons, Prod.mk.injEq]
    by_cases hk : k0 = k
    · subst hk
      simp only [if_true, Option.some.injEq, true_and]
      constructor
      · intro h; exact Or.inl h.symm
      · rintro (h | h)
        · exact h.symm
        · exact absurd (hlt _ h) (lt_irrefl _)
    · rw [if_neg hk, ih hs']
      constructor
      · intro h; exact Or.inr h
      · rintro (h | h)
        · exact absurd h.1.symm hk
        · exact h

theorem lookupKV_eq_none (s : List (K × V)) (k : K) :
    lookupKV k s = none ↔ ∀ v, (k, v) ∉ s := by
  induction s with
  | nil => simp [lookupKV]
  | cons hd rest ih =>
    obtain ⟨k0, v0⟩ := hd
    simp only [lookupKV, List.mem_cons, Prod.mk.injEq, not_or, not_and]
    by_cases hk : k0 = k
    · subst hk
      simp only [if_true]
      constructor
      · intro h; cases h
      · intro h; exact absurd rfl ((h v0).1 trivial)
    · rw [if_neg hk, ih]
      constructor
      · intro h v; exact ⟨fun e => absurd e.symm hk, h v⟩
      · intro h v; exact (h v).2

theorem Replica.empty_inv (lvl : K → Nat) (hc : HashCfg K V D) :
    RInv lvl hc (Replica.empty : Replica K V D) := by
  obtain ⟨h1, h2⟩ := Tree.empty_inv (V := V) lvl hc
  exact ⟨h1, h2⟩

/-- Store-level effect of absorbing entries. -/
def absorbStore (m : Merge) : List (K × V) → List (K × V) → List (K × V)
  | s, [] => s
  | s, kv :: rest => absorbStore m (insertKV kv.1 (m.apply (lookupKV kv.1 s) kv.2) s) rest

theorem absorb_spec (lvl : K → Nat) (hlvl : ∀ k, lvl k < 255) (hc : HashCfg K V D) (m : Merge)
    (r : Replica K V D) (hr : RInv lvl hc r) (kv : K × V) :
    ∃ r', r.absorb lvl m kv = .ok r' ∧ RInv lvl hc r' ∧
      r'.store = insertKV kv.1 (m.apply (lookupKV kv.1 r.store) kv.2) r.store := by
  obtain ⟨t', h1, h2, h3, -⟩ := Tree.upsert_inv lvl hlvl hc r.tree hr.inv kv.1
    (m.apply (lookupKV kv.1 r.store) kv.2)
  refine ⟨{ store := storeInsert kv.1 (m.apply (lookupKV kv.1 r.store) kv.2) r.store, tree := t' },
    ?_, ⟨h2, ?_⟩, ?_⟩
  · simp only [Replica.absorb, h1]
  · simp only [h3, hr.mirror, storeInsert_eq]
  · simp only [storeInsert_eq]

/-- Absorbing entries never panics, keeps the replica invariant and acts on the store as `absorbStore`. -/
theorem absorbAll_spec (lvl : K → Nat) (hlvl : ∀ k, lvl k < 255) (hc : HashCfg K V D) (m : Merge)
    (r : Replica K V D) (hr : RInv lvl hc r) (items : List (K × V)) :
    ∃ r', r.absorbAll lvl m items = .ok r' ∧ RInv lvl hc r' ∧ r'.store = absorbStore m r.store items := by
  induction items generalizing r with
  | nil => exact ⟨r, rfl, hr, rfl⟩
  | cons kv rest ih =>
    obtain ⟨r1, h1, hr1, hs1⟩ := absorb_spec lvl hlvl hc m r hr kv
    obtain ⟨r2, h2, hr2, hs2⟩ := ih r1 hr1
    refine ⟨r2, ?_, hr2, ?_⟩
    · simp only [Replica.absorbAll, h1, h2]
    · rw [hs2, hs1]; rfl

theorem write_spec (lvl : K → Nat) (hlvl : ∀ k, lvl k < 255) (hc : HashCfg K V D) (m : Merge)
    (r : Replica K V D) (hr : RInv lvl hc r) (k : K) (v : V) :
    ∃ r', r.write lvl m k v = .ok r' ∧ RInv lvl hc r' ∧
      r'.store = insertKV k (m.apply (lookupKV k r.store) v) r.store := by
  exact absorb_spec lvl hlvl hc m r hr (k, v)

theorem lookupKV_insertKV (k k' : K) (v : V) (s : List (K × V)) :
    lookupKV k (insertKV k' v s) = if k' = k then some v else lookupKV k s := by
  induction s with
  | nil => simp [insertKV, lookupKV]
  | cons hd rest ih =>
    obtain ⟨k0, v0⟩ := hd
    simp only [insertKV]
    by_cases h1 : k' < k0
    · simp only [if_pos h1, lookupKV]
    · rw [if_neg h1]
      by_cases h2 : k' = k0
      · subst h2
        simp only [if_true, lookupKV]
        by_cases h3 : k' = k <;> simp [h3]
      · rw [if_neg h2]
        simp only [lookupKV, ih]
        by_cases h3 : k0 = k
        · subst h3; simp [h2]
        · simp [h3]

theorem lookupKV_none_of_lt (k : K) (s : List (K × V)) (h : ∀ kv ∈ s, k < kv.1) :
    lookupKV k s = none := by
  rw [lookupKV_eq_none]
  intro v hv
  exact lt_irrefl _ (h _ hv)

/-- Lookup after absorbing, on sorted stores with distinct item keys: an absorbed key holds the
merge of its old value with the item's value; other keys are untouched. -/
theorem lookup_absorbStore (m : Merge) (s items : List (K × V)) (hs : KSorted s) (hi : KSorted items)
    (k : K) :
    lookupKV k (absorbStore m s items) =
      match lookupKV k items with
      | none => lookupKV k s
      | some v => some (m.apply (lookupKV k s) v) := by
  induction items generalizing s with
  | nil => simp [absorbStore, lookupKV]
  | cons hd rest ih =>
    obtain ⟨k1, v1⟩ := hd
    have hi' : KSorted rest := by simp [KSorted] at hi ⊢; exact hi.2
    have hlt : ∀ kv ∈ rest, k1 < kv.1 := by
      simp [KSorted] at hi
      intro kv hkv
      exact hi.1 kv.1 kv.2 hkv
    simp only [absorbStore]
    rw [ih _ (insertKV_sorted _ _ s hs) hi']
    simp only [lookupKV, lookupKV_insertKV]
    by_cases hk : k1 = k
    · subst hk
      rw [lookupKV_none_of_lt k1 rest hlt]
      simp
    · simp only [if_neg hk]

theorem absorbStore_sorted (m : Merge) (s items : List (K × V)) (hs : KSorted s) :
    KSorted (absorbStore m s items) := by
  induction items generalizing s with
  | nil => exact hs
  | cons kv rest ih => exact ih _ (insertKV_sorted _ _ s hs)

theorem fetch_sorted (s : List (K × V)) (hs : KSorted s) (rs : List (DR K)) : KSorted (fetch s rs) := by
  unfold KSorted fetch at *
  exact hs.sublist (List.filter_sublist.map _)

theorem lookup_fetch (s : List (K × V)) (hs : KSorted s) (rs : List (DR K)) (k : K) :
    lookupKV k (fetch s rs) = if inRanges rs k then lookupKV k s else none := by
  clear hs
  induction s with
  | nil => simp [fetch, lookupKV]
  | cons hd rest ih =>
    obtain ⟨k0, v0⟩ := hd
    unfold fetch at ih ⊢
    rw [List.filter_cons]
    by_cases hp : inRanges rs k0 = true
    · simp only [hp, if_true, lookupKV, ih]
      by_cases hk : k0 = k
      · subst hk; simp [hp]
      · simp [hk]
    · have hp' : inRanges rs k0 = false := by simpa using hp
      simp only [hp', lookupKV]
      by_cases hk : k0 = k
      · subst hk; simp [hp', ih]
      · simp [hk, ih]

theorem inRanges_iff (rs : List (DR K)) (k : K) : inRanges rs k = true ↔ Covered k rs := by
  simp [inRanges, Covered, DR.mem, List.any_eq_true]

/-- Regenerating the root hash of a replica's tree gives a `Hashed` tree still holding the store. -/
theorem RInv.hashed {lvl : K → Nat} {hc : HashCfg K V D} {r : Replica K V D} (hr : RInv lvl hc r) :
    Hashed lvl hc (r.tree.genRootHash hc) ∧ (r.tree.genRootHash hc).root.content = r.store := by
  obtain ⟨i₁, _, gs, e, _⟩ := genRootHash_inv lvl hc r.tree hr.inv
  refine ⟨⟨i₁, gs⟩, ?_⟩
  rw [← content_erase, e, content_erase, hr.mirror]

/-- `pull` exposed: the ranges are the diff of the two regenerated trees' page ranges. -/
theorem pull_aux (lvl : K → Nat) (hlvl : ∀ k, lvl k < 255) (hc : HashCfg K V D) (m : Merge)
    (a b : Replica K V D) (ha : RInv lvl hc a) (hb : RInv lvl hc b) :
    ∃ ranges a',
      diff (pageRanges hc (a.tree.genRootHash hc)) (pageRanges hc (b.tree.genRootHash hc)) = .ok ranges ∧
      DRValid ranges ∧
      pull lvl hc m a b = .ok (a', { store := b.store, tree := b.tree.genRootHash hc }) ∧
      RInv lvl hc a' ∧ a'.store = absorbStore m a.store (fetch b.store ranges) := by
  obtain ⟨hL, cL⟩ := ha.hashed
  obtain ⟨hP, cP⟩ := hb.hashed
  obtain ⟨ranges, hd, -, hv⟩ := diff_trees_ok lvl hc _ _ hL hP
  have hrecv : RInv lvl hc ({ store := a.store, tree := a.tree.genRootHash hc } : Replica K V D) :=
    ⟨hL.inv, cL⟩
  obtain ⟨a', h1, h2, h3⟩ := absorbAll_spec lvl hlvl hc m _ hrecv (fetch b.store ranges)
  refine ⟨ranges, a', hd, hv, ?_, h2, h3⟩
  have hpr : pullRanges hc a b = .ok (ranges, a.tree.genRootHash hc, b.tree.genRootHash hc) := by
    simp only [pullRanges, serialise_eq_pageRanges lvl hc _ hL, serialise_eq_pageRanges lvl hc _ hP, hd]
  simp only [pull, hpr, h1]

/-- What one pull does, and which keys it is guaranteed to fetch. -/
theorem pull_spec (lvl : K → Nat) (hlvl : ∀ k, lvl k < 255) (hc : HashCfg K V D) (m : Merge)
    (a b : Replica K V D) (ha : RInv lvl hc a) (hb : RInv lvl hc b) :
    ∃ ranges a' b', pull lvl hc m a b = .ok (a', b') ∧ RInv lvl hc a' ∧ RInv lvl hc b' ∧
      b'.store = b.store ∧
      a'.store = absorbStore m a.store (fetch b.store ranges) ∧
      -- identical stores exchange nothing (C08)
      (a.store = b.store → ranges = []) ∧
      -- every requested range starts at a key the sender holds (C04/C12)
      (∀ r ∈ ranges, ∃ v, (r.1, v) ∈ b.store) ∧
      -- completeness under the span condition (C07), up to digest collisions
      (NoCollisions hc →
        (∀ x ∈ a.store.map Prod.fst, (∃ y ∈ b.store.map Prod.fst, y ≤ x) ∧ (∃ z ∈ b.store.map Prod.fst, x ≤ z)) →
        ∀ kv ∈ b.store, kv ∉ a.store → inRanges ranges kv.1 = true) ∧
      -- the sender starts strictly first and ends strictly first: its smallest key is fetched
      (∀ a0 a1 b0 b1 : K × V, a.store.head? = some a0 → a.store.getLast? = some a1 →
        b.store.head? = some b0 → b.store.getLast? = some b1 → b0.1 < a0.1 → b1.1 < a1.1 →
        inRanges ranges b0.1 = true) := by
  obtain ⟨hL, cL⟩ := ha.hashed
  obtain ⟨hP, cP⟩ := hb.hashed
  obtain ⟨ranges, a', hd, hv, hpull, hra, hsa⟩ := pull_aux lvl hlvl hc m a b ha hb
  refine ⟨ranges, a', _, hpull, hra, ⟨hP.inv, cP⟩, rfl, hsa, ?_, ?_, ?_, ?_⟩
  · intro he
    have := diff_trees_same_content lvl hc _ _ hL hP (by rw [cL, cP, he])
    rw [hd] at this
    exact Except.ok.inj this
  · intro r hr
    obtain ⟨h1, -⟩ := diff_trees_confined lvl hc _ _ hL hP ranges hd r hr
    unfold Pg.keys at h1
    rw [cP] at h1
    obtain ⟨kv, hkv, e⟩ := List.mem_map.1 h1
    exact ⟨kv.2, by rw [← e]; exact hkv⟩
  · intro hnc hspan kv hkv hnot
    have hsp : SpanCovers (a.tree.genRootHash hc) (b.tree.genRootHash hc) := by
      unfold SpanCovers Pg.keys
      rw [cL, cP]
      exact hspan
    obtain ⟨out, ho, hcov⟩ := diff_trees_complete lvl hc _ _ hL hP (hnc _ _) hsp kv
      (by rw [cP]; exact hkv) (by rw [cL]; exact hnot)
    rw [hd] at ho
    cases Except.ok.inj ho
    exact (inRanges_iff _ _).2 hcov
  · intro a0 a1 b0 b1 ha0 ha1 hb0 hb1 hlt0 hlt1
    have := diff_trees_peer_starts_first lvl hc _ _ hL hP b0 b1 a0 a1
      (by rw [cP]; exact hb0) (by rw [cP]; exact hb1) (by rw [cL]; exact ha0) (by rw [cL]; exact ha1)
      hlt0 hlt1
    rw [hd] at this
    cases Except.ok.inj this
    rw [inRanges_iff]
    exact ⟨_, List.mem_singleton.2 rfl, le_refl _, hv _ (List.mem_singleton.2 rfl)⟩

/-- The store a pull produces depends only on the two stores, not on the cache states of the trees. -/
theorem pull_store_congr (lvl : K → Nat) (hlvl : ∀ k, lvl k < 255) (hc : HashCfg K V D) (m : Merge)
    (a b a' b' : Replica K V D) (ha : RInv lvl hc a) (hb : RInv lvl hc b)
    (ha' : RInv lvl hc a') (hb' : RInv lvl hc b') (h1 : a.store = a'.store) (h2 : b.store = b'.store) :
    ∃ x y x' y', pull lvl hc m a b = .ok (x, y) ∧ pull lvl hc m a' b' = .ok (x', y') ∧
      x.store = x'.store ∧ y.store = y'.store := by
  obtain ⟨hL, cL⟩ := ha.hashed
  obtain ⟨hP, cP⟩ := hb.hashed
  obtain ⟨hL', cL'⟩ := ha'.hashed
  obtain ⟨hP', cP'⟩ := hb'.hashed
  obtain ⟨ranges, x, hd, -, hpull, -, hsx⟩ := pull_aux lvl hlvl hc m a b ha hb
  obtain ⟨ranges', x', hd', -, hpull', -, hsx'⟩ := pull_aux lvl hlvl hc m a' b' ha' hb'
  obtain ⟨-, e1⟩ := hashed_eq_of_content_eq lvl hc _ _ hL hL' (by rw [cL, cL', h1])
  obtain ⟨-, e2⟩ := hashed_eq_of_content_eq lvl hc _ _ hP hP' (by rw [cP, cP', h2])
  rw [e1, e2, hd'] at hd
  cases Except.ok.inj hd
  refine ⟨x, _, x', _, hpull, hpull', ?_, h2⟩
  rw [hsx, hsx', h1, h2]

end Mst

#print axioms Mst.storeInsert_eq
#print axioms Mst.RInv.sorted
#print axioms Mst.lookupKV_eq_some
#print axioms Mst.lookupKV_eq_none
#print axioms Mst.Replica.empty_inv
#print axioms Mst.absorbAll_spec
#print axioms Mst.write_spec
#print axioms Mst.lookup_absorbStore
#print axioms Mst.absorbStore_sorted
#print axioms Mst.fetch_sorted
#print axioms Mst.lookup_fetch
#print axioms Mst.pull_spec
#print axioms Mst.pull_store_congr
