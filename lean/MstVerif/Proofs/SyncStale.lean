/-
L9d: C06 with stale in-flight snapshots. Schedules over {write, atomic pull, hash, fetchStale with
ARBITRARY ranges}: refinement and safety hold throughout, and once writes (and stale fetches) stop,
fair sweeps of fresh pulls converge to the join of everything written.
-/
import MstVerif.Proofs.SyncN

set_option linter.unusedSectionVars false

namespace Mst
variable {K V D : Type} [LinearOrder K] [SemilatticeSup V] [DecidableEq V] [DecidableEq D]

/-- The join of everything written by the write operations of an extended schedule. -/
def written2 (ops : List (SyncOp2 K V)) (k : K) : Option V :=
  ops.foldl (fun acc op =>
    match op with
    | .write _ k' v => if k' = k then (match acc with | none => some v | some w => some (max w v)) else acc
    | _ => acc) none

def countWrites2 (ops : List (SyncOp2 K V)) : Nat :=
  (ops.filter fun op => match op with | .write _ _ _ => true | _ => false).length

/-! ### Reduction to plain schedules: the write operations of an extended schedule -/

/-- the plain schedule made of the write operations of an extended schedule -/
def plainOf : List (SyncOp2 K V) → List (SyncOp K V)
  | [] => []
  | .write r k v :: ops => SyncOp.write r k v :: plainOf ops
  | .pull _ _ :: ops => plainOf ops
  | .hash _ :: ops => plainOf ops
  | .fetchStale _ _ _ :: ops => plainOf ops

omit [LinearOrder K] [SemilatticeSup V] [DecidableEq V] in
theorem plainOf_cons (op : SyncOp2 K V) (ops : List (SyncOp2 K V)) :
    plainOf (op :: ops) = plainOf [op] ++ plainOf ops := by
  cases op <;> simp [plainOf]

theorem written2_eq (ops : List (SyncOp2 K V)) (k : K) : written2 ops k = written (plainOf ops) k := by
  unfold written2 written
  generalize (none : Option V) = acc
  induction ops generalizing acc with
  | nil => rfl
  | cons op ops ih =>
    cases op with
    | write r k' v => simp only [List.foldl_cons, plainOf]; exact ih _
    | pull i j => simp only [List.foldl_cons, plainOf]; exact ih _
    | hash r => simp only [List.foldl_cons, plainOf]; exact ih _
    | fetchStale i j R => simp only [List.foldl_cons, plainOf]; exact ih _

omit [LinearOrder K] [SemilatticeSup V] [DecidableEq V] in
theorem countWrites2_eq (ops : List (SyncOp2 K V)) : countWrites2 ops = (plainOf ops).length := by
  unfold countWrites2
  induction ops with
  | nil => rfl
  | cons op ops ih =>
    cases op <;> simp [plainOf, ih]

omit [LinearOrder K] [SemilatticeSup V] [DecidableEq V] in
theorem mem_plainOf (ops : List (SyncOp2 K V)) (r : Nat) (k : K) (v : V)
    (h : SyncOp.write r k v ∈ plainOf ops) : SyncOp2.write r k v ∈ ops := by
  induction ops with
  | nil => simp [plainOf] at h
  | cons op ops ih =>
    cases op with
    | write r' k' v' =>
      simp only [plainOf, List.mem_cons] at h
      rcases h with h | h
      · injection h with h1 h2 h3
        subst h1; subst h2; subst h3
        exact List.mem_cons_self
      · exact List.mem_cons_of_mem _ (ih h)
    | pull i j => exact List.mem_cons_of_mem _ (ih (by simpa [plainOf] using h))
    | hash r' => exact List.mem_cons_of_mem _ (ih (by simpa [plainOf] using h))
    | fetchStale i j R => exact List.mem_cons_of_mem _ (ih (by simpa [plainOf] using h))

/-! ### The two new steps, concretely -/

theorem step2_hash_gen (lvl : K → Nat) (hc : HashCfg K V D) (m : Merge)
    (rs : List (Replica K V D)) (hrs : ∀ r ∈ rs, RInv lvl hc r) (r : Nat) :
    ∃ rs', syncStep2 lvl hc m rs (.hash r) = .ok rs' ∧ rs'.length = rs.length ∧
      (∀ x ∈ rs', RInv lvl hc x) ∧ storesOf rs' = storesOf rs := by
  cases hr : rs[r]? with
  | none => exact ⟨rs, by simp [syncStep2, hr], rfl, hrs, rfl⟩
  | some rep =>
    have hrep := hrs rep (List.mem_of_getElem? hr)
    obtain ⟨hH, hC⟩ := hrep.hashed
    refine ⟨rs.set r { rep with tree := rep.tree.genRootHash hc }, by simp [syncStep2, hr, setAt],
      by simp, ?_, ?_⟩
    · intro x hx
      rcases List.mem_or_eq_of_mem_set hx with hx | rfl
      · exact hrs x hx
      · exact ⟨hH.inv, hC⟩
    · have : storesOf (rs.set r { rep with tree := rep.tree.genRootHash hc }) =
          (storesOf rs).set r rep.store := by
        simp [storesOf, List.map_set]
      rw [this]
      exact set_eq_self (storesOf_getElem? rs r rep hr)

theorem step2_fetch_gen (lvl : K → Nat) (hlvl : ∀ k, lvl k < 255) (hc : HashCfg K V D) (m : Merge)
    (rs : List (Replica K V D)) (hrs : ∀ r ∈ rs, RInv lvl hc r) (i j : Nat) (R : List (DR K)) :
    ∃ rs', syncStep2 lvl hc m rs (.fetchStale i j R) = .ok rs' ∧
      ((rs' = rs) ∨
       (i ≠ j ∧ ∃ ri rj ri', rs[i]? = some ri ∧ rs[j]? = some rj ∧ RInv lvl hc ri' ∧
          ri'.store = absorbStore m ri.store (fetch rj.store R) ∧ rs' = rs.set i ri')) := by
  by_cases hij : i = j
  · exact ⟨rs, by simp [syncStep2, hij], Or.inl rfl⟩
  · cases hi : rs[i]? with
    | none => exact ⟨rs, by simp [syncStep2, hij, hi], Or.inl rfl⟩
    | some ri =>
      cases hj : rs[j]? with
      | none => exact ⟨rs, by simp [syncStep2, hij, hi, hj], Or.inl rfl⟩
      | some rj =>
        have hri := hrs ri (List.mem_of_getElem? hi)
        obtain ⟨ri', h1, h2, h3⟩ := absorbAll_spec lvl hlvl hc m ri hri (fetch rj.store R)
        exact ⟨rs.set i ri', by simp [syncStep2, hij, hi, hj, h1, setAt],
          Or.inr ⟨hij, ri, rj, ri', rfl, rfl, h2, h3, rfl⟩⟩

theorem step2_gen_inv (lvl : K → Nat) (hlvl : ∀ k, lvl k < 255) (hc : HashCfg K V D) (m : Merge)
    (rs : List (Replica K V D)) (hrs : ∀ r ∈ rs, RInv lvl hc r) (op : SyncOp2 K V) :
    ∃ rs', syncStep2 lvl hc m rs op = .ok rs' ∧ rs'.length = rs.length ∧
      ∀ r ∈ rs', RInv lvl hc r := by
  cases op with
  | write r k v => exact step_gen_inv lvl hlvl hc m rs hrs (.write r k v)
  | pull i j => exact step_gen_inv lvl hlvl hc m rs hrs (.pull i j)
  | hash r =>
    obtain ⟨rs', h, hl, hi, -⟩ := step2_hash_gen lvl hc m rs hrs r
    exact ⟨rs', h, hl, hi⟩
  | fetchStale i j R =>
    obtain ⟨rs', h, hc'⟩ := step2_fetch_gen lvl hlvl hc m rs hrs i j R
    refine ⟨rs', h, ?_⟩
    rcases hc' with rfl | ⟨-, ri, rj, ri', -, -, h1, -, rfl⟩
    · exact ⟨rfl, hrs⟩
    · refine ⟨by simp, ?_⟩
      intro x hx
      rcases List.mem_or_eq_of_mem_set hx with hx | rfl
      · exact hrs x hx
      · exact h1

/-- the replica a write addresses exists -/
def WriteOK (n : Nat) (op : SyncOp2 K V) : Prop :=
  match op with | .write r _ _ => r < n | _ => True

/-- one extended step from a good state -/
theorem good_step2 (lvl : K → Nat) (hlvl : ∀ k, lvl k < 255) (hc : HashCfg K V D)
    (done : List (SyncOp K V)) (rs : List (Replica K V D)) (hinv : ∀ r ∈ rs, RInv lvl hc r)
    (hg : SGood done (storesOf rs)) (op : SyncOp2 K V)
    (hw : WriteOK rs.length op) :
    ∃ rs', syncStep2 lvl hc .joinMax rs op = .ok rs' ∧ rs'.length = rs.length ∧
      (∀ r ∈ rs', RInv lvl hc r) ∧ SGood (done ++ plainOf [op]) (storesOf rs') := by
  cases op with
  | write r k v =>
    exact good_write_step lvl hlvl hc done rs hinv hg r k v hw
  | pull i j =>
    obtain ⟨rs1, hs1, hl1, hi1, hg1, -⟩ := good_pull_step lvl hlvl hc done rs hinv hg i j
    exact ⟨rs1, hs1, hl1, hi1, by simpa [plainOf] using hg1⟩
  | hash r =>
    obtain ⟨rs', h, hl, hi, hS⟩ := step2_hash_gen lvl hc .joinMax rs hinv r
    exact ⟨rs', h, hl, hi, by rw [hS]; simpa [plainOf] using hg⟩
  | fetchStale i j R =>
    obtain ⟨rs', hstep, hl, hinv'⟩ := step2_gen_inv lvl hlvl hc .joinMax rs hinv (.fetchStale i j R)
    obtain ⟨rs'', hstep', hcases⟩ := step2_fetch_gen lvl hlvl hc .joinMax rs hinv i j R
    have e := hstep.symm.trans hstep'
    injection e with e
    subst e
    refine ⟨rs', hstep, hl, hinv', ?_⟩
    have happ : done ++ plainOf [SyncOp2.fetchStale i j R] = done := by simp [plainOf]
    rw [happ]
    rcases hcases with rfl | ⟨hij, ri, rj, ri', hi, hj, h1, h2, rfl⟩
    · exact hg
    · have hri := hinv ri (List.mem_of_getElem? hi)
      have hrj := hinv rj (List.mem_of_getElem? hj)
      have hpr : PullRel ri.store rj.store ri'.store := by
        rw [h2]; exact pullN_lookup _ _ hri.sorted hrj.sorted R
      have : storesOf (rs.set i ri') = (storesOf rs).set i ri'.store := by
        simp [storesOf, List.map_set]
      rw [this]
      exact sgood_set_pull done _ hg i ri.store rj.store ri'.store (storesOf_getElem? rs i ri hi)
        (mem_storesOf rs rj (List.mem_of_getElem? hj)) hpr

theorem run2_good_from (lvl : K → Nat) (hlvl : ∀ k, lvl k < 255) (hc : HashCfg K V D) (n : Nat) :
    ∀ (todo : List (SyncOp2 K V)) (done : List (SyncOp K V)) (rs : List (Replica K V D)),
      rs.length = n → (∀ r ∈ rs, RInv lvl hc r) → SGood done (storesOf rs) →
      (∀ op ∈ todo, match op with | .write r _ _ => r < n | _ => True) →
      ∃ rs', syncRun2 lvl hc .joinMax rs todo = .ok rs' ∧ rs'.length = n ∧
        (∀ r ∈ rs', RInv lvl hc r) ∧ SGood (done ++ plainOf todo) (storesOf rs') := by
  intro todo
  induction todo with
  | nil =>
    intro done rs hl hinv hg _
    exact ⟨rs, rfl, hl, hinv, by simpa [plainOf] using hg⟩
  | cons op todo ih =>
    intro done rs hl hinv hg hw
    have hw' : ∀ op ∈ todo, match op with | .write r _ _ => r < n | _ => True :=
      fun o ho => hw o (List.mem_cons_of_mem _ ho)
    have hop : WriteOK rs.length op := by
      have := hw op List.mem_cons_self
      rw [hl]
      exact this
    obtain ⟨rs1, hs1, hl1, hi1, hg1⟩ := good_step2 lvl hlvl hc done rs hinv hg op hop
    obtain ⟨rs2, hs2, hl2, hi2, hg2⟩ := ih (done ++ plainOf [op]) rs1 (hl1.trans hl) hi1 hg1 hw'
    refine ⟨rs2, by simp [syncRun2, hs1, hs2], hl2, hi2, ?_⟩
    rw [plainOf_cons, ← List.append_assoc]
    exact hg2

theorem run2_good (lvl : K → Nat) (hlvl : ∀ k, lvl k < 255) (hc : HashCfg K V D)
    (n : Nat) (ops : List (SyncOp2 K V))
    (hw : ∀ op ∈ ops, match op with | .write r _ _ => r < n | _ => True) :
    ∃ rs, syncRun2 lvl hc .joinMax (freshReplicas n : List (Replica K V D)) ops = .ok rs ∧
      rs.length = n ∧ (∀ r ∈ rs, RInv lvl hc r) ∧ SGood (plainOf ops) (storesOf rs) := by
  have h := run2_good_from lvl hlvl hc n ops [] (freshReplicas n : List (Replica K V D))
    (by simp [freshReplicas])
    (by
      intro r hr
      rw [List.eq_of_mem_replicate hr]
      exact Replica.empty_inv lvl hc)
    (by
      have : storesOf (freshReplicas n : List (Replica K V D)) = List.replicate n [] := by
        simp [storesOf, freshReplicas, Replica.empty]
      rw [this]
      exact sgood_fresh n)
    hw
  simpa using h


/-- Refinement for extended schedules, any merge rule: no panic, every tree mirrors its store. -/
theorem syncRun2_inv (lvl : K → Nat) (hlvl : ∀ k, lvl k < 255) (hc : HashCfg K V D) (m : Merge)
    (rs : List (Replica K V D)) (hrs : ∀ r ∈ rs, RInv lvl hc r) (ops : List (SyncOp2 K V)) :
    ∃ rs', syncRun2 lvl hc m rs ops = .ok rs' ∧ rs'.length = rs.length ∧ ∀ r ∈ rs', RInv lvl hc r := by
  induction ops generalizing rs with
  | nil => exact ⟨rs, rfl, rfl, hrs⟩
  | cons op ops ih =>
    obtain ⟨rs1, h1, hl1, hi1⟩ := step2_gen_inv lvl hlvl hc m rs hrs op
    obtain ⟨rs2, h2, hl2, hi2⟩ := ih rs1 hi1
    exact ⟨rs2, by simp [syncRun2, h1, h2], hl2.trans hl1, hi2⟩

/-- Safety under the join merge (ANY join-semilattice) for extended schedules: stale / arbitrary
range fetches can neither lose nor invent data — every store is below the join of everything written,
that join is the least upper bound of the stores, every stored value is a join of written values. -/
theorem syncRun2_safe_join (lvl : K → Nat) (hlvl : ∀ k, lvl k < 255) (hc : HashCfg K V D)
    (n : Nat) (ops : List (SyncOp2 K V))
    (hw : ∀ op ∈ ops, match op with | .write r _ _ => r < n | _ => True) :
    ∃ rs, syncRun2 lvl hc .joinMax (freshReplicas n : List (Replica K V D)) ops = .ok rs ∧ rs.length = n ∧
      (∀ r ∈ rs, RInv lvl hc r) ∧
      (∀ r ∈ rs, ∀ k, optLe (lookupKV k r.store) (written2 ops k)) ∧
      (∀ k u, (∀ r ∈ rs, optLe (lookupKV k r.store) u) → optLe (written2 ops k) u) ∧
      (∀ r ∈ rs, ∀ k x, lookupKV k r.store = some x → GenBy (plainOf ops) k x) := by
  obtain ⟨rs, hrun, hl, hi, hg⟩ := run2_good lvl hlvl hc n ops hw
  refine ⟨rs, hrun, hl, hi, ?_, ?_, ?_⟩
  · intro r hr k
    rw [written2_eq]
    exact hg.le _ (mem_storesOf rs r hr) k
  · intro k u hu
    rw [written2_eq]
    apply hg.lub k u
    intro s hs
    obtain ⟨r, hr, rfl⟩ := List.mem_map.1 hs
    exact hu r hr
  · intro r hr k x hx
    exact hg.gen _ (mem_storesOf rs r hr) k x hx

/-- Liveness: from the state reached by ANY extended schedule (stale fetches included), enough fair
sweeps of fresh atomic pulls bring every replica to the join of everything written, with equal
root hashes. `n * (number of writes) + 1` sweeps suffice. -/
theorem syncRun2_live (lvl : K → Nat) (hlvl : ∀ k, lvl k < 255) (hc : HashCfg K V D)
    (hnc : NoCollisions hc) (n : Nat) (ops : List (SyncOp2 K V))
    (hw : ∀ op ∈ ops, match op with | .write r _ _ => r < n | _ => True)
    (sweeps : List (List (SyncOp K V))) (hs : ∀ s ∈ sweeps, IsSweep n s)
    (hlen : n * countWrites2 ops + 1 ≤ sweeps.length) :
    ∃ rs₀ rs, syncRun2 lvl hc .joinMax (freshReplicas n : List (Replica K V D)) ops = .ok rs₀ ∧
      syncRun lvl hc .joinMax rs₀ sweeps.flatten = .ok rs ∧ rs.length = n ∧
      (∀ r ∈ rs, ∀ k, lookupKV k r.store = written2 ops k) ∧
      (∀ r₁ ∈ rs, ∀ r₂ ∈ rs, r₁.store = r₂.store ∧
        (r₁.tree.genRootHash hc).rootHash = (r₂.tree.genRootHash hc).rootHash) := by
  obtain ⟨rs0, hrun0, hl0, hi0, hg0⟩ := run2_good lvl hlvl hc n ops hw
  rw [countWrites2_eq] at hlen
  have hpsi : Psi (plainOf ops) (storesOf rs0) < sweeps.length := by
    have := Psi_le_bound (plainOf ops) (storesOf rs0)
    have hlen' : (storesOf rs0).length = n := by simp [storesOf, hl0]
    rw [hlen'] at this
    omega
  obtain ⟨rs, hrun, hl, hi, hg, heq⟩ :=
    sweeps_run lvl hlvl hc hnc (plainOf ops) n sweeps rs0 hl0 hi0 hg0 hs (Or.inl hpsi)
  refine ⟨rs0, rs, hrun0, hrun, hl, ?_, ?_⟩
  · intro r hr k
    rw [written2_eq]
    have hm := mem_storesOf rs r hr
    apply optLe_antisymm (hg.le _ hm k)
    apply hg.lub k
    intro s hs'
    rw [heq _ hs' _ hm]
    exact optLe_refl _
  · intro r₁ h₁ r₂ h₂
    have hst : r₁.store = r₂.store := heq _ (mem_storesOf rs r₁ h₁) _ (mem_storesOf rs r₂ h₂)
    refine ⟨hst, ?_⟩
    have hr1 := hi r₁ h₁
    have hr2 := hi r₂ h₂
    obtain ⟨-, e1, -⟩ := genRootHash_inv lvl hc r₁.tree hr1.inv
    obtain ⟨-, e2, -⟩ := genRootHash_inv lvl hc r₂.tree hr2.inv
    have hcont : r₁.tree.root.content = r₂.tree.root.content := by
      rw [hr1.mirror, hr2.mirror, hst]
    have he := root_unique lvl r₁.tree.root r₂.tree.root hr1.inv.shape hr2.inv.shape hcont
    rw [e1, e2, ← trueHash_erase hc r₁.tree.root, he, trueHash_erase]

end Mst

namespace Mst
section Linear
variable {K V D : Type} [LinearOrder K] [LinearOrder V] [DecidableEq D]

/-- Safety under join on a LINEAR order for extended schedules: stale / arbitrary range fetches can
neither lose nor invent data (the join of everything written is held by some replica). -/
theorem syncRun2_safe (lvl : K → Nat) (hlvl : ∀ k, lvl k < 255) (hc : HashCfg K V D)
    (n : Nat) (ops : List (SyncOp2 K V))
    (hw : ∀ op ∈ ops, match op with | .write r _ _ => r < n | _ => True) :
    ∃ rs, syncRun2 lvl hc .joinMax (freshReplicas n : List (Replica K V D)) ops = .ok rs ∧ rs.length = n ∧
      (∀ r ∈ rs, RInv lvl hc r) ∧
      (∀ r ∈ rs, ∀ k, optLe (lookupKV k r.store) (written2 ops k)) ∧
      (∀ k v, written2 ops k = some v → ∃ r ∈ rs, lookupKV k r.store = some v) := by
  obtain ⟨rs, hrun, hl, hi, hle, hlub, -⟩ := syncRun2_safe_join lvl hlvl hc n ops hw
  refine ⟨rs, hrun, hl, hi, hle, ?_⟩
  intro k v hv
  obtain ⟨s, hs, hsv⟩ := attained_of_lub k (storesOf rs) v
    (fun s hs => by
      obtain ⟨r, hr, rfl⟩ := List.mem_map.1 hs
      exact hv ▸ hle r hr k)
    (fun u hu => hv ▸ hlub k u (fun r hr => hu _ (mem_storesOf rs r hr)))
  obtain ⟨r, hr, rfl⟩ := List.mem_map.1 hs
  exact ⟨r, hr, hsv⟩

end Linear
end Mst

#print axioms Mst.syncRun2_safe_join
#print axioms Mst.syncRun2_inv
#print axioms Mst.syncRun2_safe
#print axioms Mst.syncRun2_live
