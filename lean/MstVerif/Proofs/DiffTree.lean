/-
L8: `diff` on the serialisations of two REAL trees (hashed, invariant-satisfying):
C08 (identical content ⇒ nothing), C07 (complete under the span condition), C04 (no false
convergence), C12 (confined to the peer's span, bounds are real keys).
-/
import MstVerif.Proofs.Pages
import MstVerif.Proofs.DiffWalk

namespace Mst
variable {K V D : Type} [LinearOrder K] [DecidableEq D]

/-- A tree as `diff` sees it: reachable-state invariant plus an up-to-date root hash
(i.e. `root_hash()` has been called since the last upsert). -/
structure Hashed (lvl : K → Nat) (hc : HashCfg K V D) (t : Tree K V D) : Prop where
  inv : Inv lvl hc t
  hashed : t.rootHash.isSome

/-- The page ranges of a hashed tree: pre-order pages ↦ (min key, max key, digest);
the empty tree has none. -/
def pageRanges (hc : HashCfg K V D) (t : Tree K V D) : List (PR K D) :=
  match t.root.content with
  | [] => []
  | _ :: _ => t.root.preorder.filterMap (rangeOf hc)

/-- `serialise_page_ranges()` of a hashed tree returns exactly `pageRanges`. -/
theorem serialise_eq_pageRanges (lvl : K → Nat) (hc : HashCfg K V D) (t : Tree K V D)
    (h : Hashed lvl hc t) : t.serialise = .ok (some (pageRanges hc t)) := by
  sorry

/-- Page ranges of a real tree are well-formed (`start ≤ end`). -/
theorem pageRanges_valid (lvl : K → Nat) (hc : HashCfg K V D) (t : Tree K V D)
    (h : Hashed lvl hc t) : PRValid (pageRanges hc t) := by
  sorry

/-- Non-empty tree: the first range spans the whole tree (smallest key, largest key) and carries
the root hash; every range's bounds are keys the tree holds. -/
theorem pageRanges_head (lvl : K → Nat) (hc : HashCfg K V D) (t : Tree K V D)
    (h : Hashed lvl hc t) (a z : K × V) (ha : t.root.content.head? = some a)
    (hz : t.root.content.getLast? = some z) :
    ∃ d rest, t.rootHash = some d ∧ pageRanges hc t = { start := a.1, end_ := z.1, hash := d } :: rest := by
  sorry

theorem pageRanges_bounds_are_keys (lvl : K → Nat) (hc : HashCfg K V D) (t : Tree K V D)
    (h : Hashed lvl hc t) : ∀ r ∈ pageRanges hc t, r.start ∈ t.root.keys ∧ r.end_ ∈ t.root.keys := by
  sorry

/-- Two hashed trees with the same content are the same tree (C01 for states). -/
theorem hashed_eq_of_content_eq (lvl : K → Nat) (hc : HashCfg K V D) (t₁ t₂ : Tree K V D)
    (h₁ : Hashed lvl hc t₁) (h₂ : Hashed lvl hc t₂) (h : t₁.root.content = t₂.root.content) :
    t₁.root = t₂.root ∧ pageRanges hc t₁ = pageRanges hc t₂ := by
  sorry

/-- A diff of two real trees never panics. -/
theorem diff_trees_ok (lvl : K → Nat) (hc : HashCfg K V D) (tL tP : Tree K V D)
    (hL : Hashed lvl hc tL) (hP : Hashed lvl hc tP) :
    ∃ out, diff (pageRanges hc tL) (pageRanges hc tP) = .ok out ∧ DRChain out ∧ DRValid out := by
  sorry

/-- C08: identical content ⇒ empty diff. -/
theorem diff_trees_same_content (lvl : K → Nat) (hc : HashCfg K V D) (tL tP : Tree K V D)
    (hL : Hashed lvl hc tL) (hP : Hashed lvl hc tP) (h : tL.root.content = tP.root.content) :
    diff (pageRanges hc tL) (pageRanges hc tP) = .ok [] := by
  sorry

/-- The peer's smallest and largest keys enclose all local keys (vacuous for an empty local tree). -/
def SpanCovers (tL tP : Tree K V D) : Prop :=
  ∀ x ∈ tL.root.keys, (∃ a ∈ tP.root.keys, a ≤ x) ∧ (∃ b ∈ tP.root.keys, x ≤ b)

/-- C07, second sentence: an empty replica obtains the peer's whole key span in one diff. -/
theorem diff_trees_local_empty (lvl : K → Nat) (hc : HashCfg K V D) (tL tP : Tree K V D)
    (hL : Hashed lvl hc tL) (hP : Hashed lvl hc tP) (he : tL.root.content = [])
    (a z : K × V) (ha : tP.root.content.head? = some a) (hz : tP.root.content.getLast? = some z) :
    diff (pageRanges hc tL) (pageRanges hc tP) = .ok [(a.1, z.1)] := by
  sorry

/-- Partially overlapping or disjoint spans: when the peer's smallest key lies strictly below the
local tree's smallest key and the peer's largest key strictly below the local largest key, the
diff is exactly one range starting at the peer's smallest key (which the local tree lacks). -/
theorem diff_trees_peer_starts_first (lvl : K → Nat) (hc : HashCfg K V D) (tL tP : Tree K V D)
    (hL : Hashed lvl hc tL) (hP : Hashed lvl hc tP)
    (a z a' z' : K × V)
    (ha : tP.root.content.head? = some a) (hz : tP.root.content.getLast? = some z)
    (ha' : tL.root.content.head? = some a') (hz' : tL.root.content.getLast? = some z')
    (h1 : a.1 < a'.1) (h2 : z.1 < z'.1) :
    diff (pageRanges hc tL) (pageRanges hc tP) = .ok [(a.1, min a'.1 z.1)] := by
  sorry

/-- C12 (tree part): every returned range lies within the peer's smallest and largest key, starts
at a key the peer holds and ends at a key held by the peer or the local tree. -/
theorem diff_trees_confined (lvl : K → Nat) (hc : HashCfg K V D) (tL tP : Tree K V D)
    (hL : Hashed lvl hc tL) (hP : Hashed lvl hc tP) (out : List (DR K))
    (h : diff (pageRanges hc tL) (pageRanges hc tP) = .ok out) :
    ∀ r ∈ out, r.1 ∈ tP.root.keys ∧ (r.2 ∈ tP.root.keys ∨ r.2 ∈ tL.root.keys) ∧
      (∀ a z : K × V, tP.root.content.head? = some a → tP.root.content.getLast? = some z →
        a.1 ≤ r.1 ∧ r.2 ≤ z.1) := by
  sorry

end Mst
