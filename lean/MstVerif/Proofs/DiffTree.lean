/-
L8: `diff` on the serialisations of two REAL trees (hashed, invariant-satisfying):
C08 (identical content ⇒ nothing), C07 (complete under the span condition), C04 (no false
convergence), C12 (confined to the peer's span, bounds are real keys).
-/
import MstVerif.Proofs.Pages
import MstVerif.Proofs.DiffWalk

set_option linter.unusedSectionVars false
set_option linter.unusedVariables false

namespace Mst
variable {K V D : Type} [LinearOrder K] [DecidableEq D]

/-- A tree as `diff` sees it: reachable-state invariant plus an up-to-date root hash
(i.e. `root_hash()` has been called since the last upsert). -/
structure Hashed (lvl : K → Nat) (hc : HashCfg K V D) (t : Tree K V D) : Prop where
  inv : Inv lvl hc t
  hashed : t.rootHash.isSome

/-- The page ranges of a hashed tree: pre-order pages ↦ (min key, max key, digest);
the empty tree has none. -/
def pageRanges (hc : HashCfg K V D) (t : Tree K V D) : List (PR K D) :=
  match t.root.content with
  | [] => []
  | _ :: _ => t.root.preorder.filterMap (rangeOf hc)


/-! ### Helpers -/

theorem pageRanges_of_nil (hc : HashCfg K V D) (t : Tree K V D) (h : t.root.content = []) :
    pageRanges hc t = [] := by
  unfold pageRanges; rw [h]

theorem pageRanges_of_ne_nil (hc : HashCfg K V D) (t : Tree K V D) (h : t.root.content ≠ []) :
    pageRanges hc t = t.root.preorder.filterMap (rangeOf hc) := by
  unfold pageRanges
  cases hcnt : t.root.content with
  | nil => exact absurd hcnt h
  | cons x xs => rfl

/-- Shape of the root of a hashed tree: a `some` page with an up-to-date cached digest, clean,
either empty or stratified. -/
theorem Hashed.root_shape {lvl : K → Nat} {hc : HashCfg K V D} {t : Tree K V D}
    (h : Hashed lvl hc t) :
    ∃ L d n hp, t.root = .some L (some d) n hp ∧ t.rootHash = some d ∧ CleanPg hc t.root ∧
      (t.root.content = [] ∨ (t.root.content ≠ [] ∧ LvPg lvl (L + 1) t.root)) := by
  obtain ⟨⟨shape, -, cacheOK, hroot⟩, hh⟩ := h
  obtain ⟨root, rh⟩ := t
  simp only at shape cacheOK hroot hh ⊢
  cases rh with
  | none => simp at hh
  | some d =>
    have hcache := hroot d rfl
    cases root with
    | none => simp [LvRoot] at shape
    | some L c n hp =>
      simp only [Pg.cache?] at hcache
      subst hcache
      simp only [LvRoot] at shape
      simp only [CacheOKPg] at cacheOK
      refine ⟨L, d, n, hp, rfl, rfl, cacheOK.1 rfl, ?_⟩
      by_cases hn : n = .nil
      · left
        obtain ⟨-, hh'⟩ := shape.1 hn
        subst hn; subst hh'
        simp [Pg.content, Nd.content]
      · right
        have hlv : LvPg lvl (L + 1) (.some L (some d) n hp) := by
          simp only [LvPg]
          exact ⟨Nat.lt_succ_self L, hn, shape.2.1, shape.2.2⟩
        exact ⟨LvPg_some_content_ne_nil lvl (L + 1) L (some d) n hp hlv, hlv⟩

theorem mem_pageRanges (hc : HashCfg K V D) (t : Tree K V D) (r : PR K D)
    (hr : r ∈ pageRanges hc t) :
    t.root.content ≠ [] ∧ ∃ q ∈ t.root.preorder, rangeOf hc q = some r := by
  by_cases hcnt : t.root.content = []
  · rw [pageRanges_of_nil hc t hcnt] at hr
    simp at hr
  · rw [pageRanges_of_ne_nil hc t hcnt] at hr
    exact ⟨hcnt, List.mem_filterMap.1 hr⟩

/-- Every page range of a hashed tree is delimited by two entries of the tree, in order. -/
theorem pageRanges_mem_bounds (lvl : K → Nat) (hc : HashCfg K V D) (t : Tree K V D)
    (h : Hashed lvl hc t) (r : PR K D) (hr : r ∈ pageRanges hc t) :
    ∃ a z : K × V, a ∈ t.root.content ∧ z ∈ t.root.content ∧ r.start = a.1 ∧ r.end_ = z.1 ∧
      a.1 ≤ z.1 := by
  obtain ⟨-, q, hq, hrq⟩ := mem_pageRanges hc t r hr
  obtain ⟨a, z, haq, hzq, e1, e2⟩ := rangeOf_eq_some hc q r hrq
  obtain ⟨pre, suf, e⟩ := preorder_infix t.root q hq
  have hpw : PW (pre ++ q.content ++ suf) := e ▸ h.inv.sorted.pw
  have hsub := preorder_content_subset t.root q hq
  exact ⟨a, z, hsub _ (mem_of_head? haq), hsub _ (mem_of_getLast? hzq), e1, e2,
    hpw.left.right.head_le haq (mem_of_getLast? hzq)⟩

theorem filterMap_of_map_some {α β : Type} (f : α → Option β) (m : List α) (l : List β)
    (h : l.map some = m.map f) : m.filterMap f = l := by
  have : m.filterMap f = (m.map f).filterMap id := by
    rw [List.filterMap_map]; rfl
  rw [this, ← h, List.filterMap_map]
  simp

/-- `Builder.intoDiffVec` of a single inconsistent mark and no consistent mark. -/
theorem intoDiffVec_single (s e : K) (h : s ≤ e) :
    Builder.intoDiffVec ({ bad := [(s, e)], good := [] } : Builder K) = .ok [(s, e)] := by
  simp [Builder.intoDiffVec, intoVec, mergeOverlapping, mergeGo, checkWindowsIntoVec,
    reduceSyncRange, checkWindowsReduce]

/-- `serialise_page_ranges()` of a hashed tree returns exactly `pageRanges`. -/
theorem serialise_eq_pageRanges (lvl : K → Nat) (hc : HashCfg K V D) (t : Tree K V D)
    (h : Hashed lvl hc t) : t.serialise = .ok (some (pageRanges hc t)) := by
  obtain ⟨l, hl, h1, h2⟩ := serialise_spec lvl hc t h.inv h.hashed
  rw [hl]
  by_cases hcnt : t.root.content = []
  · rw [pageRanges_of_nil hc t hcnt, h1 hcnt]
  · rw [pageRanges_of_ne_nil hc t hcnt, filterMap_of_map_some _ _ _ (h2 hcnt)]

/-- Page ranges of a real tree are well-formed (`start ≤ end`). -/
theorem pageRanges_valid (lvl : K → Nat) (hc : HashCfg K V D) (t : Tree K V D)
    (h : Hashed lvl hc t) : PRValid (pageRanges hc t) := by
  intro r hr
  obtain ⟨a, z, -, -, e1, e2, hle⟩ := pageRanges_mem_bounds lvl hc t h r hr
  rw [e1, e2]; exact hle

/-- Non-empty tree: the first range spans the whole tree (smallest key, largest key) and carries
the root hash; every range's bounds are keys the tree holds. -/
theorem pageRanges_head (lvl : K → Nat) (hc : HashCfg K V D) (t : Tree K V D)
    (h : Hashed lvl hc t) (a z : K × V) (ha : t.root.content.head? = some a)
    (hz : t.root.content.getLast? = some z) :
    ∃ d rest, t.rootHash = some d ∧ pageRanges hc t = { start := a.1, end_ := z.1, hash := d } :: rest := by
  obtain ⟨L, d, n, hp, hroot, hrh, hclean, -⟩ := h.root_shape
  have hne : t.root.content ≠ [] := by
    intro he; rw [he] at ha; simp at ha
  have hcache := clean_cache hc t.root hclean
  rw [pageRanges_of_ne_nil hc t hne]
  have hr : rangeOf hc t.root = some { start := a.1, end_ := z.1, hash := d } := by
    rw [hroot] at hcache ha hz ⊢
    simp only [Pg.cache?, Pg.trueHash] at hcache
    simp only [rangeOf, ha, hz, Pg.trueHash, ← hcache]
  refine ⟨d, (n.preorder ++ hp.preorder).filterMap (rangeOf hc), hrh, ?_⟩
  rw [hroot] at hr ⊢
  rw [Pg.preorder, List.filterMap_cons, hr]

theorem pageRanges_bounds_are_keys (lvl : K → Nat) (hc : HashCfg K V D) (t : Tree K V D)
    (h : Hashed lvl hc t) : ∀ r ∈ pageRanges hc t, r.start ∈ t.root.keys ∧ r.end_ ∈ t.root.keys := by
  intro r hr
  obtain ⟨a, z, ha, hz, e1, e2, -⟩ := pageRanges_mem_bounds lvl hc t h r hr
  rw [e1, e2]
  exact ⟨List.mem_map.2 ⟨a, ha, rfl⟩, List.mem_map.2 ⟨z, hz, rfl⟩⟩

/-- Two hashed trees with the same content are the same tree (C01 for states). -/
theorem hashed_eq_of_content_eq (lvl : K → Nat) (hc : HashCfg K V D) (t₁ t₂ : Tree K V D)
    (h₁ : Hashed lvl hc t₁) (h₂ : Hashed lvl hc t₂) (h : t₁.root.content = t₂.root.content) :
    t₁.root = t₂.root ∧ pageRanges hc t₁ = pageRanges hc t₂ := by
  obtain ⟨-, -, -, -, -, -, hc1, -⟩ := h₁.root_shape
  obtain ⟨-, -, -, -, -, -, hc2, -⟩ := h₂.root_shape
  have he := root_unique lvl t₁.root t₂.root h₁.inv.shape h₂.inv.shape h
  have hroot := clean_eq_of_erase_eq hc t₁.root t₂.root hc1 hc2 he
  refine ⟨hroot, ?_⟩
  unfold pageRanges
  rw [hroot]

/-- A diff of two real trees never panics. -/
theorem diff_trees_ok (lvl : K → Nat) (hc : HashCfg K V D) (tL tP : Tree K V D)
    (hL : Hashed lvl hc tL) (hP : Hashed lvl hc tP) :
    ∃ out, diff (pageRanges hc tL) (pageRanges hc tP) = .ok out ∧ DRChain out ∧ DRValid out := by
  obtain ⟨out, h1, h2, h3, -⟩ := diff_total (pageRanges hc tL) (pageRanges hc tP)
    (pageRanges_valid lvl hc tL hL) (pageRanges_valid lvl hc tP hP)
  exact ⟨out, h1, h2, h3⟩

/-- C08: identical content ⇒ empty diff. -/
theorem diff_trees_same_content (lvl : K → Nat) (hc : HashCfg K V D) (tL tP : Tree K V D)
    (hL : Hashed lvl hc tL) (hP : Hashed lvl hc tP) (h : tL.root.content = tP.root.content) :
    diff (pageRanges hc tL) (pageRanges hc tP) = .ok [] := by
  obtain ⟨-, hpr⟩ := hashed_eq_of_content_eq lvl hc tL tP hL hP h
  rw [hpr]
  obtain ⟨L, d, n, hp, hroot, hrh, hclean, hcase⟩ := hP.root_shape
  rcases hcase with hnil | ⟨hne, hlv⟩
  · rw [pageRanges_of_nil hc tP hnil]; rfl
  · have hsorted := hP.inv.sorted
    have hvalid := pageRanges_valid lvl hc tP hP
    rw [pageRanges_of_ne_nil hc tP hne] at hvalid ⊢
    rw [hroot] at hlv hsorted hvalid ⊢
    obtain ⟨a, z, d', -, -, -, hr⟩ := rangeOf_some lvl hc (L + 1) _ hlv rfl
    rw [Pg.preorder, List.filterMap_cons, hr] at hvalid ⊢
    have hdesc : ∀ v ∈ (n.preorder ++ hp.preorder).filterMap (rangeOf hc),
        ∃ q ∈ n.preorder ++ hp.preorder, rangeOf hc q = some v :=
      fun v hv => List.mem_filterMap.1 hv
    refine diff_same _ _ (hvalid _ (by simp)) ?_ ?_
    · intro v hv
      obtain ⟨q, hq, hrq⟩ := hdesc v hv
      have hq' : q ∈ (Pg.some L (some d) n hp).preorder := by
        rw [Pg.preorder]; exact List.mem_cons_of_mem _ hq
      exact (supersetOf_iff _ _).2 (preorder_nested lvl hc (L + 1) _ q hlv hsorted hq' _ v hr hrq)
    · intro v hv
      obtain ⟨q, hq, hrq⟩ := hdesc v (mem_of_head? hv)
      have := descendant_not_superset lvl hc (L + 1) L (some d) n hp hlv hsorted q hq _ v hr hrq
      cases hs : v.supersetOf _ with
      | false => rfl
      | true => exact absurd ((supersetOf_iff _ _).1 hs) this

/-- The peer's smallest and largest keys enclose all local keys (vacuous for an empty local tree). -/
def SpanCovers (tL tP : Tree K V D) : Prop :=
  ∀ x ∈ tL.root.keys, (∃ a ∈ tP.root.keys, a ≤ x) ∧ (∃ b ∈ tP.root.keys, x ≤ b)

/-- C07, second sentence: an empty replica obtains the peer's whole key span in one diff. -/
theorem diff_trees_local_empty (lvl : K → Nat) (hc : HashCfg K V D) (tL tP : Tree K V D)
    (hL : Hashed lvl hc tL) (hP : Hashed lvl hc tP) (he : tL.root.content = [])
    (a z : K × V) (ha : tP.root.content.head? = some a) (hz : tP.root.content.getLast? = some z) :
    diff (pageRanges hc tL) (pageRanges hc tP) = .ok [(a.1, z.1)] := by
  obtain ⟨d, rest, -, hpr⟩ := pageRanges_head lvl hc tP hP a z ha hz
  have hvalid := pageRanges_valid lvl hc tP hP
  rw [hpr] at hvalid
  rw [pageRanges_of_nil hc tL he, hpr]
  have hle : a.1 ≤ z.1 := hvalid _ (List.mem_cons_self ..)
  rw [diff_eq_walk _ _ (by simp), diffWalk_local_empty _ _ hle]
  exact intoDiffVec_single _ _ hle

/-- Partially overlapping or disjoint spans: when the peer's smallest key lies strictly below the
local tree's smallest key and the peer's largest key strictly below the local largest key, the
diff is exactly one range starting at the peer's smallest key (which the local tree lacks). -/
theorem diff_trees_peer_starts_first (lvl : K → Nat) (hc : HashCfg K V D) (tL tP : Tree K V D)
    (hL : Hashed lvl hc tL) (hP : Hashed lvl hc tP)
    (a z a' z' : K × V)
    (ha : tP.root.content.head? = some a) (hz : tP.root.content.getLast? = some z)
    (ha' : tL.root.content.head? = some a') (hz' : tL.root.content.getLast? = some z')
    (h1 : a.1 < a'.1) (h2 : z.1 < z'.1) :
    diff (pageRanges hc tL) (pageRanges hc tP) = .ok [(a.1, min a'.1 z.1)] := by
  obtain ⟨d, rest, -, hpr⟩ := pageRanges_head lvl hc tP hP a z ha hz
  obtain ⟨d', rest', -, hpr'⟩ := pageRanges_head lvl hc tL hL a' z' ha' hz'
  have hvalid := pageRanges_valid lvl hc tP hP
  rw [hpr] at hvalid
  have hle : a.1 ≤ z.1 := hvalid _ (List.mem_cons_self ..)
  rw [hpr, hpr', diff_eq_walk _ _ (by simp)]
  rw [diffWalk_head_incomparable]
  · dsimp only
    have hg : a.1 ≤ (if z.1 < a'.1 then z.1 else a'.1) := by
      split
      · exact hle
      · exact le_of_lt h1
    rw [if_pos hg]
    have hmin : (if z.1 < a'.1 then z.1 else a'.1) = min a'.1 z.1 := by
      rw [min_def]
      by_cases hlt : z.1 < a'.1
      · rw [if_pos hlt, if_neg (not_le_of_gt hlt)]
      · rw [if_neg hlt, if_pos (not_lt.1 hlt)]
    rw [hmin] at hg ⊢
    exact intoDiffVec_single _ _ hg
  · simp only [PR.supersetOf, Bool.and_eq_false_iff, decide_eq_false_iff_not]
    exact Or.inr (not_le_of_gt h2)
  · simp only [PR.supersetOf, Bool.and_eq_false_iff, decide_eq_false_iff_not]
    exact Or.inl (not_le_of_gt h1)

/-- C12 (tree part): every returned range lies within the peer's smallest and largest key, starts
at a key the peer holds and ends at a key held by the peer or the local tree. -/
theorem diff_trees_confined (lvl : K → Nat) (hc : HashCfg K V D) (tL tP : Tree K V D)
    (hL : Hashed lvl hc tL) (hP : Hashed lvl hc tP) (out : List (DR K))
    (h : diff (pageRanges hc tL) (pageRanges hc tP) = .ok out) :
    ∀ r ∈ out, r.1 ∈ tP.root.keys ∧ (r.2 ∈ tP.root.keys ∨ r.2 ∈ tL.root.keys) ∧
      (∀ a z : K × V, tP.root.content.head? = some a → tP.root.content.getLast? = some z →
        a.1 ≤ r.1 ∧ r.2 ≤ z.1) := by
  have hvL := pageRanges_valid lvl hc tL hL
  have hvP := pageRanges_valid lvl hc tP hP
  have hkL := pageRanges_bounds_are_keys lvl hc tL hL
  have hkP := pageRanges_bounds_are_keys lvl hc tP hP
  cases hpeer : pageRanges hc tP with
  | nil =>
    rw [hpeer] at h
    have : out = [] := by
      have := h.symm.trans (diff_empty_peer (pageRanges hc tL))
      exact Except.ok.inj this
    subst this
    intro r hr; simp at hr
  | cons root rest =>
    rw [hpeer] at h hvP hkP
    obtain ⟨b, hw, hbv, hgv⟩ := diffWalk_total (pageRanges hc tL) (root :: rest) hvL hvP
    obtain ⟨out', ho, -, hov, hcov, -, hbnd⟩ := intoDiffVec_spec b hbv hgv
    rw [diff_eq_walk _ _ (by simp), hw] at h
    dsimp only at h
    have : out' = out := Except.ok.inj (ho.symm.trans h)
    subst this
    have hbad := diffWalk_bad_bounds _ _ b hw
    have hgood := diffWalk_good_justified _ _ b hw
    have hwithin := diffWalk_bad_within _ root rest hvP b hw
    intro r hr
    obtain ⟨hb1, hb2⟩ := hbnd r hr
    refine ⟨?_, ?_, ?_⟩
    · rcases hb1 with ⟨s, hs, e⟩ | ⟨g, hg, e⟩
      · obtain ⟨⟨p, hp, hp'⟩, -⟩ := hbad s hs
        rw [e]
        rcases hp' with hp' | hp' <;> rw [hp']
        · exact (hkP p hp).1
        · exact (hkP p hp).2
      · obtain ⟨p, hp, l, -, hgp, -⟩ := hgood g hg
        rw [e, hgp]
        exact (hkP p hp).2
    · rcases hb2 with ⟨s, hs, e⟩ | ⟨g, hg, e⟩
      · obtain ⟨-, hs2⟩ := hbad s hs
        rw [e]
        rcases hs2 with ⟨p, hp, hp'⟩ | ⟨l, hl, hl'⟩
        · left; rw [hp']; exact (hkP p hp).2
        · right; rw [hl']; exact (hkL l hl).1
      · obtain ⟨p, hp, l, -, hgp, -⟩ := hgood g hg
        left
        rw [e, hgp]
        exact (hkP p hp).1
    · intro a z ha hz
      obtain ⟨d, rest', -, hpr⟩ := pageRanges_head lvl hc tP hP a z ha hz
      rw [hpeer] at hpr
      obtain ⟨hroot, -⟩ := List.cons.inj hpr
      have hrv : r.1 ≤ r.2 := hov r hr
      obtain ⟨s1, hs1, hm1⟩ := hcov r.1 ⟨r, hr, le_refl _, hrv⟩
      obtain ⟨s2, hs2, hm2⟩ := hcov r.2 ⟨r, hr, hrv, le_refl _⟩
      have w1 := hwithin s1 hs1
      have w2 := hwithin s2 hs2
      rw [hroot] at w1 w2
      exact ⟨le_trans w1.1 hm1.1, le_trans hm2.2 w2.2⟩

end Mst

#print axioms Mst.serialise_eq_pageRanges
#print axioms Mst.pageRanges_valid
#print axioms Mst.pageRanges_head
#print axioms Mst.pageRanges_bounds_are_keys
#print axioms Mst.hashed_eq_of_content_eq
#print axioms Mst.diff_trees_ok
#print axioms Mst.diff_trees_same_content
#print axioms Mst.diff_trees_local_empty
#print axioms Mst.diff_trees_peer_starts_first
#print axioms Mst.diff_trees_confined
