/-
L6 + L7: interval lists and `diff` on ARBITRARY page-range lists (each with start ≤ end):
total (fuel never runs out), panic-free, output sorted / disjoint / well-formed, bounds from input.
-/
import MstVerif.Proofs.Defs
import Mathlib.Order.Defs.LinearOrder

namespace Mst
variable {K D : Type} [LinearOrder K] [DecidableEq D]

/-- A key `x` lies in the inclusive interval `r`. -/
def DR.mem (x : K) (r : DR K) : Prop := r.1 ≤ x ∧ x ≤ r.2

/-- `x` is covered by some interval of `l`. -/
def Covered (x : K) (l : List (DR K)) : Prop := ∃ r ∈ l, DR.mem x r

/-- Strictly ascending, pairwise disjoint, not even sharing an end point. -/
def DRChain (l : List (DR K)) : Prop := l.Pairwise (fun a b => a.2 < b.1)

def DRValid (l : List (DR K)) : Prop := ∀ r ∈ l, r.1 ≤ r.2

/-- `x` occurs as the start or end of an interval of `l`. -/
def IsBound (x : K) (l : List (DR K)) : Prop := ∃ r ∈ l, x = r.1 ∨ x = r.2

/-- `RangeList::into_vec` on valid intervals: no assertion fires; the result is a strict chain of
valid intervals covering exactly the same keys, with bounds taken from the input. -/
theorem intoVec_spec (l : List (DR K)) (hv : DRValid l) :
    ∃ m, intoVec l = .ok m ∧ DRChain m ∧ DRValid m ∧
      (∀ x, Covered x m ↔ Covered x l) ∧ (∀ r ∈ m, IsBound r.1 l ∧ IsBound r.2 l) := by
  sorry

/-- `reduce_sync_range` on two strict chains of valid intervals: no assertion fires; the result is
a strict chain of valid intervals, inside the bad intervals, covering every key that is in a bad
interval and in no good interval; bounds are bounds of the inputs. -/
theorem reduceSyncRange_spec (bad good : List (DR K))
    (hb : DRChain bad) (hbv : DRValid bad) (hg : DRChain good) (hgv : DRValid good) :
    ∃ out, reduceSyncRange bad good = .ok out ∧ DRChain out ∧ DRValid out ∧
      (∀ x, Covered x out → Covered x bad) ∧
      (∀ x, Covered x bad → ¬ Covered x good → Covered x out) ∧
      (∀ r ∈ out, IsBound r.1 (bad ++ good) ∧ IsBound r.2 (bad ++ good)) := by
  sorry

/-- All interval bounds of a page-range list. -/
def prBounds (l : List (PR K D)) : List (DR K) := l.map fun r => (r.start, r.end_)

def PRValid (l : List (PR K D)) : Prop := ∀ r ∈ l, r.start ≤ r.end_

/-- The walk itself: with `2·|peer| + 2` fuel it never runs out and never trips an assertion;
everything it records is a valid interval whose bounds occurred in the input. -/
theorem recurseDiff_total (loc peer : List (PR K D)) (root : PR K D)
    (hl : PRValid loc) (hp : PRValid peer) (hr : root.start ≤ root.end_) :
    ∃ peer' loc' b, recurseDiff (2 * peer.length + 2) root none peer loc Builder.empty = .ok (peer', loc', b) ∧
      DRValid b.bad ∧ DRValid b.good ∧
      (∀ r ∈ b.bad ++ b.good, IsBound r.1 (prBounds (root :: loc ++ peer)) ∧ IsBound r.2 (prBounds (root :: loc ++ peer))) := by
  sorry

/-- C13 / C12 (list part): `diff` is total on untrusted input. -/
theorem diff_total (loc peer : List (PR K D)) (hl : PRValid loc) (hp : PRValid peer) :
    ∃ out, diff loc peer = .ok out ∧ DRChain out ∧ DRValid out ∧
      (∀ r ∈ out, IsBound r.1 (prBounds (loc ++ peer)) ∧ IsBound r.2 (prBounds (loc ++ peer))) := by
  sorry

/-- A diff against an empty peer is empty (C08, second sentence). -/
theorem diff_empty_peer (loc : List (PR K D)) : diff loc ([] : List (PR K D)) = .ok [] := by
  sorry

/-- `PageRange::new` rejects exactly the inverted bounds. -/
theorem PR_new_ok_iff (s e : K) (h : D) : (∃ r, PR.new s e h = .ok r) ↔ s ≤ e := by
  sorry

end Mst
