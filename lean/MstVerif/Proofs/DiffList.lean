/-
L6 + L7: interval lists and `diff` on ARBITRARY page-range lists (each with start ≤ end):
total (fuel never runs out), panic-free, output sorted / disjoint / well-formed, bounds from input.
-/
import MstVerif.Proofs.Defs
import Mathlib.Order.Defs.LinearOrder
import Mathlib.Order.Basic
import Mathlib.Tactic.Order

set_option linter.unusedSectionVars false

namespace Mst
variable {K D : Type} [LinearOrder K] [DecidableEq D]

/-- A key `x` lies in the inclusive interval `r`. -/
def DR.mem (x : K) (r : DR K) : Prop := r.1 ≤ x ∧ x ≤ r.2

/-- `x` is covered by some interval of `l`. -/
def Covered (x : K) (l : List (DR K)) : Prop := ∃ r ∈ l, DR.mem x r

/-- Strictly ascending, pairwise disjoint, not even sharing an end point. -/
def DRChain (l : List (DR K)) : Prop := l.Pairwise (fun a b => a.2 < b.1)

def DRValid (l : List (DR K)) : Prop := ∀ r ∈ l, r.1 ≤ r.2

/-- `x` occurs as the start or end of an interval of `l`. -/
def IsBound (x : K) (l : List (DR K)) : Prop := ∃ r ∈ l, x = r.1 ∨ x = r.2


/-! ### Helper lemmas on interval lists -/

/-- Every interval of `m` has both end points among the bounds of `l`. -/
def BoundsIn (m l : List (DR K)) : Prop := ∀ r ∈ m, IsBound r.1 l ∧ IsBound r.2 l

omit [DecidableEq D] in
theorem covered_cons (x : K) (a : DR K) (l : List (DR K)) :
    Covered x (a :: l) ↔ DR.mem x a ∨ Covered x l := by
  simp [Covered]

omit [DecidableEq D] in
theorem covered_nil (x : K) : ¬ Covered x ([] : List (DR K)) := by
  simp [Covered]

omit [DecidableEq D] in
theorem isBound_cons (x : K) (a : DR K) (l : List (DR K)) :
    IsBound x (a :: l) ↔ (x = a.1 ∨ x = a.2) ∨ IsBound x l := by
  simp [IsBound]

omit [DecidableEq D] in
theorem isBound_mono {x : K} {l l' : List (DR K)} (h : ∀ r ∈ l, r ∈ l') (hx : IsBound x l) :
    IsBound x l' := by
  obtain ⟨r, hr, hx⟩ := hx
  exact ⟨r, h r hr, hx⟩

omit [DecidableEq D] in
theorem isBound_trans {x : K} {m l : List (DR K)} (hx : IsBound x m) (h : BoundsIn m l) :
    IsBound x l := by
  obtain ⟨r, hr, hx⟩ := hx
  rcases hx with rfl | rfl
  · exact (h r hr).1
  · exact (h r hr).2

omit [DecidableEq D] in
theorem boundsIn_trans {a b c : List (DR K)} (h1 : BoundsIn a b) (h2 : BoundsIn b c) :
    BoundsIn a c :=
  fun r hr => ⟨isBound_trans (h1 r hr).1 h2, isBound_trans (h1 r hr).2 h2⟩

omit [DecidableEq D] in
theorem boundsIn_of_subset {a b : List (DR K)} (h : ∀ r ∈ a, r ∈ b) : BoundsIn a b :=
  fun r hr => ⟨⟨r, h r hr, Or.inl rfl⟩, ⟨r, h r hr, Or.inr rfl⟩⟩

omit [DecidableEq D] in
theorem boundsIn_append {a b c : List (DR K)} (h1 : BoundsIn a c) (h2 : BoundsIn b c) :
    BoundsIn (a ++ b) c := by
  intro r hr
  rcases List.mem_append.1 hr with h | h
  · exact h1 r h
  · exact h2 r h

/-- The general `mergeGo` lemma. -/
theorem mergeGo_spec (rs : List (DR K)) : ∀ (last : DR K), last.1 ≤ last.2 → DRValid rs →
    (∀ r ∈ rs, last.1 ≤ r.1) → rs.Pairwise (fun a b => a.1 ≤ b.1) →
    ∃ out, mergeGo last rs = .ok out ∧ DRChain out ∧ DRValid out ∧ (∀ r ∈ out, last.1 ≤ r.1) ∧
      (∀ x, Covered x out ↔ Covered x (last :: rs)) ∧ BoundsIn out (last :: rs) := by
  induction rs with
  | nil =>
    intro last hl _ _ _
    refine ⟨[last], rfl, ?_, ?_, ?_, ?_, ?_⟩
    · simp [DRChain]
    · simpa [DRValid] using hl
    · simp
    · simp
    · exact boundsIn_of_subset (fun r h => h)
  | cons r rs ih =>
    intro last hl hv hle hs
    have hr1 : last.1 ≤ r.1 := hle r (by simp)
    have hrv : r.1 ≤ r.2 := hv r (by simp)
    have hv' : DRValid rs := fun a ha => hv a (by simp [ha])
    have hle' : ∀ a ∈ rs, last.1 ≤ a.1 := fun a ha => hle a (by simp [ha])
    rw [List.pairwise_cons] at hs
    unfold mergeGo
    simp only [hr1, decide_true, Bool.not_true, Bool.false_eq_true, if_false]
    by_cases h1 : r.2 ≤ last.2
    · rw [if_pos h1]
      obtain ⟨out, he, hc, hov, hos, hcov, hb⟩ := ih last hl hv' hle' hs.2
      refine ⟨out, he, hc, hov, hos, ?_, ?_⟩
      · intro x
        rw [hcov, covered_cons, covered_cons, covered_cons]
        constructor
        · rintro (h | h)
          · exact Or.inl h
          · exact Or.inr (Or.inr h)
        · rintro (h | h | h)
          · exact Or.inl h
          · exact Or.inl ⟨le_trans hr1 h.1, le_trans h.2 h1⟩
          · exact Or.inr h
      · exact boundsIn_trans hb (boundsIn_of_subset (by intro a ha; simp at ha ⊢; rcases ha with h | h <;> simp [h]))
    · rw [if_neg h1]
      by_cases h2 : r.1 ≤ last.2
      · rw [if_pos h2]
        obtain ⟨out, he, hc, hov, hos, hcov, hb⟩ :=
          ih (last.1, r.2) (le_trans hr1 hrv) hv' hle' hs.2
        refine ⟨out, he, hc, hov, hos, ?_, ?_⟩
        · intro x
          rw [hcov, covered_cons, covered_cons, covered_cons]
          have h1' : last.2 < r.2 := lt_of_not_ge h1
          constructor
          · rintro (h | h)
            · by_cases hx : x ≤ last.2
              · exact Or.inl ⟨h.1, hx⟩
              · exact Or.inr (Or.inl ⟨le_trans h2 (le_of_lt (lt_of_not_ge hx)), h.2⟩)
            · exact Or.inr (Or.inr h)
          · rintro (h | h | h)
            · exact Or.inl ⟨h.1, le_trans h.2 (le_of_lt h1')⟩
            · exact Or.inl ⟨le_trans hr1 h.1, h.2⟩
            · exact Or.inr h
        · refine boundsIn_trans hb ?_
          intro a ha
          rcases List.mem_cons.1 ha with rfl | ha
          · exact ⟨⟨last, by simp, Or.inl rfl⟩, ⟨r, by simp, Or.inr rfl⟩⟩
          · exact boundsIn_of_subset (b := last :: r :: rs) (a := rs)
              (by intro c hc; simp [hc]) a ha
      · rw [if_neg h2]
        obtain ⟨out, he, hc, hov, hos, hcov, hb⟩ := ih r hrv hv' hs.1 hs.2
        have h2' : last.2 < r.1 := lt_of_not_ge h2
        rw [he]
        refine ⟨last :: out, rfl, ?_, ?_, ?_, ?_, ?_⟩
        · exact List.pairwise_cons.2 ⟨fun a ha => lt_of_lt_of_le h2' (hos a ha), hc⟩
        · intro a ha
          rcases List.mem_cons.1 ha with rfl | ha
          · exact hl
          · exact hov a ha
        · intro a ha
          rcases List.mem_cons.1 ha with rfl | ha
          · exact le_refl _
          · exact le_trans hr1 (hos a ha)
        · intro x
          rw [covered_cons, hcov, covered_cons (a := last)]
        · refine boundsIn_append (a := [last]) ?_ ?_
          · exact boundsIn_of_subset (by intro c hc; simp at hc; simp [hc])
          · exact boundsIn_trans hb (boundsIn_of_subset (by intro c hc; simp [hc]))

omit [DecidableEq D] in
theorem overlaps_false_of_lt {a b : DR K} (h : a.2 < b.1) : DR.overlaps a b = false := by
  simp only [DR.overlaps, Bool.and_eq_false_iff, decide_eq_false_iff_not]
  exact Or.inr (not_le_of_gt h)

omit [DecidableEq D] in
theorem checkWindowsIntoVec_ok (m : List (DR K)) (hc : DRChain m) (hv : DRValid m) :
    checkWindowsIntoVec m = .ok () := by
  induction m with
  | nil => rfl
  | cons a m ih =>
    cases m with
    | nil => rfl
    | cons b rest =>
      have hab : a.2 < b.1 := (List.pairwise_cons.1 hc).1 b (by simp)
      have ha : a.1 ≤ a.2 := hv a (by simp)
      have hb : b.1 ≤ b.2 := hv b (by simp)
      unfold checkWindowsIntoVec
      simp only [overlaps_false_of_lt hab, ha, hb, decide_true, Bool.not_true,
        Bool.false_eq_true, if_false]
      exact ih (List.pairwise_cons.1 hc).2 (fun r hr => hv r (by simp [hr]))

omit [DecidableEq D] in
theorem checkWindowsReduce_ok (m : List (DR K)) (hc : DRChain m) :
    checkWindowsReduce m = .ok () := by
  induction m with
  | nil => rfl
  | cons a m ih =>
    cases m with
    | nil => rfl
    | cons b rest =>
      have hab : a.2 < b.1 := (List.pairwise_cons.1 hc).1 b (by simp)
      unfold checkWindowsReduce
      simp only [overlaps_false_of_lt hab, Bool.false_eq_true, if_false]
      exact ih (List.pairwise_cons.1 hc).2

omit [DecidableEq D] in
/-- `mergeOverlapping` on a valid list sorted by start. -/
theorem mergeOverlapping_spec (l : List (DR K)) (hv : DRValid l)
    (hs : l.Pairwise (fun a b => a.1 ≤ b.1)) :
    ∃ out, mergeOverlapping l = .ok out ∧ DRChain out ∧ DRValid out ∧
      (∀ x, Covered x out ↔ Covered x l) ∧ BoundsIn out l := by
  cases l with
  | nil =>
    exact ⟨[], rfl, by simp [DRChain], by simp [DRValid], fun x => Iff.rfl,
      boundsIn_of_subset (fun r h => h)⟩
  | cons a rs =>
    rw [List.pairwise_cons] at hs
    obtain ⟨out, he, hc, hov, -, hcov, hb⟩ :=
      mergeGo_spec rs a (hv a (by simp)) (fun r hr => hv r (by simp [hr])) hs.1 hs.2
    exact ⟨out, he, hc, hov, hcov, hb⟩

/-- `RangeList::into_vec` on valid intervals: no assertion fires; the result is a strict chain of
valid intervals covering exactly the same keys, with bounds taken from the input. -/
theorem intoVec_spec (l : List (DR K)) (hv : DRValid l) :
    ∃ m, intoVec l = .ok m ∧ DRChain m ∧ DRValid m ∧
      (∀ x, Covered x m ↔ Covered x l) ∧ (∀ r ∈ m, IsBound r.1 l ∧ IsBound r.2 l) := by
  have hperm := List.mergeSort_perm l (fun a b => decide (a.1 ≤ b.1))
  have hsorted : (l.mergeSort (fun a b => decide (a.1 ≤ b.1))).Pairwise (fun a b => a.1 ≤ b.1) := by
    have := List.pairwise_mergeSort (le := fun (a b : DR K) => decide (a.1 ≤ b.1))
      (fun a b c hab hbc => by
        simp only [decide_eq_true_eq] at hab hbc ⊢
        exact le_trans hab hbc)
      (fun a b => by
        simp only [Bool.or_eq_true, decide_eq_true_eq]
        exact le_total _ _) l
    exact this.imp (fun h => by simpa using h)
  have hmem : ∀ r, r ∈ l.mergeSort (fun a b => decide (a.1 ≤ b.1)) ↔ r ∈ l := fun r => hperm.mem_iff
  obtain ⟨m, he, hc, hmv, hcov, hb⟩ := mergeOverlapping_spec _
    (fun r hr => hv r ((hmem r).1 hr)) hsorted
  refine ⟨m, ?_, hc, hmv, ?_, ?_⟩
  · unfold intoVec
    rw [he]
    simp only [checkWindowsIntoVec_ok m hc hmv]
  · intro x
    rw [hcov]
    simp only [Covered, hmem]
  · exact boundsIn_trans hb (boundsIn_of_subset (fun r hr => (hmem r).1 hr))

/-! ### `punch` and the fold of `reduce_sync_range` -/

/-- Weakly ascending: consecutive intervals may share an end point. -/
def WChain (l : List (DR K)) : Prop := l.Pairwise (fun a b => a.2 ≤ b.1)

theorem overlaps_iff (a b : DR K) : DR.overlaps a b = true ↔ a.1 ≤ b.2 ∧ b.1 ≤ a.2 := by
  simp [DR.overlaps]

/-- Membership in `punch g b`, spelled out. -/
theorem mem_punch (g b p : DR K) : p ∈ punch g b ↔
    (¬ (g.1 ≤ b.2 ∧ b.1 ≤ g.2) ∧ p = b) ∨
    ((g.1 ≤ b.2 ∧ b.1 ≤ g.2) ∧ ((b.1 < g.1 ∧ p = (b.1, g.1)) ∨ (g.2 < b.2 ∧ p = (g.2, b.2)))) := by
  unfold punch
  by_cases ho : g.1 ≤ b.2 ∧ b.1 ≤ g.2
  · have : DR.overlaps g b = true := (overlaps_iff g b).2 ho
    simp only [this, Bool.not_true, Bool.false_eq_true, if_false, List.mem_append]
    by_cases h1 : b.1 < g.1 <;> by_cases h2 : g.2 < b.2 <;> simp [h1, h2, ho]
  · have : DR.overlaps g b = false := by
      rw [← Bool.not_eq_true, overlaps_iff]; exact ho
    simp [this, ho]

theorem punch_inside (g b : DR K) (_hg : g.1 ≤ g.2) (hb : b.1 ≤ b.2) :
    ∀ p ∈ punch g b, p.1 ≤ p.2 ∧ b.1 ≤ p.1 ∧ p.2 ≤ b.2 := by
  intro p hp
  rw [mem_punch] at hp
  rcases hp with ⟨_, rfl⟩ | ⟨ho, ⟨h, rfl⟩ | ⟨h, rfl⟩⟩
  · exact ⟨hb, le_refl _, le_refl _⟩
  · exact ⟨le_of_lt h, le_refl _, ho.1⟩
  · exact ⟨le_of_lt h, ho.2, le_refl _⟩

theorem punch_wchain (g b : DR K) (hg : g.1 ≤ g.2) : WChain (punch g b) := by
  unfold punch WChain
  by_cases ho : DR.overlaps g b = true
  · simp only [ho, Bool.not_true, Bool.false_eq_true, if_false]
    by_cases h1 : b.1 < g.1 <;> by_cases h2 : g.2 < b.2 <;> simp [h1, h2, hg]
  · simp [ho]

theorem punch_keeps (g b : DR K) (x : K) (hx : DR.mem x b) (hng : ¬ DR.mem x g) :
    ∃ p ∈ punch g b, DR.mem x p := by
  by_cases ho : g.1 ≤ b.2 ∧ b.1 ≤ g.2
  · by_cases h1 : g.1 ≤ x
    · have h2 : g.2 < x := lt_of_not_ge (fun h => hng ⟨h1, h⟩)
      refine ⟨(g.2, b.2), (mem_punch g b _).2 (Or.inr ⟨ho, Or.inr ⟨lt_of_lt_of_le h2 hx.2, rfl⟩⟩), ?_⟩
      exact ⟨le_of_lt h2, hx.2⟩
    · have h1' : x < g.1 := lt_of_not_ge h1
      refine ⟨(b.1, g.1), (mem_punch g b _).2 (Or.inr ⟨ho, Or.inl ⟨lt_of_le_of_lt hx.1 h1', rfl⟩⟩), ?_⟩
      exact ⟨hx.1, le_of_lt h1'⟩
  · exact ⟨b, (mem_punch g b _).2 (Or.inl ⟨ho, rfl⟩), hx⟩

theorem punch_bounds (g b : DR K) : BoundsIn (punch g b) [b, g] := by
  intro p hp
  rw [mem_punch] at hp
  rcases hp with ⟨_, rfl⟩ | ⟨ho, ⟨h, rfl⟩ | ⟨h, rfl⟩⟩
  · exact ⟨⟨p, by simp, Or.inl rfl⟩, ⟨p, by simp, Or.inr rfl⟩⟩
  · exact ⟨⟨b, by simp, Or.inl rfl⟩, ⟨g, by simp, Or.inl rfl⟩⟩
  · exact ⟨⟨g, by simp, Or.inr rfl⟩, ⟨b, by simp, Or.inr rfl⟩⟩

/-- One step of the fold. -/
theorem flatMap_punch_spec (g : DR K) (hg : g.1 ≤ g.2) (acc : List (DR K))
    (hw : WChain acc) (hv : DRValid acc) :
    WChain (acc.flatMap (punch g)) ∧ DRValid (acc.flatMap (punch g)) ∧
    (∀ x, Covered x (acc.flatMap (punch g)) → Covered x acc) ∧
    (∀ x, Covered x acc → ¬ DR.mem x g → Covered x (acc.flatMap (punch g))) ∧
    BoundsIn (acc.flatMap (punch g)) (acc ++ [g]) := by
  refine ⟨?_, ?_, ?_, ?_, ?_⟩
  · unfold WChain
    rw [List.pairwise_flatMap]
    refine ⟨fun a _ => punch_wchain g a hg, hw.imp_of_mem ?_⟩
    intro a b ha hb hab p hp q hq
    exact le_trans (punch_inside g a hg (hv a ha) p hp).2.2
      (le_trans hab (punch_inside g b hg (hv b hb) q hq).2.1)
  · intro p hp
    obtain ⟨a, ha, hpa⟩ := List.mem_flatMap.1 hp
    exact (punch_inside g a hg (hv a ha) p hpa).1
  · rintro x ⟨p, hp, hx⟩
    obtain ⟨a, ha, hpa⟩ := List.mem_flatMap.1 hp
    have := punch_inside g a hg (hv a ha) p hpa
    exact ⟨a, ha, le_trans this.2.1 hx.1, le_trans hx.2 this.2.2⟩
  · rintro x ⟨a, ha, hx⟩ hng
    obtain ⟨p, hp, hxp⟩ := punch_keeps g a x hx hng
    exact ⟨p, List.mem_flatMap.2 ⟨a, ha, hp⟩, hxp⟩
  · intro p hp
    obtain ⟨a, ha, hpa⟩ := List.mem_flatMap.1 hp
    have hsub : ∀ r ∈ [a, g], r ∈ acc ++ [g] := by
      intro r hr
      simp only [List.mem_cons, List.not_mem_nil, or_false] at hr
      rcases hr with rfl | rfl <;> simp [ha]
    exact boundsIn_trans (punch_bounds g a) (boundsIn_of_subset hsub) p hpa

/-- The whole fold. -/
theorem foldl_punch_spec (good : List (DR K)) : ∀ (acc : List (DR K)), DRValid good →
    WChain acc → DRValid acc →
    WChain (good.foldl (fun acc g => acc.flatMap (punch g)) acc) ∧
    DRValid (good.foldl (fun acc g => acc.flatMap (punch g)) acc) ∧
    (∀ x, Covered x (good.foldl (fun acc g => acc.flatMap (punch g)) acc) → Covered x acc) ∧
    (∀ x, Covered x acc → ¬ Covered x good →
      Covered x (good.foldl (fun acc g => acc.flatMap (punch g)) acc)) ∧
    BoundsIn (good.foldl (fun acc g => acc.flatMap (punch g)) acc) (acc ++ good) := by
  induction good with
  | nil =>
    intro acc _ hw hv
    exact ⟨hw, hv, fun _ h => h, fun _ h _ => h, boundsIn_of_subset (by simp)⟩
  | cons g good ih =>
    intro acc hgv hw hv
    have hg : g.1 ≤ g.2 := hgv g (by simp)
    obtain ⟨sw, sv, sc1, sc2, sb⟩ := flatMap_punch_spec g hg acc hw hv
    obtain ⟨iw, iv, ic1, ic2, ib⟩ :=
      ih (acc.flatMap (punch g)) (fun r hr => hgv r (by simp [hr])) sw sv
    rw [List.foldl_cons]
    refine ⟨iw, iv, fun x h => sc1 x (ic1 x h), ?_, ?_⟩
    · intro x hx hng
      rw [covered_cons] at hng
      exact ic2 x (sc2 x hx (fun h => hng (Or.inl h))) (fun h => hng (Or.inr h))
    · refine boundsIn_trans ib (boundsIn_append ?_ ?_)
      · exact boundsIn_trans sb (boundsIn_of_subset (by
          intro r hr; simp at hr ⊢; rcases hr with h | h <;> simp [h]))
      · exact boundsIn_of_subset (by intro r hr; simp [hr])

/-- `reduce_sync_range` on two strict chains of valid intervals: no assertion fires; the result is
a strict chain of valid intervals, inside the bad intervals, covering every key that is in a bad
interval and in no good interval; bounds are bounds of the inputs. -/
theorem reduceSyncRange_spec (bad good : List (DR K))
    (hb : DRChain bad) (hbv : DRValid bad) (hg : DRChain good) (hgv : DRValid good) :
    ∃ out, reduceSyncRange bad good = .ok out ∧ DRChain out ∧ DRValid out ∧
      (∀ x, Covered x out → Covered x bad) ∧
      (∀ x, Covered x bad → ¬ Covered x good → Covered x out) ∧
      (∀ r ∈ out, IsBound r.1 (bad ++ good) ∧ IsBound r.2 (bad ++ good)) := by
  have hw : WChain bad := hb.imp (fun h => le_of_lt h)
  obtain ⟨fw, fv, fc1, fc2, fb⟩ := foldl_punch_spec good bad hgv hw hbv
  have hs : (good.foldl (fun acc g => acc.flatMap (punch g)) bad).Pairwise
      (fun a b => a.1 ≤ b.1) :=
    fw.imp_of_mem (fun {a b} ha _ hab => le_trans (fv a ha) hab)
  obtain ⟨m, he, hc, hmv, hcov, hmb⟩ := mergeOverlapping_spec _ fv hs
  refine ⟨m, ?_, hc, hmv, ?_, ?_, boundsIn_trans hmb fb⟩
  · unfold reduceSyncRange
    simp only [he, checkWindowsReduce_ok m hc]
  · intro x hx
    exact fc1 x ((hcov x).1 hx)
  · intro x hx hng
    exact (hcov x).2 (fc2 x hx hng)

/-- All interval bounds of a page-range list. -/
def prBounds (l : List (PR K D)) : List (DR K) := l.map fun r => (r.start, r.end_)

def PRValid (l : List (PR K D)) : Prop := ∀ r ∈ l, r.start ≤ r.end_

/-! ### The walk -/

/-- A page range that is valid and whose bounds satisfy `P`. -/
def PRG (P : K → Prop) (r : PR K D) : Prop := r.start ≤ r.end_ ∧ P r.start ∧ P r.end_

/-- Every recorded interval is valid with bounds satisfying `P`. -/
def BOK (P : K → Prop) (b : Builder K) : Prop :=
  ∀ r ∈ b.bad ++ b.good, r.1 ≤ r.2 ∧ P r.1 ∧ P r.2

theorem advWithin_cases (parent : PR K D) (l : List (PR K D)) :
    advWithin parent l = (none, l) ∨
    ∃ x r, l = x :: r ∧ parent.supersetOf x = true ∧ advWithin parent l = (some x, r) := by
  cases l with
  | nil => exact Or.inl rfl
  | cons x r =>
    by_cases h : parent.supersetOf x = true
    · exact Or.inr ⟨x, r, rfl, h, by simp [advWithin, h]⟩
    · exact Or.inl (by simp [advWithin, h])

theorem shrinkLocal_mem (p : PR K D) (loc : List (PR K D)) : ∀ (l0 : PR K D),
    ∀ r ∈ (shrinkLocal p l0 loc).2, r ∈ loc := by
  induction loc with
  | nil => intro l0 r hr; simp [shrinkLocal] at hr
  | cons v rest ih =>
    intro l0 r hr
    unfold shrinkLocal at hr
    by_cases h : v.supersetOf p = true
    · rw [if_pos h] at hr
      exact List.mem_cons_of_mem _ (ih v r hr)
    · rw [if_neg h] at hr
      exact hr

theorem skipSubtree_mem (root : PR K D) (l : List (PR K D)) :
    ∀ r ∈ skipSubtree root l, r ∈ l := by
  induction l with
  | nil => intro r hr; simp [skipSubtree] at hr
  | cons v rest ih =>
    intro r hr
    unfold skipSubtree at hr
    by_cases h : root.supersetOf v = true
    · rw [if_pos h] at hr
      exact List.mem_cons_of_mem _ (ih r hr)
    · rw [if_neg h] at hr
      exact hr

theorem skipSubtree_length (root : PR K D) (l : List (PR K D)) :
    (skipSubtree root l).length ≤ l.length := by
  induction l with
  | nil => simp [skipSubtree]
  | cons v rest ih =>
    unfold skipSubtree
    by_cases h : root.supersetOf v = true
    · rw [if_pos h]; simp only [List.length_cons]; omega
    · rw [if_neg h]

theorem BOK_inconsistent (P : K → Prop) (b : Builder K) (s e : K) (hb : BOK P b)
    (hse : s ≤ e) (hs : P s) (he : P e) :
    ∃ b', b.inconsistent s e = .ok b' ∧ BOK P b' := by
  refine ⟨{ b with bad := b.bad ++ [(s, e)] }, by simp [Builder.inconsistent, hse], ?_⟩
  intro r hr
  simp only [List.mem_append, List.mem_cons, List.not_mem_nil, or_false] at hr
  rcases hr with (hr | rfl) | hr
  · exact hb r (List.mem_append_left _ hr)
  · exact ⟨hse, hs, he⟩
  · exact hb r (List.mem_append_right _ hr)

theorem BOK_consistent (P : K → Prop) (b : Builder K) (s e : K) (hb : BOK P b)
    (hse : s ≤ e) (hs : P s) (he : P e) :
    ∃ b', b.consistent s e = .ok b' ∧ BOK P b' := by
  refine ⟨{ b with good := b.good ++ [(s, e)] }, by simp [Builder.consistent, hse], ?_⟩
  intro r hr
  simp only [List.mem_append, List.mem_cons, List.not_mem_nil, or_false] at hr
  rcases hr with hr | hr | rfl
  · exact hb r (List.mem_append_left _ hr)
  · exact hb r (List.mem_append_right _ hr)
  · exact ⟨hse, hs, he⟩

theorem drainSubtree_spec (P : K → Prop) (root : PR K D) (peer : List (PR K D)) :
    ∀ (b : Builder K), (∀ r ∈ peer, PRG P r) → BOK P b →
    ∃ peer' b', drainSubtree root peer b = .ok (peer', b') ∧ peer'.length ≤ peer.length ∧
      (∀ r ∈ peer', PRG P r) ∧ BOK P b' ∧
      (∀ v rest, peer' = v :: rest → root.supersetOf v = false) := by
  induction peer with
  | nil =>
    intro b _ hb
    exact ⟨[], b, rfl, le_refl _, by simp, hb, by simp⟩
  | cons v rest ih =>
    intro b hp hb
    unfold drainSubtree
    by_cases h : root.supersetOf v = true
    · rw [if_pos h]
      have hv := hp v (by simp)
      obtain ⟨b1, hb1, hbok1⟩ := BOK_inconsistent P b v.start v.end_ hb hv.1 hv.2.1 hv.2.2
      obtain ⟨peer', b', he, hlen, hpg, hbok, hhd⟩ :=
        ih b1 (fun r hr => hp r (by simp [hr])) hbok1
      refine ⟨peer', b', ?_, ?_, hpg, hbok, hhd⟩
      · simp only [hb1, he]
      · simp only [List.length_cons]; omega
    · rw [if_neg h]
      refine ⟨v :: rest, b, rfl, le_refl _, hp, hb, ?_⟩
      intro v' rest' heq
      cases heq
      simpa using h

/-- `local_is_superset` (diff.rs:220). -/
def locSup (p : PR K D) : List (PR K D) → Bool
  | lh :: _ => lh.supersetOf p
  | [] => false

/-- Start of the gap interval (diff.rs:237). -/
def walkStart (root : PR K D) : Option (PR K D) → K
  | .some v => v.end_
  | .none => root.start

/-- End of the gap interval (diff.rs:241). -/
def walkEnd (p : PR K D) : List (PR K D) → K
  | lh :: _ => if p.end_ < lh.start then p.end_ else lh.start
  | [] => p.end_

/-- Unfolding of one `recurseDiff` step, uniformly in `lastP`. -/
theorem recurseDiff_succ (fuel : Nat) (root : PR K D) (lastP : Option (PR K D))
    (peer loc : List (PR K D)) (b : Builder K) :
    recurseDiff (fuel + 1) root lastP peer loc b =
    match advWithin root peer with
    | (.none, peer) => .ok (peer, loc, b)
    | (.some p, peer1) =>
      match advWithin p loc with
      | (.none, loc) =>
        if locSup p loc then .ok (peer1, loc, b)
        else
          if walkStart root lastP ≤ walkEnd p loc then
            match b.inconsistent (walkStart root lastP) (walkEnd p loc) with
            | .error e => .error e
            | .ok b' => .ok (peer1, loc, b')
          else .ok (peer1, loc, b)
      | (.some l0, loc1) =>
        if !root.supersetOf p then .error "diff.rs:272" else
        let (l, loc2) := shrinkLocal p l0 loc1
        match (if l.hash = p.hash then
                 match b.consistent p.start p.end_ with
                 | .error e => Except.error e
                 | .ok b1 => .ok (b1, skipSubtree p peer1)
               else
                 match b.inconsistent p.start p.end_ with
                 | .error e => .error e
                 | .ok b1 => .ok (b1, peer1)) with
        | .error e => .error e
        | .ok (b1, peer2) =>
          match recurseSubtree fuel p peer2 loc2 b1 with
          | .error e => .error e
          | .ok (peer3, loc3, b2) => recurseDiff fuel root (.some p) peer3 loc3 b2 := by
  cases lastP <;> (rw [recurseDiff]; simp only [locSup, walkStart, walkEnd]; rfl)

/-- Joint fuel-sufficiency / panic-freedom statement for the two mutually recursive walkers. -/
theorem walk_spec (P : K → Prop) : ∀ fuel : Nat,
    (∀ (root : PR K D) (lastP : Option (PR K D)) (peer loc : List (PR K D)) (b : Builder K),
      2 * peer.length + 1 ≤ fuel → PRG P root → (∀ v, lastP = some v → PRG P v) →
      (∀ r ∈ peer, PRG P r) → (∀ r ∈ loc, PRG P r) → BOK P b →
      ∃ peer' loc' b', recurseDiff fuel root lastP peer loc b = .ok (peer', loc', b') ∧
        peer'.length ≤ peer.length ∧ (∀ r ∈ peer', PRG P r) ∧ (∀ r ∈ loc', PRG P r) ∧ BOK P b') ∧
    (∀ (root : PR K D) (peer loc : List (PR K D)) (b : Builder K),
      2 * peer.length + 2 ≤ fuel → PRG P root →
      (∀ r ∈ peer, PRG P r) → (∀ r ∈ loc, PRG P r) → BOK P b →
      ∃ peer' loc' b', recurseSubtree fuel root peer loc b = .ok (peer', loc', b') ∧
        peer'.length ≤ peer.length ∧ (∀ r ∈ peer', PRG P r) ∧ (∀ r ∈ loc', PRG P r) ∧ BOK P b') := by
  intro fuel
  induction fuel with
  | zero =>
    constructor
    · intro root lastP peer loc b hf; omega
    · intro root peer loc b hf; omega
  | succ fuel ih =>
    obtain ⟨ihD, ihS⟩ := ih
    constructor
    · intro root lastP peer loc b hf hroot hlast hpeer hloc hb
      rw [recurseDiff_succ]
      rcases advWithin_cases root peer with h | ⟨p, peer1, rfl, hsup, h⟩
      · rw [h]
        exact ⟨peer, loc, b, rfl, le_refl _, hpeer, hloc, hb⟩
      · rw [h]
        have hp : PRG P p := hpeer p (by simp)
        have hpeer1 : ∀ r ∈ peer1, PRG P r := fun r hr => hpeer r (by simp [hr])
        simp only [List.length_cons] at hf ⊢
        rcases advWithin_cases p loc with h2 | ⟨l0, loc1, rfl, hsup2, h2⟩
        · rw [h2]
          dsimp only
          by_cases hls : locSup p loc = true
          · rw [if_pos hls]
            exact ⟨peer1, loc, b, rfl, by omega, hpeer1, hloc, hb⟩
          · rw [if_neg hls]
            by_cases hse : walkStart root lastP ≤ walkEnd p loc
            · rw [if_pos hse]
              have hPs : P (walkStart root lastP) := by
                cases lastP with
                | none => exact hroot.2.1
                | some v => exact (hlast v rfl).2.2
              have hPe : P (walkEnd p loc) := by
                cases loc with
                | nil => exact hp.2.2
                | cons lh rest =>
                  simp only [walkEnd]
                  by_cases hlt : p.end_ < lh.start
                  · rw [if_pos hlt]; exact hp.2.2
                  · rw [if_neg hlt]; exact (hloc lh (by simp)).2.1
              obtain ⟨b', hb', hbok'⟩ := BOK_inconsistent P b _ _ hb hse hPs hPe
              rw [hb']
              exact ⟨peer1, loc, b', rfl, by omega, hpeer1, hloc, hbok'⟩
            · rw [if_neg hse]
              exact ⟨peer1, loc, b, rfl, by omega, hpeer1, hloc, hb⟩
        · rw [h2]
          dsimp only
          rw [hsup]
          simp only [Bool.not_true, Bool.false_eq_true, if_false]
          rcases hsl : shrinkLocal p l0 loc1 with ⟨l, loc2⟩
          dsimp only
          have hloc2 : ∀ r ∈ loc2, PRG P r := by
            intro r hr
            have := shrinkLocal_mem p loc1 l0 r (by rw [hsl]; exact hr)
            exact hloc r (by simp [this])
          have tail : ∀ (b1 : Builder K) (peer2 : List (PR K D)), BOK P b1 →
              peer2.length ≤ peer1.length → (∀ r ∈ peer2, PRG P r) →
              ∃ peer' loc' b',
                (match recurseSubtree fuel p peer2 loc2 b1 with
                  | .error e => Except.error e
                  | .ok (peer3, loc3, b2) => recurseDiff fuel root (some p) peer3 loc3 b2) =
                  .ok (peer', loc', b') ∧
                peer'.length ≤ peer1.length + 1 ∧ (∀ r ∈ peer', PRG P r) ∧
                (∀ r ∈ loc', PRG P r) ∧ BOK P b' := by
            intro b1 peer2 hb1 hlen2 hpeer2
            obtain ⟨peer3, loc3, b2, hS, hlen3, hpeer3, hloc3, hb2⟩ :=
              ihS p peer2 loc2 b1 (by omega) hp hpeer2 hloc2 hb1
            rw [hS]
            dsimp only
            obtain ⟨peer4, loc4, b4, hD, hlen4, hpeer4, hloc4, hb4⟩ :=
              ihD root (some p) peer3 loc3 b2 (by omega) hroot
                (fun v hv => by cases hv; exact hp) hpeer3 hloc3 hb2
            exact ⟨peer4, loc4, b4, hD, by omega, hpeer4, hloc4, hb4⟩
          by_cases hh : l.hash = p.hash
          · rw [if_pos hh]
            obtain ⟨b1, hb1, hbok1⟩ := BOK_consistent P b p.start p.end_ hb hp.1 hp.2.1 hp.2.2
            rw [hb1]
            dsimp only
            exact tail b1 (skipSubtree p peer1) hbok1 (skipSubtree_length p peer1)
              (fun r hr => hpeer1 r (skipSubtree_mem p peer1 r hr))
          · rw [if_neg hh]
            obtain ⟨b1, hb1, hbok1⟩ := BOK_inconsistent P b p.start p.end_ hb hp.1 hp.2.1 hp.2.2
            rw [hb1]
            dsimp only
            exact tail b1 peer1 hbok1 (le_refl _) hpeer1
    · intro root peer loc b hf hroot hpeer hloc hb
      rw [recurseSubtree]
      obtain ⟨peer1, loc1, b1, hD, hlen1, hpeer1, hloc1, hb1⟩ :=
        ihD root none peer loc b (by omega) hroot (fun v hv => by cases hv) hpeer hloc hb
      rw [hD]
      dsimp only
      obtain ⟨peer2, b2, hdr, hlen2, hpeer2, hb2, hhd⟩ := drainSubtree_spec P root peer1 b1 hpeer1 hb1
      rw [hdr]
      dsimp only
      cases peer2 with
      | nil => exact ⟨[], loc1, b2, rfl, by simp, hpeer2, hloc1, hb2⟩
      | cons v rest =>
        dsimp only
        rw [hhd v rest rfl]
        exact ⟨v :: rest, loc1, b2, rfl, by omega, hpeer2, hloc1, hb2⟩

theorem isBound_prBounds {r : PR K D} {l : List (PR K D)} (h : r ∈ l) :
    IsBound r.start (prBounds l) ∧ IsBound r.end_ (prBounds l) := by
  have hm : (r.start, r.end_) ∈ prBounds l := List.mem_map.2 ⟨r, h, rfl⟩
  exact ⟨⟨_, hm, Or.inl rfl⟩, ⟨_, hm, Or.inr rfl⟩⟩

/-- The walk itself: with `2·|peer| + 2` fuel it never runs out and never trips an assertion;
everything it records is a valid interval whose bounds occurred in the input. -/
theorem recurseDiff_total (loc peer : List (PR K D)) (root : PR K D)
    (hl : PRValid loc) (hp : PRValid peer) (hr : root.start ≤ root.end_) :
    ∃ peer' loc' b, recurseDiff (2 * peer.length + 2) root none peer loc Builder.empty = .ok (peer', loc', b) ∧
      DRValid b.bad ∧ DRValid b.good ∧
      (∀ r ∈ b.bad ++ b.good, IsBound r.1 (prBounds (root :: loc ++ peer)) ∧ IsBound r.2 (prBounds (root :: loc ++ peer))) := by
  have hG : ∀ r ∈ root :: loc ++ peer, r.start ≤ r.end_ →
      PRG (fun x => IsBound x (prBounds (root :: loc ++ peer))) r :=
    fun r hr hv => ⟨hv, (isBound_prBounds hr).1, (isBound_prBounds hr).2⟩
  obtain ⟨peer', loc', b, he, -, -, -, hb⟩ :=
    (walk_spec (D := D) (fun x => IsBound x (prBounds (root :: loc ++ peer)))
      (2 * peer.length + 2)).1 root none peer loc Builder.empty (by omega)
      (hG root (by simp) hr) (fun v hv => by cases hv)
      (fun r hr => hG r (by simp [hr]) (hp r hr))
      (fun r hr => hG r (by simp [hr]) (hl r hr))
      (by intro r hr; simp [Builder.empty] at hr)
  refine ⟨peer', loc', b, he, ?_, ?_, ?_⟩
  · exact fun r hr => (hb r (List.mem_append_left _ hr)).1
  · exact fun r hr => (hb r (List.mem_append_right _ hr)).1
  · exact fun r hr => (hb r hr).2

/-- C13 / C12 (list part): `diff` is total on untrusted input. -/
theorem diff_total (loc peer : List (PR K D)) (hl : PRValid loc) (hp : PRValid peer) :
    ∃ out, diff loc peer = .ok out ∧ DRChain out ∧ DRValid out ∧
      (∀ r ∈ out, IsBound r.1 (prBounds (loc ++ peer)) ∧ IsBound r.2 (prBounds (loc ++ peer))) := by
  cases peer with
  | nil =>
    exact ⟨[], rfl, by simp [DRChain], by simp [DRValid], by simp⟩
  | cons root rest =>
    obtain ⟨peer', loc', b, he, hbv, hgv, hbb⟩ :=
      recurseDiff_total loc (root :: rest) root hl hp (hp root (by simp))
    obtain ⟨bad, hbad, hbc, hbvv, -, hbbound⟩ := intoVec_spec b.bad hbv
    obtain ⟨good, hgood, hgc, hgvv, -, hgbound⟩ := intoVec_spec b.good hgv
    obtain ⟨out, hout, hoc, hov, -, -, hob⟩ := reduceSyncRange_spec bad good hbc hbvv hgc hgvv
    refine ⟨out, ?_, hoc, hov, ?_⟩
    · unfold diff
      simp only [he, Builder.intoDiffVec, hbad, hgood, hout]
    · have h1 : BoundsIn out (bad ++ good) := hob
      have h2 : BoundsIn (bad ++ good) (b.bad ++ b.good) :=
        boundsIn_append
          (boundsIn_trans hbbound (boundsIn_of_subset (fun r hr => List.mem_append_left _ hr)))
          (boundsIn_trans hgbound (boundsIn_of_subset (fun r hr => List.mem_append_right _ hr)))
      have h3 : BoundsIn (b.bad ++ b.good) (prBounds (root :: loc ++ root :: rest)) := hbb
      have h4 : BoundsIn (prBounds (root :: loc ++ root :: rest)) (prBounds (loc ++ root :: rest)) := by
        refine boundsIn_of_subset ?_
        intro r hr
        simp only [prBounds, List.mem_map] at hr ⊢
        obtain ⟨a, ha, rfl⟩ := hr
        refine ⟨a, ?_, rfl⟩
        simp only [List.cons_append, List.mem_cons, List.mem_append] at ha ⊢
        rcases ha with rfl | h | h
        · exact Or.inr (Or.inl rfl)
        · exact Or.inl h
        · exact Or.inr h
      exact boundsIn_trans h1 (boundsIn_trans h2 (boundsIn_trans h3 h4))

/-- A diff against an empty peer is empty (C08, second sentence). -/
theorem diff_empty_peer (loc : List (PR K D)) : diff loc ([] : List (PR K D)) = .ok [] := by
  rfl

/-- `PageRange::new` rejects exactly the inverted bounds. -/
theorem PR_new_ok_iff (s e : K) (h : D) : (∃ r, PR.new s e h = .ok r) ↔ s ≤ e := by
  unfold PR.new
  by_cases hse : s ≤ e
  · simp [hse]
  · simp [hse]

end Mst

#print axioms Mst.diff_total
#print axioms Mst.intoVec_spec
#print axioms Mst.reduceSyncRange_spec
#print axioms Mst.recurseDiff_total
#print axioms Mst.diff_empty_peer
#print axioms Mst.PR_new_ok_iff
