/-
The API layer (`Model/Api.lean`: TreeBuilder, constructors, stored hasher / level base, `SipHasher`,
`upsert(key, value)`) refines the tree-level histories of `Proofs/History.lean`: a history of
`MerkleSearchTree::upsert(key, value)` / `root_hash()` calls on a configured tree IS the tree-level
history whose level function is `k ↦ level(hasher.hash(k), level_base)` and whose value digests are
`hasher.hash(value)`. Every theorem about `run lvl hc ops` therefore applies to API-level histories.
-/
import MstVerif.Model.Api
import MstVerif.Proofs.History
import MstVerif.Proofs.Level

namespace Mst
variable {K D : Type}

/-! ### SipHash output width, `std::hash::Hash` framing -/

theorem Sip.leBytes_length (x : UInt64) : (Sip.leBytes x).length = 8 := by
  simp [Sip.leBytes]

theorem Sip.hash128_length (k0 k1 : UInt64) (bs : List UInt8) : (Sip.hash128 k0 k1 bs).length = 16 := by
  unfold Sip.hash128
  simp only [List.length_append, Sip.leBytes_length]

theorem lenPrefix_length (n : Nat) : (lenPrefix n).length = 8 := Sip.leBytes_length _

/-- For one key/value type, different values feed different byte streams to the hasher (so two keys
of one tree can only share a digest through a collision of the hash itself). -/
theorem stdHashBytes_injective (kind : HKind) (a b : List UInt8)
    (h : stdHashBytes kind a = stdHashBytes kind b) : a = b := by
  cases kind with
  | bytes | array =>
    simp only [stdHashBytes] at h
    have h8 : (lenPrefix a.length).length = (lenPrefix b.length).length := by
      rw [lenPrefix_length, lenPrefix_length]
    exact (List.append_inj h h8).2
  | str =>
    simp only [stdHashBytes] at h
    exact List.append_inj_left' h rfl

/-! ### Constructors, builder, clone -/

theorem TreeBuilder.build_default : (TreeBuilder.default.build : MST K D) = MST.default := rfl

theorem TreeBuilder.build_withHasher_default (h : HasherM) :
    ((TreeBuilder.default.withHasher h).build : MST K D) = MST.newWithHasher h := rfl

/-- The two setters commute. -/
theorem TreeBuilder.setters_commute (b : TreeBuilder) (h : HasherM) (n : Nat) :
    (b.withHasher h).withLevelBase n = (b.withLevelBase n).withHasher h := rfl

/-- What `build` stores is exactly what the LAST call of each setter supplied. -/
theorem TreeBuilder.build_spec (b : TreeBuilder) (h : HasherM) (n : Nat) :
    (((b.withHasher h).withLevelBase n).build : MST K D) = { hasher := h, levelBase := n, tree := Tree.empty } ∧
    (((b.withLevelBase n).withHasher h).build : MST K D) = { hasher := h, levelBase := n, tree := Tree.empty } :=
  ⟨rfl, rfl⟩

theorem MST.clone_eq (m : MST K D) : m.clone = m := rfl
theorem MST.cloneFrom_eq (dst src : MST K D) : dst.cloneFrom src = src := rfl

/-! ### API histories refine tree histories -/

/-- One call on the public API: `upsert(key, &value)` with the value's bytes, or `root_hash()`. -/
inductive AOp (K : Type) where
  | ups (k : K) (w : List UInt8)
  | hash

section
variable [LinearOrder K]

def MST.step (hc : HashCfg K (List UInt8) D) (e : Enc K) (m : MST K D) : AOp K → Except String (MST K D)
  | .ups k w => m.upsert e k w
  | .hash => .ok (m.genRootHash hc)

def MST.runFrom (hc : HashCfg K (List UInt8) D) (e : Enc K) : MST K D → List (AOp K) → Except String (MST K D)
  | m, [] => .ok m
  | m, op :: ops =>
    match m.step hc e op with
    | .error err => .error err
    | .ok m' => MST.runFrom hc e m' ops

/-- The tree-level operation an API call amounts to under the configuration of `m`. -/
def MST.toOp (m : MST K D) (e : Enc K) : AOp K → Op K (List UInt8)
  | .ups k w => .ups k (m.valueDigest e w)
  | .hash => .hash

theorem MST.step_cfg (hc : HashCfg K (List UInt8) D) (e : Enc K) (m m' : MST K D) (op : AOp K)
    (h : m.step hc e op = .ok m') : m'.hasher = m.hasher ∧ m'.levelBase = m.levelBase := by
  cases op with
  | ups k w =>
    simp only [MST.step, MST.upsert] at h
    split at h
    · cases h
    · cases h; exact ⟨rfl, rfl⟩
  | hash =>
    simp only [MST.step, MST.genRootHash] at h
    cases h; exact ⟨rfl, rfl⟩

theorem MST.step_refines (hc : HashCfg K (List UInt8) D) (e : Enc K) (m : MST K D) (op : AOp K) :
    m.step hc e op =
      match m.tree.step (m.keyLevel e) hc (m.toOp e op) with
      | .error err => .error err
      | .ok t => .ok { m with tree := t } := by
  cases op with
  | ups k w => simp only [MST.step, MST.upsert, MST.toOp, Tree.step]; rfl
  | hash => simp only [MST.step, MST.genRootHash, MST.toOp, Tree.step]

omit [LinearOrder K] in
/-- Configuration-only views (the hasher and base never change along a history). -/
theorem MST.keyLevel_congr (e : Enc K) (m m' : MST K D) (h1 : m'.hasher = m.hasher) (h2 : m'.levelBase = m.levelBase) :
    m'.keyLevel e = m.keyLevel e := by
  funext k; simp [MST.keyLevel, MST.keyDigest, h1, h2]

omit [LinearOrder K] in
theorem MST.toOp_congr (e : Enc K) (m m' : MST K D) (h1 : m'.hasher = m.hasher) :
    m'.toOp e = m.toOp e := by
  funext op; cases op <;> simp [MST.toOp, MST.valueDigest, h1]

/-- **Refinement.** Running API calls on a configured tree is running the corresponding tree-level
history with `lvl k = level(hasher.hash(k), level_base)`; the configuration is carried unchanged. -/
theorem MST.runFrom_refines (hc : HashCfg K (List UInt8) D) (e : Enc K) (ops : List (AOp K)) (m : MST K D) :
    MST.runFrom hc e m ops =
      match Mst.runFrom (m.keyLevel e) hc m.tree (ops.map (m.toOp e)) with
      | .error err => .error err
      | .ok t => .ok { m with tree := t } := by
  induction ops generalizing m with
  | nil => simp [MST.runFrom, Mst.runFrom]
  | cons op ops ih =>
    simp only [MST.runFrom, List.map_cons, Mst.runFrom]
    rw [MST.step_refines]
    cases hstep : m.tree.step (m.keyLevel e) hc (m.toOp e op) with
    | error err => simp
    | ok t =>
      simp only []
      rw [ih]
      have hk : MST.keyLevel ({ m with tree := t } : MST K D) e = m.keyLevel e :=
        MST.keyLevel_congr e m _ rfl rfl
      have ht : MST.toOp ({ m with tree := t } : MST K D) e = m.toOp e := MST.toOp_congr e m _ rfl
      rw [hk, ht]

/-- Last raw value written to `k` by an API history. -/
def lastWriteA (k : K) : Option (List UInt8) → List (AOp K) → Option (List UInt8)
  | acc, [] => acc
  | acc, .ups k' w :: ops => lastWriteA k (if k' = k then some w else acc) ops
  | acc, .hash :: ops => lastWriteA k acc ops

theorem lastWriteFrom_map_toOp (m : MST K D) (e : Enc K) (k : K) (ops : List (AOp K)) (acc : Option (List UInt8)) :
    lastWriteFrom k (acc.map (m.valueDigest e)) (ops.map (m.toOp e)) = (lastWriteA k acc ops).map (m.valueDigest e) := by
  induction ops generalizing acc with
  | nil => rfl
  | cons op ops ih =>
    cases op with
    | ups k' w =>
      simp only [List.map_cons, MST.toOp, lastWriteFrom, lastWriteA]
      rw [← ih]
      congr 1
      split <;> rfl
    | hash =>
      simp only [List.map_cons, MST.toOp, lastWriteFrom, lastWriteA]
      exact ih acc

omit [LinearOrder K] in
/-- The level the API computes stays below the `u8` ceiling whenever the hasher's digests are at
most 32 bytes wide — always the case for `SipHasher` (16 bytes). -/
theorem MST.keyLevel_lt_255 (m : MST K D) (e : Enc K)
    (hw : ∀ r, (e.envK r).length ≤ 32) (k : K) : m.keyLevel e k < 255 := by
  unfold MST.keyLevel MST.keyDigest HasherM.hash
  apply level_lt_255
  cases m.hasher with
  | sip k0 k1 => simp [Sip.hash128_length]
  | custom => exact hw _

end
end Mst
