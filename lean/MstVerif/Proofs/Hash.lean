/-
L2: lazy hashing is sound. L3: the shape is a function of the content. L4: Merkle injectivity.
-/
import MstVerif.Proofs.Defs
import Mathlib.Order.Defs.LinearOrder

namespace Mst
variable {K V D : Type}

/-! ### L2 -/

theorem hashBytes_erase (hc : HashCfg K V D) (p : Pg K V D) : p.erase.hashBytes hc = p.hashBytes hc := by
  sorry

theorem trueHash_erase (hc : HashCfg K V D) (p : Pg K V D) : p.erase.trueHash hc = p.trueHash hc := by
  sorry

theorem content_erase (p : Pg K V D) : p.erase.content = p.content := by
  sorry

theorem LvPg_erase (lvl : K → Nat) (b : Nat) (p : Pg K V D) : LvPg lvl b p.erase ↔ LvPg lvl b p := by
  sorry

theorem LvRoot_erase (lvl : K → Nat) (p : Pg K V D) : LvRoot lvl p.erase ↔ LvRoot lvl p := by
  sorry

theorem clean_cacheOK (hc : HashCfg K V D) (p : Pg K V D) : CleanPg hc p → CacheOKPg hc p := by
  sorry

theorem clean_cache (hc : HashCfg K V D) (p : Pg K V D) : CleanPg hc p → p.cache? = p.trueHash hc := by
  sorry

/-- `maybe_generate_hash` on a cache-consistent subtree leaves every page cached with its true
digest and changes nothing but caches. -/
theorem genPg_spec (hc : HashCfg K V D) (p : Pg K V D) (h : CacheOKPg hc p) :
    CleanPg hc (genPg hc p) ∧ (genPg hc p).erase = p.erase := by
  sorry

/-- Two clean trees with the same erasure are identical (caches included). -/
theorem clean_eq_of_erase_eq (hc : HashCfg K V D) (p q : Pg K V D)
    (hp : CleanPg hc p) (hq : CleanPg hc q) (h : p.erase = q.erase) : p = q := by
  sorry

theorem genRootHash_inv [LT K] (lvl : K → Nat) (hc : HashCfg K V D) (t : Tree K V D)
    (hinv : Inv lvl hc t) :
    Inv lvl hc (t.genRootHash hc) ∧
      (t.genRootHash hc).rootHash = t.root.trueHash hc ∧
      (t.genRootHash hc).rootHash.isSome ∧
      (t.genRootHash hc).root.erase = t.root.erase ∧
      CleanPg hc (t.genRootHash hc).root := by
  sorry

/-! ### L3: canonical form -/

/-- Two level-stratified subtrees with the same in-order content have the same shape.
(Ordering is not needed: stratification and non-emptiness alone force the shape.) -/
theorem shape_unique (lvl : K → Nat) (b1 b2 : Nat) (p q : Pg K V D)
    (hp : LvPg lvl b1 p) (hq : LvPg lvl b2 q) (h : p.content = q.content) : p.erase = q.erase := by
  sorry

theorem root_unique (lvl : K → Nat) (p q : Pg K V D)
    (hp : LvRoot lvl p) (hq : LvRoot lvl q) (h : p.content = q.content) : p.erase = q.erase := by
  sorry

/-! ### L4: Merkle injectivity up to digest collisions -/

/-- The abstract pre-image of a page digest: per node (child digest if any, key, value digest),
then the high page's digest if any. -/
abbrev PageTok (K V D : Type) := List (Option D × K × V) × Option D

def Nd.toks (hc : HashCfg K V D) : Nd K V D → List (Option D × K × V)
  | .nil => []
  | .cons lt k v tl => (lt.trueHash hc, k, v) :: tl.toks hc

def optBytes (hc : HashCfg K V D) : Option D → List UInt8
  | none => []
  | some d => hc.db d

def encodeToks (hc : HashCfg K V D) : List (Option D × K × V) → List UInt8
  | [] => []
  | (c, k, v) :: r => optBytes hc c ++ (hc.kb k ++ (hc.vb v ++ encodeToks hc r))

/-- The byte stream fed to the page hasher for a pre-image. -/
def encodeTok (hc : HashCfg K V D) (t : PageTok K V D) : List UInt8 :=
  encodeToks hc t.1 ++ optBytes hc t.2

mutual
/-- The pre-images of all pages of a subtree. -/
def Pg.allToks (hc : HashCfg K V D) : Pg K V D → List (PageTok K V D)
  | .none => []
  | .some _ _ n h => (n.toks hc, h.trueHash hc) :: (n.allToks hc ++ h.allToks hc)
def Nd.allToks (hc : HashCfg K V D) : Nd K V D → List (PageTok K V D)
  | .nil => []
  | .cons lt _ _ tl => lt.allToks hc ++ tl.allToks hc
end

/-- No two *different* page pre-images among `S` receive the same digest. This is exactly
"up to collisions of the page digest": it also counts as a collision two different pre-images
whose byte encodings coincide (the encoding has no length prefixes). -/
def CollisionFree (hc : HashCfg K V D) (S : List (PageTok K V D)) : Prop :=
  ∀ a ∈ S, ∀ b ∈ S, hc.h (encodeTok hc a) = hc.h (encodeTok hc b) → a = b

theorem trueHash_eq_encode (hc : HashCfg K V D) (L : Nat) (c : Option D) (n : Nd K V D) (h : Pg K V D) :
    (Pg.some L c n h).trueHash hc = some (hc.h (encodeTok hc (n.toks hc, h.trueHash hc))) := by
  sorry

/-- Equal digests force equal content, for pages whose pre-images are collision free. -/
theorem merkle_inj (hc : HashCfg K V D) (p q : Pg K V D)
    (hcf : CollisionFree hc (p.allToks hc ++ q.allToks hc))
    (h : p.trueHash hc = q.trueHash hc) : p.content = q.content := by
  sorry

end Mst
