/-
L2: lazy hashing is sound. L3: the shape is a function of the content. L4: Merkle injectivity.
-/
import MstVerif.Proofs.Defs
import Mathlib.Order.Defs.LinearOrder

namespace Mst
variable {K V D : Type}

/-! ### L2 -/

mutual
theorem hashBytes_erasePg (hc : HashCfg K V D) : (p : Pg K V D) → p.erase.hashBytes hc = p.hashBytes hc
  | .none => rfl
  | .some L c n h => by
    simp only [Pg.erase, Pg.hashBytes, hashBytes_eraseNd hc n, hashBytes_erasePg hc h]
theorem hashBytes_eraseNd (hc : HashCfg K V D) : (n : Nd K V D) → n.erase.hashBytes hc = n.hashBytes hc
  | .nil => rfl
  | .cons lt k v tl => by
    simp only [Nd.erase, Nd.hashBytes, hashBytes_erasePg hc lt, hashBytes_eraseNd hc tl]
end

theorem hashBytes_erase (hc : HashCfg K V D) (p : Pg K V D) : p.erase.hashBytes hc = p.hashBytes hc :=
  hashBytes_erasePg hc p

theorem trueHash_erase (hc : HashCfg K V D) (p : Pg K V D) : p.erase.trueHash hc = p.trueHash hc := by
  cases p with
  | none => rfl
  | some L c n h =>
    simp only [Pg.erase, Pg.trueHash, hashBytes_eraseNd hc n, hashBytes_erasePg hc h]

mutual
theorem content_erasePg : (p : Pg K V D) → p.erase.content = p.content
  | .none => rfl
  | .some L c n h => by
    simp only [Pg.erase, Pg.content, content_eraseNd n, content_erasePg h]
theorem content_eraseNd : (n : Nd K V D) → n.erase.content = n.content
  | .nil => rfl
  | .cons lt k v tl => by
    simp only [Nd.erase, Nd.content, content_erasePg lt, content_eraseNd tl]
end

theorem content_erase (p : Pg K V D) : p.erase.content = p.content := content_erasePg p

theorem Nd.erase_eq_nil (n : Nd K V D) : n.erase = .nil ↔ n = .nil := by
  cases n <;> simp [Nd.erase]

theorem Pg.erase_eq_none (p : Pg K V D) : p.erase = .none ↔ p = .none := by
  cases p <;> simp [Pg.erase]

mutual
theorem LvPg_erasePg (lvl : K → Nat) : (b : Nat) → (p : Pg K V D) → (LvPg lvl b p.erase ↔ LvPg lvl b p)
  | _, .none => Iff.rfl
  | b, .some L c n h => by
    simp only [Pg.erase, LvPg, LvPg_eraseNd lvl L n, LvPg_erasePg lvl L h, ne_eq, Nd.erase_eq_nil]
theorem LvPg_eraseNd (lvl : K → Nat) : (L : Nat) → (n : Nd K V D) → (LvNd lvl L n.erase ↔ LvNd lvl L n)
  | _, .nil => Iff.rfl
  | L, .cons lt k v tl => by
    simp only [Nd.erase, LvNd, LvPg_erasePg lvl L lt, LvPg_eraseNd lvl L tl]
end

theorem LvPg_erase (lvl : K → Nat) (b : Nat) (p : Pg K V D) : LvPg lvl b p.erase ↔ LvPg lvl b p :=
  LvPg_erasePg lvl b p

theorem LvRoot_erase (lvl : K → Nat) (p : Pg K V D) : LvRoot lvl p.erase ↔ LvRoot lvl p := by
  cases p with
  | none => exact Iff.rfl
  | some L c n h =>
    simp only [Pg.erase, LvRoot, LvPg_eraseNd lvl L n, LvPg_erasePg lvl L h, Nd.erase_eq_nil,
      Pg.erase_eq_none]

mutual
theorem clean_cacheOKPg (hc : HashCfg K V D) : (p : Pg K V D) → CleanPg hc p → CacheOKPg hc p
  | .none, _ => trivial
  | .some L c n h, hp => by
    have hp' := hp
    simp only [CleanPg] at hp'
    simp only [CacheOKPg]
    exact ⟨fun _ => hp, clean_cacheOKNd hc n hp'.2.1, clean_cacheOKPg hc h hp'.2.2⟩
theorem clean_cacheOKNd (hc : HashCfg K V D) : (n : Nd K V D) → CleanNd hc n → CacheOKNd hc n
  | .nil, _ => trivial
  | .cons lt k v tl, hn => by
    simp only [CleanNd] at hn
    simp only [CacheOKNd]
    exact ⟨clean_cacheOKPg hc lt hn.1, clean_cacheOKNd hc tl hn.2⟩
end

theorem clean_cacheOK (hc : HashCfg K V D) (p : Pg K V D) : CleanPg hc p → CacheOKPg hc p :=
  clean_cacheOKPg hc p

theorem clean_cache (hc : HashCfg K V D) (p : Pg K V D) : CleanPg hc p → p.cache? = p.trueHash hc := by
  cases p with
  | none => intro _; rfl
  | some L c n h =>
    intro hp
    simp only [CleanPg] at hp
    simp only [Pg.cache?, Pg.trueHash, hp.1]

theorem clean_cacheBytes (hc : HashCfg K V D) (p : Pg K V D) (hp : CleanPg hc p) :
    p.cacheBytes hc = p.hashBytes hc := by
  cases p with
  | none => rfl
  | some L c n h =>
    simp only [CleanPg] at hp
    rw [hp.1]
    simp only [Pg.cacheBytes, Pg.hashBytes]

theorem clean_bytes (hc : HashCfg K V D) : (n : Nd K V D) → CleanNd hc n → n.bytes hc = n.hashBytes hc
  | .nil, _ => rfl
  | .cons lt k v tl, hn => by
    simp only [CleanNd] at hn
    simp only [Nd.bytes, Nd.hashBytes, clean_cacheBytes hc lt hn.1, clean_bytes hc tl hn.2,
      List.append_assoc]

mutual
theorem genPg_specPg (hc : HashCfg K V D) : (p : Pg K V D) → CacheOKPg hc p →
    CleanPg hc (genPg hc p) ∧ (genPg hc p).erase = p.erase
  | .none, _ => by simp [genPg, CleanPg]
  | .some L (.some d) n h, hp => by
    simp only [CacheOKPg] at hp
    simp only [genPg]
    exact ⟨hp.1 (by simp), trivial⟩
  | .some L .none n h, hp => by
    simp only [CacheOKPg] at hp
    obtain ⟨hn1, hn2⟩ := genPg_specNd hc n hp.2.1
    obtain ⟨hh1, hh2⟩ := genPg_specPg hc h hp.2.2
    simp only [genPg, CleanPg, Pg.erase, hn2, hh2, clean_bytes hc _ hn1, clean_cacheBytes hc _ hh1]
    exact ⟨⟨trivial, hn1, hh1⟩, trivial⟩
theorem genPg_specNd (hc : HashCfg K V D) : (n : Nd K V D) → CacheOKNd hc n →
    CleanNd hc (genNd hc n) ∧ (genNd hc n).erase = n.erase
  | .nil, _ => by simp [genNd, CleanNd]
  | .cons lt k v tl, hn => by
    simp only [CacheOKNd] at hn
    obtain ⟨h1, h2⟩ := genPg_specPg hc lt hn.1
    obtain ⟨t1, t2⟩ := genPg_specNd hc tl hn.2
    simp only [genNd, CleanNd, Nd.erase, h2, t2]
    exact ⟨⟨h1, t1⟩, trivial⟩
end

/-- `maybe_generate_hash` on a cache-consistent subtree leaves every page cached with its true
digest and changes nothing but caches. -/
theorem genPg_spec (hc : HashCfg K V D) (p : Pg K V D) (h : CacheOKPg hc p) :
    CleanPg hc (genPg hc p) ∧ (genPg hc p).erase = p.erase :=
  genPg_specPg hc p h

mutual
theorem clean_eq_of_erase_eqPg (hc : HashCfg K V D) : (p q : Pg K V D) →
    CleanPg hc p → CleanPg hc q → p.erase = q.erase → p = q
  | .none, .none, _, _, _ => rfl
  | .none, .some .., _, _, h => by simp [Pg.erase] at h
  | .some .., .none, _, _, h => by simp [Pg.erase] at h
  | .some L c n h, .some L' c' n' h', hp, hq, he => by
    simp only [CleanPg] at hp hq
    simp only [Pg.erase, Pg.some.injEq, true_and] at he
    obtain ⟨hL, hn, hh⟩ := he
    have en := clean_eq_of_erase_eqNd hc n n' hp.2.1 hq.2.1 hn
    have eh := clean_eq_of_erase_eqPg hc h h' hp.2.2 hq.2.2 hh
    subst hL en eh
    rw [hp.1, hq.1]
theorem clean_eq_of_erase_eqNd (hc : HashCfg K V D) : (n m : Nd K V D) →
    CleanNd hc n → CleanNd hc m → n.erase = m.erase → n = m
  | .nil, .nil, _, _, _ => rfl
  | .nil, .cons .., _, _, h => by simp [Nd.erase] at h
  | .cons .., .nil, _, _, h => by simp [Nd.erase] at h
  | .cons lt k v tl, .cons lt' k' v' tl', hn, hm, he => by
    simp only [CleanNd] at hn hm
    simp only [Nd.erase, Nd.cons.injEq] at he
    obtain ⟨hl, hk, hv, ht⟩ := he
    have el := clean_eq_of_erase_eqPg hc lt lt' hn.1 hm.1 hl
    have et := clean_eq_of_erase_eqNd hc tl tl' hn.2 hm.2 ht
    subst hk hv el et
    rfl
end

/-- Two clean trees with the same erasure are identical (caches included). -/
theorem clean_eq_of_erase_eq (hc : HashCfg K V D) (p q : Pg K V D)
    (hp : CleanPg hc p) (hq : CleanPg hc q) (h : p.erase = q.erase) : p = q :=
  clean_eq_of_erase_eqPg hc p q hp hq h

theorem genRootHash_inv [LT K] (lvl : K → Nat) (hc : HashCfg K V D) (t : Tree K V D)
    (hinv : Inv lvl hc t) :
    Inv lvl hc (t.genRootHash hc) ∧
      (t.genRootHash hc).rootHash = t.root.trueHash hc ∧
      (t.genRootHash hc).rootHash.isSome ∧
      (t.genRootHash hc).root.erase = t.root.erase ∧
      CleanPg hc (t.genRootHash hc).root := by
  obtain ⟨hclean, herase⟩ := genPg_spec hc t.root hinv.cacheOK
  have hhash : (genPg hc t.root).cache? = t.root.trueHash hc := by
    rw [clean_cache hc _ hclean, ← trueHash_erase, herase, trueHash_erase]
  have hcontent : (genPg hc t.root).content = t.root.content := by
    rw [← content_erase, herase, content_erase]
  refine ⟨⟨?_, ?_, ?_, ?_⟩, hhash, ?_, herase, hclean⟩
  · show LvRoot lvl (genPg hc t.root)
    rw [← LvRoot_erase, herase, LvRoot_erase]
    exact hinv.shape
  · show (genPg hc t.root).Sorted
    have := hinv.sorted
    unfold Pg.Sorted Pg.keys at this ⊢
    rw [hcontent]; exact this
  · exact clean_cacheOK hc _ hclean
  · intro d hd; exact hd
  · show (genPg hc t.root).cache?.isSome
    rw [hhash]
    have := hinv.shape
    cases hr : t.root with
    | none => rw [hr] at this; exact absurd this (by simp [LvRoot])
    | some L c n h => simp [Pg.trueHash]

/-! ### L3: canonical form -/

/-- The first element satisfying `P` splits a list uniquely. -/
theorem List.split_unique {α : Type} (P : α → Prop) :
    ∀ (l1 l2 : List α) (a b : α) (r1 r2 : List α),
      (∀ x ∈ l1, ¬ P x) → (∀ x ∈ l2, ¬ P x) → P a → P b →
      l1 ++ a :: r1 = l2 ++ b :: r2 → l1 = l2 ∧ a = b ∧ r1 = r2
  | [], [], a, b, r1, r2, _, _, _, _, h => by
    simp only [List.nil_append, List.cons.injEq] at h
    exact ⟨rfl, h.1, h.2⟩
  | [], y :: l2, a, b, r1, r2, _, h2, ha, _, h => by
    simp only [List.nil_append, List.cons_append, List.cons.injEq] at h
    exact absurd (h.1 ▸ ha) (h2 y (List.mem_cons_self ..))
  | x :: l1, [], a, b, r1, r2, h1, _, _, hb, h => by
    simp only [List.nil_append, List.cons_append, List.cons.injEq] at h
    exact absurd (h.1 ▸ hb) (h1 x (List.mem_cons_self ..))
  | x :: l1, y :: l2, a, b, r1, r2, h1, h2, ha, hb, h => by
    simp only [List.cons_append, List.cons.injEq] at h
    obtain ⟨e1, e2, e3⟩ := List.split_unique P l1 l2 a b r1 r2
      (fun z hz => h1 z (List.mem_cons_of_mem _ hz))
      (fun z hz => h2 z (List.mem_cons_of_mem _ hz)) ha hb h.2
    exact ⟨by rw [h.1, e1], e2, e3⟩

mutual
theorem LvPg_content_lt (lvl : K → Nat) : (b : Nat) → (p : Pg K V D) → LvPg lvl b p →
    ∀ kv ∈ p.content, lvl kv.1 < b
  | _, .none, _, kv, hkv => by simp [Pg.content] at hkv
  | b, .some L c n h, hp, kv, hkv => by
    simp only [LvPg] at hp
    simp only [Pg.content, List.mem_append] at hkv
    rcases hkv with hkv | hkv
    · exact Nat.lt_of_le_of_lt (LvNd_content_le lvl L n hp.2.2.1 kv hkv) hp.1
    · exact Nat.lt_trans (LvPg_content_lt lvl L h hp.2.2.2 kv hkv) hp.1
theorem LvNd_content_le (lvl : K → Nat) : (L : Nat) → (n : Nd K V D) → LvNd lvl L n →
    ∀ kv ∈ n.content, lvl kv.1 ≤ L
  | _, .nil, _, kv, hkv => by simp [Nd.content] at hkv
  | L, .cons lt k v tl, hn, kv, hkv => by
    simp only [LvNd] at hn
    simp only [Nd.content, List.mem_append, List.mem_cons] at hkv
    rcases hkv with hkv | hkv | hkv
    · exact Nat.le_of_lt (LvPg_content_lt lvl L lt hn.1 kv hkv)
    · rw [hkv]; exact Nat.le_of_eq hn.2.1
    · exact LvNd_content_le lvl L tl hn.2.2 kv hkv
end

theorem LvPg_some_content_ne_nil (lvl : K → Nat) (b L : Nat) (c : Option D) (n : Nd K V D)
    (h : Pg K V D) (hp : LvPg lvl b (.some L c n h)) : (Pg.some L c n h).content ≠ [] := by
  simp only [LvPg] at hp
  cases n with
  | nil => exact absurd rfl hp.2.1
  | cons lt k v tl => simp [Pg.content, Nd.content]

/-- The level of a non-empty stratified page is determined by its content. -/
theorem LvPg_level_le (lvl : K → Nat) (b1 b2 L1 L2 : Nat) (c1 c2 : Option D) (n1 n2 : Nd K V D)
    (h1 h2 : Pg K V D) (hp : LvPg lvl b1 (.some L1 c1 n1 h1)) (hq : LvPg lvl b2 (.some L2 c2 n2 h2))
    (h : (Pg.some L1 c1 n1 h1).content = (Pg.some L2 c2 n2 h2).content) : L1 ≤ L2 := by
  have hp' := hp
  simp only [LvPg] at hp'
  cases n1 with
  | nil => exact absurd rfl hp'.2.1
  | cons lt k v tl =>
    have hk : lvl k = L1 := by
      have := hp'.2.2.1; simp only [LvNd] at this; exact this.2.1
    have hmem : (k, v) ∈ (Pg.some L1 c1 (.cons lt k v tl) h1).content := by
      simp [Pg.content, Nd.content]
    rw [h] at hmem
    have := LvPg_content_lt lvl (L2 + 1) (.some L2 c2 n2 h2)
      (by simp only [LvPg] at hq ⊢; exact ⟨Nat.lt_succ_self _, hq.2⟩) (k, v) hmem
    simp only at this
    omega

mutual
theorem shape_uniquePg (lvl : K → Nat) : (p q : Pg K V D) → (b1 b2 : Nat) →
    LvPg lvl b1 p → LvPg lvl b2 q → p.content = q.content → p.erase = q.erase
  | .none, .none, _, _, _, _, _ => rfl
  | .none, .some L c n h, _, b2, _, hq, he => by
    exact absurd he.symm (LvPg_some_content_ne_nil lvl b2 L c n h hq)
  | .some L c n h, .none, b1, _, hp, _, he => by
    exact absurd he (LvPg_some_content_ne_nil lvl b1 L c n h hp)
  | .some L1 c1 n1 h1, .some L2 c2 n2 h2, b1, b2, hp, hq, he => by
    have hL : L1 = L2 := Nat.le_antisymm
      (LvPg_level_le lvl b1 b2 L1 L2 c1 c2 n1 n2 h1 h2 hp hq he)
      (LvPg_level_le lvl b2 b1 L2 L1 c2 c1 n2 n1 h2 h1 hq hp he.symm)
    subst hL
    simp only [LvPg] at hp hq
    simp only [Pg.content] at he
    obtain ⟨en, eh⟩ := shape_uniqueNd lvl n1 n2 L1 h1.content h2.content hp.2.2.1 hq.2.2.1
      (LvPg_content_lt lvl L1 h1 hp.2.2.2) (LvPg_content_lt lvl L1 h2 hq.2.2.2) he
    have eh' := shape_uniquePg lvl h1 h2 L1 L1 hp.2.2.2 hq.2.2.2 eh
    simp only [Pg.erase, en, eh']
theorem shape_uniqueNd (lvl : K → Nat) : (n1 n2 : Nd K V D) → (L : Nat) → (r1 r2 : List (K × V)) →
    LvNd lvl L n1 → LvNd lvl L n2 → (∀ kv ∈ r1, lvl kv.1 < L) → (∀ kv ∈ r2, lvl kv.1 < L) →
    n1.content ++ r1 = n2.content ++ r2 → n1.erase = n2.erase ∧ r1 = r2
  | .nil, .nil, _, _, _, _, _, _, _, he => by
    simp only [Nd.content, List.nil_append] at he
    exact ⟨rfl, he⟩
  | .nil, .cons lt k v tl, L, r1, r2, _, h2, hr1, _, he => by
    simp only [LvNd] at h2
    have hmem : (k, v) ∈ r1 := by
      simp only [Nd.content, List.nil_append] at he
      rw [he]; simp
    have := hr1 _ hmem
    simp only at this
    omega
  | .cons lt k v tl, .nil, L, r1, r2, h1, _, _, hr2, he => by
    simp only [LvNd] at h1
    have hmem : (k, v) ∈ r2 := by
      simp only [Nd.content, List.nil_append] at he
      rw [← he]; simp
    have := hr2 _ hmem
    simp only at this
    omega
  | .cons lt1 k1 v1 tl1, .cons lt2 k2 v2 tl2, L, r1, r2, h1, h2, hr1, hr2, he => by
    simp only [LvNd] at h1 h2
    simp only [Nd.content, List.append_assoc, List.cons_append] at he
    obtain ⟨e1, e2, e3⟩ := List.split_unique (fun kv : K × V => lvl kv.1 = L)
      lt1.content lt2.content (k1, v1) (k2, v2) _ _
      (fun x hx => Nat.ne_of_lt (LvPg_content_lt lvl L lt1 h1.1 x hx))
      (fun x hx => Nat.ne_of_lt (LvPg_content_lt lvl L lt2 h2.1 x hx))
      h1.2.1 h2.2.1 he
    have elt := shape_uniquePg lvl lt1 lt2 L L h1.1 h2.1 e1
    obtain ⟨etl, er⟩ := shape_uniqueNd lvl tl1 tl2 L r1 r2 h1.2.2 h2.2.2 hr1 hr2 e3
    simp only [Prod.mk.injEq] at e2
    simp only [Nd.erase, elt, e2.1, e2.2, etl, er, and_self]
end

/-- Two level-stratified subtrees with the same in-order content have the same shape.
(Ordering is not needed: stratification and non-emptiness alone force the shape.) -/
theorem shape_unique (lvl : K → Nat) (b1 b2 : Nat) (p q : Pg K V D)
    (hp : LvPg lvl b1 p) (hq : LvPg lvl b2 q) (h : p.content = q.content) : p.erase = q.erase :=
  shape_uniquePg lvl p q b1 b2 hp hq h

theorem root_unique (lvl : K → Nat) (p q : Pg K V D)
    (hp : LvRoot lvl p) (hq : LvRoot lvl q) (h : p.content = q.content) : p.erase = q.erase := by
  cases p with
  | none => exact absurd hp (by simp [LvRoot])
  | some L1 c1 n1 h1 =>
  cases q with
  | none => exact absurd hq (by simp [LvRoot])
  | some L2 c2 n2 h2 =>
    simp only [LvRoot] at hp hq
    by_cases e1 : n1 = .nil
    · by_cases e2 : n2 = .nil
      · obtain ⟨a1, a2⟩ := hp.1 e1
        obtain ⟨a3, a4⟩ := hq.1 e2
        subst e1 e2 a1 a2 a3 a4
        rfl
      · obtain ⟨a1, a2⟩ := hp.1 e1
        subst e1 a1 a2
        have hq' : LvPg lvl (L2 + 1) (.some L2 c2 n2 h2) := by
          simp only [LvPg]; exact ⟨Nat.lt_succ_self _, e2, hq.2⟩
        exact absurd h.symm (LvPg_some_content_ne_nil lvl _ L2 c2 n2 h2 hq')
    · have hp' : LvPg lvl (L1 + 1) (.some L1 c1 n1 h1) := by
        simp only [LvPg]; exact ⟨Nat.lt_succ_self _, e1, hp.2⟩
      by_cases e2 : n2 = .nil
      · obtain ⟨a3, a4⟩ := hq.1 e2
        subst e2 a3 a4
        exact absurd h (LvPg_some_content_ne_nil lvl _ L1 c1 n1 h1 hp')
      · have hq' : LvPg lvl (L2 + 1) (.some L2 c2 n2 h2) := by
          simp only [LvPg]; exact ⟨Nat.lt_succ_self _, e2, hq.2⟩
        exact shape_unique lvl _ _ _ _ hp' hq' h

/-! ### L4: Merkle injectivity up to digest collisions -/

/-- The abstract pre-image of a page digest: per node (child digest if any, key, value digest),
then the high page's digest if any. -/
abbrev PageTok (K V D : Type) := List (Option D × K × V) × Option D

def Nd.toks (hc : HashCfg K V D) : Nd K V D → List (Option D × K × V)
  | .nil => []
  | .cons lt k v tl => (lt.trueHash hc, k, v) :: tl.toks hc

def optBytes (hc : HashCfg K V D) : Option D → List UInt8
  | none => []
  | some d => hc.db d

def encodeToks (hc : HashCfg K V D) : List (Option D × K × V) → List UInt8
  | [] => []
  | (c, k, v) :: r => optBytes hc c ++ (hc.kb k ++ (hc.vb v ++ encodeToks hc r))

/-- The byte stream fed to the page hasher for a pre-image. -/
def encodeTok (hc : HashCfg K V D) (t : PageTok K V D) : List UInt8 :=
  encodeToks hc t.1 ++ optBytes hc t.2

mutual
/-- The pre-images of all pages of a subtree. -/
def Pg.allToks (hc : HashCfg K V D) : Pg K V D → List (PageTok K V D)
  | .none => []
  | .some _ _ n h => (n.toks hc, h.trueHash hc) :: (n.allToks hc ++ h.allToks hc)
def Nd.allToks (hc : HashCfg K V D) : Nd K V D → List (PageTok K V D)
  | .nil => []
  | .cons lt _ _ tl => lt.allToks hc ++ tl.allToks hc
end

/-- No two *different* page pre-images among `S` receive the same digest. This is exactly
"up to collisions of the page digest": it also counts as a collision two different pre-images
whose byte encodings coincide (the encoding has no length prefixes). -/
def CollisionFree (hc : HashCfg K V D) (S : List (PageTok K V D)) : Prop :=
  ∀ a ∈ S, ∀ b ∈ S, hc.h (encodeTok hc a) = hc.h (encodeTok hc b) → a = b

theorem CollisionFree.mono (hc : HashCfg K V D) {S T : List (PageTok K V D)}
    (hST : ∀ x ∈ S, x ∈ T) (hT : CollisionFree hc T) : CollisionFree hc S :=
  fun a ha b hb e => hT a (hST a ha) b (hST b hb) e

theorem hashBytes_eq_optBytes (hc : HashCfg K V D) (p : Pg K V D) :
    p.hashBytes hc = optBytes hc (p.trueHash hc) := by
  cases p <;> simp [Pg.hashBytes, Pg.trueHash, optBytes]

theorem hashBytes_eq_encodeToks (hc : HashCfg K V D) :
    (n : Nd K V D) → n.hashBytes hc = encodeToks hc (n.toks hc)
  | .nil => rfl
  | .cons lt k v tl => by
    simp only [Nd.hashBytes, Nd.toks, encodeToks, hashBytes_eq_optBytes hc lt,
      hashBytes_eq_encodeToks hc tl]

theorem trueHash_eq_encode (hc : HashCfg K V D) (L : Nat) (c : Option D) (n : Nd K V D) (h : Pg K V D) :
    (Pg.some L c n h).trueHash hc = some (hc.h (encodeTok hc (n.toks hc, h.trueHash hc))) := by
  simp only [Pg.trueHash, encodeTok, hashBytes_eq_encodeToks hc n, hashBytes_eq_optBytes hc h]

mutual
theorem merkle_injPg (hc : HashCfg K V D) : (p q : Pg K V D) →
    CollisionFree hc (p.allToks hc ++ q.allToks hc) →
    p.trueHash hc = q.trueHash hc → p.content = q.content
  | .none, .none, _, _ => rfl
  | .none, .some .., _, h => by simp [Pg.trueHash] at h
  | .some .., .none, _, h => by simp [Pg.trueHash] at h
  | .some L1 c1 n1 h1, .some L2 c2 n2 h2, hcf, h => by
    rw [trueHash_eq_encode, trueHash_eq_encode, Option.some.injEq] at h
    have e := hcf _ (by simp [Pg.allToks]) _ (by simp [Pg.allToks]) h
    simp only [Prod.mk.injEq] at e
    have en := merkle_injNd hc n1 n2
      (hcf.mono hc (by intro x hx; simp only [Pg.allToks, List.mem_append, List.mem_cons] at hx ⊢; rcases hx with hx | hx <;> simp [hx]))
      e.1
    have eh := merkle_injPg hc h1 h2
      (hcf.mono hc (by intro x hx; simp only [Pg.allToks, List.mem_append, List.mem_cons] at hx ⊢; rcases hx with hx | hx <;> simp [hx]))
      e.2
    simp only [Pg.content, en, eh]
theorem merkle_injNd (hc : HashCfg K V D) : (n m : Nd K V D) →
    CollisionFree hc (n.allToks hc ++ m.allToks hc) →
    n.toks hc = m.toks hc → n.content = m.content
  | .nil, .nil, _, _ => rfl
  | .nil, .cons .., _, h => by simp [Nd.toks] at h
  | .cons .., .nil, _, h => by simp [Nd.toks] at h
  | .cons lt1 k1 v1 tl1, .cons lt2 k2 v2 tl2, hcf, h => by
    simp only [Nd.toks, List.cons.injEq, Prod.mk.injEq] at h
    obtain ⟨⟨el, ek, ev⟩, et⟩ := h
    have e1 := merkle_injPg hc lt1 lt2
      (hcf.mono hc (by intro x hx; simp only [Nd.allToks, List.mem_append] at hx ⊢; rcases hx with hx | hx <;> simp [hx])) el
    have e2 := merkle_injNd hc tl1 tl2
      (hcf.mono hc (by intro x hx; simp only [Nd.allToks, List.mem_append] at hx ⊢; rcases hx with hx | hx <;> simp [hx])) et
    simp only [Nd.content, e1, e2, ek, ev]
end

/-- Equal digests force equal content, for pages whose pre-images are collision free. -/
theorem merkle_inj (hc : HashCfg K V D) (p q : Pg K V D)
    (hcf : CollisionFree hc (p.allToks hc ++ q.allToks hc))
    (h : p.trueHash hc = q.trueHash hc) : p.content = q.content :=
  merkle_injPg hc p q hcf h

end Mst
