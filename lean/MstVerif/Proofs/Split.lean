/-
L1a: specification of `splitPg` (`split_off_lt`) under the tree invariants.
-/
import MstVerif.Proofs.Defs
import Mathlib.Order.Defs.LinearOrder

namespace Mst
variable {K V D : Type} [LinearOrder K]

/-- `split_off_lt` on a well-shaped, sorted, cache-consistent subtree not containing `key`:
never panics, partitions the in-order content at `key`, and both parts keep every invariant. -/
theorem splitPg_spec (lvl : K → Nat) (hc : HashCfg K V D) (key : K) (bound : Nat)
    (p : Pg K V D) (hlv : LvPg lvl bound p) (hs : p.Sorted) (hne : key ∉ p.keys)
    (hco : CacheOKPg hc p) :
    ∃ a b, splitPg key p = .ok (a, b) ∧
      p.content = a.content ++ b.content ∧
      (∀ k ∈ a.keys, k < key) ∧ (∀ k ∈ b.keys, key < k) ∧
      LvPg lvl bound a ∧ LvPg lvl bound b ∧ CacheOKPg hc a ∧ CacheOKPg hc b := by
  sorry

/-- When every key is already below `key` the split returns the page itself, untouched
(this is why the "second split" in `upsert_node` / `insert_intermediate_page` is a no-op). -/
theorem splitPg_all_lt (lvl : K → Nat) (key : K) (bound : Nat)
    (p : Pg K V D) (hlv : LvPg lvl bound p) (hlt : ∀ k ∈ p.keys, k < key) :
    splitPg key p = .ok (p, .none) := by
  sorry

end Mst
