/-
L1a: specification of `splitPg` (`split_off_lt`) under the tree invariants.
-/
import MstVerif.Proofs.Defs
import Mathlib.Order.Defs.LinearOrder
import Mathlib.Order.Basic

namespace Mst
variable {K V D : Type}

@[simp] theorem Pg.keys_none : (Pg.none : Pg K V D).keys = [] := by simp [Pg.keys, Pg.content]
@[simp] theorem Pg.keys_some (L : Nat) (c : Option D) (n : Nd K V D) (h : Pg K V D) :
    (Pg.some L c n h).keys = n.keys ++ h.keys := by simp [Pg.keys, Nd.keys, Pg.content]
@[simp] theorem Nd.keys_nil : (Nd.nil : Nd K V D).keys = [] := by simp [Nd.keys, Nd.content]
@[simp] theorem Nd.keys_cons (lt : Pg K V D) (k : K) (v : V) (tl : Nd K V D) :
    (Nd.cons lt k v tl).keys = lt.keys ++ k :: tl.keys := by simp [Pg.keys, Nd.keys, Nd.content]

theorem Nd.lastKey?_mem : ∀ n : Nd K V D, n ≠ .nil → ∃ k, n.lastKey? = some k ∧ k ∈ n.keys
  | .nil, h => absurd rfl h
  | .cons lt k v .nil, _ => ⟨k, by simp [Nd.lastKey?]⟩
  | .cons lt k v (.cons lt2 k2 v2 tl2), _ => by
    obtain ⟨k', h1, h2⟩ := Nd.lastKey?_mem (.cons lt2 k2 v2 tl2) (by simp)
    refine ⟨k', ?_, ?_⟩
    · simpa [Nd.lastKey?] using h1
    · rw [Nd.keys_cons]; simp only [List.mem_append, List.mem_cons]; right; right; exact h2

theorem Nd.firstKey?_mem : ∀ n : Nd K V D, n ≠ .nil → ∃ k, n.firstKey? = some k ∧ k ∈ n.keys
  | .nil, h => absurd rfl h
  | .cons lt k v tl, _ => ⟨k, by simp [Nd.firstKey?]⟩

theorem LvPg_mono (lvl : K → Nat) {b b' : Nat} (hbb : b ≤ b') :
    ∀ p : Pg K V D, LvPg lvl b p → LvPg lvl b' p
  | .none, _ => by simp [LvPg]
  | .some L c n h, hp => by
    simp only [LvPg] at hp ⊢
    exact ⟨by omega, hp.2⟩

section
variable [LinearOrder K]

theorem assertT_ok {site : String} {b : Bool} (h : b = true) : assertT site b = .ok () := by
  simp [assertT, h]

theorem assertKeyLt_last (site : String) (n : Nd K V D) (key : K) (hn : n ≠ .nil)
    (h : ∀ k ∈ n.keys, k < key) : assertKeyLt site n.lastKey? key = .ok () := by
  obtain ⟨k, h1, h2⟩ := Nd.lastKey?_mem n hn
  simp [assertKeyLt, h1, h k h2]

theorem assertKeyGt_last (site : String) (n : Nd K V D) (key : K) (hn : n ≠ .nil)
    (h : ∀ k ∈ n.keys, key < k) : assertKeyGt site n.lastKey? key = .ok () := by
  obtain ⟨k, h1, h2⟩ := Nd.lastKey?_mem n hn
  simp [assertKeyGt, h1, h k h2]

theorem assertKeyGt_first (site : String) (n : Nd K V D) (key : K) (hn : n ≠ .nil)
    (h : ∀ k ∈ n.keys, key < k) : assertKeyGt site n.firstKey? key = .ok () := by
  obtain ⟨k, h1, h2⟩ := Nd.firstKey?_mem n hn
  simp [assertKeyGt, h1, h k h2]

theorem splitPg_step_allLt (key : K) (L : Nat) (c : Option D) (n : Nd K V D) (h a b : Pg K V D)
    (hn : n ≠ .nil) (h1 : splitNd key n = .ok .allLt)
    (h2 : assertKeyLt "page.rs:397" n.lastKey? key = .ok ())
    (h3 : splitPg key h = .ok (a, b)) :
    splitPg key (.some L c n h) = .ok (.some L (if b.isSome then Option.none else c) n a, b) := by
  cases n with
  | nil => exact absurd rfl hn
  | cons lt k v tl =>
    rw [splitPg.eq_def]
    simp only [h1, h2, h3]

theorem splitPg_step_atHead (key : K) (L : Nat) (c : Option D) (n g : Nd K V D) (h a : Pg K V D)
    (hn : n ≠ .nil) (h1 : splitNd key n = .ok (.atHead a g))
    (h2 : assertKeyGt "page.rs:377" n.firstKey? key = .ok ()) :
    splitPg key (.some L c n h) =
      .ok (a, .some L (if a.isSome then Option.none else c) g h) := by
  cases n with
  | nil => exact absurd rfl hn
  | cons lt k v tl =>
    rw [splitPg.eq_def]
    simp only [h1, h2]

theorem splitPg_step_mid (key : K) (L : Nat) (c : Option D) (n l g : Nd K V D) (h a : Pg K V D)
    (hn : n ≠ .nil) (h1 : splitNd key n = .ok (.mid l a g))
    (h2 : assertKeyGt "page.rs:450" g.lastKey? key = .ok ())
    (h3 : ∀ Lh ch nh hh, h = .some Lh ch nh hh →
        nh ≠ .nil ∧ Lh < L ∧ assertKeyGt "page.rs:457" nh.firstKey? key = .ok ())
    (h4 : assertKeyLt "page.rs:474" l.lastKey? key = .ok ())
    (h5 : ∀ La ca na ha, a = .some La ca na ha →
        na ≠ .nil ∧ La < L ∧ assertKeyLt "page.rs:479" na.lastKey? key = .ok ()) :
    splitPg key (.some L c n h) = .ok (.some L Option.none l a, .some L Option.none g h) := by
  cases n with
  | nil => exact absurd rfl hn
  | cons lt k v tl =>
    rw [splitPg.eq_def]
    simp only [h1, h2, h4]
    cases h with
    | none =>
      cases a with
      | none => rfl
      | some La ca na ha =>
        obtain ⟨r1, r2, r3⟩ := h5 La ca na ha rfl
        cases na with
        | nil => exact absurd rfl r1
        | cons => simp [assertT, r2, r3, Nd.isNil]
    | some Lh ch nh hh =>
      obtain ⟨q1, q2, q3⟩ := h3 Lh ch nh hh rfl
      cases nh with
      | nil => exact absurd rfl q1
      | cons =>
        cases a with
        | none => simp [assertT, q2, q3, Nd.isNil]
        | some La ca na ha =>
          obtain ⟨r1, r2, r3⟩ := h5 La ca na ha rfl
          cases na with
          | nil => exact absurd rfl r1
          | cons => simp [assertT, q2, q3, r2, r3, Nd.isNil]


/-- What `splitNd` returns, under the invariants. -/
def SplitNdSpec (lvl : K → Nat) (hc : HashCfg K V D) (key : K) (L : Nat) (n : Nd K V D) :
    SplitRes K V D → Prop
  | .allLt => ∀ k ∈ n.keys, k < key
  | .atHead a g =>
      n.content = a.content ++ g.content ∧ g ≠ .nil ∧ n.firstKey? = g.firstKey? ∧
      (∀ k ∈ a.keys, k < key) ∧ (∀ k ∈ g.keys, key < k) ∧
      LvPg lvl L a ∧ LvNd lvl L g ∧ CacheOKPg hc a ∧ CacheOKNd hc g ∧ (a = .none → g = n)
  | .mid l a g =>
      n.content = l.content ++ (a.content ++ g.content) ∧ l ≠ .nil ∧ g ≠ .nil ∧
      (∀ k ∈ l.keys, k < key) ∧ (∀ k ∈ a.keys, k < key) ∧ (∀ k ∈ g.keys, key < k) ∧
      LvNd lvl L l ∧ LvPg lvl L a ∧ LvNd lvl L g ∧
      CacheOKNd hc l ∧ CacheOKPg hc a ∧ CacheOKNd hc g

mutual
theorem splitPg_spec' (lvl : K → Nat) (hc : HashCfg K V D) (key : K) :
    ∀ (p : Pg K V D) (bound : Nat), LvPg lvl bound p → p.Sorted → key ∉ p.keys →
      CacheOKPg hc p →
      ∃ a b, splitPg key p = .ok (a, b) ∧
        p.content = a.content ++ b.content ∧
        (∀ k ∈ a.keys, k < key) ∧ (∀ k ∈ b.keys, key < k) ∧
        LvPg lvl bound a ∧ LvPg lvl bound b ∧ CacheOKPg hc a ∧ CacheOKPg hc b ∧
        (a = .none → b = p) ∧ (b = .none → a = p)
  | .none, bound, _, _, _, _ => by
    refine ⟨.none, .none, by simp [splitPg], ?_⟩
    simp [Pg.content, LvPg, CacheOKPg]
  | .some L c n h, bound, hlv, hs, hne, hco => by
    simp only [LvPg] at hlv
    obtain ⟨hLb, hnn, hlvn, hlvh⟩ := hlv
    simp only [Pg.Sorted, Pg.keys_some, List.pairwise_append] at hs
    obtain ⟨hsn, hsh, hnh⟩ := hs
    simp only [Pg.keys_some, List.mem_append, not_or] at hne
    simp only [CacheOKPg] at hco
    obtain ⟨hcc, hcn, hch⟩ := hco
    obtain ⟨r, hr, hspec⟩ := splitNd_spec' lvl hc key n L hlvn hsn hne.1 hcn
    cases r with
    | allLt =>
      simp only [SplitNdSpec] at hspec
      obtain ⟨a, b, hab, hcont, ha, hb, hlva, hlvb, hca, hcb, hnone1, hnone2⟩ :=
        splitPg_spec' lvl hc key h L hlvh hsh hne.2 hch
      refine ⟨_, _, splitPg_step_allLt key L c n h a b hnn hr
        (assertKeyLt_last _ n key hnn hspec) hab, ?_⟩
      refine ⟨by simp [Pg.content, hcont], ?_, hb, ?_, LvPg_mono lvl (by omega) b hlvb, ?_, hcb,
        by simp, ?_⟩
      · intro k hk
        simp only [Pg.keys_some, List.mem_append] at hk
        rcases hk with hk | hk
        · exact hspec k hk
        · exact ha k hk
      · simp only [LvPg]; exact ⟨hLb, hnn, hlvn, hlva⟩
      · cases b with
        | none =>
          have := hnone2 rfl
          subst this
          simp only [Pg.isSome, Bool.false_eq_true, if_false, CacheOKPg]
          exact ⟨hcc, hcn, hch⟩
        | some =>
          simp only [Pg.isSome, if_true, CacheOKPg]
          exact ⟨by simp, hcn, hca⟩
      · intro hb0
        have := hnone2 hb0
        subst this; subst hb0
        simp [Pg.isSome]
    | atHead a g =>
      simp only [SplitNdSpec] at hspec
      obtain ⟨hcont, hgn, hfirst, ha, hg, hlva, hlvg, hca, hcg, hnone⟩ := hspec
      have hkeys : n.keys = a.keys ++ g.keys := by simp [Pg.keys, Nd.keys, hcont]
      obtain ⟨k0, hk0, hk0m⟩ := Nd.firstKey?_mem g hgn
      have hk0n : k0 ∈ n.keys := by rw [hkeys]; exact List.mem_append_right _ hk0m
      have hhigh : ∀ k ∈ h.keys, key < k := fun k hk =>
        lt_trans (hg k0 hk0m) (hnh k0 hk0n k hk)
      refine ⟨_, _, splitPg_step_atHead key L c n g h a hnn hr
        (by rw [hfirst]; exact assertKeyGt_first _ g key hgn hg), ?_⟩
      refine ⟨by simp [Pg.content, hcont], ha, ?_, LvPg_mono lvl (by omega) a hlva, ?_, hca, ?_,
        ?_, by simp⟩
      · intro k hk
        simp only [Pg.keys_some, List.mem_append] at hk
        rcases hk with hk | hk
        · exact hg k hk
        · exact hhigh k hk
      · simp only [LvPg]; exact ⟨hLb, hgn, hlvg, hlvh⟩
      · cases a with
        | none =>
          have := hnone rfl
          subst this
          simp only [Pg.isSome, Bool.false_eq_true, if_false, CacheOKPg]
          exact ⟨hcc, hcn, hch⟩
        | some =>
          simp only [Pg.isSome, if_true, CacheOKPg]
          exact ⟨by simp, hcg, hch⟩
      · intro ha0
        have := hnone ha0
        subst this; subst ha0
        simp [Pg.isSome]
    | mid l a g =>
      simp only [SplitNdSpec] at hspec
      obtain ⟨hcont, hln, hgn, hl, ha, hg, hlvl, hlva, hlvg, hcl, hca, hcg⟩ := hspec
      have hkeys : n.keys = l.keys ++ (a.keys ++ g.keys) := by simp [Pg.keys, Nd.keys, hcont]
      obtain ⟨k0, hk0, hk0m⟩ := Nd.firstKey?_mem g hgn
      have hk0n : k0 ∈ n.keys := by
        rw [hkeys]; exact List.mem_append_right _ (List.mem_append_right _ hk0m)
      have hhigh : ∀ k ∈ h.keys, key < k := fun k hk =>
        lt_trans (hg k0 hk0m) (hnh k0 hk0n k hk)
      refine ⟨_, _, splitPg_step_mid key L c n l g h a hnn hr
        (assertKeyGt_last _ g key hgn hg) ?_ (assertKeyLt_last _ l key hln hl) ?_, ?_⟩
      · intro Lh ch nh hh e
        subst e
        simp only [LvPg] at hlvh
        refine ⟨hlvh.2.1, hlvh.1, assertKeyGt_first _ nh key hlvh.2.1 ?_⟩
        intro k hk
        exact hhigh k (by simp [hk])
      · intro La ca na ha' e
        subst e
        simp only [LvPg] at hlva
        refine ⟨hlva.2.1, hlva.1, assertKeyLt_last _ na key hlva.2.1 ?_⟩
        intro k hk
        exact ha k (by simp [hk])
      refine ⟨by simp [Pg.content, hcont], ?_, ?_, ?_, ?_, ?_, ?_, by simp, by simp⟩
      · intro k hk
        simp only [Pg.keys_some, List.mem_append] at hk
        rcases hk with hk | hk
        · exact hl k hk
        · exact ha k hk
      · intro k hk
        simp only [Pg.keys_some, List.mem_append] at hk
        rcases hk with hk | hk
        · exact hg k hk
        · exact hhigh k hk
      · simp only [LvPg]; exact ⟨hLb, hln, hlvl, hlva⟩
      · simp only [LvPg]; exact ⟨hLb, hgn, hlvg, hlvh⟩
      · simp only [CacheOKPg]; exact ⟨by simp, hcl, hca⟩
      · simp only [CacheOKPg]; exact ⟨by simp, hcg, hch⟩
theorem splitNd_spec' (lvl : K → Nat) (hc : HashCfg K V D) (key : K) :
    ∀ (n : Nd K V D) (L : Nat), LvNd lvl L n → n.Sorted → key ∉ n.keys → CacheOKNd hc n →
      ∃ r, splitNd key n = .ok r ∧ SplitNdSpec lvl hc key L n r
  | .nil, L, _, _, _, _ => ⟨.allLt, by simp [splitNd], by simp [SplitNdSpec]⟩
  | .cons lt k v tl, L, hlv, hs, hne, hco => by
    simp only [LvNd] at hlv
    obtain ⟨hlvlt, hlvk, hlvtl⟩ := hlv
    simp only [Nd.Sorted, Nd.keys_cons, List.pairwise_append, List.pairwise_cons] at hs
    obtain ⟨hslt, ⟨hktl, hstl⟩, hltk⟩ := hs
    simp only [Nd.keys_cons, List.mem_append, List.mem_cons, not_or] at hne
    obtain ⟨hnelt, hnek, hnetl⟩ := hne
    simp only [CacheOKNd] at hco
    obtain ⟨hclt, hctl⟩ := hco
    by_cases hle : key ≤ k
    · have hlt : key < k := lt_of_le_of_ne hle hnek
      obtain ⟨a, b, hab, hcont, ha, hb, hlva, hlvb, hca, hcb, hnone1, hnone2⟩ :=
        splitPg_spec' lvl hc key lt L hlvlt hslt hnelt hclt
      refine ⟨.atHead a (.cons b k v tl), by simp [splitNd, hle, hab], ?_⟩
      simp only [SplitNdSpec]
      refine ⟨by simp [Nd.content, hcont], by simp, by simp [Nd.firstKey?], ha, ?_, hlva, ?_, hca,
        ?_, ?_⟩
      · intro k' hk'
        simp only [Nd.keys_cons, List.mem_append, List.mem_cons] at hk'
        rcases hk' with hk' | hk' | hk'
        · exact hb k' hk'
        · rw [hk']; exact hlt
        · exact lt_trans hlt (hktl k' hk')
      · simp only [LvNd]; exact ⟨hlvb, hlvk, hlvtl⟩
      · simp only [CacheOKNd]; exact ⟨hcb, hctl⟩
      · intro ha0; rw [hnone1 ha0]
    · have hlt : k < key := not_le.mp hle
      have hltkey : ∀ k' ∈ lt.keys, k' < key := fun k' hk' =>
        lt_trans (hltk k' hk' k (by simp)) hlt
      obtain ⟨r, hr, hspec⟩ := splitNd_spec' lvl hc key tl L hlvtl hstl hnetl hctl
      cases r with
      | allLt =>
        refine ⟨.allLt, by simp [splitNd, hle, hr], ?_⟩
        simp only [SplitNdSpec] at hspec ⊢
        intro k' hk'
        simp only [Nd.keys_cons, List.mem_append, List.mem_cons] at hk'
        rcases hk' with hk' | hk' | hk'
        · exact hltkey k' hk'
        · rw [hk']; exact hlt
        · exact hspec k' hk'
      | atHead a g =>
        refine ⟨.mid (.cons lt k v .nil) a g, by simp [splitNd, hle, hr], ?_⟩
        simp only [SplitNdSpec] at hspec ⊢
        obtain ⟨hcont, hgn, hfirst, ha, hg, hlva, hlvg, hca, hcg, hnone⟩ := hspec
        refine ⟨by simp [Nd.content, hcont], by simp, hgn, ?_, ha, hg, ?_, hlva, hlvg, ?_, hca, hcg⟩
        · intro k' hk'
          simp only [Nd.keys_cons, Nd.keys_nil, List.mem_append, List.mem_cons,
            List.not_mem_nil, or_false] at hk'
          rcases hk' with hk' | hk'
          · exact hltkey k' hk'
          · rw [hk']; exact hlt
        · simp only [LvNd]; exact ⟨hlvlt, hlvk, trivial⟩
        · simp only [CacheOKNd]; exact ⟨hclt, trivial⟩
      | mid l a g =>
        refine ⟨.mid (.cons lt k v l) a g, by simp [splitNd, hle, hr], ?_⟩
        simp only [SplitNdSpec] at hspec ⊢
        obtain ⟨hcont, hln, hgn, hl, ha, hg, hlvl, hlva, hlvg, hcl, hca, hcg⟩ := hspec
        refine ⟨by simp [Nd.content, hcont], by simp, hgn, ?_, ha, hg, ?_, hlva, hlvg, ?_, hca, hcg⟩
        · intro k' hk'
          simp only [Nd.keys_cons, List.mem_append, List.mem_cons] at hk'
          rcases hk' with hk' | hk' | hk'
          · exact hltkey k' hk'
          · rw [hk']; exact hlt
          · exact hl k' hk'
        · simp only [LvNd]; exact ⟨hlvlt, hlvk, hlvl⟩
        · simp only [CacheOKNd]; exact ⟨hclt, hcl⟩
end

/-- `split_off_lt` on a well-shaped, sorted, cache-consistent subtree not containing `key`:
never panics, partitions the in-order content at `key`, and both parts keep every invariant. -/
theorem splitPg_spec (lvl : K → Nat) (hc : HashCfg K V D) (key : K) (bound : Nat)
    (p : Pg K V D) (hlv : LvPg lvl bound p) (hs : p.Sorted) (hne : key ∉ p.keys)
    (hco : CacheOKPg hc p) :
    ∃ a b, splitPg key p = .ok (a, b) ∧
      p.content = a.content ++ b.content ∧
      (∀ k ∈ a.keys, k < key) ∧ (∀ k ∈ b.keys, key < k) ∧
      LvPg lvl bound a ∧ LvPg lvl bound b ∧ CacheOKPg hc a ∧ CacheOKPg hc b := by
  obtain ⟨a, b, h1, h2, h3, h4, h5, h6, h7, h8, _⟩ := splitPg_spec' lvl hc key p bound hlv hs hne hco
  exact ⟨a, b, h1, h2, h3, h4, h5, h6, h7, h8⟩

theorem splitNd_all_lt (key : K) : ∀ (n : Nd K V D), (∀ k ∈ n.keys, k < key) →
    splitNd key n = .ok .allLt
  | .nil, _ => by simp [splitNd]
  | .cons lt k v tl, h => by
    have hk : k < key := h k (by simp)
    have := splitNd_all_lt key tl (fun k' hk' => h k' (by simp [hk']))
    simp [splitNd, not_le.mpr hk, this]

theorem splitPg_all_lt' (lvl : K → Nat) (key : K) : ∀ (p : Pg K V D) (bound : Nat),
    LvPg lvl bound p → (∀ k ∈ p.keys, k < key) → splitPg key p = .ok (p, .none)
  | .none, _, _, _ => by simp [splitPg]
  | .some L c n h, bound, hlv, hlt => by
    simp only [LvPg] at hlv
    obtain ⟨_, hnn, _, hlvh⟩ := hlv
    have hn : ∀ k ∈ n.keys, k < key := fun k hk => hlt k (by simp [hk])
    have hh : ∀ k ∈ h.keys, k < key := fun k hk => hlt k (by simp [hk])
    have := splitPg_step_allLt key L c n h h .none hnn (splitNd_all_lt key n hn)
      (assertKeyLt_last _ n key hnn hn) (splitPg_all_lt' lvl key h L hlvh hh)
    simpa [Pg.isSome] using this

/-- When every key is already below `key` the split returns the page itself, untouched
(this is why the "second split" in `upsert_node` / `insert_intermediate_page` is a no-op). -/
theorem splitPg_all_lt (lvl : K → Nat) (key : K) (bound : Nat)
    (p : Pg K V D) (hlv : LvPg lvl bound p) (hlt : ∀ k ∈ p.keys, k < key) :
    splitPg key p = .ok (p, .none) :=
  splitPg_all_lt' lvl key p bound hlv hlt

end
end Mst
