/-
Specification vocabulary shared by all proofs: in-order keys, the level/shape invariant,
the cache invariants, the cache-free ("true") Merkle hash, erasure of caches, and the
abstract map semantics of `upsert`.
-/
import MstVerif.Model.Tree
import MstVerif.Model.Traverse
import MstVerif.Model.Diff

namespace Mst
variable {K V D : Type}

/-- In-order keys of a page's whole subtree. -/
def Pg.keys (p : Pg K V D) : List K := p.content.map Prod.fst
def Nd.keys (n : Nd K V D) : List K := n.content.map Prod.fst

/-- In-order keys strictly ascending. -/
def Pg.Sorted [LT K] (p : Pg K V D) : Prop := p.keys.Pairwise (· < ·)
def Nd.Sorted [LT K] (n : Nd K V D) : Prop := n.keys.Pairwise (· < ·)

mutual
/-- Level stratification below `bound`: every page non-empty, strictly below its parent's level,
    every key on the page whose level is the key's own level. -/
def LvPg (lvl : K → Nat) (bound : Nat) : Pg K V D → Prop
  | .none => True
  | .some L _ n h => L < bound ∧ n ≠ .nil ∧ LvNd lvl L n ∧ LvPg lvl L h
def LvNd (lvl : K → Nat) (L : Nat) : Nd K V D → Prop
  | .nil => True
  | .cons lt k _ tl => LvPg lvl L lt ∧ lvl k = L ∧ LvNd lvl L tl
end

/-- The root page: always present; may be empty only as `Page::new(0, [])` without a high page. -/
def LvRoot (lvl : K → Nat) : Pg K V D → Prop
  | .none => False
  | .some L _ n h => (n = .nil → L = 0 ∧ h = .none) ∧ LvNd lvl L n ∧ LvPg lvl L h

mutual
/-- What a parent page writes into its hasher for this child once the child's digest is
    up to date — computed from scratch, ignoring every cache. -/
def Pg.hashBytes (hc : HashCfg K V D) : Pg K V D → List UInt8
  | .none => []
  | .some _ _ n h => hc.db (hc.h (n.hashBytes hc ++ h.hashBytes hc))
def Nd.hashBytes (hc : HashCfg K V D) : Nd K V D → List UInt8
  | .nil => []
  | .cons lt k v tl => lt.hashBytes hc ++ (hc.kb k ++ (hc.vb v ++ tl.hashBytes hc))
end

/-- The cache-free ("true") digest of a page: the digest a freshly hashed tree reports. -/
def Pg.trueHash (hc : HashCfg K V D) : Pg K V D → Option D
  | .none => Option.none
  | .some _ _ n h => Option.some (hc.h (n.hashBytes hc ++ h.hashBytes hc))

mutual
/-- Every page of the subtree carries a cached digest and it is the true one. -/
def CleanPg (hc : HashCfg K V D) : Pg K V D → Prop
  | .none => True
  | .some _ c n h => c = Option.some (hc.h (n.hashBytes hc ++ h.hashBytes hc)) ∧ CleanNd hc n ∧ CleanPg hc h
def CleanNd (hc : HashCfg K V D) : Nd K V D → Prop
  | .nil => True
  | .cons lt _ _ tl => CleanPg hc lt ∧ CleanNd hc tl
end

mutual
/-- The lazy-hashing invariant: a page that carries a cached digest is clean, together with its
    whole subtree (this downward closure is what the early return of `maybe_generate_hash` and the
    `expect` in `PageRange::from` rely on). -/
def CacheOKPg (hc : HashCfg K V D) : Pg K V D → Prop
  | .none => True
  | .some L c n h => (c.isSome → CleanPg hc (.some L c n h)) ∧ CacheOKNd hc n ∧ CacheOKPg hc h
def CacheOKNd (hc : HashCfg K V D) : Nd K V D → Prop
  | .nil => True
  | .cons lt _ _ tl => CacheOKPg hc lt ∧ CacheOKNd hc tl
end

mutual
/-- Forget every cached digest. -/
def Pg.erase : Pg K V D → Pg K V D
  | .none => .none
  | .some L _ n h => .some L Option.none n.erase h.erase
def Nd.erase : Nd K V D → Nd K V D
  | .nil => .nil
  | .cons lt k v tl => .cons lt.erase k v tl.erase
end

/-- Map semantics of an upsert on a key-ascending association list. -/
def insertKV [LT K] [DecidableLT K] [DecidableEq K] (k : K) (v : V) : List (K × V) → List (K × V)
  | [] => [(k, v)]
  | (k', v') :: rest =>
    if k < k' then (k, v) :: (k', v') :: rest
    else if k = k' then (k, v) :: rest
    else (k', v') :: insertKV k v rest

/-- The tree invariant (DESIGN §6). `lvl` is the level the configured hasher and base give a key. -/
structure Inv [LT K] (lvl : K → Nat) (hc : HashCfg K V D) (t : Tree K V D) : Prop where
  shape : LvRoot lvl t.root
  sorted : t.root.Sorted
  cacheOK : CacheOKPg hc t.root
  rootHash : ∀ d, t.rootHash = some d → t.root.cache? = some d

end Mst
