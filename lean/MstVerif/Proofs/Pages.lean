/-
L5b: sub-pages of a sorted, level-stratified tree: every page's subtree content is a contiguous
segment of the in-order content, spans nest, no proper descendant spans the root, siblings are
disjoint and ascending. These tie the serialised page ranges to the tree (C11) and carry the
tree-level diff theorems (C04, C07, C08, C12).
-/
import MstVerif.Proofs.Hash
import MstVerif.Proofs.Traverse

namespace Mst
variable {K V D : Type} [LinearOrder K]

/-- Every page listed by `preorder` is a real (`some`) page. -/
theorem preorder_isSome (p q : Pg K V D) (hq : q ∈ p.preorder) : q.isSome = true := by
  sorry

/-- The root (if present) is the first page of its own pre-order. -/
theorem preorder_head (L : Nat) (c : Option D) (n : Nd K V D) (h : Pg K V D) :
    (Pg.some L c n h).preorder.head? = some (Pg.some L c n h) := by
  sorry

/-- Sub-pages inherit stratification (with some bound), non-emptiness and cleanliness. -/
theorem preorder_Lv (lvl : K → Nat) (b : Nat) (p q : Pg K V D) (hlv : LvPg lvl b p)
    (hq : q ∈ p.preorder) : ∃ b', LvPg lvl b' q := by
  sorry

theorem preorder_clean (hc : HashCfg K V D) (p q : Pg K V D) (hcl : CleanPg hc p)
    (hq : q ∈ p.preorder) : CleanPg hc q := by
  sorry

/-- The subtree content of a sub-page is a contiguous segment of the whole in-order content. -/
theorem preorder_infix (p q : Pg K V D) (hq : q ∈ p.preorder) :
    ∃ pre suf, p.content = pre ++ q.content ++ suf := by
  sorry

/-- In a sorted tree, every entry of the whole tree whose key lies between the smallest and the
largest key of a sub-page belongs to that sub-page. -/
theorem preorder_contiguous (p q : Pg K V D) (hs : p.Sorted) (hq : q ∈ p.preorder)
    (a b : K × V) (ha : q.content.head? = some a) (hb : q.content.getLast? = some b)
    (kv : K × V) (hkv : kv ∈ p.content) (h1 : a.1 ≤ kv.1) (h2 : kv.1 ≤ b.1) : kv ∈ q.content := by
  sorry

/-- A key occurs at most once in a sorted tree: membership determines the value. -/
theorem sorted_lookup_unique (p : Pg K V D) (hs : p.Sorted) (k : K) (v w : V)
    (h1 : (k, v) ∈ p.content) (h2 : (k, w) ∈ p.content) : v = w := by
  sorry

/-- The page pre-images of a sub-page are among those of the whole tree. -/
theorem preorder_allToks (hc : HashCfg K V D) (p q : Pg K V D) (hq : q ∈ p.preorder) :
    ∀ t ∈ q.allToks hc, t ∈ p.allToks hc := by
  sorry

/-- `rangeOf` of a well-shaped page: it exists and its bounds are the first and last key. -/
theorem rangeOf_some (lvl : K → Nat) (hc : HashCfg K V D) (b : Nat) (q : Pg K V D)
    (hlv : LvPg lvl b q) (hq : q.isSome = true) :
    ∃ a z d, q.content.head? = some a ∧ q.content.getLast? = some z ∧ q.trueHash hc = some d ∧
      rangeOf hc q = some { start := a.1, end_ := z.1, hash := d } := by
  sorry

/-- Spans nest: the span of a sub-page lies inside the span of the page it is listed under. -/
theorem preorder_nested (lvl : K → Nat) (hc : HashCfg K V D) (b : Nat) (p q : Pg K V D)
    (hlv : LvPg lvl b p) (hs : p.Sorted) (hq : q ∈ p.preorder)
    (rp rq : PR K D) (hrp : rangeOf hc p = some rp) (hrq : rangeOf hc q = some rq) :
    rp.start ≤ rq.start ∧ rq.end_ ≤ rp.end_ := by
  sorry

/-- No proper descendant spans the whole page (so the diff's "shrink local range" loop never
replaces a page by one of its descendants when comparing equal spans). -/
theorem descendant_not_superset (lvl : K → Nat) (hc : HashCfg K V D) (b : Nat)
    (L : Nat) (c : Option D) (n : Nd K V D) (h : Pg K V D)
    (hlv : LvPg lvl b (.some L c n h)) (hs : (Pg.some L c n h).Sorted)
    (q : Pg K V D) (hq : q ∈ n.preorder ++ h.preorder)
    (rp rq : PR K D) (hrp : rangeOf hc (.some L c n h) = some rp) (hrq : rangeOf hc q = some rq) :
    ¬ (rq.start ≤ rp.start ∧ rp.end_ ≤ rq.end_) := by
  sorry

/-- Direct children of a page, in traversal order: the `lt` child of each node, then the high page. -/
def Nd.children : Nd K V D → List (Pg K V D)
  | .nil => []
  | .cons lt _ _ tl => (match lt with | .none => [] | .some .. => [lt]) ++ tl.children

def Pg.children : Pg K V D → List (Pg K V D)
  | .none => []
  | .some _ _ n h => n.children ++ (match h with | .none => [] | .some .. => [h])

/-- Sibling spans are disjoint and ascending. -/
theorem siblings_chain (lvl : K → Nat) (hc : HashCfg K V D) (b : Nat) (p : Pg K V D)
    (hlv : LvPg lvl b p) (hs : p.Sorted) :
    (p.children.filterMap (rangeOf hc)).Pairwise (fun r s => r.end_ < s.start) := by
  sorry

mutual
def Pg.pageCount : Pg K V D → Nat
  | .none => 0
  | .some _ _ n h => 1 + n.pageCount + h.pageCount
def Nd.pageCount : Nd K V D → Nat
  | .nil => 0
  | .cons lt _ _ tl => lt.pageCount + tl.pageCount
end

/-- The pre-order lists every page exactly once (as many entries as there are pages). -/
theorem preorder_length (p : Pg K V D) : p.preorder.length = p.pageCount := by
  sorry

end Mst
