/-
L5b: sub-pages of a sorted, level-stratified tree: every page's subtree content is a contiguous
segment of the in-order content, spans nest, no proper descendant spans the root, siblings are
disjoint and ascending. These tie the serialised page ranges to the tree (C11) and carry the
tree-level diff theorems (C04, C07, C08, C12).
-/
import MstVerif.Proofs.Hash
import MstVerif.Proofs.Traverse

set_option linter.unusedSectionVars false
set_option linter.unusedVariables false

namespace Mst
variable {K V D : Type} [LinearOrder K]

/-! ### List toolkit: strictly key-ascending association lists -/

/-- Keys strictly ascending, stated on the pairs. -/
def PW (l : List (K × V)) : Prop := l.Pairwise (fun a b => a.1 < b.1)

theorem PW_of_map {l : List (K × V)} (h : (l.map Prod.fst).Pairwise (· < ·)) : PW l :=
  List.pairwise_map.1 h

theorem Pg.Sorted.pw {p : Pg K V D} (h : p.Sorted) : PW p.content := PW_of_map h

theorem Nd.Sorted.pw {n : Nd K V D} (h : n.Sorted) : PW n.content := PW_of_map h

theorem PW.left {l1 l2 : List (K × V)} (h : PW (l1 ++ l2)) : PW l1 :=
  (List.pairwise_append.1 h).1

theorem PW.right {l1 l2 : List (K × V)} (h : PW (l1 ++ l2)) : PW l2 :=
  (List.pairwise_append.1 h).2.1

theorem PW.cross {l1 l2 : List (K × V)} (h : PW (l1 ++ l2)) {x y : K × V}
    (hx : x ∈ l1) (hy : y ∈ l2) : x.1 < y.1 :=
  (List.pairwise_append.1 h).2.2 x hx y hy

theorem mem_of_head? {α : Type} {l : List α} {a : α} (h : l.head? = some a) : a ∈ l := by
  cases l with
  | nil => simp at h
  | cons y ys =>
    simp only [List.head?_cons, Option.some.injEq] at h
    subst h; exact List.mem_cons_self ..

theorem mem_of_getLast? {α : Type} {l : List α} {a : α} (h : l.getLast? = some a) : a ∈ l := by
  obtain ⟨ys, rfl⟩ := List.getLast?_eq_some_iff.1 h
  simp

/-- The head of a key-ascending list carries the least key. -/
theorem PW.head_le {l : List (K × V)} (hs : PW l) {a x : K × V}
    (ha : l.head? = some a) (hx : x ∈ l) : a.1 ≤ x.1 := by
  cases l with
  | nil => simp at ha
  | cons y ys =>
    simp only [List.head?_cons, Option.some.injEq] at ha
    subst ha
    rcases List.mem_cons.1 hx with rfl | hx
    · exact le_refl _
    · exact le_of_lt ((List.pairwise_cons.1 hs).1 x hx)

/-- The last entry of a key-ascending list carries the greatest key. -/
theorem PW.le_last {l : List (K × V)} (hs : PW l) {b x : K × V}
    (hb : l.getLast? = some b) (hx : x ∈ l) : x.1 ≤ b.1 := by
  obtain ⟨ys, rfl⟩ := List.getLast?_eq_some_iff.1 hb
  rcases List.mem_append.1 hx with hx | hx
  · exact le_of_lt (hs.cross hx (by simp))
  · simp only [List.mem_singleton] at hx
    subst hx; exact le_refl _

theorem PW.lookup_unique : ∀ {l : List (K × V)}, PW l → ∀ (k : K) (v w : V),
    (k, v) ∈ l → (k, w) ∈ l → v = w
  | [], _, _, _, _, h1, _ => by simp at h1
  | x :: xs, hs, k, v, w, h1, h2 => by
    obtain ⟨hx, hxs⟩ := List.pairwise_cons.1 hs
    rcases List.mem_cons.1 h1 with e1 | h1
    · rcases List.mem_cons.1 h2 with e2 | h2
      · have := e1.trans e2.symm
        simpa using this
      · have := hx _ h2
        rw [← e1] at this
        exact absurd this (lt_irrefl _)
    · rcases List.mem_cons.1 h2 with e2 | h2
      · have := hx _ h1
        rw [← e2] at this
        exact absurd this (lt_irrefl _)
      · exact PW.lookup_unique hxs k v w h1 h2

/-- Inversion of `rangeOf`. -/
theorem rangeOf_eq_some (hc : HashCfg K V D) (q : Pg K V D) (r : PR K D)
    (h : rangeOf hc q = some r) :
    ∃ a z, q.content.head? = some a ∧ q.content.getLast? = some z ∧
      r.start = a.1 ∧ r.end_ = z.1 := by
  unfold rangeOf at h
  split at h
  · rename_i a b d h1 h2 h3
    simp only [Option.some.injEq] at h
    subst h
    exact ⟨a, b, h1, h2, rfl, rfl⟩
  · simp at h

/-! ### Sub-pages -/

mutual
theorem preorder_isSomePg : ∀ (p q : Pg K V D), q ∈ p.preorder → q.isSome = true
  | .none, q, hq => by simp [Pg.preorder] at hq
  | .some L c n h, q, hq => by
    simp only [Pg.preorder, List.mem_cons, List.mem_append] at hq
    rcases hq with rfl | hq | hq
    · rfl
    · exact preorder_isSomeNd n q hq
    · exact preorder_isSomePg h q hq
theorem preorder_isSomeNd : ∀ (n : Nd K V D) (q : Pg K V D), q ∈ n.preorder → q.isSome = true
  | .nil, q, hq => by simp [Nd.preorder] at hq
  | .cons lt k v tl, q, hq => by
    simp only [Nd.preorder, List.mem_append] at hq
    rcases hq with hq | hq
    · exact preorder_isSomePg lt q hq
    · exact preorder_isSomeNd tl q hq
end

/-- Every page listed by `preorder` is a real (`some`) page. -/
theorem preorder_isSome (p q : Pg K V D) (hq : q ∈ p.preorder) : q.isSome = true :=
  preorder_isSomePg p q hq

/-- The root (if present) is the first page of its own pre-order. -/
theorem preorder_head (L : Nat) (c : Option D) (n : Nd K V D) (h : Pg K V D) :
    (Pg.some L c n h).preorder.head? = some (Pg.some L c n h) := by
  simp [Pg.preorder]

mutual
theorem preorder_LvPg (lvl : K → Nat) : ∀ (p : Pg K V D) (b : Nat) (q : Pg K V D),
    LvPg lvl b p → q ∈ p.preorder → ∃ b', LvPg lvl b' q
  | .none, _, q, _, hq => by simp [Pg.preorder] at hq
  | .some L c n h, b, q, hlv, hq => by
    simp only [Pg.preorder, List.mem_cons, List.mem_append] at hq
    rcases hq with rfl | hq | hq
    · exact ⟨b, hlv⟩
    · simp only [LvPg] at hlv
      exact preorder_LvNd lvl n L q hlv.2.2.1 hq
    · simp only [LvPg] at hlv
      exact preorder_LvPg lvl h L q hlv.2.2.2 hq
theorem preorder_LvNd (lvl : K → Nat) : ∀ (n : Nd K V D) (L : Nat) (q : Pg K V D),
    LvNd lvl L n → q ∈ n.preorder → ∃ b', LvPg lvl b' q
  | .nil, _, q, _, hq => by simp [Nd.preorder] at hq
  | .cons lt k v tl, L, q, hlv, hq => by
    simp only [LvNd] at hlv
    simp only [Nd.preorder, List.mem_append] at hq
    rcases hq with hq | hq
    · exact preorder_LvPg lvl lt L q hlv.1 hq
    · exact preorder_LvNd lvl tl L q hlv.2.2 hq
end

/-- Sub-pages inherit stratification (with some bound), non-emptiness and cleanliness. -/
theorem preorder_Lv (lvl : K → Nat) (b : Nat) (p q : Pg K V D) (hlv : LvPg lvl b p)
    (hq : q ∈ p.preorder) : ∃ b', LvPg lvl b' q :=
  preorder_LvPg lvl p b q hlv hq

mutual
theorem preorder_cleanPg (hc : HashCfg K V D) : ∀ (p q : Pg K V D),
    CleanPg hc p → q ∈ p.preorder → CleanPg hc q
  | .none, q, _, hq => by simp [Pg.preorder] at hq
  | .some L c n h, q, hcl, hq => by
    simp only [Pg.preorder, List.mem_cons, List.mem_append] at hq
    rcases hq with rfl | hq | hq
    · exact hcl
    · simp only [CleanPg] at hcl
      exact preorder_cleanNd hc n q hcl.2.1 hq
    · simp only [CleanPg] at hcl
      exact preorder_cleanPg hc h q hcl.2.2 hq
theorem preorder_cleanNd (hc : HashCfg K V D) : ∀ (n : Nd K V D) (q : Pg K V D),
    CleanNd hc n → q ∈ n.preorder → CleanPg hc q
  | .nil, q, _, hq => by simp [Nd.preorder] at hq
  | .cons lt k v tl, q, hcl, hq => by
    simp only [CleanNd] at hcl
    simp only [Nd.preorder, List.mem_append] at hq
    rcases hq with hq | hq
    · exact preorder_cleanPg hc lt q hcl.1 hq
    · exact preorder_cleanNd hc tl q hcl.2 hq
end

theorem preorder_clean (hc : HashCfg K V D) (p q : Pg K V D) (hcl : CleanPg hc p)
    (hq : q ∈ p.preorder) : CleanPg hc q :=
  preorder_cleanPg hc p q hcl hq

mutual
theorem preorder_infixPg : ∀ (p q : Pg K V D), q ∈ p.preorder →
    ∃ pre suf, p.content = pre ++ q.content ++ suf
  | .none, q, hq => by simp [Pg.preorder] at hq
  | .some L c n h, q, hq => by
    simp only [Pg.preorder, List.mem_cons, List.mem_append] at hq
    rcases hq with rfl | hq | hq
    · exact ⟨[], [], by simp⟩
    · obtain ⟨pre, suf, e⟩ := preorder_infixNd n q hq
      exact ⟨pre, suf ++ h.content, by simp [Pg.content, e]⟩
    · obtain ⟨pre, suf, e⟩ := preorder_infixPg h q hq
      exact ⟨n.content ++ pre, suf, by simp [Pg.content, e]⟩
theorem preorder_infixNd : ∀ (n : Nd K V D) (q : Pg K V D), q ∈ n.preorder →
    ∃ pre suf, n.content = pre ++ q.content ++ suf
  | .nil, q, hq => by simp [Nd.preorder] at hq
  | .cons lt k v tl, q, hq => by
    simp only [Nd.preorder, List.mem_append] at hq
    rcases hq with hq | hq
    · obtain ⟨pre, suf, e⟩ := preorder_infixPg lt q hq
      exact ⟨pre, suf ++ (k, v) :: tl.content, by simp [Nd.content, e]⟩
    · obtain ⟨pre, suf, e⟩ := preorder_infixNd tl q hq
      exact ⟨lt.content ++ (k, v) :: pre, suf, by simp [Nd.content, e]⟩
end

/-- The subtree content of a sub-page is a contiguous segment of the whole in-order content. -/
theorem preorder_infix (p q : Pg K V D) (hq : q ∈ p.preorder) :
    ∃ pre suf, p.content = pre ++ q.content ++ suf :=
  preorder_infixPg p q hq

theorem preorder_content_subset (p q : Pg K V D) (hq : q ∈ p.preorder) :
    ∀ x ∈ q.content, x ∈ p.content := by
  obtain ⟨pre, suf, e⟩ := preorder_infix p q hq
  intro x hx
  rw [e]; simp [hx]

theorem Nd.preorder_content_subset (n : Nd K V D) (q : Pg K V D) (hq : q ∈ n.preorder) :
    ∀ x ∈ q.content, x ∈ n.content := by
  obtain ⟨pre, suf, e⟩ := preorder_infixNd n q hq
  intro x hx
  rw [e]; simp [hx]

/-- In a sorted tree, every entry of the whole tree whose key lies between the smallest and the
largest key of a sub-page belongs to that sub-page. -/
theorem preorder_contiguous (p q : Pg K V D) (hs : p.Sorted) (hq : q ∈ p.preorder)
    (a b : K × V) (ha : q.content.head? = some a) (hb : q.content.getLast? = some b)
    (kv : K × V) (hkv : kv ∈ p.content) (h1 : a.1 ≤ kv.1) (h2 : kv.1 ≤ b.1) : kv ∈ q.content := by
  obtain ⟨pre, suf, e⟩ := preorder_infix p q hq
  have hpw : PW (pre ++ q.content ++ suf) := e ▸ hs.pw
  rw [e] at hkv
  rcases List.mem_append.1 hkv with hkv | hkv
  · rcases List.mem_append.1 hkv with hkv | hkv
    · have := hpw.left.cross hkv (mem_of_head? ha)
      exact absurd (lt_of_lt_of_le this h1) (lt_irrefl _)
    · exact hkv
  · have := hpw.cross (List.mem_append_right _ (mem_of_getLast? hb)) hkv
    exact absurd (lt_of_lt_of_le this h2) (lt_irrefl _)

/-- A key occurs at most once in a sorted tree: membership determines the value. -/
theorem sorted_lookup_unique (p : Pg K V D) (hs : p.Sorted) (k : K) (v w : V)
    (h1 : (k, v) ∈ p.content) (h2 : (k, w) ∈ p.content) : v = w :=
  hs.pw.lookup_unique k v w h1 h2

mutual
theorem preorder_allToksPg (hc : HashCfg K V D) : ∀ (p q : Pg K V D), q ∈ p.preorder →
    ∀ t ∈ q.allToks hc, t ∈ p.allToks hc
  | .none, q, hq, _, _ => by simp [Pg.preorder] at hq
  | .some L c n h, q, hq, t, ht => by
    simp only [Pg.preorder, List.mem_cons, List.mem_append] at hq
    rcases hq with rfl | hq | hq
    · exact ht
    · have := preorder_allToksNd hc n q hq t ht
      simp [Pg.allToks, this]
    · have := preorder_allToksPg hc h q hq t ht
      simp [Pg.allToks, this]
theorem preorder_allToksNd (hc : HashCfg K V D) : ∀ (n : Nd K V D) (q : Pg K V D), q ∈ n.preorder →
    ∀ t ∈ q.allToks hc, t ∈ n.allToks hc
  | .nil, q, hq, _, _ => by simp [Nd.preorder] at hq
  | .cons lt k v tl, q, hq, t, ht => by
    simp only [Nd.preorder, List.mem_append] at hq
    rcases hq with hq | hq
    · have := preorder_allToksPg hc lt q hq t ht
      simp [Nd.allToks, this]
    · have := preorder_allToksNd hc tl q hq t ht
      simp [Nd.allToks, this]
end

/-- The page pre-images of a sub-page are among those of the whole tree. -/
theorem preorder_allToks (hc : HashCfg K V D) (p q : Pg K V D) (hq : q ∈ p.preorder) :
    ∀ t ∈ q.allToks hc, t ∈ p.allToks hc :=
  preorder_allToksPg hc p q hq

/-- `rangeOf` of a well-shaped page: it exists and its bounds are the first and last key. -/
theorem rangeOf_some (lvl : K → Nat) (hc : HashCfg K V D) (b : Nat) (q : Pg K V D)
    (hlv : LvPg lvl b q) (hq : q.isSome = true) :
    ∃ a z d, q.content.head? = some a ∧ q.content.getLast? = some z ∧ q.trueHash hc = some d ∧
      rangeOf hc q = some { start := a.1, end_ := z.1, hash := d } := by
  cases q with
  | none => simp [Pg.isSome] at hq
  | some L c n h =>
    have hne := LvPg_some_content_ne_nil lvl b L c n h hlv
    obtain ⟨a, ha⟩ : ∃ a, (Pg.some L c n h).content.head? = some a := by
      cases hcnt : (Pg.some L c n h).content with
      | nil => exact absurd hcnt hne
      | cons x xs => exact ⟨x, rfl⟩
    obtain ⟨z, hz⟩ : ∃ z, (Pg.some L c n h).content.getLast? = some z := by
      cases hl : (Pg.some L c n h).content.getLast? with
      | none => exact absurd (List.getLast?_eq_none_iff.1 hl) hne
      | some z => exact ⟨z, rfl⟩
    refine ⟨a, z, hc.h (n.hashBytes hc ++ h.hashBytes hc), ha, hz, rfl, ?_⟩
    simp only [rangeOf, ha, hz, Pg.trueHash]

/-- Spans nest: the span of a sub-page lies inside the span of the page it is listed under. -/
theorem preorder_nested (lvl : K → Nat) (hc : HashCfg K V D) (b : Nat) (p q : Pg K V D)
    (hlv : LvPg lvl b p) (hs : p.Sorted) (hq : q ∈ p.preorder)
    (rp rq : PR K D) (hrp : rangeOf hc p = some rp) (hrq : rangeOf hc q = some rq) :
    rp.start ≤ rq.start ∧ rq.end_ ≤ rp.end_ := by
  obtain ⟨ap, zp, hap, hzp, e1, e2⟩ := rangeOf_eq_some hc p rp hrp
  obtain ⟨aq, zq, haq, hzq, e3, e4⟩ := rangeOf_eq_some hc q rq hrq
  have hsub := preorder_content_subset p q hq
  rw [e1, e2, e3, e4]
  exact ⟨hs.pw.head_le hap (hsub _ (mem_of_head? haq)),
    hs.pw.le_last hzp (hsub _ (mem_of_getLast? hzq))⟩

/-- Every key below a node list's sub-page is strictly below some key of the node list itself
(the key of the node whose `lt` child contains the sub-page). -/
theorem Nd.preorder_lt_key : ∀ (n : Nd K V D), PW n.content → ∀ q ∈ n.preorder,
    ∀ x ∈ q.content, ∃ y ∈ n.content, x.1 < y.1
  | .nil, _, q, hq, _, _ => by simp [Nd.preorder] at hq
  | .cons lt k v tl, hs, q, hq, x, hx => by
    simp only [Nd.preorder, List.mem_append] at hq
    rw [Nd.content] at hs
    rcases hq with hq | hq
    · have hx' := Mst.preorder_content_subset lt q hq x hx
      exact ⟨(k, v), by simp [Nd.content], hs.cross hx' (List.mem_cons_self ..)⟩
    · have htl : PW tl.content := (List.pairwise_cons.1 hs.right).2
      obtain ⟨y, hy, hlt⟩ := Nd.preorder_lt_key tl htl q hq x hx
      exact ⟨y, by simp [Nd.content, hy], hlt⟩

/-- No proper descendant spans the whole page (so the diff's "shrink local range" loop never
replaces a page by one of its descendants when comparing equal spans). -/
theorem descendant_not_superset (lvl : K → Nat) (hc : HashCfg K V D) (b : Nat)
    (L : Nat) (c : Option D) (n : Nd K V D) (h : Pg K V D)
    (hlv : LvPg lvl b (.some L c n h)) (hs : (Pg.some L c n h).Sorted)
    (q : Pg K V D) (hq : q ∈ n.preorder ++ h.preorder)
    (rp rq : PR K D) (hrp : rangeOf hc (.some L c n h) = some rp) (hrq : rangeOf hc q = some rq) :
    ¬ (rq.start ≤ rp.start ∧ rp.end_ ≤ rq.end_) := by
  obtain ⟨ap, zp, hap, hzp, e1, e2⟩ := rangeOf_eq_some hc _ rp hrp
  obtain ⟨aq, zq, haq, hzq, e3, e4⟩ := rangeOf_eq_some hc q rq hrq
  have hpw : PW (n.content ++ h.content) := by
    have := hs.pw; rwa [Pg.content] at this
  rw [e1, e2, e3, e4]
  rintro ⟨h1, h2⟩
  rcases List.mem_append.1 hq with hq | hq
  · -- `q` lies under some node key `y`; all its keys are `< y ≤` the page's last key
    obtain ⟨y, hy, hlt⟩ := Nd.preorder_lt_key n hpw.left q hq zq (mem_of_getLast? hzq)
    have hy' : y ∈ (Pg.some L c n h).content := by simp [Pg.content, hy]
    have := hs.pw.le_last hzp hy'
    exact absurd (lt_of_lt_of_le (lt_of_lt_of_le hlt this) h2) (lt_irrefl _)
  · -- `q` lies under the high page; all its keys are above every node key
    have haq' := preorder_content_subset h q hq aq (mem_of_head? haq)
    simp only [LvPg] at hlv
    obtain ⟨y, hy⟩ : ∃ y, y ∈ n.content := by
      cases n with
      | nil => exact absurd rfl hlv.2.1
      | cons lt k v tl => exact ⟨(k, v), by simp [Nd.content]⟩
    have hy' : y ∈ (Pg.some L c n h).content := by simp [Pg.content, hy]
    have hle := hs.pw.head_le hap hy'
    have hlt := hpw.cross hy haq'
    exact absurd (lt_of_lt_of_le (lt_of_le_of_lt hle hlt) h1) (lt_irrefl _)

/-- Direct children of a page, in traversal order: the `lt` child of each node, then the high page. -/
def Nd.children : Nd K V D → List (Pg K V D)
  | .nil => []
  | .cons lt _ _ tl => (match lt with | .none => [] | .some .. => [lt]) ++ tl.children

def Pg.children : Pg K V D → List (Pg K V D)
  | .none => []
  | .some _ _ n h => n.children ++ (match h with | .none => [] | .some .. => [h])

/-- All keys of the first page are below all keys of the second. -/
def PgLt (q r : Pg K V D) : Prop := ∀ x ∈ q.content, ∀ y ∈ r.content, x.1 < y.1

theorem Nd.children_subset : ∀ (n : Nd K V D), ∀ c ∈ n.children, ∀ x ∈ c.content, x ∈ n.content
  | .nil, c, hc', _, _ => by simp [Nd.children] at hc'
  | .cons lt k v tl, c, hc', x, hx => by
    simp only [Nd.children, List.mem_append] at hc'
    rcases hc' with hc' | hc'
    · have : c = lt := by
        cases lt with
        | none => simp at hc'
        | some L c' n' h' => simpa using hc'
      subst this
      simp [Nd.content, hx]
    · have := Nd.children_subset tl c hc' x hx
      simp [Nd.content, this]

theorem Nd.children_pairwise : ∀ (n : Nd K V D), PW n.content → n.children.Pairwise PgLt
  | .nil, _ => by simp [Nd.children]
  | .cons lt k v tl, hs => by
    rw [Nd.content] at hs
    have htl : PW tl.content := (List.pairwise_cons.1 hs.right).2
    simp only [Nd.children]
    refine List.pairwise_append.2 ⟨?_, Nd.children_pairwise tl htl, ?_⟩
    · cases lt with
      | none => simp
      | some L c' n' h' => simp
    · intro a ha c hc' x hx y hy
      have : a = lt := by
        cases lt with
        | none => simp at ha
        | some L c' n' h' => simpa using ha
      subst this
      exact hs.cross hx (List.mem_cons_of_mem _ (Nd.children_subset tl c hc' y hy))

theorem Pg.children_pairwise (p : Pg K V D) (hs : PW p.content) : p.children.Pairwise PgLt := by
  cases p with
  | none => simp [Pg.children]
  | some L c n h =>
    rw [Pg.content] at hs
    simp only [Pg.children]
    refine List.pairwise_append.2 ⟨Nd.children_pairwise n hs.left, ?_, ?_⟩
    · cases h with
      | none => simp
      | some L' c' n' h' => simp
    · intro a ha c hc' x hx y hy
      have : c = h := by
        cases h with
        | none => simp at hc'
        | some L' c' n' h' => simpa using hc'
      subst this
      exact hs.cross (Nd.children_subset n a ha x hx) hy

/-- Sibling spans are disjoint and ascending. -/
theorem siblings_chain (lvl : K → Nat) (hc : HashCfg K V D) (b : Nat) (p : Pg K V D)
    (hlv : LvPg lvl b p) (hs : p.Sorted) :
    (p.children.filterMap (rangeOf hc)).Pairwise (fun r s => r.end_ < s.start) := by
  refine List.Pairwise.filterMap (rangeOf hc) ?_ (Pg.children_pairwise p hs.pw)
  intro q r hqr rq hrq rr hrr
  obtain ⟨aq, zq, haq, hzq, e1, e2⟩ := rangeOf_eq_some hc q rq (by simpa using hrq)
  obtain ⟨ar, zr, har, hzr, e3, e4⟩ := rangeOf_eq_some hc r rr (by simpa using hrr)
  rw [e2, e3]
  exact hqr _ (mem_of_getLast? hzq) _ (mem_of_head? har)

mutual
def Pg.pageCount : Pg K V D → Nat
  | .none => 0
  | .some _ _ n h => 1 + n.pageCount + h.pageCount
def Nd.pageCount : Nd K V D → Nat
  | .nil => 0
  | .cons lt _ _ tl => lt.pageCount + tl.pageCount
end

mutual
theorem preorder_lengthPg : ∀ (p : Pg K V D), p.preorder.length = p.pageCount
  | .none => by simp [Pg.preorder, Pg.pageCount]
  | .some L c n h => by
    simp only [Pg.preorder, Pg.pageCount, List.length_cons, List.length_append,
      preorder_lengthNd n, preorder_lengthPg h]
    omega
theorem preorder_lengthNd : ∀ (n : Nd K V D), n.preorder.length = n.pageCount
  | .nil => by simp [Nd.preorder, Nd.pageCount]
  | .cons lt k v tl => by
    simp only [Nd.preorder, Nd.pageCount, List.length_append,
      preorder_lengthPg lt, preorder_lengthNd tl]
end

/-- The pre-order lists every page exactly once (as many entries as there are pages). -/
theorem preorder_length (p : Pg K V D) : p.preorder.length = p.pageCount :=
  preorder_lengthPg p

end Mst
