/-
Lemmas about the model of `page_range_snapshot.rs` (Model/Snapshot.lean).
-/
import MstVerif.Model.Snapshot
import MstVerif.Proofs.DiffTree
import MstVerif.Proofs.Upsert
import MstVerif.Proofs.Hash

namespace Mst
variable {K V D : Type} [LinearOrder K] [DecidableEq D]

omit [DecidableEq D] in
theorem OwnedPR.new_ok_iff (s e : K) (h : D) :
    (∃ o, OwnedPR.new s e h = .ok o) ↔ s ≤ e := by
  unfold OwnedPR.new
  by_cases hse : s ≤ e <;> simp [hse]

omit [DecidableEq D] in
/-- Building an owned range from the accessor values of a well-formed borrowed range never panics
and is the `From` conversion. -/
theorem OwnedPR.new_of_valid (r : PR K D) (hr : r.start ≤ r.end_) :
    OwnedPR.new r.start r.end_ r.hash = .ok (OwnedPR.ofPR r) := by
  simp [OwnedPR.new, OwnedPR.ofPR, hr]

omit [DecidableEq D] in
theorem mapM_new_ofPR (l : List (PR K D)) (h : PRValid l) :
    (l.map OwnedPR.ofPR).mapM (fun v => PR.new v.start v.end_ v.hash) = (.ok l : Except String _) := by
  induction l with
  | nil => rfl
  | cons r rs ih =>
    have hr : r.start ≤ r.end_ := h r (by simp)
    have ih' := ih (fun x hx => h x (by simp [hx]))
    simp only [List.map_cons, List.mapM_cons, OwnedPR.ofPR, PR.new, hr, if_true] at ih' ⊢
    rw [ih']
    rfl

omit [DecidableEq D] in
/-- `PageRangeSnapshot::from(ranges).iter()` yields the borrowed ranges again (and never panics). -/
theorem Snapshot.iter_ofRanges (l : List (PR K D)) (h : PRValid l) :
    (Snapshot.ofRanges l).iter = .ok l := by
  unfold Snapshot.iter Snapshot.ofRanges
  exact mapM_new_ofPR l h

omit [LinearOrder K] [DecidableEq D] in
/-- A snapshot built from owned ranges obtained by `From<PageRange>` is the snapshot built from the
borrowed ranges (the two `FromIterator` routes agree, also under the derived `PartialEq`). -/
theorem Snapshot.ofOwned_map_ofPR (l : List (PR K D)) :
    Snapshot.ofOwned (l.map OwnedPR.ofPR) = Snapshot.ofRanges l := rfl

omit [LinearOrder K] [DecidableEq D] in
theorem Snapshot.cloneFrom_eq (dst src : Snapshot K D) : dst.cloneFrom src = src := rfl

omit [LinearOrder K] [DecidableEq D] in
theorem Snapshot.clone_eq (s : Snapshot K D) : s.clone = s := rfl

/-- Upserts after the snapshot was taken leave it untouched and never panic (for a tree satisfying the
reachable-state invariant). -/
theorem Served.upserts_snap (lvl : K → Nat) (hlvl : ∀ k, lvl k < 255) (hc : HashCfg K V D) :
    ∀ (ops : List (K × V)) (s : Served K V D), Inv lvl hc s.tree →
      ∃ s', s.upserts lvl ops = .ok s' ∧ s'.snap = s.snap ∧ Inv lvl hc s'.tree
  | [], s, hi => ⟨s, rfl, rfl, hi⟩
  | (k, v) :: rest, s, hi => by
    obtain ⟨t', ht, hi', -, -⟩ := Tree.upsert_inv lvl hlvl hc s.tree hi k v
    obtain ⟨s', hs', hsnap, hinv⟩ := Served.upserts_snap lvl hlvl hc rest { s with tree := t' } hi'
    refine ⟨s', ?_, hsnap, hinv⟩
    simp only [Served.upserts, Served.upsert, ht]
    exact hs'

/-- Taking a snapshot of a tree in any reachable state: hash, serialise, own. -/
theorem Served.take_spec (lvl : K → Nat) (hc : HashCfg K V D) (s : Served K V D)
    (hi : Inv lvl hc s.tree) :
    ∃ s', s.take hc = .ok s' ∧ s'.tree = s.tree.genRootHash hc ∧
      s'.snap = some (Snapshot.ofRanges (pageRanges hc (s.tree.genRootHash hc))) ∧
      Hashed lvl hc s'.tree := by
  obtain ⟨hinv, -, hsome, -, -⟩ := genRootHash_inv lvl hc s.tree hi
  have hh : Hashed lvl hc (s.tree.genRootHash hc) := ⟨hinv, hsome⟩
  have hser := serialise_eq_pageRanges lvl hc _ hh
  refine ⟨{ tree := s.tree.genRootHash hc,
            snap := some (Snapshot.ofRanges (pageRanges hc (s.tree.genRootHash hc))) }, ?_, rfl, rfl, hh⟩
  simp only [Served.take, hser]

end Mst
