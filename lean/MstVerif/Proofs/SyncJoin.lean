/-
L9b0: the combinatorial core of "every two-way sync round creates a new agreement", for an ARBITRARY
merge function obeying the laws `MergeLaws` — which hold for the join of any join-semilattice and
for peer-wins (`Proofs/SyncConv.lean`), not only for the max of a linear order.

Everything here is about lookup functions `K → Option V` and fetch predicates `K → Bool`; no trees.
What a pull guarantees about the fetched keys (`PullF`) is exactly what the tree-level diff theorems
give (`pull_lookup`): completeness under the span condition (C07) and "a sender that starts strictly
first and ends strictly first has its smallest key fetched" (C04).

Why a new argument is needed: for a linear order a fetched key that changes the receiver agrees
afterwards (`max x y ∈ {x, y}`), so the number of disagreeing keys drops with every change. For a
general join the receiver moves to `x ⊔ y`, which may differ from BOTH former values, and a single
diff is complete only under the span condition — so the reverse pull of the same round must be
shown to cover that key (or another disagreeing key must be shown to be settled). The case analysis
on the two key spans below does that.
-/
import Mathlib.Order.Basic
import Mathlib.Order.Lattice

namespace Mst
variable {K V : Type} [LinearOrder K]

/-- The laws of a merge-on-fetch function `f old fetched` used by the round argument. -/
structure MergeLaws (f : Option V → Option V → Option V) : Prop where
  idem : ∀ x, f x x = x
  none_left : ∀ y, f none y = y
  none_right : ∀ x, f x none = x
  /-- fetching back what the peer merged from us yields the peer's value -/
  absorb : ∀ x y, y ≠ none → f y (f x y) = f x y
  /-- if fetching `x` leaves `y` alone, then fetching `y` into `x` yields `y` -/
  fixed : ∀ x y, x ≠ none → y ≠ none → f y x = y → f x y = y
  some_right : ∀ x y, y ≠ none → f x y ≠ none
  some_left : ∀ x y, x ≠ none → f x y ≠ none

/-- every key of `R` lies between two keys of `S` (the span condition) -/
def CoverF (S R : K → Option V) : Prop :=
  ∀ x, R x ≠ none → (∃ y, S y ≠ none ∧ y ≤ x) ∧ (∃ z, S z ≠ none ∧ x ≤ z)

/-- finitely supported, as far as the argument needs it: empty, or with a least and a greatest key -/
def Bounded (A : K → Option V) : Prop :=
  (∀ k, A k = none) ∨ ∃ a0 a1, A a0 ≠ none ∧ A a1 ≠ none ∧ ∀ k, A k ≠ none → a0 ≤ k ∧ k ≤ a1

/-- What one pull `X ← Y` does and is guaranteed to fetch (`R` = the keys inside the diff ranges). -/
structure PullF (f : Option V → Option V → Option V) (X Y X' : K → Option V) (R : K → Bool) : Prop where
  lk : ∀ k, X' k = if R k = true then f (X k) (Y k) else X k
  /-- completeness under the span condition (C07) -/
  comp : CoverF Y X → ∀ k, Y k ≠ none → X k ≠ Y k → R k = true
  /-- the sender starts strictly first and ends strictly first: its smallest key is fetched (C04) -/
  head : ∀ y0 x1, Y y0 ≠ none → (∀ k, Y k ≠ none → y0 ≤ k) → (∀ k, X k ≠ none → y0 < k) →
    X x1 ≠ none → (∀ k, Y k ≠ none → k < x1) → R y0 = true

section
variable {f : Option V → Option V → Option V} {A B B1 A2 : K → Option V} {R1 R2 : K → Bool}

/-- agreement reached by the first pull survives the second -/
theorem PullF.keep (hf : MergeLaws f) (p2 : PullF f A B1 A2 R2) (k : K) (h : A k = B1 k) :
    A2 k = B1 k := by
  rw [p2.lk k]
  split
  · rw [h, hf.idem]
  · exact h

/-- the receiver never loses a key -/
theorem PullF.keys (hf : MergeLaws f) (p1 : PullF f B A B1 R1) (k : K) (h : B k ≠ none) :
    B1 k ≠ none := by
  rw [p1.lk k]
  split
  · exact hf.some_left _ _ h
  · exact h

/-- a key fetched by the first pull that the sender holds and on which the two differed is settled
by the round, provided the second pull fetches it in case it still differs -/
theorem round_agree_fetched (hf : MergeLaws f) (p1 : PullF f B A B1 R1) (p2 : PullF f A B1 A2 R2)
    (k : K) (hr : R1 k = true) (hA : A k ≠ none)
    (h2 : B1 k ≠ none → A k ≠ B1 k → R2 k = true) : A2 k = B1 k := by
  have e1 : B1 k = f (B k) (A k) := by rw [p1.lk k, if_pos hr]
  by_cases hab : A k = B1 k
  · exact PullF.keep hf p2 k hab
  · have hn : B1 k ≠ none := by rw [e1]; exact hf.some_right _ _ hA
    rw [p2.lk k, if_pos (h2 hn hab), e1, hf.absorb _ _ hA]

/-- a key the receiver of the second pull lacks and that pull fetches is settled -/
theorem round_agree_gain (hf : MergeLaws f) (p2 : PullF f A B1 A2 R2)
    (k : K) (hr : R2 k = true) (hA : A k = none) : A2 k = B1 k := by
  rw [p2.lk k, if_pos hr, hA, hf.none_left]

/-- **One two-way round creates a new agreement.** `B1` is `B` after pulling from `A`, `A2` is `A`
after pulling from `B1`. If `A` and `B` differ somewhere, some key on which they differed is agreed
on after the round — for every merge function obeying `MergeLaws`. -/
theorem round_agree (hf : MergeLaws f) (p1 : PullF f B A B1 R1) (p2 : PullF f A B1 A2 R2)
    (bA : Bounded A) (bB : Bounded B) (bB1 : Bounded B1) (hne : ∃ k, A k ≠ B k) :
    ∃ k0, A k0 ≠ B k0 ∧ A2 k0 = B1 k0 := by
  have hkeys := fun k => PullF.keys hf p1 k
  by_cases c1 : CoverF B A
  · -- the receiver of the first pull spans the sender: the second pull is complete
    have c1' : CoverF B1 A := by
      intro x hx
      obtain ⟨⟨y, hy, hyx⟩, ⟨z, hz, hxz⟩⟩ := c1 x hx
      exact ⟨⟨y, hkeys y hy, hyx⟩, ⟨z, hkeys z hz, hxz⟩⟩
    have comp2 := p2.comp c1'
    by_cases hch : ∃ k, B1 k ≠ B k
    · obtain ⟨k, hk⟩ := hch
      have hr : R1 k = true := by
        by_contra hr
        apply hk
        rw [p1.lk k, if_neg hr]
      have e1 : B1 k = f (B k) (A k) := by rw [p1.lk k, if_pos hr]
      have hA : A k ≠ none := by
        intro hA
        apply hk
        rw [e1, hA, hf.none_right]
      have hab : A k ≠ B k := by
        intro hab
        apply hk
        rw [e1, hab, hf.idem]
      exact ⟨k, hab, round_agree_fetched hf p1 p2 k hr hA (comp2 k)⟩
    · have hsame : ∀ k, B1 k = B k := by
        intro k
        by_contra h
        exact hch ⟨k, h⟩
      by_cases hk : ∃ k, B k ≠ none ∧ A k = none
      · obtain ⟨k, hB, hA⟩ := hk
        have hab : A k ≠ B k := by rw [hA]; exact fun e => hB e.symm
        refine ⟨k, hab, round_agree_gain hf p2 k (comp2 k ?_ ?_) hA⟩
        · rw [hsame]; exact hB
        · rw [hsame]; exact hab
      · have hsub : ∀ k, B k ≠ none → A k ≠ none := by
          intro k hB hA
          exact hk ⟨k, hB, hA⟩
        have c2 : CoverF A B := by
          intro x hx
          exact ⟨⟨x, hsub x hx, le_refl _⟩, ⟨x, hsub x hx, le_refl _⟩⟩
        obtain ⟨k, hab⟩ := hne
        have hA : A k ≠ none := by
          intro hA
          have hB : B k ≠ none := by rw [hA] at hab; exact fun e => hab e.symm
          exact hsub k hB hA
        have hr : R1 k = true := p1.comp c2 k hA (Ne.symm hab)
        have e1 : f (B k) (A k) = B k := by
          have := p1.lk k
          rw [if_pos hr, hsame] at this
          exact this.symm
        have hB : B k ≠ none := by
          intro hB
          rw [hB, hf.none_left] at e1
          exact hA e1
        have hr2 : R2 k = true := comp2 k (by rw [hsame]; exact hB) (by rw [hsame]; exact hab)
        refine ⟨k, hab, ?_⟩
        rw [p2.lk k, if_pos hr2, hsame, hf.fixed _ _ hA hB e1]
  by_cases c2 : CoverF A B
  · -- the sender of the first pull spans the receiver: both pulls are complete
    have comp1 := p1.comp c2
    have c1' : CoverF B1 A := by
      intro x hx
      have : B1 x ≠ none := by
        by_cases hab : B x = A x
        · exact hkeys x (by rw [hab]; exact hx)
        · rw [p1.lk x, if_pos (comp1 x hx hab)]
          exact hf.some_right _ _ hx
      exact ⟨⟨x, this, le_refl _⟩, ⟨x, this, le_refl _⟩⟩
    have comp2 := p2.comp c1'
    obtain ⟨k, hab⟩ := hne
    refine ⟨k, hab, ?_⟩
    by_cases hA : A k = none
    · have hB : B k ≠ none := by rw [hA] at hab; exact fun e => hab e.symm
      have hB1 : B1 k ≠ none := hkeys k hB
      exact round_agree_gain hf p2 k (comp2 k hB1 (by rw [hA]; exact fun e => hB1 e.symm)) hA
    · exact round_agree_fetched hf p1 p2 k (comp1 k hA (Ne.symm hab)) hA (comp2 k)
  -- neither span covers the other: both are non-empty and they overlap partially or not at all
  have hAne : ¬ ∀ k, A k = none := by
    intro h
    apply c1
    intro x hx
    exact absurd (h x) hx
  have hBne : ¬ ∀ k, B k = none := by
    intro h
    apply c2
    intro x hx
    exact absurd (h x) hx
  rcases bA with h | ⟨a0, a1, ha0, ha1, hA⟩
  · exact absurd h hAne
  rcases bB with h | ⟨b0, b1, hb0, hb1, hB⟩
  · exact absurd h hBne
  have n1 : ¬ (b0 ≤ a0 ∧ a1 ≤ b1) := by
    rintro ⟨h0, h1⟩
    apply c1
    intro x hx
    exact ⟨⟨b0, hb0, le_trans h0 (hA x hx).1⟩, ⟨b1, hb1, le_trans (hA x hx).2 h1⟩⟩
  have n2 : ¬ (a0 ≤ b0 ∧ b1 ≤ a1) := by
    rintro ⟨h0, h1⟩
    apply c2
    intro x hx
    exact ⟨⟨a0, ha0, le_trans h0 (hB x hx).1⟩, ⟨a1, ha1, le_trans (hB x hx).2 h1⟩⟩
  rcases lt_trichotomy a0 b0 with hlt | heq | hgt
  · -- the sender of the first pull starts first, hence ends first: its smallest key is gained
    have hlt1 : a1 < b1 := by
      by_contra hn
      exact n2 ⟨le_of_lt hlt, not_lt.1 hn⟩
    have hr : R1 a0 = true :=
      p1.head a0 b1 ha0 (fun k hk => (hA k hk).1) (fun k hk => lt_of_lt_of_le hlt (hB k hk).1) hb1
        (fun k hk => lt_of_le_of_lt (hA k hk).2 hlt1)
    have hBa0 : B a0 = none := by
      by_contra h
      exact absurd (hB a0 h).1 (not_le.2 hlt)
    have e1 : B1 a0 = A a0 := by rw [p1.lk a0, if_pos hr, hBa0, hf.none_left]
    exact ⟨a0, by rw [hBa0]; exact ha0, PullF.keep hf p2 a0 e1.symm⟩
  · exfalso
    by_cases hle : a1 ≤ b1
    · exact n1 ⟨le_of_eq heq.symm, hle⟩
    · exact n2 ⟨le_of_eq heq, le_of_lt (not_le.1 hle)⟩
  · -- the receiver of the first pull starts first and ends first; so does it after the pull unless
    -- it now spans `A`: either way the second pull fetches its smallest key, which `A` lacks
    have hlt1 : b1 < a1 := by
      by_contra hn
      exact n1 ⟨le_of_lt hgt, not_lt.1 hn⟩
    have hB1b0 : B1 b0 ≠ none := hkeys b0 hb0
    rcases bB1 with h | ⟨c0, c1', hc0, hc1, hC⟩
    · exact absurd (h b0) hB1b0
    have hc0b0 : c0 ≤ b0 := (hC b0 hB1b0).1
    have hc0a0 : c0 < a0 := lt_of_le_of_lt hc0b0 hgt
    have hAc0 : A c0 = none := by
      by_contra h
      exact absurd (hA c0 h).1 (not_le.2 hc0a0)
    have hBc0 : B c0 ≠ none := by
      intro h
      apply hc0
      rw [p1.lk c0, h, hAc0]
      split
      · exact hf.none_left _
      · rfl
    have hr2 : R2 c0 = true := by
      by_cases hle : a1 ≤ c1'
      · apply p2.comp _ c0 hc0 (by rw [hAc0]; exact fun e => hc0 e.symm)
        intro x hx
        exact ⟨⟨c0, hc0, le_trans (le_of_lt hc0a0) (hA x hx).1⟩, ⟨c1', hc1, le_trans (hA x hx).2 hle⟩⟩
      · exact p2.head c0 a1 hc0 (fun k hk => (hC k hk).1)
          (fun k hk => lt_of_lt_of_le hc0a0 (hA k hk).1) ha1
          (fun k hk => lt_of_le_of_lt (hC k hk).2 (not_le.1 hle))
    exact ⟨c0, by rw [hAc0]; exact fun e => hBc0 e.symm, round_agree_gain hf p2 c0 hr2 hAc0⟩

end
end Mst

#print axioms Mst.round_agree
