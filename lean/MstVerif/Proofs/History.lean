/-
Histories over {upsert(k,v), request root hash}: every reachable state satisfies `Inv`, no
operation panics, and the content is the last-write-wins map of the history (as a sorted list).
-/
import MstVerif.Proofs.Upsert
import MstVerif.Proofs.Hash

namespace Mst
variable {K V D : Type}

/-- One API call of a history. -/
inductive Op (K V : Type) where
  | ups (k : K) (v : V)
  | hash
  deriving Repr

section
variable [LinearOrder K]

/-- One step on the model (the level of a key is `lvl k`: the hasher is a function of the key). -/
def Tree.step (lvl : K → Nat) (hc : HashCfg K V D) (t : Tree K V D) : Op K V → Except String (Tree K V D)
  | .ups k v => t.upsert k (lvl k) v
  | .hash => .ok (t.genRootHash hc)

/-- Run a history from `t`. -/
def runFrom (lvl : K → Nat) (hc : HashCfg K V D) : Tree K V D → List (Op K V) → Except String (Tree K V D)
  | t, [] => .ok t
  | t, op :: ops =>
    match t.step lvl hc op with
    | .error e => .error e
    | .ok t' => runFrom lvl hc t' ops

/-- Run a history from the empty tree. -/
def run (lvl : K → Nat) (hc : HashCfg K V D) (ops : List (Op K V)) : Except String (Tree K V D) :=
  runFrom lvl hc Tree.empty ops

/-- The abstract map after a history, as a key-ascending association list. -/
def applyOps : List (K × V) → List (Op K V) → List (K × V)
  | c, [] => c
  | c, .ups k v :: ops => applyOps (insertKV k v c) ops
  | c, .hash :: ops => applyOps c ops

def finalContent (ops : List (Op K V)) : List (K × V) := applyOps [] ops

/-- Last-write-wins: the value of the most recent upsert of `k`, defined independently of `insertKV`. -/
def lastWriteFrom (k : K) : Option V → List (Op K V) → Option V
  | acc, [] => acc
  | acc, .ups k' v :: ops => lastWriteFrom k (if k' = k then some v else acc) ops
  | acc, .hash :: ops => lastWriteFrom k acc ops

def lastWrite (ops : List (Op K V)) (k : K) : Option V := lastWriteFrom k none ops

theorem step_inv (lvl : K → Nat) (hlvl : ∀ k, lvl k < 255) (hc : HashCfg K V D) (t : Tree K V D)
    (hinv : Inv lvl hc t) (op : Op K V) :
    ∃ t', t.step lvl hc op = .ok t' ∧ Inv lvl hc t' ∧ t'.root.content = applyOps t.root.content [op] := by
  cases op with
  | ups k v =>
    obtain ⟨t', h1, h2, h3, _⟩ := Tree.upsert_inv lvl hlvl hc t hinv k v
    exact ⟨t', h1, h2, by simpa [applyOps] using h3⟩
  | hash =>
    obtain ⟨h1, _, _, h4, _⟩ := genRootHash_inv lvl hc t hinv
    refine ⟨_, rfl, h1, ?_⟩
    have := congrArg Pg.content h4
    simpa [applyOps, content_erase] using this

/-- Every history runs without panicking; every reachable state satisfies the invariant and holds
exactly the abstract map. -/
theorem runFrom_inv (lvl : K → Nat) (hlvl : ∀ k, lvl k < 255) (hc : HashCfg K V D)
    (ops : List (Op K V)) (t : Tree K V D) (hinv : Inv lvl hc t) :
    ∃ t', runFrom lvl hc t ops = .ok t' ∧ Inv lvl hc t' ∧ t'.root.content = applyOps t.root.content ops := by
  induction ops generalizing t with
  | nil => exact ⟨t, rfl, hinv, rfl⟩
  | cons op ops ih =>
    obtain ⟨t1, h1, h2, h3⟩ := step_inv lvl hlvl hc t hinv op
    obtain ⟨t2, g1, g2, g3⟩ := ih t1 h2
    refine ⟨t2, ?_, g2, ?_⟩
    · simp [runFrom, h1, g1]
    · rw [g3, h3]; cases op <;> simp [applyOps]

theorem run_inv (lvl : K → Nat) (hlvl : ∀ k, lvl k < 255) (hc : HashCfg K V D) (ops : List (Op K V)) :
    ∃ t, run lvl hc ops = .ok t ∧ Inv lvl hc t ∧ t.root.content = finalContent ops := by
  obtain ⟨h1, h2⟩ := Tree.empty_inv (K := K) (V := V) (D := D) lvl hc
  obtain ⟨t, g1, g2, g3⟩ := runFrom_inv lvl hlvl hc ops Tree.empty h1
  exact ⟨t, g1, g2, by rw [g3, h2]; rfl⟩

/-- A history is the concatenation of its prefix and the rest: intermediate states are reachable
states. -/
theorem runFrom_append (lvl : K → Nat) (hc : HashCfg K V D) (t : Tree K V D) (o1 o2 : List (Op K V)) :
    runFrom lvl hc t (o1 ++ o2) =
      (match runFrom lvl hc t o1 with
       | .error e => .error e
       | .ok t' => runFrom lvl hc t' o2) := by
  induction o1 generalizing t with
  | nil => rfl
  | cons op o1 ih =>
    simp only [List.cons_append, runFrom]
    cases h : t.step lvl hc op with
    | error e => rfl
    | ok t' => exact ih t'

/-! ### The abstract map: `insertKV` on sorted lists is last-write-wins -/

def KSorted (c : List (K × V)) : Prop := (c.map Prod.fst).Pairwise (· < ·)

theorem applyOps_sorted (c : List (K × V)) (ops : List (Op K V)) (h : KSorted c) :
    KSorted (applyOps c ops) := by
  induction ops generalizing c with
  | nil => exact h
  | cons op ops ih =>
    cases op with
    | ups k v => exact ih _ (insertKV_sorted k v c h)
    | hash => exact ih _ h

theorem finalContent_sorted (ops : List (Op K V)) : KSorted (finalContent ops) :=
  applyOps_sorted [] ops (by simp [KSorted])

/-- Membership after an insert into a sorted list. -/
theorem mem_insertKV (k : K) (v : V) (c : List (K × V)) (h : KSorted c) (k' : K) (v' : V) :
    (k', v') ∈ insertKV k v c ↔ (k' = k ∧ v' = v) ∨ (k' ≠ k ∧ (k', v') ∈ c) := by
  induction c with
  | nil => simp [insertKV]
  | cons hd rest ih =>
    obtain ⟨k0, v0⟩ := hd
    have hs : KSorted rest := by
      simp [KSorted] at h ⊢; exact h.2
    have hlt : ∀ kv ∈ rest, k0 < kv.1 := by
      simp [KSorted] at h
      intro kv hkv
      exact h.1 kv.1 kv.2 hkv
    simp only [insertKV]
    by_cases h1 : k < k0
    · simp only [h1, if_true, List.mem_cons, Prod.mk.injEq]
      constructor
      · rintro (⟨rfl, rfl⟩ | ⟨rfl, rfl⟩ | hm)
        · exact Or.inl ⟨rfl, rfl⟩
        · exact Or.inr ⟨ne_of_gt h1, Or.inl ⟨rfl, rfl⟩⟩
        · have := hlt _ hm
          exact Or.inr ⟨ne_of_gt (lt_trans h1 this), Or.inr hm⟩
      · rintro (⟨rfl, rfl⟩ | ⟨_, (⟨rfl, rfl⟩ | hm)⟩)
        · exact Or.inl ⟨rfl, rfl⟩
        · exact Or.inr (Or.inl ⟨rfl, rfl⟩)
        · exact Or.inr (Or.inr hm)
    · simp only [h1, if_false]
      by_cases h2 : k = k0
      · subst h2
        simp only [if_true, List.mem_cons, Prod.mk.injEq]
        constructor
        · rintro (⟨rfl, rfl⟩ | hm)
          · exact Or.inl ⟨rfl, rfl⟩
          · exact Or.inr ⟨ne_of_gt (hlt _ hm), Or.inr hm⟩
        · rintro (⟨rfl, rfl⟩ | ⟨hne, (⟨rfl, _⟩ | hm)⟩)
          · exact Or.inl ⟨rfl, rfl⟩
          · exact absurd rfl hne
          · exact Or.inr hm
      · simp only [h2, if_false, List.mem_cons, Prod.mk.injEq]
        rw [ih hs]
        constructor
        · rintro (⟨rfl, rfl⟩ | ⟨rfl, rfl⟩ | ⟨hne, hm⟩)
          · exact Or.inr ⟨fun h => h2 h.symm, Or.inl ⟨rfl, rfl⟩⟩
          · exact Or.inl ⟨rfl, rfl⟩
          · exact Or.inr ⟨hne, Or.inr hm⟩
        · rintro (⟨rfl, rfl⟩ | ⟨hne, (⟨rfl, rfl⟩ | hm)⟩)
          · exact Or.inr (Or.inl ⟨rfl, rfl⟩)
          · exact Or.inl ⟨rfl, rfl⟩
          · exact Or.inr (Or.inr ⟨hne, hm⟩)

/-- In a sorted association list a key has at most one value. -/
theorem ksorted_unique (c : List (K × V)) (h : KSorted c) (k : K) (v w : V)
    (h1 : (k, v) ∈ c) (h2 : (k, w) ∈ c) : v = w := by
  induction c with
  | nil => simp at h1
  | cons hd rest ih =>
    obtain ⟨k0, v0⟩ := hd
    have hs : KSorted rest := by simp [KSorted] at h ⊢; exact h.2
    have hlt : ∀ kv ∈ rest, k0 < kv.1 := by
      simp [KSorted] at h
      intro kv hkv; exact h.1 kv.1 kv.2 hkv
    simp only [List.mem_cons, Prod.mk.injEq] at h1 h2
    rcases h1 with ⟨rfl, rfl⟩ | h1 <;> rcases h2 with ⟨h2k, rfl⟩ | h2
    · rfl
    · exact absurd (hlt _ h2) (lt_irrefl _)
    · subst h2k; exact absurd (hlt _ h1) (lt_irrefl _)
    · exact ih hs h1 h2

/-- Two sorted association lists with the same entries are equal. -/
theorem ksorted_ext (c1 c2 : List (K × V)) (h1 : KSorted c1) (h2 : KSorted c2)
    (h : ∀ kv, kv ∈ c1 ↔ kv ∈ c2) : c1 = c2 := by
  induction c1 generalizing c2 with
  | nil =>
    cases c2 with
    | nil => rfl
    | cons x _ => exact absurd ((h x).2 (List.mem_cons_self)) (by simp)
  | cons a r1 ih =>
    cases c2 with
    | nil => exact absurd ((h a).1 (List.mem_cons_self)) (by simp)
    | cons b r2 =>
      have hs1 : KSorted r1 := by simp [KSorted] at h1 ⊢; exact h1.2
      have hs2 : KSorted r2 := by simp [KSorted] at h2 ⊢; exact h2.2
      have hl1 : ∀ kv ∈ r1, a.1 < kv.1 := by
        simp [KSorted] at h1; intro kv hkv; exact h1.1 kv.1 kv.2 hkv
      have hl2 : ∀ kv ∈ r2, b.1 < kv.1 := by
        simp [KSorted] at h2; intro kv hkv; exact h2.1 kv.1 kv.2 hkv
      have hab : a = b := by
        have ha := (h a).1 List.mem_cons_self
        have hb := (h b).2 List.mem_cons_self
        simp only [List.mem_cons] at ha hb
        rcases ha with rfl | ha
        · rfl
        · rcases hb with rfl | hb
          · rfl
          · exact absurd (lt_trans (hl2 _ ha) (hl1 _ hb)) (lt_irrefl _)
      subst hab
      congr 1
      apply ih r2 hs1 hs2
      intro kv
      constructor
      · intro hm
        have := (h kv).1 (List.mem_cons_of_mem _ hm)
        simp only [List.mem_cons] at this
        rcases this with rfl | this
        · exact absurd (hl1 _ hm) (lt_irrefl _)
        · exact this
      · intro hm
        have := (h kv).2 (List.mem_cons_of_mem _ hm)
        simp only [List.mem_cons] at this
        rcases this with rfl | this
        · exact absurd (hl2 _ hm) (lt_irrefl _)
        · exact this

/-- The entries of the content after a history are exactly the last writes. -/
theorem mem_applyOps (c : List (K × V)) (hc : KSorted c) (ops : List (Op K V)) (k : K) (v : V)
    (acc : Option V) (hacc : ∀ w, acc = some w ↔ (k, w) ∈ c) :
    (k, v) ∈ applyOps c ops ↔ lastWriteFrom k acc ops = some v := by
  induction ops generalizing c acc with
  | nil => simp [applyOps, lastWriteFrom, hacc]
  | cons op ops ih =>
    cases op with
    | hash => simpa [applyOps, lastWriteFrom] using ih c hc acc hacc
    | ups k' v' =>
      simp only [applyOps, lastWriteFrom]
      apply ih _ (insertKV_sorted k' v' c hc)
      intro w
      rw [mem_insertKV k' v' c hc]
      by_cases hk : k' = k
      · subst hk
        simp only [if_true, Option.some.injEq, true_and, ne_eq, not_true_eq_false, false_and, or_false]
        exact eq_comm
      · simp only [hk, if_false]
        rw [hacc]
        constructor
        · intro hm; exact Or.inr ⟨fun h => hk h.symm, hm⟩
        · rintro (⟨rfl, _⟩ | ⟨_, hm⟩)
          · exact absurd rfl hk
          · exact hm

theorem mem_finalContent (ops : List (Op K V)) (k : K) (v : V) :
    (k, v) ∈ finalContent ops ↔ lastWrite ops k = some v := by
  apply mem_applyOps [] (by simp [KSorted]) ops k v none
  intro w; simp

/-- Histories with the same last-write-wins map have the same final content. -/
theorem finalContent_ext (ops1 ops2 : List (Op K V)) (h : ∀ k, lastWrite ops1 k = lastWrite ops2 k) :
    finalContent ops1 = finalContent ops2 := by
  apply ksorted_ext _ _ (finalContent_sorted ops1) (finalContent_sorted ops2)
  rintro ⟨k, v⟩
  rw [mem_finalContent, mem_finalContent, h]

end
end Mst
