/-
Scope note of C06 as a theorem: under the PEER-WINS merge with three replicas there is a fair
schedule (every ordered pair of replicas pulls again and again) that never converges — at the store
level, whatever the tree does. So "every continuation that keeps pulling between all pairs reaches
agreement" cannot hold for peer-wins with ≥ 3 replicas; C06 is therefore proved for the join merge.
-/
import MstVerif.Proofs.SyncN
import MstVerif.Proofs.Extras
import Mathlib.Tactic.IntervalCases

namespace Mst

/-- all keys on level 0 -/
def lvl0 : Nat → Nat := fun _ => 0

/-- Three replicas holding the single key 7 with values 2, 2, 3 (reached by three local writes). -/
def pwStart : List (SyncOp Nat Nat) := [.write 0 7 2, .write 1 7 2, .write 2 7 3]

/-- One period: every ordered pair of distinct replicas pulls once. The pulls `1←2, 2←0, 0←1` move
the minority value around; the other three happen while they are harmless (equal values). -/
def pwCycle : List (SyncOp Nat Nat) :=
  [.pull 1 2,            -- (2,3,3)
   .pull 2 1,            --   harmless: replicas 1 and 2 agree
   .pull 2 0,            -- (2,3,2)
   .pull 0 2,            --   harmless: replicas 0 and 2 agree
   .pull 0 1,            -- (3,3,2)
   .pull 1 0]            --   harmless: replicas 0 and 1 agree

theorem pwCycle_isSweep : IsSweep 3 pwCycle := by
  refine ⟨?_, ?_⟩
  · intro op hop
    simp only [pwCycle, List.mem_cons, List.not_mem_nil, or_false] at hop
    rcases hop with rfl | rfl | rfl | rfl | rfl | rfl <;> simp
  · intro i j hi hj hij
    interval_cases i <;> interval_cases j <;> simp_all [pwCycle]

/-! ### The concrete states of the run

Everything is closed and computable, so the effect of the start and of one period on concrete
replica lists is established by evaluation (`rfl`; `with_unfolding_all` because `diff` sorts with
`List.mergeSort`, which is defined by well-founded recursion). -/

/-- the schedule runner at the parameters of this file -/
private abbrev runPW (rs : List (Replica Nat Nat (List UInt8))) (ops : List (SyncOp Nat Nat)) :
    Except String (List (Replica Nat Nat (List UInt8))) :=
  syncRun lvl0 perfectCfg .peerWins rs ops

/-- page digest of the one-node page `7 ↦ 2` under `perfectCfg` -/
private def pwH2 : List UInt8 := [4, 0, 0, 0, 0, 0, 0, 0, 1, 0, 0, 1]
/-- page digest of the one-node page `7 ↦ 3` under `perfectCfg` -/
private def pwH3 : List UInt8 := [4, 0, 0, 0, 0, 0, 0, 0, 1, 0, 0, 0, 1]

/-- a replica holding `7 ↦ v`, its one-page tree carrying the cache `c` -/
private def pwRep (v : Nat) (c : Option (List UInt8)) : Replica Nat Nat (List UInt8) :=
  { store := [(7, v)], tree := { root := .some 0 c (.cons .none 7 v .nil) .none, rootHash := c } }

/-- after the three writes: values (2,2,3), no caches -/
private def pwA0 : List (Replica Nat Nat (List UInt8)) := [pwRep 2 none, pwRep 2 none, pwRep 3 none]
/-- after an odd number of periods: values (3,3,2), all caches filled -/
private def pwA1 : List (Replica Nat Nat (List UInt8)) :=
  [pwRep 3 (some pwH3), pwRep 3 (some pwH3), pwRep 2 (some pwH2)]
/-- after an even, positive number of periods: values (2,2,3), all caches filled -/
private def pwA2 : List (Replica Nat Nat (List UInt8)) :=
  [pwRep 2 (some pwH2), pwRep 2 (some pwH2), pwRep 3 (some pwH3)]

private theorem pw_start : runPW (freshReplicas 3) pwStart = .ok pwA0 := by
  with_unfolding_all rfl

private theorem pw_cycle0 : runPW pwA0 pwCycle = .ok pwA1 := by
  with_unfolding_all rfl

private theorem pw_cycle1 : runPW pwA1 pwCycle = .ok pwA2 := by
  with_unfolding_all rfl

private theorem pw_cycle2 : runPW pwA2 pwCycle = .ok pwA1 := by
  with_unfolding_all rfl

/-- the three states the run ever visits -/
private def PwState (rs : List (Replica Nat Nat (List UInt8))) : Prop :=
  rs = pwA0 ∨ rs = pwA1 ∨ rs = pwA2

private theorem pw_cycles (n : Nat) :
    ∀ rs, PwState rs → ∃ rs', runPW rs (List.replicate n pwCycle).flatten = .ok rs' ∧ PwState rs' := by
  induction n with
  | zero => intro rs h; exact ⟨rs, rfl, h⟩
  | succ n ih =>
    intro rs h
    have hstep : ∃ rs1, runPW rs pwCycle = .ok rs1 ∧ PwState rs1 := by
      rcases h with rfl | rfl | rfl
      · exact ⟨pwA1, pw_cycle0, Or.inr (Or.inl rfl)⟩
      · exact ⟨pwA2, pw_cycle1, Or.inr (Or.inr rfl)⟩
      · exact ⟨pwA1, pw_cycle2, Or.inr (Or.inl rfl)⟩
    obtain ⟨rs1, h1, hs1⟩ := hstep
    obtain ⟨rs2, h2, hs2⟩ := ih rs1 hs1
    refine ⟨rs2, ?_, hs2⟩
    have h1' : syncRun lvl0 perfectCfg .peerWins rs pwCycle = .ok rs1 := h1
    show syncRun lvl0 perfectCfg .peerWins rs (List.replicate (n + 1) pwCycle).flatten = .ok rs2
    rw [List.replicate_succ, List.flatten_cons, syncRun_append, h1']
    exact h2

private theorem pwState_diverged (rs : List (Replica Nat Nat (List UInt8))) (h : PwState rs) :
    rs.length = 3 ∧ ∃ r₁ ∈ rs, ∃ r₂ ∈ rs, r₁.store ≠ r₂.store := by
  rcases h with rfl | rfl | rfl
  · exact ⟨rfl, pwRep 2 none, by simp [pwA0], pwRep 3 none, by simp [pwA0], by simp [pwRep]⟩
  · exact ⟨rfl, pwRep 3 (some pwH3), by simp [pwA1], pwRep 2 (some pwH2), by simp [pwA1],
      by simp [pwRep]⟩
  · exact ⟨rfl, pwRep 2 (some pwH2), by simp [pwA2], pwRep 3 (some pwH3), by simp [pwA2],
      by simp [pwRep]⟩

/-- After the start and any number of periods the three replicas never hold the same content
(two different values are always present), although every ordered pair keeps pulling. -/
theorem peerWins_fair_schedule_never_converges (n : Nat) :
    ∃ rs : List (Replica Nat Nat (List UInt8)),
      syncRun lvl0 perfectCfg .peerWins (freshReplicas 3) (pwStart ++ (List.replicate n pwCycle).flatten) = .ok rs ∧
      rs.length = 3 ∧ ∃ r₁ ∈ rs, ∃ r₂ ∈ rs, r₁.store ≠ r₂.store := by
  obtain ⟨rs, hrun, hs⟩ := pw_cycles n pwA0 (Or.inl rfl)
  refine ⟨rs, ?_, pwState_diverged rs hs⟩
  have h0 : syncRun lvl0 perfectCfg .peerWins (freshReplicas 3) pwStart = .ok pwA0 := pw_start
  rw [syncRun_append, h0]
  exact hrun

end Mst

#print axioms Mst.pwCycle_isSweep
#print axioms Mst.peerWins_fair_schedule_never_converges
