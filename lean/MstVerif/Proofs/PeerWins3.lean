/-
Scope note of C06 as a theorem: under the PEER-WINS merge with three replicas there is a fair
schedule (every ordered pair of replicas pulls again and again) that never converges — at the store
level, whatever the tree does. So "every continuation that keeps pulling between all pairs reaches
agreement" cannot hold for peer-wins with ≥ 3 replicas; C06 is therefore proved for the join merge.
-/
import MstVerif.Proofs.SyncN
import MstVerif.Proofs.Extras

namespace Mst

/-- all keys on level 0 -/
def lvl0 : Nat → Nat := fun _ => 0

/-- Three replicas holding the single key 7 with values 2, 2, 3 (reached by three local writes). -/
def pwStart : List (SyncOp Nat Nat) := [.write 0 7 2, .write 1 7 2, .write 2 7 3]

/-- One period: every ordered pair of distinct replicas pulls once. The pulls `1←2, 2←0, 0←1` move
the minority value around; the other three happen while they are harmless (equal values). -/
def pwCycle : List (SyncOp Nat Nat) :=
  [.pull 1 2,            -- (2,3,3)
   .pull 2 1,            --   harmless: replicas 1 and 2 agree
   .pull 2 0,            -- (2,3,2)
   .pull 0 2,            --   harmless: replicas 0 and 2 agree
   .pull 0 1,            -- (3,3,2)
   .pull 1 0]            --   harmless: replicas 0 and 1 agree

theorem pwCycle_isSweep : IsSweep 3 pwCycle := by
  sorry

/-- After the start and any number of periods the three replicas never hold the same content
(two different values are always present), although every ordered pair keeps pulling. -/
theorem peerWins_fair_schedule_never_converges (n : Nat) :
    ∃ rs : List (Replica Nat Nat (List UInt8)),
      syncRun lvl0 perfectCfg .peerWins (freshReplicas 3) (pwStart ++ (List.replicate n pwCycle).flatten) = .ok rs ∧
      rs.length = 3 ∧ ∃ r₁ ∈ rs, ∃ r₂ ∈ rs, r₁.store ≠ r₂.store := by
  sorry

end Mst
