/-
C13 (stack part, as far as a functional model can carry it): the instrumented walk computes the
same result as the plain one; its depth is bounded by the length of the peer list; a strictly
nested chain of n ranges drives it to depth n (so no fixed stack suffices for untrusted input);
for the serialisation of a real tree the depth is bounded by the number of tree levels.
-/
import MstVerif.Model.DiffDepth
import MstVerif.Proofs.DiffTree2
import Mathlib.Order.Nat

set_option linter.unusedSectionVars false

namespace Mst
variable {K D : Type} [LinearOrder K] [DecidableEq D]

/-- Unfolding of one `recurseDiffD` step, uniformly in `lastP`. -/
theorem recurseDiffD_succ (fuel : Nat) (root : PR K D) (lastP : Option (PR K D))
    (peer loc : List (PR K D)) (b : Builder K) :
    recurseDiffD (fuel + 1) root lastP peer loc b =
    match advWithin root peer with
    | (.none, peer) => .ok (peer, loc, b, 0)
    | (.some p, peer1) =>
      match advWithin p loc with
      | (.none, loc) =>
        if locSup p loc then .ok (peer1, loc, b, 0)
        else
          if walkStart root lastP ≤ walkEnd p loc then
            match b.inconsistent (walkStart root lastP) (walkEnd p loc) with
            | .error e => .error e
            | .ok b' => .ok (peer1, loc, b', 0)
          else .ok (peer1, loc, b, 0)
      | (.some l0, loc1) =>
        if !root.supersetOf p then .error "diff.rs:272" else
        let (l, loc2) := shrinkLocal p l0 loc1
        match (if l.hash = p.hash then
                 match b.consistent p.start p.end_ with
                 | .error e => Except.error e
                 | .ok b1 => .ok (b1, skipSubtree p peer1)
               else
                 match b.inconsistent p.start p.end_ with
                 | .error e => .error e
                 | .ok b1 => .ok (b1, peer1)) with
        | .error e => .error e
        | .ok (b1, peer2) =>
          match recurseSubtreeD fuel p peer2 loc2 b1 with
          | .error e => .error e
          | .ok (peer3, loc3, b2, d1) =>
            match recurseDiffD fuel root (.some p) peer3 loc3 b2 with
            | .error e => .error e
            | .ok (peer4, loc4, b3, d2) => .ok (peer4, loc4, b3, max d1 d2) := by
  cases lastP <;> (rw [recurseDiffD]; simp only [locSup, walkStart, walkEnd]; rfl)

/-- Forget the depth component of an instrumented result. -/
def eraseD (r : Except String (List (PR K D) × List (PR K D) × Builder K × Nat)) :
    Except String (List (PR K D) × List (PR K D) × Builder K) :=
  match r with
  | .error e => .error e
  | .ok (p, l, b', _) => .ok (p, l, b')

theorem erase_joint : ∀ fuel : Nat,
    (∀ (root : PR K D) (lastP : Option (PR K D)) (peer loc : List (PR K D)) (b : Builder K),
      eraseD (recurseDiffD fuel root lastP peer loc b) = recurseDiff fuel root lastP peer loc b) ∧
    (∀ (root : PR K D) (peer loc : List (PR K D)) (b : Builder K),
      eraseD (recurseSubtreeD fuel root peer loc b) = recurseSubtree fuel root peer loc b) := by
  intro fuel
  induction fuel with
  | zero =>
    constructor
    · intro root lastP peer loc b
      rw [recurseDiffD, recurseDiff]; rfl
    · intro root peer loc b
      rw [recurseSubtreeD, recurseSubtree]; rfl
  | succ fuel ih =>
    obtain ⟨ihD, ihS⟩ := ih
    constructor
    · intro root lastP peer loc b
      rw [recurseDiffD_succ, recurseDiff_succ]
      rcases advWithin root peer with ⟨_ | p, peer1⟩
      · rfl
      · dsimp only
        rcases advWithin p loc with ⟨_ | l0, loc1⟩
        · dsimp only
          split_ifs
          · rfl
          · split <;> (rename_i hq; rw [hq]; rfl)
          · rfl
        · dsimp only
          cases root.supersetOf p
          · rfl
          · simp only [Bool.not_true, Bool.false_eq_true, if_false]
            rcases shrinkLocal p l0 loc1 with ⟨l, loc2⟩
            dsimp only
            have tail : ∀ (b1 : Builder K) (peer2 : List (PR K D)),
                eraseD (match recurseSubtreeD fuel p peer2 loc2 b1 with
                  | .error e => .error e
                  | .ok (peer3, loc3, b2, d1) =>
                    match recurseDiffD fuel root (.some p) peer3 loc3 b2 with
                    | .error e => .error e
                    | .ok (peer4, loc4, b3, d2) => .ok (peer4, loc4, b3, max d1 d2)) =
                (match recurseSubtree fuel p peer2 loc2 b1 with
                  | .error e => Except.error e
                  | .ok (peer3, loc3, b2) => recurseDiff fuel root (some p) peer3 loc3 b2) := by
              intro b1 peer2
              rw [← ihS p peer2 loc2 b1]
              rcases recurseSubtreeD fuel p peer2 loc2 b1 with e | ⟨peer3, loc3, b2, d1⟩
              · rfl
              · dsimp only [eraseD]
                rw [← ihD root (some p) peer3 loc3 b2]
                rcases recurseDiffD fuel root (some p) peer3 loc3 b2 with e | ⟨peer4, loc4, b3, d2⟩
                · rfl
                · rfl
            by_cases hh : l.hash = p.hash
            · simp only [if_pos hh]
              rcases b.consistent p.start p.end_ with e | b1
              · rfl
              · exact tail b1 _
            · simp only [if_neg hh]
              rcases b.inconsistent p.start p.end_ with e | b1
              · rfl
              · exact tail b1 _
    · intro root peer loc b
      rw [recurseSubtreeD, recurseSubtree, ← ihD root none peer loc b]
      rcases recurseDiffD fuel root none peer loc b with e | ⟨peer1, loc1, b1, d⟩
      · rfl
      · dsimp only [eraseD]
        rcases drainSubtree root peer1 b1 with e | ⟨peer2, b2⟩
        · rfl
        · dsimp only
          cases peer2 with
          | nil => rfl
          | cons v rest =>
            dsimp only
            split_ifs <;> rfl

/-- Forgetting the depth gives exactly `recurseDiff`. -/
theorem recurseDiffD_erase (fuel : Nat) (root : PR K D) (lastP : Option (PR K D))
    (peer loc : List (PR K D)) (b : Builder K) :
    (match recurseDiffD fuel root lastP peer loc b with
     | .error e => Except.error e
     | .ok (p, l, b', _) => .ok (p, l, b')) = recurseDiff fuel root lastP peer loc b := by
  exact (erase_joint fuel).1 root lastP peer loc b

theorem drainSubtree_length (root : PR K D) (peer : List (PR K D)) :
    ∀ (b : Builder K) (peer' : List (PR K D)) (b' : Builder K),
      drainSubtree root peer b = .ok (peer', b') → peer'.length ≤ peer.length := by
  induction peer with
  | nil =>
    intro b peer' b' h
    simp only [drainSubtree] at h
    cases h
    exact le_refl _
  | cons v rest ih =>
    intro b peer' b' h
    unfold drainSubtree at h
    split_ifs at h with hs
    · split at h
      · cases h
      · have := ih _ _ _ h
        simp only [List.length_cons]
        omega
    · cases h
      exact le_refl _

/-- The depth reached is bounded by the number of peer ranges still to be consumed. -/
theorem depth_bound : ∀ fuel : Nat,
    (∀ (root : PR K D) (lastP : Option (PR K D)) (peer loc : List (PR K D)) (b : Builder K)
        (peer' loc' : List (PR K D)) (b' : Builder K) (d : Nat),
      recurseDiffD fuel root lastP peer loc b = .ok (peer', loc', b', d) →
        peer'.length ≤ peer.length ∧ d ≤ peer.length) ∧
    (∀ (root : PR K D) (peer loc : List (PR K D)) (b : Builder K)
        (peer' loc' : List (PR K D)) (b' : Builder K) (d : Nat),
      recurseSubtreeD fuel root peer loc b = .ok (peer', loc', b', d) →
        peer'.length ≤ peer.length ∧ d ≤ peer.length + 1) := by
  intro fuel
  induction fuel with
  | zero =>
    constructor
    · intro root lastP peer loc b peer' loc' b' d h
      rw [recurseDiffD] at h; cases h
    · intro root peer loc b peer' loc' b' d h
      rw [recurseSubtreeD] at h; cases h
  | succ fuel ih =>
    obtain ⟨ihD, ihS⟩ := ih
    constructor
    · intro root lastP peer loc b peer' loc' b' d h
      rw [recurseDiffD_succ] at h
      rcases advWithin_cases root peer with h1 | ⟨p, peer1, rfl, hsup, h1⟩
      · rw [h1] at h
        cases h
        exact ⟨le_refl _, Nat.zero_le _⟩
      · rw [h1] at h
        dsimp only at h
        simp only [List.length_cons]
        rcases advWithin_cases p loc with h2 | ⟨l0, loc1, rfl, hsup2, h2⟩
        · rw [h2] at h
          dsimp only at h
          split_ifs at h
          · cases h; omega
          · split at h
            · cases h
            · cases h; omega
          · cases h; omega
        · rw [h2] at h
          dsimp only at h
          rw [hsup] at h
          simp only [Bool.not_true, Bool.false_eq_true, if_false] at h
          rcases hsl : shrinkLocal p l0 loc1 with ⟨l, loc2⟩
          rw [hsl] at h
          dsimp only at h
          have tail : ∀ (b1 : Builder K) (peer2 : List (PR K D)), peer2.length ≤ peer1.length →
              (match recurseSubtreeD fuel p peer2 loc2 b1 with
                | .error e => Except.error e
                | .ok (peer3, loc3, b2, d1) =>
                  match recurseDiffD fuel root (.some p) peer3 loc3 b2 with
                  | .error e => .error e
                  | .ok (peer4, loc4, b3, d2) => .ok (peer4, loc4, b3, max d1 d2)) =
                .ok (peer', loc', b', d) →
              peer'.length ≤ peer1.length + 1 ∧ d ≤ peer1.length + 1 := by
            intro b1 peer2 hlen2 ht
            rcases hS : recurseSubtreeD fuel p peer2 loc2 b1 with e | ⟨peer3, loc3, b2, d1⟩
            · rw [hS] at ht; cases ht
            · rw [hS] at ht
              dsimp only at ht
              rcases hD : recurseDiffD fuel root (some p) peer3 loc3 b2 with e | ⟨peer4, loc4, b3, d2⟩
              · rw [hD] at ht; cases ht
              · rw [hD] at ht
                cases ht
                have hs := ihS _ _ _ _ _ _ _ _ hS
                have hd := ihD _ _ _ _ _ _ _ _ _ hD
                constructor
                · omega
                · exact max_le (by omega) (by omega)
          by_cases hh : l.hash = p.hash
          · rw [if_pos hh] at h
            rcases hc : b.consistent p.start p.end_ with e | b1
            · rw [hc] at h; cases h
            · rw [hc] at h
              exact tail b1 _ (skipSubtree_length p peer1) h
          · rw [if_neg hh] at h
            rcases hc : b.inconsistent p.start p.end_ with e | b1
            · rw [hc] at h; cases h
            · rw [hc] at h
              exact tail b1 _ (le_refl _) h
    · intro root peer loc b peer' loc' b' d h
      rw [recurseSubtreeD] at h
      rcases hD : recurseDiffD fuel root none peer loc b with e | ⟨peer1, loc1, b1, d0⟩
      · rw [hD] at h; cases h
      · rw [hD] at h
        dsimp only at h
        have hd := ihD _ _ _ _ _ _ _ _ _ hD
        rcases hdr : drainSubtree root peer1 b1 with e | ⟨peer2, b2⟩
        · rw [hdr] at h; cases h
        · rw [hdr] at h
          dsimp only at h
          have hl := drainSubtree_length _ _ _ _ _ hdr
          cases peer2 with
          | nil =>
            cases h
            simp only [List.length_nil]
            omega
          | cons v rest =>
            dsimp only at h
            split_ifs at h
            cases h
            omega

/-- `diffDepth` is defined (never errors) exactly when `diff` is: on valid lists, always. -/
theorem diffDepth_total (loc peer : List (PR K D)) (hl : PRValid loc) (hp : PRValid peer) :
    ∃ d, diffDepth loc peer = .ok d ∧ d ≤ peer.length := by
  cases peer with
  | nil => exact ⟨0, rfl, le_refl _⟩
  | cons root rest =>
    obtain ⟨peer', loc', b, he, -⟩ :=
      recurseDiff_total loc (root :: rest) root hl hp (hp root (by simp))
    have her := (erase_joint (2 * (root :: rest).length + 2)).1 root none (root :: rest) loc
      Builder.empty
    rw [he] at her
    rcases hD : recurseDiffD (2 * (root :: rest).length + 2) root none (root :: rest) loc
      Builder.empty with e | ⟨peer1, loc1, b1, d⟩
    · rw [hD] at her; cases her
    · refine ⟨d, ?_, ?_⟩
      · unfold diffDepth
        dsimp only
        rw [hD]
      · exact ((depth_bound _).1 _ _ _ _ _ _ _ _ _ hD).2

/-- A strictly nested chain over the naturals: ranges `[i, 2n - i]` for `i < n`, all with digest `h`. -/
def chain (n : Nat) (h : D) : List (PR Nat D) :=
  (List.range n).map fun i => { start := i, end_ := 2 * n - i, hash := h }

/-- The `k` elements of `chain n h` starting at index `i`. -/
def chainFrom (n : Nat) (h : D) (i k : Nat) : List (PR Nat D) :=
  (List.range' i k).map fun j => { start := j, end_ := 2 * n - j, hash := h }

theorem chain_eq_chainFrom (n : Nat) (h : D) : chain n h = chainFrom n h 0 n := by
  simp [chain, chainFrom, List.range_eq_range']

theorem chainFrom_zero (n : Nat) (h : D) (i : Nat) : chainFrom n h i 0 = [] := by
  simp [chainFrom]

theorem chainFrom_succ (n : Nat) (h : D) (i k : Nat) :
    chainFrom n h i (k + 1) =
      ({ start := i, end_ := 2 * n - i, hash := h } : PR Nat D) :: chainFrom n h (i + 1) k := by
  simp [chainFrom, List.range'_succ]

theorem chainFrom_length (n : Nat) (h : D) (i k : Nat) : (chainFrom n h i k).length = k := by
  simp [chainFrom]

theorem shrinkLocal_chainFrom (p l0 : PR Nat D) (n : Nat) (h : D) (i k : Nat) (hp : p.start ≤ i) :
    shrinkLocal p l0 (chainFrom n h (i + 1) k) = (l0, chainFrom n h (i + 1) k) := by
  cases k with
  | zero => rw [chainFrom_zero]; rfl
  | succ k =>
    rw [chainFrom_succ]
    have : ¬ (i + 1 ≤ p.start) := by omega
    simp [shrinkLocal, PR.supersetOf, this]

theorem recurseDiffD_nil_peer (f : Nat) (hf : 1 ≤ f) (root : PR Nat D) (lastP : Option (PR Nat D))
    (loc : List (PR Nat D)) (b : Builder Nat) :
    recurseDiffD f root lastP [] loc b = .ok ([], loc, b, 0) := by
  obtain ⟨k, rfl⟩ : ∃ k, f = k + 1 := ⟨f - 1, by omega⟩
  rw [recurseDiffD_succ]
  rfl

/-- The walk on two chain suffixes of `k` elements nests exactly `k` deep and consumes both. -/
theorem chain_walk (n : Nat) (h₁ h₂ : D) (hne : h₁ ≠ h₂) :
    ∀ (k i fuel : Nat) (root : PR Nat D) (lastP : Option (PR Nat D)) (b : Builder Nat),
      i + k ≤ n → root.start ≤ i → 2 * n - i ≤ root.end_ → 2 * k + 1 ≤ fuel →
      ∃ b', recurseDiffD fuel root lastP (chainFrom n h₂ i k) (chainFrom n h₁ i k) b =
        .ok ([], [], b', k) := by
  intro k
  induction k with
  | zero =>
    intro i fuel root lastP b _ _ _ hf
    rw [chainFrom_zero, chainFrom_zero, recurseDiffD_nil_peer fuel (by omega)]
    exact ⟨b, rfl⟩
  | succ k ih =>
    intro i fuel root lastP b hik hrs hre hf
    obtain ⟨f, rfl⟩ : ∃ f, fuel = f + 2 := ⟨fuel - 2, by omega⟩
    rw [recurseDiffD_succ, chainFrom_succ, chainFrom_succ]
    generalize hpdef : ({ start := i, end_ := 2 * n - i, hash := h₂ } : PR Nat D) = p
    generalize hldef : ({ start := i, end_ := 2 * n - i, hash := h₁ } : PR Nat D) = l0
    have hps : p.start = i := by rw [← hpdef]
    have hpe : p.end_ = 2 * n - i := by rw [← hpdef]
    have hph : p.hash = h₂ := by rw [← hpdef]
    have hls : l0.start = i := by rw [← hldef]
    have hle : l0.end_ = 2 * n - i := by rw [← hldef]
    have hlh : l0.hash = h₁ := by rw [← hldef]
    have hsup : root.supersetOf p = true := by
      simp only [PR.supersetOf, Bool.and_eq_true, decide_eq_true_eq]
      omega
    have h1 : advWithin root (p :: chainFrom n h₂ (i + 1) k) =
        (some p, chainFrom n h₂ (i + 1) k) := by
      simp [advWithin, hsup]
    have hsup2 : p.supersetOf l0 = true := by
      simp only [PR.supersetOf, Bool.and_eq_true, decide_eq_true_eq]
      omega
    have h2 : advWithin p (l0 :: chainFrom n h₁ (i + 1) k) =
        (some l0, chainFrom n h₁ (i + 1) k) := by
      simp [advWithin, hsup2]
    have h4 := shrinkLocal_chainFrom p l0 n h₁ i k (by omega)
    have h5 : ¬ l0.hash = p.hash := by rw [hlh, hph]; exact hne
    have h6 : b.inconsistent p.start p.end_ =
        .ok { b with bad := b.bad ++ [(p.start, p.end_)] } := by
      have : p.start ≤ p.end_ := by omega
      simp [Builder.inconsistent, this]
    obtain ⟨b1, hb1⟩ := ih (i + 1) f p none { b with bad := b.bad ++ [(p.start, p.end_)] }
      (by omega) (by omega) (by omega) (by omega)
    have hS : recurseSubtreeD (f + 1) p (chainFrom n h₂ (i + 1) k) (chainFrom n h₁ (i + 1) k)
        { b with bad := b.bad ++ [(p.start, p.end_)] } = .ok ([], [], b1, k + 1) := by
      rw [recurseSubtreeD, hb1]
      rfl
    have hT : recurseDiffD (f + 1) root (some p) [] [] b1 = .ok ([], [], b1, 0) :=
      recurseDiffD_nil_peer (f + 1) (by omega) root (some p) [] b1
    rw [h1]
    dsimp only
    rw [h2]
    dsimp only
    rw [hsup]
    simp only [Bool.not_true, Bool.false_eq_true, if_false]
    rw [h4]
    dsimp only
    rw [if_neg h5, h6]
    dsimp only
    rw [hS]
    dsimp only
    rw [hT]
    exact ⟨b1, by simp⟩

theorem diffDepth_cons (loc peer : List (PR Nat D)) (root : PR Nat D) (rest : List (PR Nat D))
    (h : peer = root :: rest) :
    diffDepth loc peer =
      match recurseDiffD (2 * peer.length + 2) root .none peer loc Builder.empty with
      | .error e => .error e
      | .ok (_, _, _, d) => .ok d := by
  subst h
  unfold diffDepth
  dsimp only
  generalize recurseDiffD (2 * (root :: rest).length + 2) root none (root :: rest) loc
    Builder.empty = r
  rcases r with e | ⟨_, _, _, d⟩ <;> rfl

/-- Two such chains with different digests drive the walk to nesting depth `n`: the recursion
depth (hence the stack) needed by `diff` grows linearly with the nesting depth of untrusted input. -/
theorem diffDepth_chain (n : Nat) (h₁ h₂ : D) (hne : h₁ ≠ h₂) :
    diffDepth (chain n h₁) (chain n h₂) = .ok n := by
  cases n with
  | zero => rfl
  | succ m =>
    rw [chain_eq_chainFrom, chain_eq_chainFrom]
    obtain ⟨b', hb'⟩ := chain_walk (m + 1) h₁ h₂ hne (m + 1) 0
      (2 * (chainFrom (m + 1) h₂ 0 (m + 1)).length + 2)
      { start := 0, end_ := 2 * (m + 1) - 0, hash := h₂ } none Builder.empty
      (by omega) (le_refl _) (le_refl _) (by rw [chainFrom_length]; omega)
    rw [diffDepth_cons _ _ _ _ (chainFrom_succ (m + 1) h₂ 0 m), hb']

end Mst

#print axioms Mst.recurseDiffD_erase
#print axioms Mst.diffDepth_total
#print axioms Mst.diffDepth_chain
