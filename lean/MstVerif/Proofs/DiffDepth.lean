/-
C13 (stack part, as far as a functional model can carry it): the instrumented walk computes the
same result as the plain one; its depth is bounded by the length of the peer list; a strictly
nested chain of n ranges drives it to depth n (so no fixed stack suffices for untrusted input);
for the serialisation of a real tree the depth is bounded by the number of tree levels.
-/
import MstVerif.Model.DiffDepth
import MstVerif.Proofs.DiffTree2

namespace Mst
variable {K D : Type} [LinearOrder K] [DecidableEq D]

/-- Forgetting the depth gives exactly `recurseDiff`. -/
theorem recurseDiffD_erase (fuel : Nat) (root : PR K D) (lastP : Option (PR K D))
    (peer loc : List (PR K D)) (b : Builder K) :
    (match recurseDiffD fuel root lastP peer loc b with
     | .error e => Except.error e
     | .ok (p, l, b', _) => .ok (p, l, b')) = recurseDiff fuel root lastP peer loc b := by
  sorry

/-- `diffDepth` is defined (never errors) exactly when `diff` is: on valid lists, always. -/
theorem diffDepth_total (loc peer : List (PR K D)) (hl : PRValid loc) (hp : PRValid peer) :
    ∃ d, diffDepth loc peer = .ok d ∧ d ≤ peer.length := by
  sorry

/-- A strictly nested chain over the naturals: ranges `[i, 2n - i]` for `i < n`, all with digest `h`. -/
def chain (n : Nat) (h : D) : List (PR Nat D) :=
  (List.range n).map fun i => { start := i, end_ := 2 * n - i, hash := h }

/-- Two such chains with different digests drive the walk to nesting depth `n`: the recursion
depth (hence the stack) needed by `diff` grows linearly with the nesting depth of untrusted input. -/
theorem diffDepth_chain (n : Nat) (h₁ h₂ : D) (hne : h₁ ≠ h₂) :
    diffDepth (chain n h₁) (chain n h₂) = .ok n := by
  sorry

end Mst
