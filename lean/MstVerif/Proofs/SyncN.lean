/-
L9c: any number of replicas, any schedule of writes and pairwise pulls (C06).
The value type carries an ARBITRARY join-semilattice (`[SemilatticeSup V]`, `Merge.joinMax` merges
with `⊔`); what is special to linear orders (the join of finitely many values is one of them, so the
join of everything written is HELD by some replica) is in the section `Linear` at the end.
-/
import MstVerif.Proofs.SyncConv

set_option linter.unusedSectionVars false

namespace Mst
variable {K V D : Type} [LinearOrder K] [SemilatticeSup V] [DecidableEq V] [DecidableEq D]

/-- `n` fresh replicas. -/
def freshReplicas (n : Nat) : List (Replica K V D) := List.replicate n Replica.empty

/-! ### One step of a schedule, concretely -/

theorem step_pull_gen (lvl : K → Nat) (hlvl : ∀ k, lvl k < 255) (hc : HashCfg K V D) (m : Merge)
    (rs : List (Replica K V D)) (hrs : ∀ r ∈ rs, RInv lvl hc r) (i j : Nat) :
    ∃ rs', syncStep lvl hc m rs (.pull i j) = .ok rs' ∧
      ((rs' = rs ∧ (i = j ∨ rs[i]? = none ∨ rs[j]? = none)) ∨
       (i ≠ j ∧ ∃ ri rj ri' rj' ranges, rs[i]? = some ri ∧ rs[j]? = some rj ∧
          pull lvl hc m ri rj = .ok (ri', rj') ∧ RInv lvl hc ri' ∧ RInv lvl hc rj' ∧
          rj'.store = rj.store ∧ ri'.store = absorbStore m ri.store (fetch rj.store ranges) ∧
          rs' = (rs.set i ri').set j rj')) := by
  by_cases hij : i = j
  · exact ⟨rs, by simp [syncStep, hij], Or.inl ⟨rfl, Or.inl hij⟩⟩
  · cases hi : rs[i]? with
    | none => exact ⟨rs, by simp [syncStep, hij, hi], Or.inl ⟨rfl, Or.inr (Or.inl rfl)⟩⟩
    | some ri =>
      cases hj : rs[j]? with
      | none => exact ⟨rs, by simp [syncStep, hij, hi, hj], Or.inl ⟨rfl, Or.inr (Or.inr rfl)⟩⟩
      | some rj =>
        have hri := hrs ri (List.mem_of_getElem? hi)
        have hrj := hrs rj (List.mem_of_getElem? hj)
        obtain ⟨ranges, ri', rj', hp, h1, h2, h3, h4, -⟩ := pull_spec lvl hlvl hc m ri rj hri hrj
        exact ⟨(rs.set i ri').set j rj', by simp [syncStep, hij, hi, hj, hp, setAt],
          Or.inr ⟨hij, ri, rj, ri', rj', ranges, rfl, rfl, hp, h1, h2, h3, h4, rfl⟩⟩

theorem step_write_gen (lvl : K → Nat) (hlvl : ∀ k, lvl k < 255) (hc : HashCfg K V D) (m : Merge)
    (rs : List (Replica K V D)) (hrs : ∀ r ∈ rs, RInv lvl hc r) (r : Nat) (k : K) (v : V) :
    ∃ rs', syncStep lvl hc m rs (.write r k v) = .ok rs' ∧
      ((rs' = rs ∧ rs[r]? = none) ∨
       (∃ rep rep', rs[r]? = some rep ∧ RInv lvl hc rep' ∧
          rep'.store = insertKV k (m.apply (lookupKV k rep.store) v) rep.store ∧
          rs' = rs.set r rep')) := by
  cases hr : rs[r]? with
  | none => exact ⟨rs, by simp [syncStep, hr], Or.inl ⟨rfl, rfl⟩⟩
  | some rep =>
    have hrep := hrs rep (List.mem_of_getElem? hr)
    obtain ⟨rep', hw, h1, h2⟩ := write_spec lvl hlvl hc m rep hrep k v
    exact ⟨rs.set r rep', by simp [syncStep, hr, hw, setAt], Or.inr ⟨rep, rep', rfl, h1, h2, rfl⟩⟩

theorem step_gen_inv (lvl : K → Nat) (hlvl : ∀ k, lvl k < 255) (hc : HashCfg K V D) (m : Merge)
    (rs : List (Replica K V D)) (hrs : ∀ r ∈ rs, RInv lvl hc r) (op : SyncOp K V) :
    ∃ rs', syncStep lvl hc m rs op = .ok rs' ∧ rs'.length = rs.length ∧
      ∀ r ∈ rs', RInv lvl hc r := by
  cases op with
  | write r k v =>
    obtain ⟨rs', h, hc'⟩ := step_write_gen lvl hlvl hc m rs hrs r k v
    refine ⟨rs', h, ?_⟩
    rcases hc' with ⟨rfl, -⟩ | ⟨rep, rep', -, h1, -, rfl⟩
    · exact ⟨rfl, hrs⟩
    · refine ⟨by simp, ?_⟩
      intro x hx
      rcases List.mem_or_eq_of_mem_set hx with hx | rfl
      · exact hrs x hx
      · exact h1
  | pull i j =>
    obtain ⟨rs', h, hc'⟩ := step_pull_gen lvl hlvl hc m rs hrs i j
    refine ⟨rs', h, ?_⟩
    rcases hc' with ⟨rfl, -⟩ | ⟨-, ri, rj, ri', rj', ranges, -, -, -, h1, h2, -, -, rfl⟩
    · exact ⟨rfl, hrs⟩
    · refine ⟨by simp, ?_⟩
      intro x hx
      rcases List.mem_or_eq_of_mem_set hx with hx | rfl
      · rcases List.mem_or_eq_of_mem_set hx with hx | rfl
        · exact hrs x hx
        · exact h1
      · exact h2

/-- Refinement (every schedule, every merge rule): no operation panics and every replica's
incrementally maintained tree — with whatever cache state its history left — satisfies the tree
invariant and mirrors its store at every step. -/
theorem syncRun_inv (lvl : K → Nat) (hlvl : ∀ k, lvl k < 255) (hc : HashCfg K V D) (m : Merge)
    (rs : List (Replica K V D)) (hrs : ∀ r ∈ rs, RInv lvl hc r) (ops : List (SyncOp K V)) :
    ∃ rs', syncRun lvl hc m rs ops = .ok rs' ∧ rs'.length = rs.length ∧ ∀ r ∈ rs', RInv lvl hc r := by
  induction ops generalizing rs with
  | nil => exact ⟨rs, rfl, rfl, hrs⟩
  | cons op ops ih =>
    obtain ⟨rs1, h1, hl1, hi1⟩ := step_gen_inv lvl hlvl hc m rs hrs op
    obtain ⟨rs2, h2, hl2, hi2⟩ := ih rs1 hi1
    exact ⟨rs2, by simp [syncRun, h1, h2], hl2.trans hl1, hi2⟩

/-- The join of everything ever written to key `k` by the write operations of a schedule. -/
def written (ops : List (SyncOp K V)) (k : K) : Option V :=
  ops.foldl (fun acc op =>
    match op with
    | .write _ k' v => if k' = k then (match acc with | none => some v | some w => some (max w v)) else acc
    | .pull _ _ => acc) none

/-- option order: `none` below everything -/
def optLe : Option V → Option V → Prop
  | none, _ => True
  | some _, none => False
  | some x, some y => x ≤ y

/-! ### The option join and its order -/

/-- option join: `none` is the unit -/
def optMax : Option V → Option V → Option V
  | none, y => y
  | some x, none => some x
  | some x, some y => some (max x y)

theorem optLe_refl (x : Option V) : optLe x x := by
  cases x <;> simp [optLe]

theorem optLe_trans {x y z : Option V} (h1 : optLe x y) (h2 : optLe y z) : optLe x z := by
  cases x <;> cases y <;> cases z <;> simp_all [optLe]
  exact le_trans h1 h2

theorem optLe_antisymm {x y : Option V} (h1 : optLe x y) (h2 : optLe y x) : x = y := by
  cases x <;> cases y <;> simp_all [optLe]
  exact le_antisymm h1 h2

theorem optLe_none {x : Option V} (h : optLe x none) : x = none := by
  cases x <;> simp_all [optLe]

theorem optLe_optMax_left (x y : Option V) : optLe x (optMax x y) := by
  cases x <;> cases y <;> simp [optLe, optMax]

theorem optLe_optMax_right (x y : Option V) : optLe y (optMax x y) := by
  cases x <;> cases y <;> simp [optLe, optMax]

theorem optMax_le {x y z : Option V} (h1 : optLe x z) (h2 : optLe y z) : optLe (optMax x y) z := by
  cases x <;> cases y <;> cases z <;> simp_all [optLe, optMax]

theorem optMax_self (x : Option V) : optMax x x = x := by
  cases x <;> simp [optMax]

theorem apply_joinMax (old : Option V) (v : V) :
    some (Merge.apply .joinMax old v) = optMax old (some v) := by
  cases old with
  | none => rfl
  | some o => rfl

theorem written_snoc_write (ops : List (SyncOp K V)) (r : Nat) (kw : K) (v : V) (k : K) :
    written (ops ++ [SyncOp.write r kw v]) k =
      if kw = k then optMax (written ops k) (some v) else written ops k := by
  unfold written
  rw [List.foldl_append]
  simp only [List.foldl_cons, List.foldl_nil]
  by_cases h : kw = k
  · simp only [h, if_true]
    cases List.foldl _ none ops <;> rfl
  · simp only [h, if_false]

theorem written_snoc_pull (ops : List (SyncOp K V)) (i j : Nat) (k : K) :
    written (ops ++ [SyncOp.pull i j]) k = written ops k := by
  unfold written
  rw [List.foldl_append]
  rfl

/-! ### Stores as lookup functions -/

theorem storeN_ext (s s' : List (K × V)) (hs : KSorted s) (hs' : KSorted s')
    (h : ∀ k, lookupKV k s = lookupKV k s') : s = s' := by
  apply ksorted_ext _ _ hs hs'
  rintro ⟨k, v⟩
  rw [← lookupKV_eq_some s hs, ← lookupKV_eq_some s' hs', h]

/-- the receiver's store after a join-pull, keywise -/
def PullRel (sa sb sa' : List (K × V)) : Prop :=
  ∀ k, lookupKV k sa' = lookupKV k sa ∨ lookupKV k sa' = optMax (lookupKV k sa) (lookupKV k sb)

theorem pullN_lookup (s t : List (K × V)) (hs : KSorted s) (ht : KSorted t) (R : List (DR K)) :
    PullRel s t (absorbStore .joinMax s (fetch t R)) := by
  intro k
  rw [lookup_absorbStore .joinMax s (fetch t R) hs (fetch_sorted t ht R) k, lookup_fetch t ht R k]
  by_cases hin : inRanges R k = true
  · simp only [hin, if_true]
    cases ht' : lookupKV k t with
    | none => left; rfl
    | some v => right; exact apply_joinMax _ _
  · left; simp [hin]

theorem write_lookup (s : List (K × V)) (hs : KSorted s) (k : K) (v : V) (k' : K) :
    lookupKV k' (insertKV k (Merge.apply .joinMax (lookupKV k s) v) s) =
      if k' = k then optMax (lookupKV k s) (some v) else lookupKV k' s := by
  have := lookup_absorbStore .joinMax s [(k, v)] hs (by simp [KSorted]) k'
  simp only [absorbStore] at this
  rw [this]
  simp only [lookupKV]
  by_cases h : k = k'
  · subst h; simp [apply_joinMax]
  · simp [h, Ne.symm h]

theorem pullRel_self (s s' : List (K × V)) (hs : KSorted s) (hs' : KSorted s')
    (h : PullRel s s s') : s' = s := by
  apply storeN_ext _ _ hs' hs
  intro k
  rcases h k with h | h
  · exact h
  · rw [h, optMax_self]

/-! ### The safety invariant on the list of stores -/

/-- `x` is generated by the values written to `k`: some written value lies below it, and it is the
least upper bound of the written values below it (nothing invented). In a linear order this says
that `x` itself was written. -/
def GenBy (ops : List (SyncOp K V)) (k : K) (x : V) : Prop :=
  (∃ r0 v, SyncOp.write r0 k v ∈ ops ∧ v ≤ x) ∧
  ∀ u, (∀ r0 v, SyncOp.write r0 k v ∈ ops → v ≤ x → v ≤ u) → x ≤ u

theorem genBy_write {ops : List (SyncOp K V)} {r0 : Nat} {k : K} {v : V}
    (h : SyncOp.write r0 k v ∈ ops) : GenBy ops k v :=
  ⟨⟨r0, v, h, le_refl _⟩, fun u hu => hu r0 v h (le_refl _)⟩

theorem genBy_mono {ops ops' : List (SyncOp K V)} (hsub : ∀ op ∈ ops, op ∈ ops') {k : K} {x : V}
    (h : GenBy ops k x) : GenBy ops' k x := by
  obtain ⟨⟨r0, v, hm, hv⟩, hl⟩ := h
  exact ⟨⟨r0, v, hsub _ hm, hv⟩, fun u hu => hl u (fun r1 w hw hwx => hu r1 w (hsub _ hw) hwx)⟩

theorem genBy_sup {ops : List (SyncOp K V)} {k : K} {p q : V} (hp : GenBy ops k p)
    (hq : GenBy ops k q) : GenBy ops k (p ⊔ q) := by
  obtain ⟨⟨r0, v, hm, hv⟩, hl⟩ := hp
  refine ⟨⟨r0, v, hm, le_trans hv le_sup_left⟩, fun u hu => sup_le ?_ ?_⟩
  · exact hl u (fun r1 w hw hwp => hu r1 w hw (le_trans hwp le_sup_left))
  · exact hq.2 u (fun r1 w hw hwq => hu r1 w hw (le_trans hwq le_sup_right))

/-- generated values are closed under the option join -/
theorem genBy_optMax {ops : List (SyncOp K V)} {k : K} {x y : Option V} {z : V}
    (hx : ∀ p, x = some p → GenBy ops k p) (hy : ∀ q, y = some q → GenBy ops k q)
    (h : optMax x y = some z) : GenBy ops k z := by
  cases x with
  | none => exact hy z h
  | some p =>
    cases y with
    | none => exact hx z h
    | some q =>
      simp only [optMax, Option.some.injEq] at h
      subst h
      exact genBy_sup (hx p rfl) (hy q rfl)

/-- Safety invariant, on the list of stores, relative to the schedule executed so far: every store
is below the join of everything written (`le`), that join is the LEAST upper bound of the stores —
nothing written is lost (`lub`) — and every stored value is a join of written values (`gen`). -/
structure SGood (ops : List (SyncOp K V)) (S : List (List (K × V))) : Prop where
  le : ∀ s ∈ S, ∀ k, optLe (lookupKV k s) (written ops k)
  lub : ∀ k u, (∀ s ∈ S, optLe (lookupKV k s) u) → optLe (written ops k) u
  gen : ∀ s ∈ S, ∀ k x, lookupKV k s = some x → GenBy ops k x

theorem mem_set_self' {α : Type} (l : List α) (i : Nat) (x : α) (h : i < l.length) : x ∈ l.set i x :=
  List.mem_iff_getElem?.2 ⟨i, by simp [h]⟩

theorem mem_set_ne' {α : Type} (l : List α) (i idx : Nat) (x a : α) (h : l[idx]? = some a)
    (hne : idx ≠ i) : a ∈ l.set i x :=
  List.mem_iff_getElem?.2 ⟨idx, by simp [Ne.symm hne, h]⟩

theorem lt_of_getElem?_some {α : Type} {l : List α} {i : Nat} {a : α} (h : l[i]? = some a) :
    i < l.length := by
  obtain ⟨h', -⟩ := List.getElem?_eq_some_iff.1 h
  exact h'

theorem sgood_set_pull (ops : List (SyncOp K V)) (S : List (List (K × V))) (h : SGood ops S)
    (i : Nat) (si sj s' : List (K × V)) (hi : S[i]? = some si) (hj : sj ∈ S)
    (hp : PullRel si sj s') : SGood ops (S.set i s') := by
  have hsi : si ∈ S := List.mem_of_getElem? hi
  have hlt : i < S.length := lt_of_getElem?_some hi
  have hle' : ∀ k, optLe (lookupKV k s') (written ops k) := by
    intro k
    rcases hp k with e | e
    · rw [e]; exact h.le si hsi k
    · rw [e]; exact optMax_le (h.le si hsi k) (h.le sj hj k)
  have hmono : ∀ k, optLe (lookupKV k si) (lookupKV k s') := by
    intro k
    rcases hp k with e | e
    · rw [e]; exact optLe_refl _
    · rw [e]; exact optLe_optMax_left _ _
  refine ⟨?_, ?_, ?_⟩
  · intro s hs k
    rcases List.mem_or_eq_of_mem_set hs with hs | rfl
    · exact h.le s hs k
    · exact hle' k
  · intro k u hu
    apply h.lub k u
    intro s hs
    obtain ⟨idx, hidx⟩ := List.mem_iff_getElem?.1 hs
    by_cases hne : idx = i
    · subst hne
      rw [hi] at hidx
      cases hidx
      exact optLe_trans (hmono k) (hu s' (mem_set_self' S idx s' hlt))
    · exact hu s (mem_set_ne' S i idx s' s hidx hne)
  · intro s hs k x hx
    rcases List.mem_or_eq_of_mem_set hs with hs | rfl
    · exact h.gen s hs k x hx
    · rcases hp k with e | e
      · rw [e] at hx; exact h.gen si hsi k x hx
      · rw [e] at hx
        exact genBy_optMax (fun p hp => h.gen si hsi k p hp) (fun q hq => h.gen sj hj k q hq) hx

theorem sgood_snoc_pull (ops : List (SyncOp K V)) (S : List (List (K × V))) (h : SGood ops S)
    (i j : Nat) : SGood (ops ++ [SyncOp.pull i j]) S := by
  refine ⟨?_, ?_, ?_⟩
  · intro s hs k; rw [written_snoc_pull]; exact h.le s hs k
  · intro k u hu; rw [written_snoc_pull]; exact h.lub k u hu
  · intro s hs k x hx
    exact genBy_mono (fun op hop => List.mem_append_left _ hop) (h.gen s hs k x hx)

theorem sgood_set_write (ops : List (SyncOp K V)) (S : List (List (K × V))) (h : SGood ops S)
    (r : Nat) (kw : K) (v : V) (sr s' : List (K × V)) (hr : S[r]? = some sr)
    (hw : ∀ k, lookupKV k s' = if k = kw then optMax (lookupKV kw sr) (some v) else lookupKV k sr) :
    SGood (ops ++ [SyncOp.write r kw v]) (S.set r s') := by
  have hsr : sr ∈ S := List.mem_of_getElem? hr
  have hlt : r < S.length := lt_of_getElem?_some hr
  have hWmono : ∀ k, optLe (written ops k) (written (ops ++ [SyncOp.write r kw v]) k) := by
    intro k
    rw [written_snoc_write]
    by_cases e : kw = k
    · simp only [e, if_true]; exact optLe_optMax_left _ _
    · simp only [e, if_false]; exact optLe_refl _
  have hmono : ∀ k, optLe (lookupKV k sr) (lookupKV k s') := by
    intro k
    rw [hw k]
    by_cases e : k = kw
    · subst e; simp only [if_true]; exact optLe_optMax_left _ _
    · simp only [e, if_false]; exact optLe_refl _
  have hle' : ∀ k, optLe (lookupKV k s') (written (ops ++ [SyncOp.write r kw v]) k) := by
    intro k
    rw [hw k, written_snoc_write]
    by_cases e : k = kw
    · subst e
      simp only [if_true]
      exact optMax_le (optLe_trans (h.le sr hsr k) (optLe_optMax_left _ _)) (optLe_optMax_right _ _)
    · simp only [e, Ne.symm e, if_false]
      exact h.le sr hsr k
  have hle : ∀ s ∈ S.set r s', ∀ k, optLe (lookupKV k s) (written (ops ++ [SyncOp.write r kw v]) k) := by
    intro s hs k
    rcases List.mem_or_eq_of_mem_set hs with hs | rfl
    · exact optLe_trans (h.le s hs k) (hWmono k)
    · exact hle' k
  have hsub : ∀ op ∈ ops, op ∈ ops ++ [SyncOp.write r kw v] :=
    fun op hop => List.mem_append_left _ hop
  have hnew : SyncOp.write r kw v ∈ ops ++ [SyncOp.write r kw v] :=
    List.mem_append_right _ (List.mem_singleton.2 rfl)
  refine ⟨hle, ?_, ?_⟩
  · intro k u hu
    have hold : optLe (written ops k) u := by
      apply h.lub k u
      intro s hs
      obtain ⟨idx, hidx⟩ := List.mem_iff_getElem?.1 hs
      by_cases hne : idx = r
      · subst hne
        rw [hr] at hidx
        cases hidx
        exact optLe_trans (hmono k) (hu s' (mem_set_self' S idx s' hlt))
      · exact hu s (mem_set_ne' S r idx s' s hidx hne)
    rw [written_snoc_write]
    by_cases e : kw = k
    · subst e
      simp only [if_true]
      apply optMax_le hold
      have := hu s' (mem_set_self' S r s' hlt) 
      rw [hw kw] at this
      simp only [if_true] at this
      exact optLe_trans (optLe_optMax_right _ _) this
    · simp only [e, if_false]; exact hold
  · intro s hs k x hx
    rcases List.mem_or_eq_of_mem_set hs with hs | rfl
    · exact genBy_mono hsub (h.gen s hs k x hx)
    · rw [hw k] at hx
      by_cases e : k = kw
      · subst e
        simp only [if_true] at hx
        exact genBy_optMax (fun p hp => genBy_mono hsub (h.gen sr hsr k p hp))
          (fun q hq => by cases hq; exact genBy_write hnew) hx
      · simp only [e, if_false] at hx
        exact genBy_mono hsub (h.gen sr hsr k x hx)

theorem sgood_fresh (n : Nat) : SGood ([] : List (SyncOp K V)) (List.replicate n ([] : List (K × V))) := by
  refine ⟨?_, ?_, ?_⟩
  · intro s hs k
    rw [List.eq_of_mem_replicate hs]
    simp [lookupKV, optLe]
  · intro k u _
    simp [written, optLe]
  · intro s hs k x hx
    rw [List.eq_of_mem_replicate hs] at hx
    simp [lookupKV] at hx

/-- the list of stores of a list of replicas -/
def storesOf (rs : List (Replica K V D)) : List (List (K × V)) := rs.map (·.store)

omit [LinearOrder K] [SemilatticeSup V] [DecidableEq V] [DecidableEq D] in
theorem storesOf_getElem? (rs : List (Replica K V D)) (i : Nat) (r : Replica K V D)
    (h : rs[i]? = some r) : (storesOf rs)[i]? = some r.store := by
  simp [storesOf, h]

omit [LinearOrder K] [SemilatticeSup V] [DecidableEq V] [DecidableEq D] in
theorem mem_storesOf (rs : List (Replica K V D)) (r : Replica K V D) (h : r ∈ rs) :
    r.store ∈ storesOf rs := List.mem_map_of_mem h

omit [LinearOrder K] [SemilatticeSup V] [DecidableEq V] [DecidableEq D] in
/-- overwriting the sender by a replica with the same store leaves the list of stores alone -/
theorem storesOf_set_set (rs : List (Replica K V D)) (i j : Nat) (ri' rj rj' : Replica K V D)
    (hij : i ≠ j) (hj : rs[j]? = some rj) (hs : rj'.store = rj.store) :
    storesOf ((rs.set i ri').set j rj') = (storesOf rs).set i ri'.store := by
  unfold storesOf
  rw [List.map_set, List.map_set, hs]
  apply List.ext_getElem?
  intro idx
  by_cases e : j = idx
  · subst e
    obtain ⟨hlt, hjj⟩ := List.getElem?_eq_some_iff.1 hj
    simp [hij, hlt, hjj]
  · simp [e]

theorem set_eq_self {α : Type} {l : List α} {i : Nat} {a : α} (h : l[i]? = some a) : l.set i a = l := by
  obtain ⟨hlt, hget⟩ := List.getElem?_eq_some_iff.1 h
  rw [← hget]
  exact List.set_getElem_self hlt

/-! ### The potential -/

/-- `x` has not absorbed `v` yet: `¬ some v ≤ x` (decided through `v ⊔ y = y ↔ v ≤ y`) -/
def below (x : Option V) (v : V) : Bool :=
  match x with
  | none => true
  | some y => decide (v ⊔ y ≠ y)

/-- the number of write operations whose value the store `s` has not reached yet -/
def phi (ops : List (SyncOp K V)) (s : List (K × V)) : Nat :=
  ops.countP (fun op => match op with
    | .write _ k v => below (lookupKV k s) v
    | .pull _ _ => false)

def Psi (ops : List (SyncOp K V)) (S : List (List (K × V))) : Nat := (S.map (phi ops)).sum

theorem below_mono {x x' : Option V} (h : optLe x x') (v : V) (hb : below x' v = true) :
    below x v = true := by
  cases x with
  | none => rfl
  | some a =>
    cases x' with
    | none => simp [optLe] at h
    | some b =>
      simp only [optLe] at h
      simp only [below, decide_eq_true_eq] at hb ⊢
      intro e
      exact hb (sup_eq_right.2 (le_trans (sup_eq_right.1 e) h))

theorem phi_le_length (ops : List (SyncOp K V)) (s : List (K × V)) : phi ops s ≤ ops.length :=
  List.countP_le_length

theorem phi_mono (ops : List (SyncOp K V)) (s s' : List (K × V))
    (h : ∀ k, optLe (lookupKV k s) (lookupKV k s')) : phi ops s' ≤ phi ops s := by
  apply List.countP_mono_left
  intro op _ hop
  cases op with
  | write r k v => exact below_mono (h k) v hop
  | pull i j => exact hop

theorem countP_lt {α : Type} (p q : α → Bool) (l : List α)
    (hpq : ∀ x ∈ l, p x = true → q x = true) (a : α) (ha : a ∈ l) (hpa : p a = false)
    (hqa : q a = true) : l.countP p < l.countP q := by
  induction l with
  | nil => cases ha
  | cons b l ih =>
    have hrest : l.countP p ≤ l.countP q :=
      List.countP_mono_left (fun x hx => hpq x (List.mem_cons_of_mem _ hx))
    rcases List.mem_cons.1 ha with rfl | ha'
    · rw [List.countP_cons_of_neg (by simp [hpa]), List.countP_cons_of_pos hqa]
      omega
    · have := ih (fun x hx => hpq x (List.mem_cons_of_mem _ hx)) ha'
      by_cases hb : p b = true
      · rw [List.countP_cons_of_pos hb, List.countP_cons_of_pos (hpq b List.mem_cons_self hb)]
        omega
      · rw [List.countP_cons_of_neg hb]
        have : l.countP q ≤ (b :: l).countP q := by
          rw [List.countP_cons]; omega
        omega

theorem phi_strict (ops : List (SyncOp K V)) (s s' : List (K × V))
    (h : ∀ k, optLe (lookupKV k s) (lookupKV k s')) (r0 : Nat) (k : K) (z : V)
    (hmem : SyncOp.write r0 k z ∈ ops) (hz : optLe (some z) (lookupKV k s'))
    (hb : below (lookupKV k s) z = true) : phi ops s' < phi ops s := by
  apply countP_lt _ _ ops _ (SyncOp.write r0 k z) hmem
  · cases hy : lookupKV k s' with
    | none => rw [hy] at hz; exact absurd hz (by simp [optLe])
    | some y =>
      rw [hy] at hz
      simp only [optLe] at hz
      simp [hy, below, sup_eq_right.2 hz]
  · exact hb
  · intro op _ hop
    cases op with
    | write r k v => exact below_mono (h k) v hop
    | pull i j => exact hop

theorem pullRel_mono {si sj s' : List (K × V)} (hp : PullRel si sj s') (k : K) :
    optLe (lookupKV k si) (lookupKV k s') := by
  rcases hp k with e | e
  · rw [e]; exact optLe_refl _
  · rw [e]; exact optLe_optMax_left _ _

theorem pullRel_phi_lt (ops : List (SyncOp K V)) (si sj s' : List (K × V)) (hsi : KSorted si)
    (hs' : KSorted s') (hp : PullRel si sj s')
    (hgen : ∀ k x, lookupKV k s' = some x → GenBy ops k x) (hne : s' ≠ si) :
    phi ops s' < phi ops si := by
  have hex : ∃ k, lookupKV k s' ≠ lookupKV k si := by
    by_contra hcon
    apply hne
    apply storeN_ext _ _ hs' hsi
    intro k
    by_contra hk
    exact hcon ⟨k, hk⟩
  obtain ⟨k, hk⟩ := hex
  have hm := pullRel_mono hp k
  cases hz : lookupKV k s' with
  | none =>
    rw [hz] at hm
    rw [optLe_none hm] at hk
    exact absurd hz hk
  | some z =>
    -- the new value `z` is generated by written values; one of them is not below the old value
    obtain ⟨⟨r1, w, hw, hwz⟩, hl⟩ := hgen k z hz
    cases hx : lookupKV k si with
    | none =>
      exact phi_strict ops si s' (pullRel_mono hp) r1 k w hw (by rw [hz]; exact hwz)
        (by rw [hx]; rfl)
    | some a =>
      rw [hz, hx] at hm hk
      have haz : a ≤ z := hm
      have hex' : ∃ r0 v, SyncOp.write r0 k v ∈ ops ∧ v ≤ z ∧ ¬ v ≤ a := by
        by_contra hcon
        apply hk
        have hza : z ≤ a := hl a (fun r0 v hv hvz => by
          by_contra hva
          exact hcon ⟨r0, v, hv, hvz, hva⟩)
        rw [le_antisymm hza haz]
      obtain ⟨r0, v, hv, hvz, hva⟩ := hex'
      apply phi_strict ops si s' (pullRel_mono hp) r0 k v hv (by rw [hz]; exact hvz)
      rw [hx]
      simp only [below, decide_eq_true_eq]
      intro e
      exact hva (sup_eq_right.1 e)

theorem sum_map_set_le {α : Type} (f : α → Nat) (l : List α) (i : Nat) (x a : α)
    (h : l[i]? = some a) (hx : f x ≤ f a) : ((l.set i x).map f).sum ≤ (l.map f).sum := by
  induction l generalizing i with
  | nil => simp at h
  | cons b l ih =>
    cases i with
    | zero =>
      simp at h; subst h
      simp; omega
    | succ i =>
      simp at h
      have := ih i h
      simp only [List.set_cons_succ, List.map_cons, List.sum_cons]; omega

theorem sum_map_set_lt {α : Type} (f : α → Nat) (l : List α) (i : Nat) (x a : α)
    (h : l[i]? = some a) (hx : f x < f a) : ((l.set i x).map f).sum < (l.map f).sum := by
  induction l generalizing i with
  | nil => simp at h
  | cons b l ih =>
    cases i with
    | zero =>
      simp at h; subst h
      simp; omega
    | succ i =>
      simp at h
      have := ih i h
      simp only [List.set_cons_succ, List.map_cons, List.sum_cons]; omega

theorem Psi_le_bound (ops : List (SyncOp K V)) (S : List (List (K × V))) :
    Psi ops S ≤ S.length * ops.length := by
  induction S with
  | nil => simp [Psi]
  | cons s S ih =>
    have h1 := phi_le_length ops s
    simp only [Psi, List.map_cons, List.sum_cons, List.length_cons, Nat.succ_mul] at ih ⊢
    omega

/-! ### One pull from a good state -/

/-- the pull `a ← b` between replicas with these stores leaves the receiver's store alone -/
def QuietS (lvl : K → Nat) (hc : HashCfg K V D) (sa sb : List (K × V)) : Prop :=
  ∃ a b a' b' : Replica K V D, RInv lvl hc a ∧ RInv lvl hc b ∧ a.store = sa ∧ b.store = sb ∧
    pull lvl hc .joinMax a b = .ok (a', b') ∧ a'.store = sa

def AllEqS (S : List (List (K × V))) : Prop := ∀ s1 ∈ S, ∀ s2 ∈ S, s1 = s2

theorem good_pull_step (lvl : K → Nat) (hlvl : ∀ k, lvl k < 255) (hc : HashCfg K V D)
    (ops : List (SyncOp K V)) (rs : List (Replica K V D)) (hinv : ∀ r ∈ rs, RInv lvl hc r)
    (hg : SGood ops (storesOf rs)) (i j : Nat) :
    ∃ rs', syncStep lvl hc .joinMax rs (.pull i j) = .ok rs' ∧ rs'.length = rs.length ∧
      (∀ r ∈ rs', RInv lvl hc r) ∧ SGood ops (storesOf rs') ∧
      Psi ops (storesOf rs') ≤ Psi ops (storesOf rs) ∧
      (Psi ops (storesOf rs') < Psi ops (storesOf rs) ∨
        (storesOf rs' = storesOf rs ∧
          (i ≠ j → ∀ sa sb, (storesOf rs)[i]? = some sa → (storesOf rs)[j]? = some sb →
            QuietS lvl hc sa sb))) ∧
      (AllEqS (storesOf rs) → storesOf rs' = storesOf rs) := by
  obtain ⟨rs', hstep, hl, hinv'⟩ := step_gen_inv lvl hlvl hc .joinMax rs hinv (.pull i j)
  obtain ⟨rs'', hstep', hcases⟩ := step_pull_gen lvl hlvl hc .joinMax rs hinv i j
  have e := hstep.symm.trans hstep'
  injection e with e
  subst e
  refine ⟨rs', hstep, hl, hinv', ?_⟩
  rcases hcases with ⟨rfl, htriv⟩ | ⟨hij, ri, rj, ri', rj', ranges, hi, hj, hp, h1, h2, h3, h4, rfl⟩
  · refine ⟨hg, le_refl _, Or.inr ⟨rfl, ?_⟩, fun _ => rfl⟩
    intro hij sa sb hsa hsb
    rcases htriv with e | e | e
    · exact absurd e hij
    · simp [storesOf, e] at hsa
    · simp [storesOf, e] at hsb
  · have hS := storesOf_set_set rs i j ri' rj rj' hij hj h3
    rw [hS]
    have hri := hinv ri (List.mem_of_getElem? hi)
    have hrj := hinv rj (List.mem_of_getElem? hj)
    have hpr : PullRel ri.store rj.store ri'.store := by
      rw [h4]; exact pullN_lookup _ _ hri.sorted hrj.sorted ranges
    have hSi := storesOf_getElem? rs i ri hi
    have hSj := storesOf_getElem? rs j rj hj
    have hmj : rj.store ∈ storesOf rs := mem_storesOf rs rj (List.mem_of_getElem? hj)
    have hmi : ri.store ∈ storesOf rs := mem_storesOf rs ri (List.mem_of_getElem? hi)
    have hg' := sgood_set_pull ops _ hg i ri.store rj.store ri'.store hSi hmj hpr
    refine ⟨hg',
      sum_map_set_le (phi ops) _ i _ _ hSi (phi_mono ops _ _ (pullRel_mono hpr)), ?_, ?_⟩
    · by_cases hne : ri'.store = ri.store
      · right
        refine ⟨by rw [hne]; exact set_eq_self hSi, ?_⟩
        intro _ sa sb hsa hsb
        rw [hSi] at hsa; cases hsa
        rw [hSj] at hsb; cases hsb
        exact ⟨ri, rj, ri', rj', hri, hrj, rfl, rfl, hp, hne⟩
      · left
        exact sum_map_set_lt (phi ops) _ i _ _ hSi
          (pullRel_phi_lt ops _ _ _ hri.sorted h1.sorted hpr
            (hg'.gen _ (mem_set_self' _ i _ (lt_of_getElem?_some hSi))) hne)
    · intro hall
      have heq : rj.store = ri.store := hall _ hmj _ hmi
      rw [heq] at hpr
      rw [pullRel_self _ _ hri.sorted h1.sorted hpr]
      exact set_eq_self hSi

theorem good_write_step (lvl : K → Nat) (hlvl : ∀ k, lvl k < 255) (hc : HashCfg K V D)
    (ops : List (SyncOp K V)) (rs : List (Replica K V D)) (hinv : ∀ r ∈ rs, RInv lvl hc r)
    (hg : SGood ops (storesOf rs)) (r : Nat) (k : K) (v : V) (hr : r < rs.length) :
    ∃ rs', syncStep lvl hc .joinMax rs (.write r k v) = .ok rs' ∧ rs'.length = rs.length ∧
      (∀ r ∈ rs', RInv lvl hc r) ∧ SGood (ops ++ [SyncOp.write r k v]) (storesOf rs') := by
  obtain ⟨rs', hstep, hl, hinv'⟩ := step_gen_inv lvl hlvl hc .joinMax rs hinv (.write r k v)
  obtain ⟨rs'', hstep', hcases⟩ := step_write_gen lvl hlvl hc .joinMax rs hinv r k v
  have e := hstep.symm.trans hstep'
  injection e with e
  subst e
  refine ⟨rs', hstep, hl, hinv', ?_⟩
  rcases hcases with ⟨-, hnone⟩ | ⟨rep, rep', hrep, h1, h2, rfl⟩
  · simp [hr] at hnone
  · have hrr := hinv rep (List.mem_of_getElem? hrep)
    have : storesOf (rs.set r rep') = (storesOf rs).set r rep'.store := by
      simp [storesOf, List.map_set]
    rw [this]
    apply sgood_set_write ops _ hg r k v rep.store rep'.store (storesOf_getElem? rs r rep hrep)
    intro k'
    rw [h2]
    exact write_lookup rep.store hrr.sorted k v k'

theorem run_good_from (lvl : K → Nat) (hlvl : ∀ k, lvl k < 255) (hc : HashCfg K V D) (n : Nat) :
    ∀ (todo done : List (SyncOp K V)) (rs : List (Replica K V D)), rs.length = n →
      (∀ r ∈ rs, RInv lvl hc r) → SGood done (storesOf rs) →
      (∀ op ∈ todo, match op with | .write r _ _ => r < n | .pull i j => i < n ∧ j < n) →
      ∃ rs', syncRun lvl hc .joinMax rs todo = .ok rs' ∧ rs'.length = n ∧
        (∀ r ∈ rs', RInv lvl hc r) ∧ SGood (done ++ todo) (storesOf rs') := by
  intro todo
  induction todo with
  | nil =>
    intro done rs hl hinv hg _
    exact ⟨rs, rfl, hl, hinv, by simpa using hg⟩
  | cons op todo ih =>
    intro done rs hl hinv hg hw
    have hw' : ∀ op ∈ todo, match op with | .write r _ _ => r < n | .pull i j => i < n ∧ j < n :=
      fun o ho => hw o (List.mem_cons_of_mem _ ho)
    have happ : done ++ op :: todo = (done ++ [op]) ++ todo := by simp
    rw [happ]
    cases op with
    | write r k v =>
      have hr : r < n := hw (.write r k v) List.mem_cons_self
      obtain ⟨rs1, hs1, hl1, hi1, hg1⟩ :=
        good_write_step lvl hlvl hc done rs hinv hg r k v (by rw [hl]; exact hr)
      obtain ⟨rs2, hs2, hl2, hi2, hg2⟩ := ih (done ++ [.write r k v]) rs1 (hl1.trans hl) hi1 hg1 hw'
      exact ⟨rs2, by simp [syncRun, hs1, hs2], hl2, hi2, hg2⟩
    | pull i j =>
      obtain ⟨rs1, hs1, hl1, hi1, hg1, -⟩ := good_pull_step lvl hlvl hc done rs hinv hg i j
      obtain ⟨rs2, hs2, hl2, hi2, hg2⟩ := ih (done ++ [.pull i j]) rs1 (hl1.trans hl) hi1
        (sgood_snoc_pull done _ hg1 i j) hw'
      exact ⟨rs2, by simp [syncRun, hs1, hs2], hl2, hi2, hg2⟩

theorem run_good (lvl : K → Nat) (hlvl : ∀ k, lvl k < 255) (hc : HashCfg K V D)
    (n : Nat) (ops : List (SyncOp K V))
    (hw : ∀ op ∈ ops, match op with | .write r _ _ => r < n | .pull i j => i < n ∧ j < n) :
    ∃ rs, syncRun lvl hc .joinMax (freshReplicas n : List (Replica K V D)) ops = .ok rs ∧
      rs.length = n ∧ (∀ r ∈ rs, RInv lvl hc r) ∧ SGood ops (storesOf rs) := by
  have h := run_good_from lvl hlvl hc n ops [] (freshReplicas n : List (Replica K V D))
    (by simp [freshReplicas])
    (by
      intro r hr
      rw [List.eq_of_mem_replicate hr]
      exact Replica.empty_inv lvl hc)
    (by
      have : storesOf (freshReplicas n : List (Replica K V D)) = List.replicate n [] := by
        simp [storesOf, freshReplicas, Replica.empty]
      rw [this]
      exact sgood_fresh n)
    hw
  simpa using h

/-- Safety under the join merge (ANY join-semilattice), for every schedule from fresh replicas in
which every write addresses an existing replica: no replica ever holds more than the join of
everything written; nothing written is lost — for every key the join of everything written is the
LEAST upper bound of what the replicas hold; and nothing is invented — every stored value is a join
of written values. -/
theorem syncRun_safe_join (lvl : K → Nat) (hlvl : ∀ k, lvl k < 255) (hc : HashCfg K V D)
    (n : Nat) (ops : List (SyncOp K V))
    (hw : ∀ op ∈ ops, match op with | .write r _ _ => r < n | .pull i j => i < n ∧ j < n) :
    ∃ rs, syncRun lvl hc .joinMax (freshReplicas n : List (Replica K V D)) ops = .ok rs ∧ rs.length = n ∧
      (∀ r ∈ rs, ∀ k, optLe (lookupKV k r.store) (written ops k)) ∧
      (∀ k u, (∀ r ∈ rs, optLe (lookupKV k r.store) u) → optLe (written ops k) u) ∧
      (∀ r ∈ rs, ∀ k x, lookupKV k r.store = some x → GenBy ops k x) := by
  obtain ⟨rs, hrun, hl, -, hg⟩ := run_good lvl hlvl hc n ops hw
  refine ⟨rs, hrun, hl, ?_, ?_, ?_⟩
  · intro r hr k
    exact hg.le _ (mem_storesOf rs r hr) k
  · intro k u hu
    apply hg.lub k u
    intro s hs
    obtain ⟨r, hr, rfl⟩ := List.mem_map.1 hs
    exact hu r hr
  · intro r hr k x hx
    exact hg.gen _ (mem_storesOf rs r hr) k x hx

/-- A sweep: a sequence of pulls in which every ordered pair of distinct replicas occurs. -/
def IsSweep (n : Nat) (s : List (SyncOp K V)) : Prop :=
  (∀ op ∈ s, match op with | .pull i j => i < n ∧ j < n | .write _ _ _ => False) ∧
  ∀ i j, i < n → j < n → i ≠ j → SyncOp.pull i j ∈ s

/-! ### Runs of pulls -/

theorem syncRun_append (lvl : K → Nat) (hc : HashCfg K V D) (m : Merge)
    (rs : List (Replica K V D)) (o1 o2 : List (SyncOp K V)) :
    syncRun lvl hc m rs (o1 ++ o2) =
      (match syncRun lvl hc m rs o1 with
       | .error e => .error e
       | .ok rs' => syncRun lvl hc m rs' o2) := by
  induction o1 generalizing rs with
  | nil => rfl
  | cons op o1 ih =>
    simp only [List.cons_append, syncRun]
    cases h : syncStep lvl hc m rs op with
    | error e => rfl
    | ok rs' => exact ih rs'

def PullOnly (s : List (SyncOp K V)) : Prop := ∀ op ∈ s, ∃ i j, op = SyncOp.pull i j

omit [LinearOrder K] [SemilatticeSup V] [DecidableEq V] in
theorem IsSweep.pullOnly {n : Nat} {s : List (SyncOp K V)} (h : IsSweep n s) : PullOnly s := by
  intro op hop
  have := h.1 op hop
  cases op with
  | write r k v => exact absurd this (by simp)
  | pull i j => exact ⟨i, j, rfl⟩

theorem pulls_run (lvl : K → Nat) (hlvl : ∀ k, lvl k < 255) (hc : HashCfg K V D)
    (ops : List (SyncOp K V)) :
    ∀ (s : List (SyncOp K V)) (rs : List (Replica K V D)), (∀ r ∈ rs, RInv lvl hc r) →
      SGood ops (storesOf rs) → PullOnly s →
      ∃ rs', syncRun lvl hc .joinMax rs s = .ok rs' ∧ rs'.length = rs.length ∧
        (∀ r ∈ rs', RInv lvl hc r) ∧ SGood ops (storesOf rs') ∧
        Psi ops (storesOf rs') ≤ Psi ops (storesOf rs) ∧
        (Psi ops (storesOf rs') < Psi ops (storesOf rs) ∨
          (storesOf rs' = storesOf rs ∧
            ∀ i j, SyncOp.pull i j ∈ s → i ≠ j → ∀ sa sb, (storesOf rs)[i]? = some sa →
              (storesOf rs)[j]? = some sb → QuietS lvl hc sa sb)) ∧
        (AllEqS (storesOf rs) → storesOf rs' = storesOf rs) := by
  intro s
  induction s with
  | nil =>
    intro rs hinv hg _
    refine ⟨rs, rfl, rfl, hinv, hg, le_refl _, Or.inr ⟨rfl, ?_⟩, fun _ => rfl⟩
    intro i j hmem
    cases hmem
  | cons op s ih =>
    intro rs hinv hg hpo
    obtain ⟨i, j, rfl⟩ := hpo op List.mem_cons_self
    have hpo' : PullOnly s := fun o ho => hpo o (List.mem_cons_of_mem _ ho)
    obtain ⟨rs1, hs1, hl1, hi1, hg1, hle1, hd1, he1⟩ := good_pull_step lvl hlvl hc ops rs hinv hg i j
    obtain ⟨rs2, hs2, hl2, hi2, hg2, hle2, hd2, he2⟩ := ih rs1 hi1 hg1 hpo'
    refine ⟨rs2, by simp [syncRun, hs1, hs2], hl2.trans hl1, hi2, hg2, le_trans hle2 hle1, ?_, ?_⟩
    · rcases hd1 with hlt | ⟨hS1, hq1⟩
      · exact Or.inl (lt_of_le_of_lt hle2 hlt)
      · rcases hd2 with hlt | ⟨hS2, hq2⟩
        · left; rw [hS1] at hlt; exact hlt
        · right
          refine ⟨hS2.trans hS1, ?_⟩
          intro i' j' hmem hne sa sb hsa hsb
          rcases List.mem_cons.1 hmem with e | hmem'
          · injection e with e1 e2
            subst e1; subst e2
            exact hq1 hne sa sb hsa hsb
          · rw [hS1] at hq2
            exact hq2 i' j' hmem' hne sa sb hsa hsb
    · intro hall
      have h1 := he1 hall
      rw [← h1] at hall
      exact (he2 hall).trans h1

theorem quiet_pull (lvl : K → Nat) (hlvl : ∀ k, lvl k < 255) (hc : HashCfg K V D)
    (a b a' b' : Replica K V D) (ha : RInv lvl hc a) (hb : RInv lvl hc b)
    (hq : QuietS lvl hc a.store b.store) (hp : pull lvl hc .joinMax a b = .ok (a', b')) :
    a'.store = a.store := by
  obtain ⟨x, y, x', y', hx, hy, ex, ey, hpx, hqx⟩ := hq
  obtain ⟨p, q, p', q', h1, h2, h3, -⟩ :=
    pull_store_congr lvl hlvl hc .joinMax a b x y ha hb hx hy ex.symm ey.symm
  have e1 := hp.symm.trans h1
  injection e1 with e1
  injection e1 with e1 _
  have e2 := hpx.symm.trans h2
  injection e2 with e2
  injection e2 with e2 _
  rw [e1, h3, ← e2, hqx]

theorem quiet_allEq (lvl : K → Nat) (hlvl : ∀ k, lvl k < 255) (hc : HashCfg K V D)
    (hnc : NoCollisions hc) (rs : List (Replica K V D)) (hinv : ∀ r ∈ rs, RInv lvl hc r)
    (hq : ∀ i j : Nat, i ≠ j → ∀ sa sb, (storesOf rs)[i]? = some sa → (storesOf rs)[j]? = some sb →
      QuietS lvl hc sa sb) : AllEqS (storesOf rs) := by
  intro s1 hs1 s2 hs2
  obtain ⟨i, hi⟩ := List.mem_iff_getElem?.1 hs1
  obtain ⟨j, hj⟩ := List.mem_iff_getElem?.1 hs2
  by_cases hij : i = j
  · subst hij
    rw [hi] at hj
    exact Option.some.inj hj
  · by_contra hne
    have hq1 := hq i j hij s1 s2 hi hj
    have hq2 := hq j i (Ne.symm hij) s2 s1 hj hi
    have hi' := hi
    have hj' := hj
    simp only [storesOf, List.getElem?_map, Option.map_eq_some_iff] at hi' hj'
    obtain ⟨a, ha, rfl⟩ := hi'
    obtain ⟨b, hb, rfl⟩ := hj'
    have hra := hinv a (List.mem_of_getElem? ha)
    have hrb := hinv b (List.mem_of_getElem? hb)
    rcases pull_progress lvl hlvl hc hnc .joinMax a b hra hrb hne with
      ⟨a', b', hp, hch⟩ | ⟨b', a', hp, hch⟩
    · exact hch (quiet_pull lvl hlvl hc a b a' b' hra hrb hq1 hp)
    · exact hch (quiet_pull lvl hlvl hc b a b' a' hrb hra hq2 hp)

theorem sweeps_run (lvl : K → Nat) (hlvl : ∀ k, lvl k < 255) (hc : HashCfg K V D)
    (hnc : NoCollisions hc) (ops : List (SyncOp K V)) (n : Nat) :
    ∀ (sweeps : List (List (SyncOp K V))) (rs : List (Replica K V D)), rs.length = n →
      (∀ r ∈ rs, RInv lvl hc r) → SGood ops (storesOf rs) → (∀ s ∈ sweeps, IsSweep n s) →
      (Psi ops (storesOf rs) < sweeps.length ∨ AllEqS (storesOf rs)) →
      ∃ rs', syncRun lvl hc .joinMax rs sweeps.flatten = .ok rs' ∧ rs'.length = n ∧
        (∀ r ∈ rs', RInv lvl hc r) ∧ SGood ops (storesOf rs') ∧ AllEqS (storesOf rs') := by
  intro sweeps
  induction sweeps with
  | nil =>
    intro rs hl hinv hg _ hd
    refine ⟨rs, rfl, hl, hinv, hg, ?_⟩
    rcases hd with hd | hd
    · simp at hd
    · exact hd
  | cons s ss ih =>
    intro rs hl hinv hg hsw hd
    have hsw' : ∀ s ∈ ss, IsSweep n s := fun x hx => hsw x (List.mem_cons_of_mem _ hx)
    have hs : IsSweep n s := hsw s List.mem_cons_self
    obtain ⟨rs1, hs1, hl1, hi1, hg1, hle1, hd1, he1⟩ :=
      pulls_run lvl hlvl hc ops s rs hinv hg hs.pullOnly
    have hnext : Psi ops (storesOf rs1) < ss.length ∨ AllEqS (storesOf rs1) := by
      rcases hd with hd | hd
      · rcases hd1 with hlt | ⟨hS1, hq1⟩
        · left
          simp only [List.length_cons] at hd
          omega
        · right
          rw [hS1]
          apply quiet_allEq lvl hlvl hc hnc rs hinv
          intro i j hij sa sb hsa hsb
          have hi : i < n := by
            have := lt_of_getElem?_some hsa
            simpa [storesOf, hl] using this
          have hj : j < n := by
            have := lt_of_getElem?_some hsb
            simpa [storesOf, hl] using this
          exact hq1 i j (hs.2 i j hi hj hij) hij sa sb hsa hsb
      · right
        rw [he1 hd]; exact hd
    obtain ⟨rs2, hs2, hl2, hi2, hg2, he2⟩ := ih rs1 (hl1.trans hl) hi1 hg1 hsw' hnext
    refine ⟨rs2, ?_, hl2, hi2, hg2, he2⟩
    rw [List.flatten_cons, syncRun_append, hs1]
    exact hs2

/-- Liveness once writes stop: from the state reached by ANY schedule, every continuation made of
sufficiently many sweeps (each pulling between all pairs, in any order, with any extra pulls)
reaches a state where all replicas hold the join of everything written and report the same root
hash. `n * ops.length + 1` sweeps suffice. -/
theorem syncRun_live (lvl : K → Nat) (hlvl : ∀ k, lvl k < 255) (hc : HashCfg K V D)
    (hnc : NoCollisions hc) (n : Nat) (ops : List (SyncOp K V))
    (hw : ∀ op ∈ ops, match op with | .write r _ _ => r < n | .pull i j => i < n ∧ j < n)
    (sweeps : List (List (SyncOp K V))) (hs : ∀ s ∈ sweeps, IsSweep n s)
    (hlen : n * ops.length + 1 ≤ sweeps.length) :
    ∃ rs, syncRun lvl hc .joinMax (freshReplicas n : List (Replica K V D)) (ops ++ sweeps.flatten) = .ok rs ∧
      rs.length = n ∧
      (∀ r ∈ rs, ∀ k, lookupKV k r.store = written ops k) ∧
      (∀ r₁ ∈ rs, ∀ r₂ ∈ rs, r₁.store = r₂.store ∧
        (r₁.tree.genRootHash hc).rootHash = (r₂.tree.genRootHash hc).rootHash) := by
  obtain ⟨rs0, hrun0, hl0, hi0, hg0⟩ := run_good lvl hlvl hc n ops hw
  have hpsi : Psi ops (storesOf rs0) < sweeps.length := by
    have := Psi_le_bound ops (storesOf rs0)
    have hlen' : (storesOf rs0).length = n := by simp [storesOf, hl0]
    rw [hlen'] at this
    omega
  obtain ⟨rs, hrun, hl, hi, hg, heq⟩ :=
    sweeps_run lvl hlvl hc hnc ops n sweeps rs0 hl0 hi0 hg0 hs (Or.inl hpsi)
  refine ⟨rs, ?_, hl, ?_, ?_⟩
  · rw [syncRun_append, hrun0]
    exact hrun
  · intro r hr k
    have hm := mem_storesOf rs r hr
    apply optLe_antisymm (hg.le _ hm k)
    apply hg.lub k
    intro s hs'
    rw [heq _ hs' _ hm]
    exact optLe_refl _
  · intro r₁ h₁ r₂ h₂
    have hst : r₁.store = r₂.store := heq _ (mem_storesOf rs r₁ h₁) _ (mem_storesOf rs r₂ h₂)
    refine ⟨hst, ?_⟩
    have hr1 := hi r₁ h₁
    have hr2 := hi r₂ h₂
    obtain ⟨-, e1, -⟩ := genRootHash_inv lvl hc r₁.tree hr1.inv
    obtain ⟨-, e2, -⟩ := genRootHash_inv lvl hc r₂.tree hr2.inv
    have hcont : r₁.tree.root.content = r₂.tree.root.content := by
      rw [hr1.mirror, hr2.mirror, hst]
    have he := root_unique lvl r₁.tree.root r₂.tree.root hr1.inv.shape hr2.inv.shape hcont
    rw [e1, e2, ← trueHash_erase hc r₁.tree.root, he, trueHash_erase]

end Mst

/-! ### Linear orders: the join of everything written is HELD by some replica -/

namespace Mst
section Linear
variable {K V D : Type} [LinearOrder K] [LinearOrder V] [DecidableEq D]

theorem optMax_choice (x y : Option V) : optMax x y = x ∨ optMax x y = y := by
  cases x with
  | none => right; rfl
  | some a =>
    cases y with
    | none => left; rfl
    | some b =>
      rcases le_total a b with h | h
      · right; simp [optMax, max_eq_right h]
      · left; simp [optMax, max_eq_left h]

theorem optMax_eq_some {x y : Option V} {z : V} (h : optMax x y = some z) : x = some z ∨ y = some z := by
  rcases optMax_choice x y with h' | h'
  · left; rw [← h', h]
  · right; rw [← h', h]

/-- finitely many values strictly below `some v` have an upper bound strictly below `some v` -/
theorem exists_ub_ne (k : K) (v : V) : ∀ S : List (List (K × V)),
    (∀ s ∈ S, optLe (lookupKV k s) (some v) ∧ lookupKV k s ≠ some v) →
    ∃ u, (∀ s ∈ S, optLe (lookupKV k s) u) ∧ optLe u (some v) ∧ u ≠ some v
  | [], _ => ⟨none, by simp, by simp [optLe], by simp⟩
  | s :: S, h => by
    obtain ⟨u, h1, h2, h3⟩ := exists_ub_ne k v S (fun t ht => h t (List.mem_cons_of_mem _ ht))
    obtain ⟨h4, h5⟩ := h s List.mem_cons_self
    refine ⟨optMax (lookupKV k s) u, ?_, optMax_le h4 h2, ?_⟩
    · intro t ht
      rcases List.mem_cons.1 ht with rfl | ht
      · exact optLe_optMax_left _ _
      · exact optLe_trans (h1 t ht) (optLe_optMax_right _ _)
    · rcases optMax_choice (lookupKV k s) u with e | e <;> rw [e]
      · exact h5
      · exact h3

/-- In a linear order a least upper bound of finitely many values is one of them. -/
theorem attained_of_lub (k : K) (S : List (List (K × V))) (v : V)
    (le : ∀ s ∈ S, optLe (lookupKV k s) (some v))
    (lub : ∀ u, (∀ s ∈ S, optLe (lookupKV k s) u) → optLe (some v) u) :
    ∃ s ∈ S, lookupKV k s = some v := by
  by_contra hcon
  obtain ⟨u, h1, h2, h3⟩ := exists_ub_ne k v S (fun s hs => ⟨le s hs, fun e => hcon ⟨s, hs, e⟩⟩)
  exact h3 (optLe_antisymm h2 (lub u h1))

/-- the former `att` field of `SGood`: the join of everything written to a key is held somewhere -/
theorem SGood.att {ops : List (SyncOp K V)} {S : List (List (K × V))} (h : SGood ops S)
    (k : K) (v : V) (hv : written ops k = some v) : ∃ s ∈ S, lookupKV k s = some v :=
  attained_of_lub k S v (fun s hs => hv ▸ h.le s hs k) (fun u hu => hv ▸ h.lub k u hu)

/-- Safety under the join merge on a LINEAR order, for every schedule from fresh replicas in which
every write addresses an existing replica: no replica ever holds more than the join of everything
written, and nothing written is lost — for every key the join of everything written is held by some
replica. (Corollary of `syncRun_safe_join`: a finite join in a linear order is attained.) -/
theorem syncRun_safe (lvl : K → Nat) (hlvl : ∀ k, lvl k < 255) (hc : HashCfg K V D)
    (n : Nat) (ops : List (SyncOp K V))
    (hw : ∀ op ∈ ops, match op with | .write r _ _ => r < n | .pull i j => i < n ∧ j < n) :
    ∃ rs, syncRun lvl hc .joinMax (freshReplicas n : List (Replica K V D)) ops = .ok rs ∧ rs.length = n ∧
      (∀ r ∈ rs, ∀ k, optLe (lookupKV k r.store) (written ops k)) ∧
      (∀ k v, written ops k = some v → ∃ r ∈ rs, lookupKV k r.store = some v) := by
  obtain ⟨rs, hrun, hl, hle, hlub, -⟩ := syncRun_safe_join lvl hlvl hc n ops hw
  refine ⟨rs, hrun, hl, hle, ?_⟩
  intro k v hv
  obtain ⟨s, hs, hsv⟩ := attained_of_lub k (storesOf rs) v
    (fun s hs => by
      obtain ⟨r, hr, rfl⟩ := List.mem_map.1 hs
      exact hv ▸ hle r hr k)
    (fun u hu => hv ▸ hlub k u (fun r hr => hu _ (mem_storesOf rs r hr)))
  obtain ⟨r, hr, rfl⟩ := List.mem_map.1 hs
  exact ⟨r, hr, hsv⟩

end Linear
end Mst
