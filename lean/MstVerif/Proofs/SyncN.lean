/-
L9c: any number of replicas, any schedule of writes and pairwise pulls (C06).
-/
import MstVerif.Proofs.SyncConv

namespace Mst
variable {K V D : Type} [LinearOrder K] [LinearOrder V] [DecidableEq D]

/-- `n` fresh replicas. -/
def freshReplicas (n : Nat) : List (Replica K V D) := List.replicate n Replica.empty

/-- Refinement (every schedule, every merge rule): no operation panics and every replica's
incrementally maintained tree — with whatever cache state its history left — satisfies the tree
invariant and mirrors its store at every step. -/
theorem syncRun_inv (lvl : K → Nat) (hlvl : ∀ k, lvl k < 255) (hc : HashCfg K V D) (m : Merge)
    (rs : List (Replica K V D)) (hrs : ∀ r ∈ rs, RInv lvl hc r) (ops : List (SyncOp K V)) :
    ∃ rs', syncRun lvl hc m rs ops = .ok rs' ∧ rs'.length = rs.length ∧ ∀ r ∈ rs', RInv lvl hc r := by
  sorry

/-- The join of everything ever written to key `k` by the write operations of a schedule. -/
def written (ops : List (SyncOp K V)) (k : K) : Option V :=
  ops.foldl (fun acc op =>
    match op with
    | .write _ k' v => if k' = k then (match acc with | none => some v | some w => some (max w v)) else acc
    | .pull _ _ => acc) none

/-- option order: `none` below everything -/
def optLe : Option V → Option V → Prop
  | none, _ => True
  | some _, none => False
  | some x, some y => x ≤ y

/-- Safety under the join merge, for every schedule from fresh replicas in which every write
addresses an existing replica: no replica ever holds more than the join of everything written, and
nothing written is lost — for every key the join over all replicas is exactly the join of
everything written. -/
theorem syncRun_safe (lvl : K → Nat) (hlvl : ∀ k, lvl k < 255) (hc : HashCfg K V D)
    (n : Nat) (ops : List (SyncOp K V))
    (hw : ∀ op ∈ ops, match op with | .write r _ _ => r < n | .pull i j => i < n ∧ j < n) :
    ∃ rs, syncRun lvl hc .joinMax (freshReplicas n : List (Replica K V D)) ops = .ok rs ∧ rs.length = n ∧
      (∀ r ∈ rs, ∀ k, optLe (lookupKV k r.store) (written ops k)) ∧
      (∀ k v, written ops k = some v → ∃ r ∈ rs, lookupKV k r.store = some v) := by
  sorry

/-- A sweep: a sequence of pulls in which every ordered pair of distinct replicas occurs. -/
def IsSweep (n : Nat) (s : List (SyncOp K V)) : Prop :=
  (∀ op ∈ s, match op with | .pull i j => i < n ∧ j < n | .write _ _ _ => False) ∧
  ∀ i j, i < n → j < n → i ≠ j → SyncOp.pull i j ∈ s

/-- Liveness once writes stop: from the state reached by ANY schedule, every continuation made of
sufficiently many sweeps (each pulling between all pairs, in any order, with any extra pulls)
reaches a state where all replicas hold the join of everything written and report the same root
hash. `n * ops.length + 1` sweeps suffice. -/
theorem syncRun_live (lvl : K → Nat) (hlvl : ∀ k, lvl k < 255) (hc : HashCfg K V D)
    (hnc : NoCollisions hc) (n : Nat) (ops : List (SyncOp K V))
    (hw : ∀ op ∈ ops, match op with | .write r _ _ => r < n | .pull i j => i < n ∧ j < n)
    (sweeps : List (List (SyncOp K V))) (hs : ∀ s ∈ sweeps, IsSweep n s)
    (hlen : n * ops.length + 1 ≤ sweeps.length) :
    ∃ rs, syncRun lvl hc .joinMax (freshReplicas n : List (Replica K V D)) (ops ++ sweeps.flatten) = .ok rs ∧
      rs.length = n ∧
      (∀ r ∈ rs, ∀ k, lookupKV k r.store = written ops k) ∧
      (∀ r₁ ∈ rs, ∀ r₂ ∈ rs, r₁.store = r₂.store ∧
        (r₁.tree.genRootHash hc).rootHash = (r₂.tree.genRootHash hc).rootHash) := by
  sorry

end Mst
