/-
L9b: two replicas — progress of anti-entropy, bounded rounds, join result (C05).
-/
import MstVerif.Proofs.Sync

namespace Mst
variable {K V D : Type} [LinearOrder K] [LinearOrder V] [DecidableEq D]

/-- The keys on which two stores disagree (missing on one side counts). -/
def disagreeKeys (a b : List (K × V)) : List K :=
  ((a.map Prod.fst ++ b.map Prod.fst).eraseDups).filter fun k => decide (lookupKV k a ≠ lookupKV k b)

def disagree (a b : List (K × V)) : Nat := (disagreeKeys a b).length

theorem disagree_eq_zero (a b : List (K × V)) (ha : KSorted a) (hb : KSorted b) :
    disagree a b = 0 ↔ a = b := by
  sorry

/-- C05, first sentence: two replicas with different content — pulling in at least one of the two
directions changes the receiver, for the join (max) merge and for peer-wins. -/
theorem pull_progress (lvl : K → Nat) (hlvl : ∀ k, lvl k < 255) (hc : HashCfg K V D)
    (hnc : NoCollisions hc) (m : Merge)
    (a b : Replica K V D) (ha : RInv lvl hc a) (hb : RInv lvl hc b) (hne : a.store ≠ b.store) :
    (∃ a' b', pull lvl hc m a b = .ok (a', b') ∧ a'.store ≠ a.store) ∨
    (∃ b' a', pull lvl hc m b a = .ok (b', a') ∧ b'.store ≠ b.store) := by
  sorry

/-- `n` two-way rounds. -/
def syncRounds (lvl : K → Nat) (hc : HashCfg K V D) (m : Merge) :
    Nat → Replica K V D → Replica K V D → Except String (Replica K V D × Replica K V D)
  | 0, a, b => .ok (a, b)
  | n + 1, a, b =>
    match syncRound lvl hc m a b with
    | .error e => .error e
    | .ok (a', b') => syncRounds lvl hc m n a' b'

/-- Pointwise join of two stores, as a lookup function. -/
def joinLookup (a b : List (K × V)) (k : K) : Option V :=
  match lookupKV k a, lookupKV k b with
  | none, y => y
  | x, none => x
  | some x, some y => some (max x y)

/-- C05, second sentence: repeated two-way rounds never panic, keep both replicas consistent with
their stores, and after at most as many rounds as there were disagreeing keys both replicas hold
the same content and report the same root hash; under the join merge the common content is exactly
the join of the two initial contents. -/
theorem sync_converges (lvl : K → Nat) (hlvl : ∀ k, lvl k < 255) (hc : HashCfg K V D)
    (hnc : NoCollisions hc) (m : Merge)
    (a b : Replica K V D) (ha : RInv lvl hc a) (hb : RInv lvl hc b)
    (n : Nat) (hn : disagree a.store b.store ≤ n) :
    ∃ a' b', syncRounds lvl hc m n a b = .ok (a', b') ∧ RInv lvl hc a' ∧ RInv lvl hc b' ∧
      a'.store = b'.store ∧
      (a'.tree.genRootHash hc).rootHash = (b'.tree.genRootHash hc).rootHash ∧
      (m = .joinMax → ∀ k, lookupKV k a'.store = joinLookup a.store b.store k) := by
  sorry

/-- Rounds after convergence change nothing (quiescence). -/
theorem sync_quiescent (lvl : K → Nat) (hlvl : ∀ k, lvl k < 255) (hc : HashCfg K V D) (m : Merge)
    (a b : Replica K V D) (ha : RInv lvl hc a) (hb : RInv lvl hc b) (heq : a.store = b.store) :
    ∃ a' b', syncRound lvl hc m a b = .ok (a', b') ∧ a'.store = a.store ∧ b'.store = b.store := by
  sorry

end Mst
