/-
L9b: two replicas — progress of anti-entropy, bounded rounds, join result (C05).
The value type carries an ARBITRARY join-semilattice (`[SemilatticeSup V]`; `Merge.joinMax` merges
with `max = ⊔`); a linear order is the special case `⊔ = max`. The lemmas that hold only for a
"selective" merge (the result is one of the two inputs: peer-wins, or the max of a linear order) are
kept in the section `Linear` at the end.
-/
import MstVerif.Proofs.Sync
import MstVerif.Proofs.SyncJoin
import Mathlib.Order.Basic
import Mathlib.Order.Lattice
import Mathlib.Tactic.Order

set_option linter.unusedSectionVars false

namespace Mst
variable {K V D : Type} [LinearOrder K] [SemilatticeSup V] [DecidableEq V] [DecidableEq D]

/-- The keys on which two stores disagree (missing on one side counts). -/
def disagreeKeys (a b : List (K × V)) : List K :=
  ((a.map Prod.fst ++ b.map Prod.fst).eraseDups).filter fun k => decide (lookupKV k a ≠ lookupKV k b)

def disagree (a b : List (K × V)) : Nat := (disagreeKeys a b).length

/-! ### Helpers: lookups, store extensionality, `eraseDups` -/

theorem nodup_eraseDups {α : Type} [BEq α] [LawfulBEq α] : ∀ (l : List α), l.eraseDups.Nodup
  | [] => by simp
  | a :: as => by
    rw [List.eraseDups_cons, List.nodup_cons]
    refine ⟨?_, nodup_eraseDups _⟩
    simp [List.mem_eraseDups]
termination_by l => l.length
decreasing_by
  simp only [List.length_cons]
  exact Nat.lt_succ_of_le (List.length_filter_le _ _)

theorem lookupKV_ne_none_iff (s : List (K × V)) (k : K) :
    lookupKV k s ≠ none ↔ k ∈ s.map Prod.fst := by
  rw [Ne, lookupKV_eq_none]
  constructor
  · intro h
    by_contra hk
    apply h
    intro v hv
    exact hk (List.mem_map.2 ⟨(k, v), hv, rfl⟩)
  · intro hk h
    obtain ⟨⟨k', v⟩, hm, rfl⟩ := List.mem_map.1 hk
    exact h v hm

theorem store_ext (s t : List (K × V)) (hs : KSorted s) (ht : KSorted t)
    (h : ∀ k, lookupKV k s = lookupKV k t) : s = t := by
  apply ksorted_ext s t hs ht
  rintro ⟨k, v⟩
  rw [← lookupKV_eq_some s hs, ← lookupKV_eq_some t ht, h]

theorem mem_disagreeKeys (a b : List (K × V)) (k : K) :
    k ∈ disagreeKeys a b ↔ lookupKV k a ≠ lookupKV k b := by
  unfold disagreeKeys
  rw [List.mem_filter, List.mem_eraseDups, List.mem_append, decide_eq_true_iff]
  constructor
  · exact fun h => h.2
  · intro h
    refine ⟨?_, h⟩
    by_cases ha : lookupKV k a = none
    · right
      rw [← lookupKV_ne_none_iff]
      intro hb
      exact h (ha.trans hb.symm)
    · left
      exact (lookupKV_ne_none_iff a k).1 ha

theorem nodup_disagreeKeys (a b : List (K × V)) : (disagreeKeys a b).Nodup := by
  unfold disagreeKeys
  exact (nodup_eraseDups _).filter _

theorem disagree_eq_zero (a b : List (K × V)) (ha : KSorted a) (hb : KSorted b) :
    disagree a b = 0 ↔ a = b := by
  unfold disagree
  rw [List.length_eq_zero_iff]
  constructor
  · intro h
    apply store_ext a b ha hb
    intro k
    by_contra hk
    have := (mem_disagreeKeys a b k).2 hk
    rw [h] at this
    exact absurd this (by simp)
  · rintro rfl
    apply List.eq_nil_iff_forall_not_mem.2
    intro k hk
    exact (mem_disagreeKeys a a k).1 hk rfl

theorem disagree_le_of (a b a' b' : List (K × V))
    (hsub : ∀ k, lookupKV k a' ≠ lookupKV k b' → lookupKV k a ≠ lookupKV k b) :
    disagree a' b' ≤ disagree a b := by
  unfold disagree
  apply List.Nodup.length_le_of_subset (nodup_disagreeKeys a' b')
  intro k hk
  exact (mem_disagreeKeys a b k).2 (hsub k ((mem_disagreeKeys a' b' k).1 hk))

theorem disagree_lt_of (a b a' b' : List (K × V)) (k0 : K)
    (hsub : ∀ k, lookupKV k a' ≠ lookupKV k b' → lookupKV k a ≠ lookupKV k b)
    (h0 : lookupKV k0 a ≠ lookupKV k0 b) (h0' : lookupKV k0 a' = lookupKV k0 b') :
    disagree a' b' < disagree a b := by
  unfold disagree
  have hnd : (k0 :: disagreeKeys a' b').Nodup := by
    rw [List.nodup_cons]
    refine ⟨?_, nodup_disagreeKeys a' b'⟩
    intro hk
    exact (mem_disagreeKeys a' b' k0).1 hk h0'
  have := List.Nodup.length_le_of_subset hnd (l₂ := disagreeKeys a b) (by
    intro k hk
    rcases List.mem_cons.1 hk with rfl | hk
    · exact (mem_disagreeKeys a b _).2 h0
    · exact (mem_disagreeKeys a b k).2 (hsub k ((mem_disagreeKeys a' b' k).1 hk)))
  simpa [Nat.lt_iff_add_one_le] using this

/-! ### One pull at the level of lookup functions -/

/-- The receiver's new value at a fetched key: old value `x`, sender's value `y`. -/
def pullLk (m : Merge) (x y : Option V) : Option V :=
  match y with
  | none => x
  | some v => some (m.apply x v)

/-- Every key of `r` lies between two keys of `s` (the span condition of `pull_spec`). -/
def Cover (s r : List (K × V)) : Prop :=
  ∀ x ∈ r.map Prod.fst, (∃ y ∈ s.map Prod.fst, y ≤ x) ∧ (∃ z ∈ s.map Prod.fst, x ≤ z)

theorem inRanges_nil (k : K) : inRanges ([] : List (DR K)) k = false := by
  simp [inRanges]

/-- Agreement is preserved by a fetch. -/
theorem pullLk_of_eq (m : Merge) (x y : Option V) (h : x = y) : pullLk m x y = x := by
  subst h
  cases x with
  | none => rfl
  | some v => cases m <;> simp [pullLk, Merge.apply]

/-- Two different values cannot both be fixed by fetching the other. -/
theorem pullLk_both_fixed (m : Merge) (x y : Option V) (hne : x ≠ y)
    (h1 : y ≠ none → pullLk m x y = x) (h2 : x ≠ none → pullLk m y x = y) : False := by
  cases x with
  | none =>
    cases y with
    | none => exact hne rfl
    | some v =>
      have := h1 (by simp)
      simp [pullLk] at this
  | some o =>
    cases y with
    | none =>
      have := h2 (by simp)
      simp [pullLk] at this
    | some v =>
      have e1 := h1 (by simp)
      have e2 := h2 (by simp)
      have hov : o ≠ v := fun e => hne (by rw [e])
      cases m with
      | peerWins =>
        simp only [pullLk, Merge.apply, Option.some.injEq] at e1
        exact hov e1.symm
      | joinMax =>
        simp only [pullLk, Merge.apply, Option.some.injEq] at e1 e2
        -- `o ⊔ v = o` and `v ⊔ o = v`: the two values are equal in ANY join-semilattice
        exact hov (e1.symm.trans ((sup_comm o v).trans e2))

/-- Both merge rules — the join of ANY join-semilattice and peer-wins — obey the laws the round
argument (`round_agree`) needs. -/
theorem pullLk_laws (m : Merge) : MergeLaws (pullLk (V := V) m) where
  idem x := pullLk_of_eq m x x rfl
  none_left y := by cases y <;> cases m <;> rfl
  none_right x := rfl
  absorb x y hy := by
    cases y with
    | none => exact absurd rfl hy
    | some v =>
      cases m with
      | peerWins => cases x <;> rfl
      | joinMax =>
        cases x with
        | none => simp [pullLk, Merge.apply]
        | some o =>
          simp only [pullLk, Merge.apply]
          rw [sup_comm v, sup_right_idem]
  fixed x y hx hy h := by
    cases x with
    | none => exact absurd rfl hx
    | some p =>
      cases y with
      | none => exact absurd rfl hy
      | some q =>
        cases m with
        | peerWins => rfl
        | joinMax =>
          simp only [pullLk, Merge.apply, Option.some.injEq] at h ⊢
          rw [sup_comm]; exact h
  some_right x y hy := by
    cases y with
    | none => exact absurd rfl hy
    | some v => simp [pullLk]
  some_left x y hx := by
    cases y with
    | none => exact hx
    | some v => simp [pullLk]

/-- `pull_spec` restated with lookup functions. -/
theorem pull_lookup (lvl : K → Nat) (hlvl : ∀ k, lvl k < 255) (hc : HashCfg K V D) (m : Merge)
    (a b : Replica K V D) (ha : RInv lvl hc a) (hb : RInv lvl hc b) :
    ∃ (R : List (DR K)) (a' b' : Replica K V D), pull lvl hc m a b = .ok (a', b') ∧
      RInv lvl hc a' ∧ RInv lvl hc b' ∧ b'.store = b.store ∧
      (∀ k, lookupKV k a'.store =
        if inRanges R k = true then pullLk m (lookupKV k a.store) (lookupKV k b.store)
        else lookupKV k a.store) ∧
      (a.store = b.store → R = []) ∧
      (NoCollisions hc → Cover b.store a.store →
        ∀ k, lookupKV k b.store ≠ none → lookupKV k a.store ≠ lookupKV k b.store →
          inRanges R k = true) ∧
      (∀ a0 a1 b0 b1 : K × V, a.store.head? = some a0 → a.store.getLast? = some a1 →
        b.store.head? = some b0 → b.store.getLast? = some b1 → b0.1 < a0.1 → b1.1 < a1.1 →
        inRanges R b0.1 = true) := by
  obtain ⟨R, a', b', hp, ha', hb', hbs, has, hemp, _, hcomp, hhead⟩ :=
    pull_spec lvl hlvl hc m a b ha hb
  refine ⟨R, a', b', hp, ha', hb', hbs, ?_, hemp, ?_, hhead⟩
  · intro k
    rw [has, lookup_absorbStore m a.store (fetch b.store R) ha.sorted
      (fetch_sorted b.store hb.sorted R) k, lookup_fetch b.store hb.sorted R k]
    by_cases hr : inRanges R k = true
    · simp only [hr, if_true]
      cases lookupKV k b.store <;> rfl
    · simp only [hr]
      rfl
  · intro hnc hcov k hkb hne
    cases hv : lookupKV k b.store with
    | none => exact absurd hv hkb
    | some v =>
      have hmem : (k, v) ∈ b.store := (lookupKV_eq_some b.store hb.sorted k v).1 hv
      have hnmem : (k, v) ∉ a.store := by
        intro hm
        apply hne
        rw [hv]
        exact (lookupKV_eq_some a.store ha.sorted k v).2 hm
      exact hcomp hnc hcov (k, v) hmem hnmem

/-- Effect of one pull on agreement: no new disagreement (any merge, any join-semilattice). -/
theorem recv_keep (m : Merge) (x y x' : List (K × V)) (P : K → Bool)
    (h : ∀ k, lookupKV k x' =
      if P k = true then pullLk m (lookupKV k x) (lookupKV k y) else lookupKV k x) :
    ∀ k, lookupKV k x' ≠ lookupKV k y → lookupKV k x ≠ lookupKV k y := by
  intro k hk e
  apply hk
  rw [h k]
  split
  · rw [pullLk_of_eq m _ _ e, e]
  · exact e

/-! ### Progress -/

omit [SemilatticeSup V] [DecidableEq V] in
theorem ksorted_head_le (s : List (K × V)) (hs : KSorted s) (h0 : K × V) (hh : s.head? = some h0) :
    h0.1 ∈ s.map Prod.fst ∧ ∀ x ∈ s.map Prod.fst, h0.1 ≤ x := by
  obtain ⟨t, rfl⟩ := List.head?_eq_some_iff.1 hh
  refine ⟨by simp, ?_⟩
  intro x hx
  simp only [KSorted, List.map_cons, List.pairwise_cons] at hs
  rw [List.map_cons, List.mem_cons] at hx
  rcases hx with rfl | hx
  · exact le_refl _
  · exact le_of_lt (hs.1 x hx)

omit [SemilatticeSup V] [DecidableEq V] in
theorem ksorted_le_last (s : List (K × V)) (hs : KSorted s) (l : K × V) (hl : s.getLast? = some l) :
    l.1 ∈ s.map Prod.fst ∧ ∀ x ∈ s.map Prod.fst, x ≤ l.1 := by
  obtain ⟨t, rfl⟩ := List.getLast?_eq_some_iff.1 hl
  refine ⟨by simp, ?_⟩
  intro x hx
  simp only [KSorted, List.map_append, List.map_cons, List.map_nil, List.pairwise_append] at hs
  rw [List.map_append, List.mem_append] at hx
  rcases hx with hx | hx
  · exact le_of_lt (hs.2.2 x hx l.1 (by simp))
  · simp at hx
    rw [hx]

/-- the lookup function of a sorted store is empty or has a least and a greatest key -/
theorem bounded_lookup (s : List (K × V)) (hs : KSorted s) : Bounded (fun k => lookupKV k s) := by
  cases h0 : s.head? with
  | none =>
    left
    intro k
    rw [List.head?_eq_none_iff] at h0
    rw [h0]; rfl
  | some a0 =>
    cases h1 : s.getLast? with
    | none =>
      rw [List.getLast?_eq_none_iff] at h1
      rw [h1] at h0
      cases h0
    | some a1 =>
      right
      obtain ⟨m0, l0⟩ := ksorted_head_le s hs a0 h0
      obtain ⟨m1, l1⟩ := ksorted_le_last s hs a1 h1
      refine ⟨a0.1, a1.1, (lookupKV_ne_none_iff s _).2 m0, (lookupKV_ne_none_iff s _).2 m1, ?_⟩
      intro k hk
      have := (lookupKV_ne_none_iff s k).1 hk
      exact ⟨l0 k this, l1 k this⟩

theorem coverF_iff (s r : List (K × V)) :
    CoverF (fun k => lookupKV k s) (fun k => lookupKV k r) ↔ Cover s r := by
  unfold CoverF Cover
  constructor
  · intro h x hx
    obtain ⟨⟨y, hy, hyx⟩, ⟨z, hz, hxz⟩⟩ := h x ((lookupKV_ne_none_iff r x).2 hx)
    exact ⟨⟨y, (lookupKV_ne_none_iff s y).1 hy, hyx⟩, ⟨z, (lookupKV_ne_none_iff s z).1 hz, hxz⟩⟩
  · intro h x hx
    obtain ⟨⟨y, hy, hyx⟩, ⟨z, hz, hxz⟩⟩ := h x ((lookupKV_ne_none_iff r x).1 hx)
    exact ⟨⟨y, (lookupKV_ne_none_iff s y).2 hy, hyx⟩, ⟨z, (lookupKV_ne_none_iff s z).2 hz, hxz⟩⟩

/-- `pull_lookup` packaged as the `PullF` record of `Proofs/SyncJoin.lean`. -/
theorem pull_lookupF (lvl : K → Nat) (hlvl : ∀ k, lvl k < 255) (hc : HashCfg K V D)
    (hnc : NoCollisions hc) (m : Merge)
    (a b : Replica K V D) (ha : RInv lvl hc a) (hb : RInv lvl hc b) :
    ∃ (R : List (DR K)) (a' b' : Replica K V D), pull lvl hc m a b = .ok (a', b') ∧
      RInv lvl hc a' ∧ RInv lvl hc b' ∧ b'.store = b.store ∧
      PullF (pullLk m) (fun k => lookupKV k a.store) (fun k => lookupKV k b.store)
        (fun k => lookupKV k a'.store) (fun k => inRanges R k) := by
  obtain ⟨R, a', b', hp, ha', hb', hbs, hA', _, hcomp, hhead⟩ := pull_lookup lvl hlvl hc m a b ha hb
  refine ⟨R, a', b', hp, ha', hb', hbs, hA', ?_, ?_⟩
  · intro hcov k hkb hne
    exact hcomp hnc ((coverF_iff _ _).1 hcov) k hkb hne
  · intro y0 x1 hy0 hmin hlt hx1 hlast
    have hane : a.store ≠ [] := by
      intro e
      rw [e] at hx1
      exact hx1 rfl
    have hbne : b.store ≠ [] := by
      intro e
      rw [e] at hy0
      exact hy0 rfl
    obtain ⟨a0, h1⟩ : ∃ x, a.store.head? = some x := ⟨_, List.head?_eq_some_head hane⟩
    obtain ⟨a1, h2⟩ : ∃ x, a.store.getLast? = some x := ⟨_, List.getLast?_eq_some_getLast hane⟩
    obtain ⟨b0, h3⟩ : ∃ x, b.store.head? = some x := ⟨_, List.head?_eq_some_head hbne⟩
    obtain ⟨b1, h4⟩ : ∃ x, b.store.getLast? = some x := ⟨_, List.getLast?_eq_some_getLast hbne⟩
    obtain ⟨ma0, la0⟩ := ksorted_head_le a.store ha.sorted a0 h1
    obtain ⟨ma1, la1⟩ := ksorted_le_last a.store ha.sorted a1 h2
    obtain ⟨mb0, lb0⟩ := ksorted_head_le b.store hb.sorted b0 h3
    obtain ⟨mb1, lb1⟩ := ksorted_le_last b.store hb.sorted b1 h4
    have e0 : b0.1 = y0 :=
      le_antisymm (lb0 y0 ((lookupKV_ne_none_iff _ _).1 hy0)) (hmin _ ((lookupKV_ne_none_iff _ _).2 mb0))
    have := hhead a0 a1 b0 b1 h1 h2 h3 h4
      (by rw [e0]; exact hlt _ ((lookupKV_ne_none_iff _ _).2 ma0))
      (lt_of_lt_of_le (hlast _ ((lookupKV_ne_none_iff _ _).2 mb1))
        (la1 x1 ((lookupKV_ne_none_iff _ _).1 hx1)))
    rw [e0] at this
    exact this

/-- If the sender's span covers the receiver's, one of the two pulls changes its receiver. -/
theorem cover_progress (lvl : K → Nat) (hlvl : ∀ k, lvl k < 255) (hc : HashCfg K V D)
    (hnc : NoCollisions hc) (m : Merge)
    (a b : Replica K V D) (ha : RInv lvl hc a) (hb : RInv lvl hc b) (hne : a.store ≠ b.store)
    (hcov : Cover b.store a.store) :
    (∃ a' b', pull lvl hc m a b = .ok (a', b') ∧ a'.store ≠ a.store) ∨
    (∃ b' a', pull lvl hc m b a = .ok (b', a') ∧ b'.store ≠ b.store) := by
  obtain ⟨R, a', b', hp, ha', _, _, hA', _, hfetch, _⟩ := pull_lookup lvl hlvl hc m a b ha hb
  by_cases hch : a'.store = a.store
  swap
  · exact Or.inl ⟨a', b', hp, hch⟩
  right
  have hF := hfetch hnc hcov
  -- every differing key held by `b` is fetched and left `a` unchanged
  have hfix1 : ∀ k, lookupKV k a.store ≠ lookupKV k b.store → lookupKV k b.store ≠ none →
      pullLk m (lookupKV k a.store) (lookupKV k b.store) = lookupKV k a.store := by
    intro k hk hkb
    have := hA' k
    rw [hch, if_pos (hF k hkb hk)] at this
    exact this.symm
  have hsub : ∀ k, lookupKV k b.store ≠ none → lookupKV k a.store ≠ none := by
    intro k hkb hka
    have hk : lookupKV k a.store ≠ lookupKV k b.store := by
      rw [hka]; exact fun e => hkb e.symm
    have := hfix1 k hk hkb
    rw [hka] at this
    cases hv : lookupKV k b.store with
    | none => exact hkb hv
    | some v => rw [hv] at this; simp [pullLk] at this
  have hcov' : Cover a.store b.store := by
    intro x hx
    have hxa : x ∈ a.store.map Prod.fst :=
      (lookupKV_ne_none_iff a.store x).1 (hsub x ((lookupKV_ne_none_iff b.store x).2 hx))
    exact ⟨⟨x, hxa, le_refl _⟩, ⟨x, hxa, le_refl _⟩⟩
  obtain ⟨R', b'', a'', hp', hb'', _, _, hB', _, hfetch', _⟩ := pull_lookup lvl hlvl hc m b a hb ha
  refine ⟨b'', a'', hp', ?_⟩
  intro hch'
  have hF' := hfetch' hnc hcov'
  have hfix2 : ∀ k, lookupKV k b.store ≠ lookupKV k a.store → lookupKV k a.store ≠ none →
      pullLk m (lookupKV k b.store) (lookupKV k a.store) = lookupKV k b.store := by
    intro k hk hka
    have := hB' k
    rw [hch', if_pos (hF' k hka hk)] at this
    exact this.symm
  have : ¬ ∀ k, lookupKV k a.store = lookupKV k b.store :=
    fun hall => hne (store_ext _ _ ha.sorted hb.sorted hall)
  obtain ⟨k, hk⟩ := not_forall.1 this
  exact pullLk_both_fixed m _ _ hk (hfix1 k hk) (hfix2 k (Ne.symm hk))

/-- If the sender starts strictly first and ends strictly first, the receiver gains the sender's
smallest key. -/
theorem first_progress (lvl : K → Nat) (hlvl : ∀ k, lvl k < 255) (hc : HashCfg K V D) (m : Merge)
    (a b : Replica K V D) (ha : RInv lvl hc a) (hb : RInv lvl hc b)
    (a0 a1 b0 b1 : K × V) (h1 : a.store.head? = some a0) (h2 : a.store.getLast? = some a1)
    (h3 : b.store.head? = some b0) (h4 : b.store.getLast? = some b1)
    (hlt0 : b0.1 < a0.1) (hlt1 : b1.1 < a1.1) :
    ∃ a' b', pull lvl hc m a b = .ok (a', b') ∧ a'.store ≠ a.store := by
  obtain ⟨R, a', b', hp, _, _, _, hA', _, _, hhead⟩ := pull_lookup lvl hlvl hc m a b ha hb
  refine ⟨a', b', hp, ?_⟩
  intro hch
  have hin := hhead a0 a1 b0 b1 h1 h2 h3 h4 hlt0 hlt1
  have hka : lookupKV b0.1 a.store = none := by
    by_contra hk
    have := (ksorted_head_le a.store ha.sorted a0 h1).2 _ ((lookupKV_ne_none_iff _ _).1 hk)
    exact absurd hlt0 (not_lt.2 this)
  have hkb : lookupKV b0.1 b.store ≠ none :=
    (lookupKV_ne_none_iff _ _).2 (ksorted_head_le b.store hb.sorted b0 h3).1
  have := hA' b0.1
  rw [hch, if_pos hin, hka] at this
  cases hv : lookupKV b0.1 b.store with
  | none => exact hkb hv
  | some v => rw [hv] at this; simp [pullLk] at this

omit [SemilatticeSup V] [DecidableEq V] in
theorem cover_nil (s : List (K × V)) : Cover s ([] : List (K × V)) := by
  intro x hx
  simp at hx

/-- C05, first sentence: two replicas with different content — pulling in at least one of the two
directions changes the receiver, for the join (max) merge and for peer-wins. -/
theorem pull_progress (lvl : K → Nat) (hlvl : ∀ k, lvl k < 255) (hc : HashCfg K V D)
    (hnc : NoCollisions hc) (m : Merge)
    (a b : Replica K V D) (ha : RInv lvl hc a) (hb : RInv lvl hc b) (hne : a.store ≠ b.store) :
    (∃ a' b', pull lvl hc m a b = .ok (a', b') ∧ a'.store ≠ a.store) ∨
    (∃ b' a', pull lvl hc m b a = .ok (b', a') ∧ b'.store ≠ b.store) := by
  have hsymm := fun hcov => (cover_progress lvl hlvl hc hnc m b a hb ha (Ne.symm hne) hcov).symm
  cases h1 : a.store.head? with
  | none =>
    rw [List.head?_eq_none_iff] at h1
    exact cover_progress lvl hlvl hc hnc m a b ha hb hne (by rw [h1]; exact cover_nil _)
  | some a0 =>
  cases h2 : a.store.getLast? with
  | none =>
    rw [List.getLast?_eq_none_iff] at h2
    exact cover_progress lvl hlvl hc hnc m a b ha hb hne (by rw [h2]; exact cover_nil _)
  | some a1 =>
  cases h3 : b.store.head? with
  | none =>
    rw [List.head?_eq_none_iff] at h3
    exact hsymm (by rw [h3]; exact cover_nil _)
  | some b0 =>
  cases h4 : b.store.getLast? with
  | none =>
    rw [List.getLast?_eq_none_iff] at h4
    exact hsymm (by rw [h4]; exact cover_nil _)
  | some b1 =>
  obtain ⟨ma0, la0⟩ := ksorted_head_le a.store ha.sorted a0 h1
  obtain ⟨ma1, la1⟩ := ksorted_le_last a.store ha.sorted a1 h2
  obtain ⟨mb0, lb0⟩ := ksorted_head_le b.store hb.sorted b0 h3
  obtain ⟨mb1, lb1⟩ := ksorted_le_last b.store hb.sorted b1 h4
  by_cases c1 : b0.1 ≤ a0.1 ∧ a1.1 ≤ b1.1
  · apply cover_progress lvl hlvl hc hnc m a b ha hb hne
    intro x hx
    exact ⟨⟨b0.1, mb0, le_trans c1.1 (la0 x hx)⟩, ⟨b1.1, mb1, le_trans (la1 x hx) c1.2⟩⟩
  by_cases c2 : a0.1 ≤ b0.1 ∧ b1.1 ≤ a1.1
  · apply hsymm
    intro x hx
    exact ⟨⟨a0.1, ma0, le_trans c2.1 (lb0 x hx)⟩, ⟨a1.1, ma1, le_trans (lb1 x hx) c2.2⟩⟩
  rcases lt_trichotomy b0.1 a0.1 with hlt | heq | hgt
  · have hlt1 : b1.1 < a1.1 := by
      by_contra hn
      exact c1 ⟨le_of_lt hlt, not_lt.1 hn⟩
    exact Or.inl (first_progress lvl hlvl hc m a b ha hb a0 a1 b0 b1 h1 h2 h3 h4 hlt hlt1)
  · exfalso
    by_cases hle : a1.1 ≤ b1.1
    · exact c1 ⟨le_of_eq heq, hle⟩
    · exact c2 ⟨le_of_eq heq.symm, le_of_lt (not_le.1 hle)⟩
  · have hlt1 : a1.1 < b1.1 := by
      by_contra hn
      exact c2 ⟨le_of_lt hgt, not_lt.1 hn⟩
    exact Or.inr (first_progress lvl hlvl hc m b a hb ha b0 b1 a0 a1 h3 h4 h1 h2 hgt hlt1)

/-- `n` two-way rounds. -/
def syncRounds (lvl : K → Nat) (hc : HashCfg K V D) (m : Merge) :
    Nat → Replica K V D → Replica K V D → Except String (Replica K V D × Replica K V D)
  | 0, a, b => .ok (a, b)
  | n + 1, a, b =>
    match syncRound lvl hc m a b with
    | .error e => .error e
    | .ok (a', b') => syncRounds lvl hc m n a' b'

/-- Pointwise join of two stores, as a lookup function. -/
def joinLookup (a b : List (K × V)) (k : K) : Option V :=
  match lookupKV k a, lookupKV k b with
  | none, y => y
  | x, none => x
  | some x, some y => some (max x y)

/-! ### One round -/

/-- Pointwise join of two optional values. -/
def joinO (x y : Option V) : Option V :=
  match x, y with
  | none, y => y
  | x, none => x
  | some x, some y => some (max x y)

theorem joinLookup_eq (a b : List (K × V)) (k : K) :
    joinLookup a b k = joinO (lookupKV k a) (lookupKV k b) := by
  unfold joinLookup joinO
  cases lookupKV k a <;> cases lookupKV k b <;> rfl

theorem joinO_self (x : Option V) : joinO x x = x := by
  cases x <;> simp [joinO]

theorem joinO_pull_left (x y : Option V) : joinO (pullLk .joinMax x y) y = joinO x y := by
  cases x with
  | none => cases y <;> simp [joinO, pullLk, Merge.apply]
  | some o =>
    cases y with
    | none => simp [joinO, pullLk]
    | some v =>
      simp only [joinO, pullLk, Merge.apply]
      rw [sup_right_idem]

theorem joinO_pull_right (x y : Option V) : joinO y (pullLk .joinMax x y) = joinO y x := by
  cases x with
  | none => cases y <;> simp [joinO, pullLk, Merge.apply]
  | some o =>
    cases y with
    | none => simp [joinO, pullLk]
    | some v =>
      simp only [joinO, pullLk, Merge.apply]
      rw [sup_comm o v, sup_left_idem]

omit [SemilatticeSup V] [DecidableEq V] [DecidableEq D] in
theorem rootHash_eq_of_store_eq (lvl : K → Nat) (hc : HashCfg K V D) (a b : Replica K V D)
    (ha : RInv lvl hc a) (hb : RInv lvl hc b) (h : a.store = b.store) :
    (a.tree.genRootHash hc).rootHash = (b.tree.genRootHash hc).rootHash := by
  obtain ⟨_, e1, _⟩ := genRootHash_inv lvl hc a.tree ha.inv
  obtain ⟨_, e2, _⟩ := genRootHash_inv lvl hc b.tree hb.inv
  rw [e1, e2, ← trueHash_erase hc a.tree.root, ← trueHash_erase hc b.tree.root,
    root_unique lvl _ _ ha.inv.shape hb.inv.shape (by rw [ha.mirror, hb.mirror, h])]

/-- One two-way round: never panics, keeps the invariants, is idle on equal stores, strictly
reduces the disagreement otherwise and (join merge) preserves the pointwise join. -/
theorem round_spec (lvl : K → Nat) (hlvl : ∀ k, lvl k < 255) (hc : HashCfg K V D) (m : Merge)
    (a b : Replica K V D) (ha : RInv lvl hc a) (hb : RInv lvl hc b) :
    ∃ a2 b2, syncRound lvl hc m a b = .ok (a2, b2) ∧ RInv lvl hc a2 ∧ RInv lvl hc b2 ∧
      (a.store = b.store → a2.store = a.store ∧ b2.store = b.store) ∧
      (NoCollisions hc → a.store ≠ b.store →
        disagree a2.store b2.store < disagree a.store b.store) ∧
      (m = .joinMax → ∀ k, joinLookup a2.store b2.store k = joinLookup a.store b.store k) := by
  obtain ⟨R1, b1, a1, hp1, hb1, ha1, has1, hB1, hemp1, _, _⟩ :=
    pull_lookup lvl hlvl hc m b a hb ha
  obtain ⟨R2, a2, b2, hp2, ha2, hb2, hbs2, hA2, hemp2, _, _⟩ :=
    pull_lookup lvl hlvl hc m a1 b1 ha1 hb1
  rw [has1] at hA2 hemp2
  refine ⟨a2, b2, ?_, ha2, hb2, ?_, ?_, ?_⟩
  · simp [syncRound, hp1, hp2]
  · intro heq
    have e1 : b1.store = b.store := by
      apply store_ext _ _ hb1.sorted hb.sorted
      intro k
      rw [hB1 k, hemp1 heq.symm, inRanges_nil]
      simp
    have e2 : a2.store = a.store := by
      apply store_ext _ _ ha2.sorted ha.sorted
      intro k
      rw [hA2 k, hemp2 (by rw [e1, heq]), inRanges_nil]
      simp
    exact ⟨e2, hbs2.trans e1⟩
  · intro hnc hne
    -- every round creates a new agreement (`round_agree`: any join, or peer-wins) and keeps the old ones
    obtain ⟨R1', b1', a1', hp1', -, -, -, P1⟩ := pull_lookupF lvl hlvl hc hnc m b a hb ha
    rw [hp1] at hp1'
    cases hp1'
    obtain ⟨R2', a2', b2', hp2', -, -, -, P2⟩ := pull_lookupF lvl hlvl hc hnc m a1 b1 ha1 hb1
    rw [hp2] at hp2'
    cases hp2'
    rw [has1] at P2
    have s1 := recv_keep m b.store a.store b1.store (fun k => inRanges R1 k) hB1
    have s2 := recv_keep m a.store b1.store a2.store (fun k => inRanges R2 k) hA2
    rw [hbs2]
    have hex : ∃ k, lookupKV k a.store ≠ lookupKV k b.store := by
      by_contra h
      exact hne (store_ext _ _ ha.sorted hb.sorted fun k => by
        by_contra hk
        exact h ⟨k, hk⟩)
    obtain ⟨k0, d0, d0'⟩ := round_agree (pullLk_laws m) P1 P2 (bounded_lookup _ ha.sorted)
      (bounded_lookup _ hb.sorted) (bounded_lookup _ hb1.sorted) hex
    exact disagree_lt_of a.store b.store a2.store b1.store k0
      (fun k h => (s1 k (s2 k h).symm).symm) d0 d0'
  · rintro rfl k
    rw [joinLookup_eq, joinLookup_eq, hbs2, hA2 k]
    have h1 : joinO (lookupKV k a.store) (lookupKV k b1.store) =
        joinO (lookupKV k a.store) (lookupKV k b.store) := by
      rw [hB1 k]
      split
      · exact joinO_pull_right _ _
      · rfl
    rw [← h1]
    split
    · exact joinO_pull_left _ _
    · rfl

/-- C05, second sentence: repeated two-way rounds never panic, keep both replicas consistent with
their stores, and after at most as many rounds as there were disagreeing keys both replicas hold
the same content and report the same root hash; under the join merge the common content is exactly
the join of the two initial contents. -/
theorem sync_converges (lvl : K → Nat) (hlvl : ∀ k, lvl k < 255) (hc : HashCfg K V D)
    (hnc : NoCollisions hc) (m : Merge)
    (a b : Replica K V D) (ha : RInv lvl hc a) (hb : RInv lvl hc b)
    (n : Nat) (hn : disagree a.store b.store ≤ n) :
    ∃ a' b', syncRounds lvl hc m n a b = .ok (a', b') ∧ RInv lvl hc a' ∧ RInv lvl hc b' ∧
      a'.store = b'.store ∧
      (a'.tree.genRootHash hc).rootHash = (b'.tree.genRootHash hc).rootHash ∧
      (m = .joinMax → ∀ k, lookupKV k a'.store = joinLookup a.store b.store k) := by
  induction n generalizing a b with
  | zero =>
    have heq : a.store = b.store :=
      (disagree_eq_zero _ _ ha.sorted hb.sorted).1 (Nat.le_zero.1 hn)
    refine ⟨a, b, rfl, ha, hb, heq, rootHash_eq_of_store_eq lvl hc a b ha hb heq, ?_⟩
    intro _ k
    rw [joinLookup_eq, ← heq, joinO_self]
  | succ n ih =>
    obtain ⟨a2, b2, hr, ha2, hb2, hq, hlt, hj⟩ := round_spec lvl hlvl hc m a b ha hb
    have hn' : disagree a2.store b2.store ≤ n := by
      by_cases heq : a.store = b.store
      · obtain ⟨e1, e2⟩ := hq heq
        rw [e1, e2, (disagree_eq_zero _ _ ha.sorted hb.sorted).2 heq]
        exact Nat.zero_le _
      · have := hlt hnc heq
        omega
    obtain ⟨a', b', hr', ha', hb', heq', hh, hj'⟩ := ih a2 b2 ha2 hb2 hn'
    refine ⟨a', b', ?_, ha', hb', heq', hh, ?_⟩
    · simp [syncRounds, hr, hr']
    · intro hm k
      rw [hj' hm k, hj hm k]

/-- Rounds after convergence change nothing (quiescence). -/
theorem sync_quiescent (lvl : K → Nat) (hlvl : ∀ k, lvl k < 255) (hc : HashCfg K V D) (m : Merge)
    (a b : Replica K V D) (ha : RInv lvl hc a) (hb : RInv lvl hc b) (heq : a.store = b.store) :
    ∃ a' b', syncRound lvl hc m a b = .ok (a', b') ∧ a'.store = a.store ∧ b'.store = b.store := by
  obtain ⟨a2, b2, hr, _, _, hq, _, _⟩ := round_spec lvl hlvl hc m a b ha hb
  exact ⟨a2, b2, hr, hq heq⟩

end Mst

/-! ### Selective merges: the max of a LINEAR order (and peer-wins)

For a linear order `Merge.joinMax` is the former `if old < new then new else old`, and the merged
value is always one of the two inputs — so a change of the receiver at a key makes the two replicas
agree at that key. (Not so for a general join: `x ⊔ y` may differ from both.) -/

namespace Mst
section Linear
variable {K V D : Type} [LinearOrder K] [LinearOrder V] [DecidableEq D]

/-- Bridge to the former definition of the model: on a linear order the join merge keeps the larger
value. -/
theorem apply_joinMax_linear (o v : V) :
    Merge.apply .joinMax (some o) v = if o < v then v else o := by
  simp only [Merge.apply]
  by_cases h : o < v
  · rw [if_pos h]; exact max_eq_right (le_of_lt h)
  · rw [if_neg h]; exact max_eq_left (not_lt.1 h)

/-- If a fetch changes the receiver's value, the receiver now holds the sender's value. -/
theorem pullLk_of_ne (m : Merge) (x y : Option V) (h : pullLk m x y ≠ x) :
    pullLk m x y = y ∧ x ≠ y := by
  cases y with
  | none => exact absurd rfl h
  | some v =>
    cases x with
    | none => exact ⟨rfl, by simp⟩
    | some o =>
      cases m with
      | peerWins =>
        refine ⟨rfl, ?_⟩
        intro e; apply h; rw [e]; rfl
      | joinMax =>
        simp only [pullLk, apply_joinMax_linear] at h ⊢
        by_cases hlt : o < v
        · simp only [hlt, if_true] at h ⊢
          refine ⟨trivial, ?_⟩
          intro e
          exact h e.symm
        · simp [hlt] at h

/-- Effect of one pull on agreement: no new disagreement, and a change of the receiver removes one. -/
theorem recv_step (m : Merge) (x y x' : List (K × V)) (hx : KSorted x) (hx' : KSorted x')
    (P : K → Bool)
    (h : ∀ k, lookupKV k x' =
      if P k = true then pullLk m (lookupKV k x) (lookupKV k y) else lookupKV k x) :
    (∀ k, lookupKV k x' ≠ lookupKV k y → lookupKV k x ≠ lookupKV k y) ∧
    (x' ≠ x → ∃ k0, lookupKV k0 x ≠ lookupKV k0 y ∧ lookupKV k0 x' = lookupKV k0 y) := by
  refine ⟨recv_keep m x y x' P h, ?_⟩
  intro hne
  have : ¬ ∀ k, lookupKV k x' = lookupKV k x := fun hall => hne (store_ext x' x hx' hx hall)
  obtain ⟨k0, hk0⟩ := not_forall.1 this
  refine ⟨k0, ?_⟩
  rw [h k0] at hk0 ⊢
  by_cases hp : P k0 = true
  · simp only [hp, if_true] at hk0 ⊢
    obtain ⟨e1, e2⟩ := pullLk_of_ne m _ _ hk0
    exact ⟨e2, e1⟩
  · simp [hp] at hk0

end Linear
end Mst
