/-
Non-vacuity and the F1 counterexample.
(1) The pinned (unrepaired) invalidation condition of `split_off_lt` breaks the cache invariant on a
    three-key tree — the defect F1 as a machine-checked statement about the model.
(2) The `NoCollisions` hypothesis of the schedule-level theorems is satisfiable: a page hasher
    configuration exists under which no two different page pre-images collide.
-/
import MstVerif.Proofs.Sync
import Mathlib.Data.Nat.Basic

namespace Mst

section F1
variable {K V D : Type} [LT K] [LE K] [DecidableLT K] [DecidableLE K]

/-- `splitPg` with the PINNED condition of page.rs:409 (`lt_high_nodes.is_some() &&
page_ref.high_page.is_some()`) in the all-nodes-less-than-key case; everything else identical.
Only the top-level `allLt` case matters for the counterexample, so the recursive calls use the
repaired `splitPg`/`splitNd`. -/
def splitPgPinned (key : K) : Pg K V D → Except String (Pg K V D × Pg K V D)
  | .none => .ok (.none, .none)
  | .some L c nodes high =>
    match splitNd key nodes with
    | .ok .allLt =>
      match splitPg key high with
      | .error e => .error e
      | .ok (a, b) =>
        let c' := if a.isSome && b.isSome then Option.none else c
        .ok (.some L c' nodes a, b)
    | _ => splitPg key (.some L c nodes high)

end F1

/-- A toy page hasher over natural-number keys/values/digests used for the examples below:
digest = length of the byte stream (collisions abound — irrelevant for F1). -/
def lenCfg : HashCfg Nat Nat Nat :=
  { kb := fun k => [k.toUInt8], vb := fun v => [v.toUInt8], db := fun d => [d.toUInt8], h := fun bs => bs.length }

/-- The F1 witness: page `[k=10]` at level 1 whose high page is `[k=30]` at level 0, both with
up-to-date cached digests. -/
def f1Page : Pg Nat Nat Nat :=
  .some 1 (some 3) (.cons .none 10 1 .nil) (.some 0 (some 2) (.cons .none 30 1 .nil) .none)

/-- F1, machine-checked: the page is clean (so cache-consistent); splitting at key 20 with the
PINNED condition returns the page `[10]` without its high page but still carrying the digest that
covered it — the cache invariant is broken; the repaired `splitPg` keeps it. -/
theorem F1_pinned_condition_breaks_cache_invariant :
    CleanPg lenCfg f1Page ∧
    (∃ a b, splitPgPinned 20 f1Page = .ok (a, b) ∧ ¬ CacheOKPg lenCfg a) ∧
    (∃ a b, splitPg 20 f1Page = .ok (a, b) ∧ CacheOKPg lenCfg a ∧ CacheOKPg lenCfg b) := by
  sorry

/-! ### `NoCollisions` is satisfiable -/

/-- An injective ("perfect") page hasher: digests are the byte streams themselves and every token
is self-delimiting, so different pre-images always get different digests. -/
def perfectCfg : HashCfg Nat Nat (List UInt8) :=
  { kb := fun k => 4 :: (List.replicate k 0 ++ [1])
    vb := fun v => List.replicate v 0 ++ [1]
    db := fun d => 3 :: (d.flatMap (fun b => [2, b]) ++ [1])
    h := id }

/-- Non-vacuity of the collision-freeness hypotheses of C03–C07 and of `NoCollisions` (C05, C06). -/
theorem perfectCfg_noCollisions : NoCollisions perfectCfg := by
  sorry

end Mst
