/-
Non-vacuity and the F1 counterexample.
(1) The pinned (unrepaired) invalidation condition of `split_off_lt` breaks the cache invariant on a
    three-key tree — the defect F1 as a machine-checked statement about the model.
(2) The `NoCollisions` hypothesis of the schedule-level theorems is satisfiable: a page hasher
    configuration exists under which no two different page pre-images collide.
-/
import MstVerif.Proofs.Sync
import Mathlib.Data.Nat.Basic

namespace Mst

section F1
variable {K V D : Type} [LT K] [LE K] [DecidableLT K] [DecidableLE K]

/-- `splitPg` with the PINNED condition of page.rs:409 (`lt_high_nodes.is_some() &&
page_ref.high_page.is_some()`) in the all-nodes-less-than-key case; everything else identical.
Only the top-level `allLt` case matters for the counterexample, so the recursive calls use the
repaired `splitPg`/`splitNd`. -/
def splitPgPinned (key : K) : Pg K V D → Except String (Pg K V D × Pg K V D)
  | .none => .ok (.none, .none)
  | .some L c nodes high =>
    match splitNd key nodes with
    | .ok .allLt =>
      match splitPg key high with
      | .error e => .error e
      | .ok (a, b) =>
        let c' := if a.isSome && b.isSome then Option.none else c
        .ok (.some L c' nodes a, b)
    | _ => splitPg key (.some L c nodes high)

end F1

/-- A toy page hasher over natural-number keys/values/digests used for the examples below:
digest = length of the byte stream (collisions abound — irrelevant for F1). -/
def lenCfg : HashCfg Nat Nat Nat :=
  { kb := fun k => [k.toUInt8], vb := fun v => [v.toUInt8], db := fun d => [d.toUInt8], h := fun bs => bs.length }

/-- The F1 witness: page `[k=10]` at level 1 whose high page is `[k=30]` at level 0, both with
up-to-date cached digests. -/
def f1Page : Pg Nat Nat Nat :=
  .some 1 (some 3) (.cons .none 10 1 .nil) (.some 0 (some 2) (.cons .none 30 1 .nil) .none)

/-- F1, machine-checked: the page is clean (so cache-consistent); splitting at key 20 with the
PINNED condition returns the page `[10]` without its high page but still carrying the digest that
covered it — the cache invariant is broken; the repaired `splitPg` keeps it. -/
theorem F1_pinned_condition_breaks_cache_invariant :
    CleanPg lenCfg f1Page ∧
    (∃ a b, splitPgPinned 20 f1Page = .ok (a, b) ∧ ¬ CacheOKPg lenCfg a) ∧
    (∃ a b, splitPg 20 f1Page = .ok (a, b) ∧ CacheOKPg lenCfg a ∧ CacheOKPg lenCfg b) := by
  refine ⟨?_, ?_, ?_⟩
  · simp [f1Page, lenCfg, CleanPg, CleanNd, Pg.hashBytes, Nd.hashBytes]
  · refine ⟨.some 1 (some 3) (.cons .none 10 1 .nil) .none,
      .some 0 (some 2) (.cons .none 30 1 .nil) .none, ?_, ?_⟩
    · simp [f1Page, splitPgPinned, splitPg, splitNd, assertKeyGt, Nd.firstKey?, Pg.isSome]
    · simp [lenCfg, CleanPg, CleanNd, CacheOKPg, CacheOKNd, Pg.hashBytes, Nd.hashBytes]
  · refine ⟨.some 1 none (.cons .none 10 1 .nil) .none,
      .some 0 (some 2) (.cons .none 30 1 .nil) .none, ?_, ?_, ?_⟩
    · simp [f1Page, splitPg, splitNd, assertKeyLt, assertKeyGt, Nd.lastKey?,
        Nd.firstKey?, Pg.isSome]
    · simp [lenCfg, CleanPg, CleanNd, CacheOKPg, CacheOKNd, Pg.hashBytes, Nd.hashBytes]
    · simp [lenCfg, CleanPg, CleanNd, CacheOKPg, CacheOKNd, Pg.hashBytes, Nd.hashBytes]

/-! ### `NoCollisions` is satisfiable -/

/-- An injective ("perfect") page hasher: digests are the byte streams themselves and every token
is self-delimiting, so different pre-images always get different digests. -/
def perfectCfg : HashCfg Nat Nat (List UInt8) :=
  { kb := fun k => 4 :: (List.replicate k 0 ++ [1])
    vb := fun v => List.replicate v 0 ++ [1]
    db := fun d => 3 :: (d.flatMap (fun b => [2, b]) ++ [1])
    h := id }

private theorem repl_inj : ∀ (k k' : Nat) (r r' : List UInt8),
    List.replicate k 0 ++ 1 :: r = List.replicate k' 0 ++ 1 :: r' → k = k' ∧ r = r'
  | 0, 0, r, r', h => by simpa using h
  | 0, k'+1, r, r', h => by simp [List.replicate_succ] at h
  | k+1, 0, r, r', h => by simp [List.replicate_succ] at h
  | k+1, k'+1, r, r', h => by
    simp only [List.replicate_succ, List.cons_append, List.cons.injEq, true_and] at h
    obtain ⟨e1, e2⟩ := repl_inj k k' r r' h
    exact ⟨by rw [e1], e2⟩

private theorem dig_inj : ∀ (d d' : List UInt8) (r r' : List UInt8),
    d.flatMap (fun b => [2, b]) ++ 1 :: r = d'.flatMap (fun b => [2, b]) ++ 1 :: r' → d = d' ∧ r = r'
  | [], [], r, r', h => by simpa using h
  | [], b :: d', r, r', h => by simp [List.flatMap_cons] at h
  | b :: d, [], r, r', h => by simp [List.flatMap_cons] at h
  | b :: d, b' :: d', r, r', h => by
    simp only [List.flatMap_cons, List.cons_append, List.nil_append, List.cons.injEq, true_and] at h
    obtain ⟨e1, e2⟩ := dig_inj d d' r r' h.2
    exact ⟨by rw [h.1, e1], e2⟩

private theorem node_inj (k k' v v' : Nat) (r r' : List UInt8)
    (h : perfectCfg.kb k ++ (perfectCfg.vb v ++ r) = perfectCfg.kb k' ++ (perfectCfg.vb v' ++ r')) :
    k = k' ∧ v = v' ∧ r = r' := by
  simp only [perfectCfg, List.cons_append, List.append_assoc, List.nil_append, List.cons.injEq,
    true_and] at h
  obtain ⟨e1, h⟩ := repl_inj _ _ _ _ h
  obtain ⟨e2, h⟩ := repl_inj _ _ _ _ h
  exact ⟨e1, e2, h⟩

private theorem opt_inj : ∀ (c c' : Option (List UInt8)) (k k' : Nat) (r r' : List UInt8),
    optBytes perfectCfg c ++ (perfectCfg.kb k ++ r) = optBytes perfectCfg c' ++ (perfectCfg.kb k' ++ r') →
    c = c' ∧ perfectCfg.kb k ++ r = perfectCfg.kb k' ++ r'
  | none, none, _, _, _, _, h => ⟨rfl, by simpa [optBytes] using h⟩
  | none, some d, _, _, _, _, h => by simp [optBytes, perfectCfg] at h
  | some d, none, _, _, _, _, h => by simp [optBytes, perfectCfg] at h
  | some d, some d', k, k', r, r', h => by
    simp only [optBytes, perfectCfg, List.cons_append, List.append_assoc, List.nil_append,
      List.cons.injEq, true_and] at h
    obtain ⟨e1, e2⟩ := dig_inj _ _ _ _ h
    refine ⟨by rw [e1], ?_⟩
    simpa [perfectCfg] using e2

private theorem encodeTok_inj : ∀ (l l' : List (Option (List UInt8) × Nat × Nat)) (o o' : Option (List UInt8)),
    encodeToks perfectCfg l ++ optBytes perfectCfg o = encodeToks perfectCfg l' ++ optBytes perfectCfg o' →
    l = l' ∧ o = o'
  | [], [], o, o', h => by
    simp only [encodeToks, List.nil_append] at h
    refine ⟨rfl, ?_⟩
    cases o with
    | none => cases o' with
      | none => rfl
      | some d' => simp [optBytes, perfectCfg] at h
    | some d => cases o' with
      | none => simp [optBytes, perfectCfg] at h
      | some d' =>
        simp only [optBytes, perfectCfg, List.cons.injEq, true_and] at h
        rw [(dig_inj _ _ _ _ h).1]
  | [], (c, k, v) :: l', o, o', h => by
    exfalso
    simp only [encodeToks, List.nil_append, List.append_assoc] at h
    cases o with
    | none => cases c <;> simp [optBytes, perfectCfg] at h
    | some d => cases c with
      | none => simp [optBytes, perfectCfg] at h
      | some d' =>
        simp only [optBytes, perfectCfg, List.cons_append, List.append_assoc, List.nil_append,
          List.cons.injEq, true_and] at h
        have := (dig_inj _ _ _ _ h).2
        simp at this
  | (c, k, v) :: l, [], o, o', h => by
    exfalso
    simp only [encodeToks, List.nil_append, List.append_assoc] at h
    cases o' with
    | none => cases c <;> simp [optBytes, perfectCfg] at h
    | some d => cases c with
      | none => simp [optBytes, perfectCfg] at h
      | some d' =>
        simp only [optBytes, perfectCfg, List.cons_append, List.append_assoc, List.nil_append,
          List.cons.injEq, true_and] at h
        have := (dig_inj _ _ _ _ h).2
        simp at this
  | (c, k, v) :: l, (c', k', v') :: l', o, o', h => by
    simp only [encodeToks, List.append_assoc] at h
    obtain ⟨e1, h⟩ := opt_inj _ _ _ _ _ _ h
    obtain ⟨e2, e3, h⟩ := node_inj _ _ _ _ _ _ h
    obtain ⟨e4, e5⟩ := encodeTok_inj l l' o o' h
    subst e1 e2 e3 e4 e5
    exact ⟨rfl, rfl⟩

/-- Non-vacuity of the collision-freeness hypotheses of C03–C07 and of `NoCollisions` (C05, C06). -/
theorem perfectCfg_noCollisions : NoCollisions perfectCfg := by
  intro p q a _ b _ h
  obtain ⟨l, o⟩ := a
  obtain ⟨l', o'⟩ := b
  have h' : encodeTok perfectCfg (l, o) = encodeTok perfectCfg (l', o') := h
  obtain ⟨e1, e2⟩ := encodeTok_inj l l' o o' h'
  rw [e1, e2]

end Mst

#print axioms Mst.F1_pinned_condition_breaks_cache_invariant
#print axioms Mst.perfectCfg_noCollisions
