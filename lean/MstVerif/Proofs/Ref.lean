/-
C14 (second half): an independent reference construction of the tree from its content alone —
never through `upsert` — and the theorem that every well-shaped tree hashes to it.

`refPg` builds the page for a non-empty ascending run: the page level is the maximal key level of
the run; the page's nodes are exactly the keys of that level, in order; the run strictly between
two consecutive such keys (or before the first) becomes the `lt` child of the key above it if it
is non-empty; the run after the last such key becomes the high page if it is non-empty.
`Pg.hashBytes` / `Pg.trueHash` (Defs.lean) then give the documented byte stream: per key the child
digest if there is one, the key bytes, the value digest; finally the high page digest if any.
-/
import MstVerif.Proofs.Hash

namespace Mst
variable {K V D : Type}

def maxLevel (lvl : K → Nat) : List (K × V) → Nat
  | [] => 0
  | kv :: r => max (lvl kv.1) (maxLevel lvl r)

mutual
/-- the page of a run (`none` for the empty run); `fuel` bounds the recursion -/
def refPg (lvl : K → Nat) : Nat → List (K × V) → Pg K V D
  | 0, _ => .none
  | fuel + 1, c =>
    match c with
    | [] => .none
    | _ :: _ =>
      let L := maxLevel lvl c
      let r := refNd lvl fuel L c
      .some L none r.1 r.2
/-- nodes and high page of a run at page level `L` -/
def refNd (lvl : K → Nat) : Nat → Nat → List (K × V) → Nd K V D × Pg K V D
  | 0, _, _ => (.nil, .none)
  | fuel + 1, L, c =>
    let seg := c.takeWhile (fun kv => decide (lvl kv.1 < L))
    match c.dropWhile (fun kv => decide (lvl kv.1 < L)) with
    | [] => (.nil, refPg lvl fuel seg)
    | kv :: rest =>
      let r := refNd lvl fuel L rest
      (.cons (refPg lvl fuel seg) kv.1 kv.2 r.1, r.2)
end

/-- The reference root page for a content: the empty tree's `Page::new(0, [])`, else `refPg`.
Fuel `3 * c.length`: a run of `n` keys with strictly descending levels needs fuel `3n - 1`
(each key costs one `refPg` and two `refNd` steps), so `2n + 2` would be too little from `n = 4`. -/
def refRootPg (lvl : K → Nat) (c : List (K × V)) : Pg K V D :=
  match c with
  | [] => .some 0 none .nil .none
  | _ :: _ => refPg lvl (3 * c.length) c

/-- The reference root digest of a content. -/
def refRoot (lvl : K → Nat) (hc : HashCfg K V D) (c : List (K × V)) : Option D :=
  (refRootPg (D := D) lvl c).trueHash hc

/-! ### `maxLevel` -/

theorem le_maxLevel (lvl : K → Nat) : ∀ (c : List (K × V)), ∀ kv ∈ c, lvl kv.1 ≤ maxLevel lvl c
  | [], kv, h => by simp at h
  | a :: r, kv, h => by
    simp only [List.mem_cons] at h
    simp only [maxLevel]
    rcases h with h | h
    · subst h; exact Nat.le_max_left _ _
    · exact Nat.le_trans (le_maxLevel lvl r kv h) (Nat.le_max_right _ _)

theorem maxLevel_mem (lvl : K → Nat) : ∀ (c : List (K × V)), c ≠ [] →
    ∃ kv ∈ c, lvl kv.1 = maxLevel lvl c
  | [], h => absurd rfl h
  | [a], _ => ⟨a, by simp, by simp [maxLevel]⟩
  | a :: b :: r, _ => by
    obtain ⟨kv, hm, he⟩ := maxLevel_mem lvl (b :: r) (by simp)
    by_cases hle : maxLevel lvl (b :: r) ≤ lvl a.1
    · exact ⟨a, by simp, by rw [maxLevel.eq_2, Nat.max_eq_left hle]⟩
    · refine ⟨kv, List.mem_cons_of_mem _ hm, ?_⟩
      rw [maxLevel.eq_2, he, Nat.max_eq_right (by omega)]

theorem maxLevel_lt (lvl : K → Nat) (c : List (K × V)) (b : Nat) (hne : c ≠ [])
    (h : ∀ kv ∈ c, lvl kv.1 < b) : maxLevel lvl c < b := by
  obtain ⟨kv, hm, he⟩ := maxLevel_mem lvl c hne
  rw [← he]; exact h kv hm

/-! ### list facts -/

theorem dropWhile_cons_spec {α : Type} (p : α → Bool) : ∀ (c : List α) (a : α) (rest : List α),
    c.dropWhile p = a :: rest → p a = false ∧ c = c.takeWhile p ++ a :: rest
  | [], a, rest, h => by simp at h
  | x :: c, a, rest, h => by
    cases hx : p x with
    | true =>
      simp only [List.dropWhile_cons, hx, if_true] at h
      obtain ⟨h1, h2⟩ := dropWhile_cons_spec p c a rest h
      refine ⟨h1, ?_⟩
      simp only [List.takeWhile_cons, hx, if_true, List.cons_append]
      rw [← h2]
    | false =>
      simp only [List.dropWhile_cons, hx] at h
      simp only [Bool.false_eq_true, if_false, List.cons.injEq] at h
      obtain ⟨h1, h2⟩ := h
      subst h1 h2
      exact ⟨hx, by simp [hx]⟩

theorem dropWhile_nil_spec {α : Type} (p : α → Bool) : ∀ (c : List α), c.dropWhile p = [] →
    c.takeWhile p = c ∧ ∀ x ∈ c, p x = true
  | [], _ => by simp
  | x :: c, h => by
    cases hx : p x with
    | true =>
      simp only [List.dropWhile_cons, hx, if_true] at h
      obtain ⟨h1, h2⟩ := dropWhile_nil_spec p c h
      refine ⟨by simp [hx, h1], ?_⟩
      intro y hy
      simp only [List.mem_cons] at hy
      rcases hy with hy | hy
      · rw [hy]; exact hx
      · exact h2 y hy
    | false => simp [hx] at h

theorem mem_takeWhile_sat {α : Type} (p : α → Bool) : ∀ (c : List α), ∀ x ∈ c.takeWhile p, p x = true
  | [], x, h => by simp at h
  | y :: c, x, h => by
    cases hy : p y with
    | true =>
      simp only [List.takeWhile_cons, hy, if_true, List.mem_cons] at h
      rcases h with h | h
      · rw [h]; exact hy
      · exact mem_takeWhile_sat p c x h
    | false => simp [hy] at h

/-! ### unfolding `refPg` / `refNd` -/

theorem refPg_nil (lvl : K → Nat) (f : Nat) : refPg (D := D) lvl f ([] : List (K × V)) = .none := by
  cases f <;> simp [refPg]

theorem refPg_succ_cons (lvl : K → Nat) (f : Nat) (a : K × V) (r : List (K × V)) :
    refPg (D := D) lvl (f + 1) (a :: r) =
      .some (maxLevel lvl (a :: r)) none (refNd lvl f (maxLevel lvl (a :: r)) (a :: r)).1
        (refNd lvl f (maxLevel lvl (a :: r)) (a :: r)).2 := by
  simp [refPg]

theorem refNd_succ_nil (lvl : K → Nat) (f L : Nat) (c : List (K × V))
    (h : c.dropWhile (fun kv => decide (lvl kv.1 < L)) = []) :
    refNd (D := D) lvl (f + 1) L c =
      (.nil, refPg lvl f (c.takeWhile (fun kv => decide (lvl kv.1 < L)))) := by
  simp [refNd, h]

theorem refNd_succ_cons (lvl : K → Nat) (f L : Nat) (c : List (K × V)) (kv : K × V)
    (rest : List (K × V)) (h : c.dropWhile (fun kv => decide (lvl kv.1 < L)) = kv :: rest) :
    refNd (D := D) lvl (f + 1) L c =
      (.cons (refPg lvl f (c.takeWhile (fun kv => decide (lvl kv.1 < L)))) kv.1 kv.2
        (refNd lvl f L rest).1, (refNd lvl f L rest).2) := by
  simp [refNd, h]

/-! ### the joint specification, by induction on the fuel -/

theorem ref_spec (lvl : K → Nat) : ∀ f : Nat,
    (∀ (c : List (K × V)) (b : Nat), 3 * c.length ≤ f + 1 → (∀ kv ∈ c, lvl kv.1 < b) →
      LvPg lvl b (refPg (D := D) lvl f c) ∧ (refPg (D := D) lvl f c).content = c) ∧
    (∀ (L : Nat) (c : List (K × V)), (∀ kv ∈ c, lvl kv.1 ≤ L) →
      (3 * c.length ≤ f ∨ (3 * c.length ≤ f + 2 ∧ ∃ kv ∈ c, lvl kv.1 = L)) →
      LvNd lvl L (refNd (D := D) lvl f L c).1 ∧ LvPg lvl L (refNd (D := D) lvl f L c).2 ∧
      (refNd (D := D) lvl f L c).1.content ++ (refNd (D := D) lvl f L c).2.content = c ∧
      ((∃ kv ∈ c, lvl kv.1 = L) → (refNd (D := D) lvl f L c).1 ≠ .nil))
  | 0 => by
    refine ⟨?_, ?_⟩
    · intro c b hf _
      have hc : c = [] := by
        cases c with
        | nil => rfl
        | cons a r => simp only [List.length_cons] at hf; omega
      subst hc
      simp [refPg, LvPg, Pg.content]
    · intro L c _ hf
      have hc : c = [] := by
        cases c with
        | nil => rfl
        | cons a r => simp only [List.length_cons] at hf; omega
      subst hc
      simp [refNd, LvPg, LvNd, Pg.content, Nd.content]
  | f + 1 => by
    obtain ⟨ihP, ihN⟩ := ref_spec lvl f
    refine ⟨?_, ?_⟩
    · intro c b hf hb
      cases c with
      | nil => rw [refPg_nil]; simp [LvPg, Pg.content]
      | cons a r =>
        rw [refPg_succ_cons]
        have hex := maxLevel_mem lvl (a :: r) (by simp)
        obtain ⟨h1, h2, h3, h4⟩ := ihN (maxLevel lvl (a :: r)) (a :: r) (le_maxLevel lvl _)
          (Or.inr ⟨by omega, hex⟩)
        refine ⟨?_, ?_⟩
        · simp only [LvPg]
          exact ⟨maxLevel_lt lvl _ b (by simp) hb, h4 hex, h1, h2⟩
        · simp only [Pg.content]; exact h3
    · intro L c hle hf
      cases hd : c.dropWhile (fun kv => decide (lvl kv.1 < L)) with
      | nil =>
        rw [refNd_succ_nil lvl f L c hd]
        obtain ⟨htk, hall⟩ := dropWhile_nil_spec _ c hd
        have hlt : ∀ kv ∈ c, lvl kv.1 < L := fun kv hkv => by
          have := hall kv hkv; simpa using this
        have hno : ¬ ∃ kv ∈ c, lvl kv.1 = L := by
          rintro ⟨kv, hkv, he⟩
          have := hlt kv hkv; omega
        have hfuel : 3 * c.length ≤ f + 1 := by
          rcases hf with hf | hf
          · exact hf
          · exact absurd hf.2 hno
        rw [htk]
        obtain ⟨h1, h2⟩ := ihP c L hfuel hlt
        refine ⟨by simp [LvNd], h1, by simp [Nd.content, h2], fun h => absurd h hno⟩
      | cons kv rest =>
        rw [refNd_succ_cons lvl f L c kv rest hd]
        obtain ⟨hpk, hc⟩ := dropWhile_cons_spec _ c kv rest hd
        have hlen : c.length = (c.takeWhile (fun kv => decide (lvl kv.1 < L))).length
            + (rest.length + 1) := by
          conv => lhs; rw [hc]
          simp
        have hkvmem : kv ∈ c := by rw [hc]; simp
        have hrest : ∀ x ∈ rest, x ∈ c := fun x hx => by rw [hc]; simp [hx]
        have hkvL : lvl kv.1 = L := by
          have h1 := hle kv hkvmem
          have h2 : ¬ lvl kv.1 < L := by simpa using hpk
          omega
        have hfuel : 3 * c.length ≤ f + 3 := by
          rcases hf with hf | hf <;> omega
        have hseg : ∀ x ∈ c.takeWhile (fun kv => decide (lvl kv.1 < L)), lvl x.1 < L :=
          fun x hx => by
            have := mem_takeWhile_sat _ c x hx; simpa using this
        obtain ⟨p1, p2⟩ := ihP (c.takeWhile (fun kv => decide (lvl kv.1 < L))) L (by omega) hseg
        obtain ⟨n1, n2, n3, _⟩ := ihN L rest (fun x hx => hle x (hrest x hx)) (Or.inl (by omega))
        refine ⟨?_, n2, ?_, fun _ => by simp⟩
        · simp only [LvNd]; exact ⟨p1, hkvL, n1⟩
        · simp only [Nd.content, p2, List.append_assoc, List.cons_append, n3]
          exact hc.symm

/-- The reference tree is well shaped and holds exactly the content it was built from. -/
theorem refRootPg_spec (lvl : K → Nat) (c : List (K × V)) :
    LvRoot lvl (refRootPg (D := D) lvl c) ∧ (refRootPg (D := D) lvl c).content = c := by
  cases c with
  | nil => simp [refRootPg, LvRoot, LvNd, LvPg, Pg.content, Nd.content]
  | cons a r =>
    have hP := (ref_spec (D := D) lvl (3 * (a :: r).length)).1 (a :: r)
      (maxLevel lvl (a :: r) + 1) (by omega)
      (fun kv hkv => Nat.lt_succ_of_le (le_maxLevel lvl _ kv hkv))
    have hfuel : 3 * (a :: r).length = (3 * r.length + 2) + 1 := by
      simp only [List.length_cons]; omega
    simp only [refRootPg]
    rw [hfuel, refPg_succ_cons] at hP ⊢
    obtain ⟨h1, h2⟩ := hP
    simp only [LvPg] at h1
    refine ⟨?_, h2⟩
    simp only [LvRoot]
    exact ⟨fun hn => absurd hn h1.2.1, h1.2.2.1, h1.2.2.2⟩

/-- Every well-shaped tree has the shape of the reference construction of its own content … -/
theorem erase_eq_ref (lvl : K → Nat) (p : Pg K V D) (hp : LvRoot lvl p) :
    p.erase = (refRootPg (D := D) lvl p.content).erase := by
  obtain ⟨h1, h2⟩ := refRootPg_spec (D := D) lvl p.content
  exact root_unique lvl p _ hp h1 h2.symm

/-- … and therefore its (cache-free) root digest is the reference digest of its content. -/
theorem trueHash_eq_refRoot (lvl : K → Nat) (hc : HashCfg K V D) (p : Pg K V D) (hp : LvRoot lvl p) :
    p.trueHash hc = refRoot lvl hc p.content := by
  unfold refRoot
  rw [← trueHash_erase hc p, erase_eq_ref lvl p hp, trueHash_erase]

end Mst
