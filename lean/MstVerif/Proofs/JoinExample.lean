/-
A concrete NON-LINEAR join-semilattice for the non-vacuity examples of C05/C06: natural numbers as
bit masks under bitwise or (`1 ⊔ 2 = 3`, and `1`, `2` are incomparable). The carrier is `Nat`, so the
injective page hasher `perfectCfg` (and its `NoCollisions` proof) applies unchanged.
-/
import MstVerif.Proofs.SyncN
import MstVerif.Proofs.Extras

namespace Mst

/-- natural numbers ordered as bit masks: `a ≤ b ↔ a ||| b = b` -/
def Bits : Type := Nat

namespace Bits

instance : DecidableEq Bits := inferInstanceAs (DecidableEq Nat)
instance (n : Nat) : OfNat Bits n := ⟨(n : Nat)⟩
instance : Max Bits := ⟨fun a b => Nat.lor a b⟩

instance : SemilatticeSup Bits :=
  SemilatticeSup.mk' (fun a b => Nat.or_comm a b) (fun a b c => Nat.or_assoc a b c)
    (fun a => Nat.or_self a)

theorem sup_def (a b : Bits) : a ⊔ b = Nat.lor a b := rfl

theorem le_def (a b : Bits) : a ≤ b ↔ a ⊔ b = b := Iff.rfl

instance (a b : Bits) : Decidable (a ≤ b) := inferInstanceAs (Decidable (a ⊔ b = b))

/-- the order is not linear: `1` and `2` are incomparable, and their join `3` is neither -/
theorem not_linear : ¬ ((1 : Bits) ≤ 2) ∧ ¬ ((2 : Bits) ≤ 1) ∧ (1 : Bits) ⊔ 2 = 3 ∧
    (1 : Bits) ⊔ 2 ≠ 1 ∧ (1 : Bits) ⊔ 2 ≠ 2 := by
  refine ⟨?_, ?_, ?_, ?_, ?_⟩ <;> decide

/-- the injective page hasher at bit-mask values (the same function as `perfectCfg`) -/
def cfg : HashCfg Nat Bits (List UInt8) := perfectCfg

theorem cfg_noCollisions : NoCollisions cfg := perfectCfg_noCollisions

/-- key level = key mod 3 (three tree levels) -/
def lvl : Nat → Nat := fun k => k % 3

theorem lvl_lt : ∀ k, lvl k < 255 := fun k => by unfold lvl; omega

/-- every key-ascending list of entries is the store of a consistent replica -/
theorem exists_replica (s : List (Nat × Bits)) :
    ∃ r : Replica Nat Bits (List UInt8), RInv lvl cfg r ∧ r.store = absorbStore .peerWins [] s := by
  obtain ⟨r, -, h2, h3⟩ := absorbAll_spec lvl lvl_lt cfg .peerWins Replica.empty
    (Replica.empty_inv lvl cfg) s
  exact ⟨r, h2, h3⟩

end Bits
end Mst
