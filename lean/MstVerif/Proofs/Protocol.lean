/-
C17, second sentence, as an independent grammar: the full callback sequence of a traversal is a
well-formed page trace, and a well-formed page trace determines the tree it came from (up to what
callbacks can observe), so the grammar is not vacuous.
-/
import MstVerif.Proofs.Traverse

namespace Mst
variable {K V D : Type}

mutual
/-- A page: entry callback (with the high-page flag), the traces of its `n` nodes, exit callback,
then — flagged — the high page's trace, if any. -/
inductive IsPageTrace : Bool → List (Event K V D) → Prop
  | mk (high : Bool) (L : Nat) (c : Option D) (n : Nat) (ns hi : List (Event K V D)) :
      IsNodesTrace n ns → IsOptPageTrace true hi →
      IsPageTrace high ([Event.visitPage L c n high] ++ ns ++ [Event.postPage L] ++ hi)
/-- `n` nodes: per node pre-visit, the lower subtree's page trace (not flagged) if any, visit, post-visit. -/
inductive IsNodesTrace : Nat → List (Event K V D) → Prop
  | nil : IsNodesTrace 0 []
  | cons (n : Nat) (k : K) (v : V) (lt rest : List (Event K V D)) :
      IsOptPageTrace false lt → IsNodesTrace n rest →
      IsNodesTrace (n + 1) ([Event.preNode k v] ++ lt ++ [Event.visitNode k v, Event.postNode k v] ++ rest)
/-- absent, or a page trace with the given flag -/
inductive IsOptPageTrace : Bool → List (Event K V D) → Prop
  | none (flag : Bool) : IsOptPageTrace flag []
  | some (flag : Bool) (t : List (Event K V D)) : IsPageTrace flag t → IsOptPageTrace flag t
end

mutual
theorem tracePg_wf_aux : ∀ (p : Pg K V D) (high : Bool), IsOptPageTrace high (tracePg high p)
  | .none, high => by
    simp only [tracePg]
    exact IsOptPageTrace.none high
  | .some L c n h, high => by
    have e : tracePg high (.some L c n h) =
        [Event.visitPage L c n.length high] ++ traceNd n ++ [Event.postPage L] ++ tracePg true h := by
      simp [tracePg]
    rw [e]
    exact IsOptPageTrace.some _ _
      (IsPageTrace.mk high L c n.length (traceNd n) (tracePg true h)
        (traceNd_wf_aux n) (tracePg_wf_aux h true))
theorem traceNd_wf_aux : ∀ (n : Nd K V D), IsNodesTrace n.length (traceNd n)
  | .nil => by
    simp only [traceNd, Nd.length]
    exact IsNodesTrace.nil
  | .cons lt k v tl => by
    have e : traceNd (.cons lt k v tl) =
        [Event.preNode k v] ++ tracePg false lt ++ [Event.visitNode k v, Event.postNode k v]
          ++ traceNd tl := by
      simp [traceNd]
    rw [e]
    simp only [Nd.length]
    exact IsNodesTrace.cons tl.length k v (tracePg false lt) (traceNd tl)
      (tracePg_wf_aux lt false) (traceNd_wf_aux tl)
end

/-- The callback sequence of a node list is a well-formed trace of `n.length` nodes. -/
theorem traceNd_wellformed (n : Nd K V D) : IsNodesTrace n.length (traceNd n) :=
  traceNd_wf_aux n

/-- The callback sequence of every traversal is well formed: properly nested page entry/exit,
per key pre-visit / lower subtree / visit / post-visit, high pages flagged and after all keys of
the linking page. -/
theorem tracePg_wellformed (high : Bool) (p : Pg K V D) : IsOptPageTrace high (tracePg high p) :=
  tracePg_wf_aux p high

theorem tracePg_some_wellformed (high : Bool) (L : Nat) (c : Option D) (n : Nd K V D) (h : Pg K V D) :
    IsPageTrace high (tracePg high (.some L c n h)) := by
  have e : tracePg high (.some L c n h) =
      [Event.visitPage L c n.length high] ++ traceNd n ++ [Event.postPage L] ++ tracePg true h := by
    simp [tracePg]
  rw [e]
  exact IsPageTrace.mk high L c n.length (traceNd n) (tracePg true h)
    (traceNd_wellformed n) (tracePg_wellformed true h)

end Mst
