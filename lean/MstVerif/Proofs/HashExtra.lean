/-
Small additions to L2: a tree without caches is cache-consistent.
-/
import MstVerif.Proofs.Hash

namespace Mst
variable {K V D : Type}

mutual
theorem cacheOK_erasePg (hc : HashCfg K V D) : (p : Pg K V D) → CacheOKPg hc p.erase
  | .none => by simp [Pg.erase, CacheOKPg]
  | .some L c n h => by
    simp only [Pg.erase, CacheOKPg]
    exact ⟨by simp, cacheOK_eraseNd hc n, cacheOK_erasePg hc h⟩
theorem cacheOK_eraseNd (hc : HashCfg K V D) : (n : Nd K V D) → CacheOKNd hc n.erase
  | .nil => by simp [Nd.erase, CacheOKNd]
  | .cons lt k v tl => by
    simp only [Nd.erase, CacheOKNd]
    exact ⟨cacheOK_erasePg hc lt, cacheOK_eraseNd hc tl⟩
end

mutual
theorem erase_erasePg : (p : Pg K V D) → p.erase.erase = p.erase
  | .none => by simp [Pg.erase]
  | .some L c n h => by simp [Pg.erase, erase_eraseNd n, erase_erasePg h]
theorem erase_eraseNd : (n : Nd K V D) → n.erase.erase = n.erase
  | .nil => by simp [Nd.erase]
  | .cons lt k v tl => by simp [Nd.erase, erase_erasePg lt, erase_eraseNd tl]
end

end Mst
