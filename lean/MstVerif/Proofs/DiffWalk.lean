/-
L7b: what the `diff` walk records, still on ARBITRARY page-range lists:
consistent marks are justified by equal digests, inconsistent marks stay inside the peer root
and use peer bounds, the first iteration in the configurations the tree-level theorems need,
and the link from the recorded marks to the returned ranges.
-/
import MstVerif.Proofs.DiffList

set_option linter.unusedSectionVars false

namespace Mst
variable {K D : Type} [LinearOrder K] [DecidableEq D]

/-- The walk of `diff`, exposing the builder (`diff` = walk, then `into_diff_vec`). -/
def diffWalk (loc peer : List (PR K D)) : Except String (Builder K) :=
  match peer with
  | [] => .ok Builder.empty
  | root :: _ =>
    match recurseDiff (2 * peer.length + 2) root none peer loc Builder.empty with
    | .error e => .error e
    | .ok (_, _, b) => .ok b

/-! ### Helpers: builder pushes -/

theorem inconsistent_ok {b b' : Builder K} {s e : K} (h : b.inconsistent s e = .ok b') :
    s ≤ e ∧ b' = { b with bad := b.bad ++ [(s, e)] } := by
  unfold Builder.inconsistent at h
  by_cases hse : s ≤ e
  · rw [if_pos hse] at h
    exact ⟨hse, (Except.ok.inj h).symm⟩
  · rw [if_neg hse] at h
    cases h

theorem consistent_ok {b b' : Builder K} {s e : K} (h : b.consistent s e = .ok b') :
    s ≤ e ∧ b' = { b with good := b.good ++ [(s, e)] } := by
  unfold Builder.consistent at h
  by_cases hse : s ≤ e
  · rw [if_pos hse] at h
    exact ⟨hse, (Except.ok.inj h).symm⟩
  · rw [if_neg hse] at h
    cases h

theorem supersetOf_iff (a b : PR K D) :
    a.supersetOf b = true ↔ a.start ≤ b.start ∧ b.end_ ≤ a.end_ := by
  simp [PR.supersetOf]

theorem supersetOf_refl (a : PR K D) : a.supersetOf a = true := by
  simp [PR.supersetOf]

/-! ### The conditional invariants of the walk -/

/-- An inconsistent mark recorded while walking below `root`. -/
def BadOK (PP LP : PR K D → Prop) (root : PR K D) (r : DR K) : Prop :=
  (root.start ≤ r.1 ∧ r.2 ≤ root.end_) ∧
  (∃ p, PP p ∧ (r.1 = p.start ∨ r.1 = p.end_)) ∧
  ((∃ p, PP p ∧ r.2 = p.end_) ∨ (∃ l, LP l ∧ r.2 = l.start))

/-- A consistent mark. -/
def GoodOK (PP LP : PR K D → Prop) (g : DR K) : Prop :=
  ∃ p, PP p ∧ ∃ l, LP l ∧ g = (p.start, p.end_) ∧ l.hash = p.hash

/-- What a successful part of the walk below `root` does to the builder. -/
def Step (PP LP : PR K D → Prop) (root : PR K D) (b b' : Builder K) : Prop :=
  (∀ r ∈ b.bad, r ∈ b'.bad) ∧
  (∀ r ∈ b'.bad, r ∈ b.bad ∨ BadOK PP LP root r) ∧
  (∀ g ∈ b'.good, g ∈ b.good ∨ GoodOK PP LP g)

theorem Step.refl (PP LP : PR K D → Prop) (root : PR K D) (b : Builder K) :
    Step PP LP root b b :=
  ⟨fun _ h => h, fun _ h => Or.inl h, fun _ h => Or.inl h⟩

theorem Step.trans {PP LP : PR K D → Prop} {root : PR K D} {b1 b2 b3 : Builder K}
    (h1 : Step PP LP root b1 b2) (h2 : Step PP LP root b2 b3) : Step PP LP root b1 b3 := by
  refine ⟨fun r h => h2.1 r (h1.1 r h), ?_, ?_⟩
  · intro r hr
    rcases h2.2.1 r hr with h | h
    · exact h1.2.1 r h
    · exact Or.inr h
  · intro g hg
    rcases h2.2.2 g hg with h | h
    · exact h1.2.2 g h
    · exact Or.inr h

theorem BadOK.mono {PP LP : PR K D → Prop} {root p : PR K D} {r : DR K}
    (hsup : root.start ≤ p.start ∧ p.end_ ≤ root.end_) (h : BadOK PP LP p r) :
    BadOK PP LP root r :=
  ⟨⟨le_trans hsup.1 h.1.1, le_trans h.1.2 hsup.2⟩, h.2⟩

theorem Step.mono {PP LP : PR K D → Prop} {root p : PR K D} {b b' : Builder K}
    (hsup : root.start ≤ p.start ∧ p.end_ ≤ root.end_) (h : Step PP LP p b b') :
    Step PP LP root b b' := by
  refine ⟨h.1, ?_, h.2.2⟩
  intro r hr
  rcases h.2.1 r hr with h' | h'
  · exact Or.inl h'
  · exact Or.inr (BadOK.mono hsup h')

theorem Step.inconsistent {PP LP : PR K D → Prop} {root : PR K D} {b b' : Builder K} {s e : K}
    (h : b.inconsistent s e = .ok b') (hok : BadOK PP LP root (s, e)) :
    Step PP LP root b b' := by
  obtain ⟨-, rfl⟩ := inconsistent_ok h
  refine ⟨?_, ?_, fun _ h => Or.inl h⟩
  · intro r hr
    exact List.mem_append_left _ hr
  · intro r hr
    rcases List.mem_append.1 hr with h' | h'
    · exact Or.inl h'
    · simp only [List.mem_cons, List.not_mem_nil, or_false] at h'
      subst h'
      exact Or.inr hok

theorem Step.consistent {PP LP : PR K D → Prop} {root : PR K D} {b b' : Builder K} {s e : K}
    (h : b.consistent s e = .ok b') (hok : GoodOK PP LP (s, e)) :
    Step PP LP root b b' := by
  obtain ⟨-, rfl⟩ := consistent_ok h
  refine ⟨fun _ h => h, fun _ h => Or.inl h, ?_⟩
  intro r hr
  rcases List.mem_append.1 hr with h' | h'
  · exact Or.inl h'
  · simp only [List.mem_cons, List.not_mem_nil, or_false] at h'
    subst h'
    exact Or.inr hok

theorem shrinkLocal_fst (p : PR K D) (loc : List (PR K D)) : ∀ (l0 : PR K D),
    (shrinkLocal p l0 loc).1 = l0 ∨ (shrinkLocal p l0 loc).1 ∈ loc := by
  induction loc with
  | nil => intro l0; exact Or.inl rfl
  | cons v rest ih =>
    intro l0
    unfold shrinkLocal
    by_cases h : v.supersetOf p = true
    · rw [if_pos h]
      rcases ih v with h' | h'
      · exact Or.inr (by rw [h']; simp)
      · exact Or.inr (List.mem_cons_of_mem _ h')
    · rw [if_neg h]
      exact Or.inl rfl

theorem drainSubtree_inv (PP LP : PR K D → Prop) (root : PR K D) (peer : List (PR K D)) :
    ∀ (b : Builder K) (peer' : List (PR K D)) (b' : Builder K),
    drainSubtree root peer b = .ok (peer', b') → (∀ r ∈ peer, PP r) →
    (∀ r ∈ peer', PP r) ∧ Step PP LP root b b' := by
  induction peer with
  | nil =>
    intro b peer' b' h hp
    simp only [drainSubtree, Except.ok.injEq, Prod.mk.injEq] at h
    obtain ⟨rfl, rfl⟩ := h
    exact ⟨hp, Step.refl ..⟩
  | cons v rest ih =>
    intro b peer' b' h hp
    unfold drainSubtree at h
    by_cases hs : root.supersetOf v = true
    · rw [if_pos hs] at h
      cases hb1 : b.inconsistent v.start v.end_ with
      | error e => simp [hb1] at h
      | ok b1 =>
        simp only [hb1] at h
        obtain ⟨hp', hs'⟩ := ih b1 peer' b' h (fun r hr => hp r (by simp [hr]))
        have hv : PP v := hp v (by simp)
        refine ⟨hp', Step.trans (Step.inconsistent hb1 ?_) hs'⟩
        exact ⟨(supersetOf_iff root v).1 hs, ⟨v, hv, Or.inl rfl⟩, Or.inl ⟨v, hv, rfl⟩⟩
    · rw [if_neg hs] at h
      simp only [Except.ok.injEq, Prod.mk.injEq] at h
      obtain ⟨rfl, rfl⟩ := h
      exact ⟨hp, Step.refl ..⟩

/-- The joint invariant of the two mutually recursive walkers: whatever a successful call records
is justified (`Step`), and the cursors only move forward over pages satisfying `PP` / `LP`. -/
theorem walk_inv (PP LP : PR K D → Prop) : ∀ fuel : Nat,
    (∀ (root : PR K D) (lastP : Option (PR K D)) (peer loc : List (PR K D)) (b : Builder K)
       (peer' loc' : List (PR K D)) (b' : Builder K),
      recurseDiff fuel root lastP peer loc b = .ok (peer', loc', b') →
      PP root → (∀ v, lastP = some v → PP v ∧ root.start ≤ v.end_) →
      (∀ r ∈ peer, PP r) → (∀ r ∈ loc, LP r) →
      (∀ r ∈ peer', PP r) ∧ (∀ r ∈ loc', LP r) ∧ Step PP LP root b b') ∧
    (∀ (root : PR K D) (peer loc : List (PR K D)) (b : Builder K)
       (peer' loc' : List (PR K D)) (b' : Builder K),
      recurseSubtree fuel root peer loc b = .ok (peer', loc', b') →
      PP root → (∀ r ∈ peer, PP r) → (∀ r ∈ loc, LP r) →
      (∀ r ∈ peer', PP r) ∧ (∀ r ∈ loc', LP r) ∧ Step PP LP root b b') := by
  intro fuel
  induction fuel with
  | zero =>
    constructor
    · intro root lastP peer loc b peer' loc' b' h
      cases lastP <;> simp [recurseDiff] at h
    · intro root peer loc b peer' loc' b' h
      simp [recurseSubtree] at h
  | succ fuel ih =>
    obtain ⟨ihD, ihS⟩ := ih
    constructor
    · intro root lastP peer loc b peer' loc' b' h hroot hlast hpeer hloc
      rw [recurseDiff_succ] at h
      rcases advWithin_cases root peer with ha | ⟨p, peer1, rfl, hsup, ha⟩
      · rw [ha] at h
        simp only [Except.ok.injEq, Prod.mk.injEq] at h
        obtain ⟨rfl, rfl, rfl⟩ := h
        exact ⟨hpeer, hloc, Step.refl ..⟩
      · rw [ha] at h
        dsimp only at h
        have hp : PP p := hpeer p (by simp)
        have hpeer1 : ∀ r ∈ peer1, PP r := fun r hr => hpeer r (by simp [hr])
        have hsup' := (supersetOf_iff root p).1 hsup
        rcases advWithin_cases p loc with h2 | ⟨l0, loc1, rfl, hsup2, h2⟩
        · rw [h2] at h
          dsimp only at h
          by_cases hls : locSup p loc = true
          · rw [if_pos hls] at h
            simp only [Except.ok.injEq, Prod.mk.injEq] at h
            obtain ⟨rfl, rfl, rfl⟩ := h
            exact ⟨hpeer1, hloc, Step.refl ..⟩
          · rw [if_neg hls] at h
            by_cases hse : walkStart root lastP ≤ walkEnd p loc
            · rw [if_pos hse] at h
              cases hb1 : b.inconsistent (walkStart root lastP) (walkEnd p loc) with
              | error e => simp [hb1] at h
              | ok b1 =>
                simp only [hb1, Except.ok.injEq, Prod.mk.injEq] at h
                obtain ⟨rfl, rfl, rfl⟩ := h
                refine ⟨hpeer1, hloc, Step.inconsistent hb1 ⟨⟨?_, ?_⟩, ?_, ?_⟩⟩
                · cases lastP with
                  | none => exact le_refl _
                  | some v => exact (hlast v rfl).2
                · cases loc with
                  | nil => exact hsup'.2
                  | cons lh rest =>
                    simp only [walkEnd]
                    by_cases hlt : p.end_ < lh.start
                    · rw [if_pos hlt]; exact hsup'.2
                    · rw [if_neg hlt]; exact le_trans (le_of_not_gt hlt) hsup'.2
                · cases lastP with
                  | none => exact ⟨root, hroot, Or.inl rfl⟩
                  | some v => exact ⟨v, (hlast v rfl).1, Or.inr rfl⟩
                · cases loc with
                  | nil => exact Or.inl ⟨p, hp, rfl⟩
                  | cons lh rest =>
                    simp only [walkEnd]
                    by_cases hlt : p.end_ < lh.start
                    · rw [if_pos hlt]; exact Or.inl ⟨p, hp, rfl⟩
                    · rw [if_neg hlt]; exact Or.inr ⟨lh, hloc lh (by simp), rfl⟩
            · rw [if_neg hse] at h
              simp only [Except.ok.injEq, Prod.mk.injEq] at h
              obtain ⟨rfl, rfl, rfl⟩ := h
              exact ⟨hpeer1, hloc, Step.refl ..⟩
        · rw [h2] at h
          dsimp only at h
          rw [hsup] at h
          simp only [Bool.not_true, Bool.false_eq_true, if_false] at h
          have hfst := shrinkLocal_fst p loc1 l0
          have hsnd := shrinkLocal_mem p loc1 l0
          rcases hsl : shrinkLocal p l0 loc1 with ⟨l, loc2⟩
          rw [hsl] at h hfst hsnd
          dsimp only at h hfst hsnd
          have hl : LP l := by
            rcases hfst with rfl | hm
            · exact hloc _ (by simp)
            · exact hloc l (by simp [hm])
          have hloc2 : ∀ r ∈ loc2, LP r := fun r hr => hloc r (by simp [hsnd r hr])
          have tail : ∀ (b1 : Builder K) (peer2 : List (PR K D)), p.start ≤ p.end_ →
              Step PP LP root b b1 → (∀ r ∈ peer2, PP r) →
              (match recurseSubtree fuel p peer2 loc2 b1 with
                | .error e => Except.error e
                | .ok (peer3, loc3, b2) => recurseDiff fuel root (some p) peer3 loc3 b2) =
                .ok (peer', loc', b') →
              (∀ r ∈ peer', PP r) ∧ (∀ r ∈ loc', LP r) ∧ Step PP LP root b b' := by
            intro b1 peer2 hpv hs1 hpeer2 ht
            cases hS : recurseSubtree fuel p peer2 loc2 b1 with
            | error e => simp [hS] at ht
            | ok res =>
              obtain ⟨peer3, loc3, b2⟩ := res
              simp only [hS] at ht
              obtain ⟨hpeer3, hloc3, hs2⟩ := ihS p peer2 loc2 b1 _ _ _ hS hp hpeer2 hloc2
              obtain ⟨hpeer4, hloc4, hs3⟩ := ihD root (some p) peer3 loc3 b2 _ _ _ ht hroot
                (fun v hv => by cases hv; exact ⟨hp, le_trans hsup'.1 hpv⟩) hpeer3 hloc3
              exact ⟨hpeer4, hloc4, Step.trans hs1 (Step.trans (Step.mono hsup' hs2) hs3)⟩
          by_cases hh : l.hash = p.hash
          · rw [if_pos hh] at h
            cases hb1 : b.consistent p.start p.end_ with
            | error e => simp [hb1] at h
            | ok b1 =>
              simp only [hb1] at h
              exact tail b1 (skipSubtree p peer1) (consistent_ok hb1).1
                (Step.consistent hb1 ⟨p, hp, l, hl, rfl, hh⟩)
                (fun r hr => hpeer1 r (skipSubtree_mem p peer1 r hr)) h
          · rw [if_neg hh] at h
            cases hb1 : b.inconsistent p.start p.end_ with
            | error e => simp [hb1] at h
            | ok b1 =>
              simp only [hb1] at h
              exact tail b1 peer1 (inconsistent_ok hb1).1
                (Step.inconsistent hb1 ⟨hsup', ⟨p, hp, Or.inl rfl⟩, Or.inl ⟨p, hp, rfl⟩⟩)
                hpeer1 h
    · intro root peer loc b peer' loc' b' h hroot hpeer hloc
      rw [recurseSubtree] at h
      cases hD : recurseDiff fuel root none peer loc b with
      | error e => simp [hD] at h
      | ok res =>
        obtain ⟨peer1, loc1, b1⟩ := res
        simp only [hD] at h
        obtain ⟨hpeer1, hloc1, hs1⟩ :=
          ihD root none peer loc b _ _ _ hD hroot (fun v hv => by cases hv) hpeer hloc
        cases hdr : drainSubtree root peer1 b1 with
        | error e => simp [hdr] at h
        | ok res2 =>
          obtain ⟨peer2, b2⟩ := res2
          simp only [hdr] at h
          obtain ⟨hpeer2, hs2⟩ := drainSubtree_inv PP LP root peer1 b1 _ _ hdr hpeer1
          have hfin : peer' = peer2 ∧ loc' = loc1 ∧ b' = b2 := by
            cases peer2 with
            | nil =>
              simp only [Except.ok.injEq, Prod.mk.injEq] at h
              exact ⟨h.1.symm, h.2.1.symm, h.2.2.symm⟩
            | cons v rest =>
              dsimp only at h
              by_cases hv : root.supersetOf v = true
              · rw [if_pos hv] at h; cases h
              · rw [if_neg hv] at h
                simp only [Except.ok.injEq, Prod.mk.injEq] at h
                exact ⟨h.1.symm, h.2.1.symm, h.2.2.symm⟩
          obtain ⟨rfl, rfl, rfl⟩ := hfin
          exact ⟨hpeer2, hloc1, Step.trans hs1 hs2⟩

/-- Unfolding of `diffWalk` on a non-empty peer list, with the fuel in successor form. -/
theorem diffWalk_cons (loc : List (PR K D)) (root : PR K D) (rest : List (PR K D)) :
    diffWalk loc (root :: rest) =
      match recurseDiff (2 * rest.length + 1 + 1 + 1 + 1) root none (root :: rest) loc
          Builder.empty with
      | .error e => .error e
      | .ok (_, _, b) => .ok b := by
  have hf : 2 * (root :: rest).length + 2 = 2 * rest.length + 1 + 1 + 1 + 1 := by
    simp only [List.length_cons]; omega
  unfold diffWalk
  dsimp only
  rw [hf]

/-- The invariant, instantiated at the top-level call. -/
theorem diffWalk_step (PP LP : PR K D → Prop) (loc : List (PR K D)) (root : PR K D)
    (rest : List (PR K D)) (b : Builder K) (h : diffWalk loc (root :: rest) = .ok b)
    (hpeer : ∀ r ∈ root :: rest, PP r) (hloc : ∀ r ∈ loc, LP r) :
    Step PP LP root Builder.empty b := by
  rw [diffWalk_cons] at h
  cases hD : recurseDiff (2 * rest.length + 1 + 1 + 1 + 1) root none (root :: rest) loc
      Builder.empty with
  | error e => simp [hD] at h
  | ok res =>
    obtain ⟨peer', loc', b'⟩ := res
    simp only [hD, Except.ok.injEq] at h
    subst h
    exact ((walk_inv PP LP _).1 root none (root :: rest) loc Builder.empty _ _ _ hD
      (hpeer root (by simp)) (fun v hv => by cases hv) hpeer hloc).2.2

theorem diff_eq_walk (loc peer : List (PR K D)) (hne : peer ≠ []) :
    diff loc peer = (match diffWalk loc peer with
                     | .error e => .error e
                     | .ok b => b.intoDiffVec) := by
  cases peer with
  | nil => exact absurd rfl hne
  | cons root rest =>
    unfold diff diffWalk
    dsimp only
    cases recurseDiff (2 * (root :: rest).length + 2) root none (root :: rest) loc
        Builder.empty with
    | error e => rfl
    | ok res => rfl

/-- The walk is total on valid lists (from `recurseDiff_total`) and records valid intervals. -/
theorem diffWalk_total (loc peer : List (PR K D)) (hl : PRValid loc) (hp : PRValid peer) :
    ∃ b, diffWalk loc peer = .ok b ∧ DRValid b.bad ∧ DRValid b.good := by
  cases peer with
  | nil =>
    exact ⟨Builder.empty, rfl, by simp [DRValid, Builder.empty], by simp [DRValid, Builder.empty]⟩
  | cons root rest =>
    obtain ⟨peer', loc', b, he, hbv, hgv, -⟩ :=
      recurseDiff_total loc (root :: rest) root hl hp (hp root (by simp))
    refine ⟨b, ?_, hbv, hgv⟩
    unfold diffWalk
    simp only [he]

/-- Every consistent mark is a peer page whose digest equals the digest of some local page. -/
theorem diffWalk_good_justified (loc peer : List (PR K D)) (b : Builder K)
    (h : diffWalk loc peer = .ok b) :
    ∀ g ∈ b.good, ∃ p ∈ peer, ∃ l ∈ loc, g = (p.start, p.end_) ∧ l.hash = p.hash := by
  cases peer with
  | nil =>
    simp only [diffWalk, Except.ok.injEq] at h
    subst h
    intro g hg
    simp [Builder.empty] at hg
  | cons root rest =>
    have hs := diffWalk_step (fun p => p ∈ root :: rest) (fun l => l ∈ loc) loc root rest b h
      (fun r hr => hr) (fun r hr => hr)
    intro g hg
    rcases hs.2.2 g hg with h' | ⟨p, hp, l, hl, hg, hh⟩
    · simp [Builder.empty] at h'
    · exact ⟨p, hp, l, hl, hg, hh⟩

/-- Every inconsistent mark lies inside the peer's first (root) range. -/
theorem diffWalk_bad_within (loc : List (PR K D)) (root : PR K D) (rest : List (PR K D))
    (hp : PRValid (root :: rest)) (b : Builder K) (h : diffWalk loc (root :: rest) = .ok b) :
    ∀ r ∈ b.bad, root.start ≤ r.1 ∧ r.2 ≤ root.end_ := by
  have hs := diffWalk_step (fun _ => True) (fun _ => True) loc root rest b h
    (fun r hr => trivial) (fun r hr => trivial)
  intro r hr
  rcases hs.2.1 r hr with h' | h'
  · simp [Builder.empty] at h'
  · exact h'.1

/-- Inconsistent marks start at a peer bound and end at a peer end or at a local start. -/
theorem diffWalk_bad_bounds (loc peer : List (PR K D)) (b : Builder K)
    (h : diffWalk loc peer = .ok b) :
    ∀ r ∈ b.bad, (∃ p ∈ peer, r.1 = p.start ∨ r.1 = p.end_) ∧
      ((∃ p ∈ peer, r.2 = p.end_) ∨ (∃ l ∈ loc, r.2 = l.start)) := by
  cases peer with
  | nil =>
    simp only [diffWalk, Except.ok.injEq] at h
    subst h
    intro g hg
    simp [Builder.empty] at hg
  | cons root rest =>
    have hs := diffWalk_step (fun p => p ∈ root :: rest) (fun l => l ∈ loc) loc root rest b h
      (fun r hr => hr) (fun r hr => hr)
    intro r hr
    rcases hs.2.1 r hr with h' | ⟨-, h1, h2⟩
    · simp [Builder.empty] at h'
    · exact ⟨h1, h2⟩

/-! ### The first iteration in the configurations the tree-level theorems need -/

theorem advWithin_self (root : PR K D) (rest : List (PR K D)) :
    advWithin root (root :: rest) = (some root, rest) := by
  simp [advWithin, supersetOf_refl]

/-- Empty local list: the whole root range is requested. -/
theorem diffWalk_local_empty (root : PR K D) (rest : List (PR K D)) (hr : root.start ≤ root.end_) :
    diffWalk ([] : List (PR K D)) (root :: rest) =
      .ok { bad := [(root.start, root.end_)], good := [] } := by
  rw [diffWalk_cons, recurseDiff_succ, advWithin_self]
  simp [advWithin, locSup, walkStart, walkEnd, hr, Builder.inconsistent, Builder.empty]

/-- Neither head contains the other (partially overlapping or disjoint spans): exactly one
interval `[root.start, min(local.start, root.end)]` is requested when the peer starts first,
and nothing is marked consistent. -/
theorem diffWalk_head_incomparable (lh : PR K D) (lt : List (PR K D)) (root : PR K D)
    (rest : List (PR K D)) (h1 : root.supersetOf lh = false) (h2 : lh.supersetOf root = false) :
    diffWalk (lh :: lt) (root :: rest) =
      .ok { bad := (if root.start ≤ (if root.end_ < lh.start then root.end_ else lh.start)
                    then [(root.start, if root.end_ < lh.start then root.end_ else lh.start)] else []),
            good := [] } := by
  rw [diffWalk_cons, recurseDiff_succ, advWithin_self]
  dsimp only
  have ha : advWithin root (lh :: lt) = (none, lh :: lt) := by simp [advWithin, h1]
  rw [ha]
  simp only [locSup, h2, walkStart, walkEnd, Bool.false_eq_true, if_false]
  by_cases hg : root.start ≤ (if root.end_ < lh.start then root.end_ else lh.start)
  · simp [hg, Builder.inconsistent, Builder.empty]
  · simp [hg, Builder.empty]

/-- The peer root contains the local head, no later local page contains the peer root, and the
digests differ: the whole root range is marked inconsistent. -/
theorem diffWalk_head_within (l0 : PR K D) (lt : List (PR K D)) (root : PR K D)
    (rest : List (PR K D)) (hv : root.start ≤ root.end_)
    (h1 : root.supersetOf l0 = true)
    (h2 : ∀ v, lt.head? = some v → v.supersetOf root = false)
    (hh : l0.hash ≠ root.hash) (b : Builder K)
    (h : diffWalk (l0 :: lt) (root :: rest) = .ok b) :
    (root.start, root.end_) ∈ b.bad := by
  rw [diffWalk_cons, recurseDiff_succ, advWithin_self] at h
  dsimp only at h
  have ha : advWithin root (l0 :: lt) = (some l0, lt) := by simp [advWithin, h1]
  rw [ha] at h
  dsimp only at h
  have hsl : shrinkLocal root l0 lt = (l0, lt) := by
    cases lt with
    | nil => rfl
    | cons v t => simp [shrinkLocal, h2 v rfl]
  rw [hsl] at h
  have hb1 : (Builder.empty : Builder K).inconsistent root.start root.end_ =
      .ok { bad := [(root.start, root.end_)], good := [] } := by
    simp [Builder.inconsistent, Builder.empty, hv]
  simp only [supersetOf_refl, Bool.not_true, Bool.false_eq_true, if_false, hh, hb1] at h
  cases hS : recurseSubtree (2 * rest.length + 1 + 1 + 1) root rest lt
      { bad := [(root.start, root.end_)], good := [] } with
  | error e => simp [hS] at h
  | ok res =>
    obtain ⟨peer3, loc3, b2⟩ := res
    simp only [hS] at h
    cases hD : recurseDiff (2 * rest.length + 1 + 1 + 1) root (some root) peer3 loc3 b2 with
    | error e => simp [hD] at h
    | ok res2 =>
      obtain ⟨peer4, loc4, b3⟩ := res2
      simp only [hD, Except.ok.injEq] at h
      subst h
      have hs1 := ((walk_inv (fun _ => True) (fun _ => True) _).2 root rest lt _ _ _ _ hS
        trivial (fun _ _ => trivial) (fun _ _ => trivial)).2.2
      have hs2 := ((walk_inv (fun _ => True) (fun _ => True) _).1 root (some root) peer3 loc3 b2
        _ _ _ hD trivial (fun v hv' => by cases hv'; exact ⟨trivial, hv⟩)
        (fun _ _ => trivial) (fun _ _ => trivial)).2.2
      exact hs2.1 _ (hs1.1 _ (by simp))

theorem recurseDiff_nil_peer (f : Nat) (hf : 1 ≤ f) (root : PR K D) (lastP : Option (PR K D))
    (loc : List (PR K D)) (b : Builder K) :
    recurseDiff f root lastP [] loc b = .ok ([], loc, b) := by
  obtain ⟨k, rfl⟩ : ∃ k, f = k + 1 := ⟨f - 1, by omega⟩
  rw [recurseDiff_succ]
  rfl

theorem recurseSubtree_nil_peer (f : Nat) (hf : 2 ≤ f) (root : PR K D)
    (loc : List (PR K D)) (b : Builder K) :
    recurseSubtree f root [] loc b = .ok ([], loc, b) := by
  obtain ⟨k, rfl⟩ : ∃ k, f = k + 1 := ⟨f - 1, by omega⟩
  rw [recurseSubtree, recurseDiff_nil_peer k (by omega)]
  rfl

theorem skipSubtree_all (r : PR K D) (rest : List (PR K D))
    (hsub : ∀ v ∈ rest, r.supersetOf v = true) : skipSubtree r rest = [] := by
  induction rest with
  | nil => rfl
  | cons v t ih =>
    unfold skipSubtree
    rw [if_pos (hsub v (by simp))]
    exact ih (fun w hw => hsub w (by simp [hw]))

/-- Diffing a list against itself, when the head contains every later range and the second range
does not contain the head (true of every real serialisation): nothing inconsistent. -/
theorem diffWalk_same (r : PR K D) (rest : List (PR K D)) (hv : r.start ≤ r.end_)
    (hsub : ∀ v ∈ rest, r.supersetOf v = true)
    (hsnd : ∀ v, rest.head? = some v → v.supersetOf r = false) :
    diffWalk (r :: rest) (r :: rest) = .ok { bad := [], good := [(r.start, r.end_)] } := by
  rw [diffWalk_cons, recurseDiff_succ, advWithin_self]
  dsimp only
  rw [advWithin_self]
  dsimp only
  have hsl : shrinkLocal r r rest = (r, rest) := by
    cases rest with
    | nil => rfl
    | cons v t => simp [shrinkLocal, hsnd v rfl]
  rw [hsl]
  have hb1 : (Builder.empty : Builder K).consistent r.start r.end_ =
      .ok { bad := [], good := [(r.start, r.end_)] } := by
    simp [Builder.consistent, Builder.empty, hv]
  simp only [supersetOf_refl, Bool.not_true, Bool.false_eq_true, if_false, if_true, hb1,
    skipSubtree_all r rest hsub]
  rw [recurseSubtree_nil_peer _ (by omega)]
  dsimp only
  rw [recurseDiff_nil_peer _ (by omega)]

/-! ### From the recorded marks to the returned ranges -/

/-- Starts satisfy `S`, ends satisfy `E`. -/
def SE (S E : K → Prop) (l : List (DR K)) : Prop := ∀ r ∈ l, S r.1 ∧ E r.2

theorem mergeGo_SE (S E : K → Prop) (rs : List (DR K)) : ∀ (last : DR K) (out : List (DR K)),
    mergeGo last rs = .ok out → S last.1 → E last.2 → SE S E rs → SE S E out := by
  induction rs with
  | nil =>
    intro last out h hs he _
    simp only [mergeGo, Except.ok.injEq] at h
    subst h
    intro r hr
    simp only [List.mem_cons, List.not_mem_nil, or_false] at hr
    subst hr
    exact ⟨hs, he⟩
  | cons r rs ih =>
    intro last out h hs he hrs
    have hr : S r.1 ∧ E r.2 := hrs r (by simp)
    have hrs' : SE S E rs := fun a ha => hrs a (by simp [ha])
    unfold mergeGo at h
    by_cases h0 : last.1 ≤ r.1
    · simp only [h0, decide_true, Bool.not_true, Bool.false_eq_true, if_false] at h
      by_cases h1 : r.2 ≤ last.2
      · rw [if_pos h1] at h
        exact ih last out h hs he hrs'
      · rw [if_neg h1] at h
        by_cases h2 : r.1 ≤ last.2
        · rw [if_pos h2] at h
          exact ih (last.1, r.2) out h hs hr.2 hrs'
        · rw [if_neg h2] at h
          cases hm : mergeGo r rs with
          | error e => simp [hm] at h
          | ok o =>
            simp only [hm, Except.ok.injEq] at h
            subst h
            intro a ha
            rcases List.mem_cons.1 ha with rfl | ha
            · exact ⟨hs, he⟩
            · exact ih r o hm hr.1 hr.2 hrs' a ha
    · simp [h0] at h

theorem mergeOverlapping_SE (S E : K → Prop) (l out : List (DR K))
    (h : mergeOverlapping l = .ok out) (hl : SE S E l) : SE S E out := by
  cases l with
  | nil =>
    simp only [mergeOverlapping, Except.ok.injEq] at h
    subst h
    exact hl
  | cons a rs =>
    have ha := hl a (by simp)
    exact mergeGo_SE S E rs a out h ha.1 ha.2 (fun r hr => hl r (by simp [hr]))

theorem intoVec_SE (S E : K → Prop) (l m : List (DR K)) (h : intoVec l = .ok m)
    (hl : SE S E l) : SE S E m := by
  unfold intoVec at h
  cases hm : mergeOverlapping (l.mergeSort (fun a b => decide (a.1 ≤ b.1))) with
  | error e => simp [hm] at h
  | ok m' =>
    simp only [hm] at h
    cases hc : checkWindowsIntoVec m' with
    | error e => simp [hc] at h
    | ok u =>
      simp only [hc, Except.ok.injEq] at h
      subst h
      refine mergeOverlapping_SE S E _ m' hm ?_
      intro r hr
      exact hl r ((List.mergeSort_perm l _).mem_iff.1 hr)

theorem punch_SE (S E : K → Prop) (g b : DR K) (hb : S b.1 ∧ E b.2) (hg : E g.1 ∧ S g.2) :
    SE S E (punch g b) := by
  intro p hp
  rw [mem_punch] at hp
  rcases hp with ⟨_, rfl⟩ | ⟨_, ⟨_, rfl⟩ | ⟨_, rfl⟩⟩
  · exact hb
  · exact ⟨hb.1, hg.1⟩
  · exact ⟨hg.2, hb.2⟩

theorem foldl_punch_SE (S E : K → Prop) (good : List (DR K)) : ∀ (acc : List (DR K)),
    SE S E acc → (∀ g ∈ good, E g.1 ∧ S g.2) →
    SE S E (good.foldl (fun acc g => acc.flatMap (punch g)) acc) := by
  induction good with
  | nil => intro acc ha _; exact ha
  | cons g good ih =>
    intro acc ha hg
    rw [List.foldl_cons]
    refine ih _ ?_ (fun g' hg' => hg g' (by simp [hg']))
    intro p hp
    obtain ⟨a, haa, hpa⟩ := List.mem_flatMap.1 hp
    exact punch_SE S E g a (ha a haa) (hg g (by simp)) p hpa

theorem reduceSyncRange_SE (S E : K → Prop) (bad good out : List (DR K))
    (h : reduceSyncRange bad good = .ok out) (hb : SE S E bad)
    (hg : ∀ g ∈ good, E g.1 ∧ S g.2) : SE S E out := by
  unfold reduceSyncRange at h
  dsimp only at h
  cases hm : mergeOverlapping (good.foldl (fun acc g => acc.flatMap (punch g)) bad) with
  | error e => simp [hm] at h
  | ok m' =>
    simp only [hm] at h
    cases hc : checkWindowsReduce m' with
    | error e => simp [hc] at h
    | ok u =>
      simp only [hc, Except.ok.injEq] at h
      subst h
      exact mergeOverlapping_SE S E _ m' hm (foldl_punch_SE S E good bad hb hg)

/-- Everything returned is covered by an inconsistent mark; everything inconsistent and not
consistent is returned; returned ranges start at an inconsistent start or a consistent end and
end at an inconsistent end or a consistent start. -/
theorem intoDiffVec_spec (b : Builder K) (hb : DRValid b.bad) (hg : DRValid b.good) :
    ∃ out, b.intoDiffVec = .ok out ∧ DRChain out ∧ DRValid out ∧
      (∀ x, Covered x out → Covered x b.bad) ∧
      (∀ x, Covered x b.bad → ¬ Covered x b.good → Covered x out) ∧
      (∀ r ∈ out, ((∃ s ∈ b.bad, r.1 = s.1) ∨ (∃ g ∈ b.good, r.1 = g.2)) ∧
                  ((∃ s ∈ b.bad, r.2 = s.2) ∨ (∃ g ∈ b.good, r.2 = g.1))) := by
  obtain ⟨bad, hbad, hbc, hbv, hbcov, -⟩ := intoVec_spec b.bad hb
  obtain ⟨good, hgood, hgc, hgv, hgcov, -⟩ := intoVec_spec b.good hg
  obtain ⟨out, hout, hoc, hov, hc1, hc2, -⟩ := reduceSyncRange_spec bad good hbc hbv hgc hgv
  refine ⟨out, ?_, hoc, hov, ?_, ?_, ?_⟩
  · simp only [Builder.intoDiffVec, hbad, hgood, hout]
  · intro x hx
    exact (hbcov x).1 (hc1 x hx)
  · intro x hx hng
    exact hc2 x ((hbcov x).2 hx) (fun h => hng ((hgcov x).1 h))
  · have hbSE : SE (fun x => (∃ s ∈ b.bad, x = s.1) ∨ (∃ g ∈ b.good, x = g.2))
        (fun x => (∃ s ∈ b.bad, x = s.2) ∨ (∃ g ∈ b.good, x = g.1)) bad :=
      intoVec_SE _ _ b.bad bad hbad (fun r hr => ⟨Or.inl ⟨r, hr, rfl⟩, Or.inl ⟨r, hr, rfl⟩⟩)
    have hgSE : SE (fun x => ∃ g ∈ b.good, x = g.1) (fun x => ∃ g ∈ b.good, x = g.2) good :=
      intoVec_SE _ _ b.good good hgood (fun r hr => ⟨⟨r, hr, rfl⟩, ⟨r, hr, rfl⟩⟩)
    exact reduceSyncRange_SE _ _ bad good out hout hbSE
      (fun g hg' => ⟨Or.inr (hgSE g hg').1, Or.inr (hgSE g hg').2⟩)

theorem diff_same (r : PR K D) (rest : List (PR K D)) (hv : r.start ≤ r.end_)
    (hsub : ∀ v ∈ rest, r.supersetOf v = true)
    (hsnd : ∀ v, rest.head? = some v → v.supersetOf r = false) :
    diff (r :: rest) (r :: rest) = .ok [] := by
  rw [diff_eq_walk _ _ (by simp), diffWalk_same r rest hv hsub hsnd]
  simp [Builder.intoDiffVec, intoVec, mergeOverlapping, mergeGo, checkWindowsIntoVec,
    reduceSyncRange, checkWindowsReduce]

end Mst

#print axioms Mst.diff_eq_walk
#print axioms Mst.diffWalk_total
#print axioms Mst.diffWalk_good_justified
#print axioms Mst.diffWalk_bad_within
#print axioms Mst.diffWalk_bad_bounds
#print axioms Mst.diffWalk_local_empty
#print axioms Mst.diffWalk_head_incomparable
#print axioms Mst.diffWalk_head_within
#print axioms Mst.diffWalk_same
#print axioms Mst.intoDiffVec_spec
#print axioms Mst.diff_same
