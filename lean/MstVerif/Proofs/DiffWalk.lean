/-
L7b: what the `diff` walk records, still on ARBITRARY page-range lists:
consistent marks are justified by equal digests, inconsistent marks stay inside the peer root
and use peer bounds, the first iteration in the configurations the tree-level theorems need,
and the link from the recorded marks to the returned ranges.
-/
import MstVerif.Proofs.DiffList

namespace Mst
variable {K D : Type} [LinearOrder K] [DecidableEq D]

/-- The walk of `diff`, exposing the builder (`diff` = walk, then `into_diff_vec`). -/
def diffWalk (loc peer : List (PR K D)) : Except String (Builder K) :=
  match peer with
  | [] => .ok Builder.empty
  | root :: _ =>
    match recurseDiff (2 * peer.length + 2) root none peer loc Builder.empty with
    | .error e => .error e
    | .ok (_, _, b) => .ok b

theorem diff_eq_walk (loc peer : List (PR K D)) (hne : peer ≠ []) :
    diff loc peer = (match diffWalk loc peer with
                     | .error e => .error e
                     | .ok b => b.intoDiffVec) := by
  sorry

/-- The walk is total on valid lists (from `recurseDiff_total`) and records valid intervals. -/
theorem diffWalk_total (loc peer : List (PR K D)) (hl : PRValid loc) (hp : PRValid peer) :
    ∃ b, diffWalk loc peer = .ok b ∧ DRValid b.bad ∧ DRValid b.good := by
  sorry

/-- Every consistent mark is a peer page whose digest equals the digest of some local page. -/
theorem diffWalk_good_justified (loc peer : List (PR K D)) (b : Builder K)
    (h : diffWalk loc peer = .ok b) :
    ∀ g ∈ b.good, ∃ p ∈ peer, ∃ l ∈ loc, g = (p.start, p.end_) ∧ l.hash = p.hash := by
  sorry

/-- Every inconsistent mark lies inside the peer's first (root) range. -/
theorem diffWalk_bad_within (loc : List (PR K D)) (root : PR K D) (rest : List (PR K D))
    (hp : PRValid (root :: rest)) (b : Builder K) (h : diffWalk loc (root :: rest) = .ok b) :
    ∀ r ∈ b.bad, root.start ≤ r.1 ∧ r.2 ≤ root.end_ := by
  sorry

/-- Inconsistent marks start at a peer bound and end at a peer end or at a local start. -/
theorem diffWalk_bad_bounds (loc peer : List (PR K D)) (b : Builder K)
    (h : diffWalk loc peer = .ok b) :
    ∀ r ∈ b.bad, (∃ p ∈ peer, r.1 = p.start ∨ r.1 = p.end_) ∧
      ((∃ p ∈ peer, r.2 = p.end_) ∨ (∃ l ∈ loc, r.2 = l.start)) := by
  sorry

/-! ### The first iteration in the configurations the tree-level theorems need -/

/-- Empty local list: the whole root range is requested. -/
theorem diffWalk_local_empty (root : PR K D) (rest : List (PR K D)) (hr : root.start ≤ root.end_) :
    diffWalk ([] : List (PR K D)) (root :: rest) =
      .ok { bad := [(root.start, root.end_)], good := [] } := by
  sorry

/-- Neither head contains the other (partially overlapping or disjoint spans): exactly one
interval `[root.start, min(local.start, root.end)]` is requested when the peer starts first,
and nothing is marked consistent. -/
theorem diffWalk_head_incomparable (lh : PR K D) (lt : List (PR K D)) (root : PR K D)
    (rest : List (PR K D)) (h1 : root.supersetOf lh = false) (h2 : lh.supersetOf root = false) :
    diffWalk (lh :: lt) (root :: rest) =
      .ok { bad := (if root.start ≤ (if root.end_ < lh.start then root.end_ else lh.start)
                    then [(root.start, if root.end_ < lh.start then root.end_ else lh.start)] else []),
            good := [] } := by
  sorry

/-- The peer root contains the local head, no later local page contains the peer root, and the
digests differ: the whole root range is marked inconsistent. -/
theorem diffWalk_head_within (l0 : PR K D) (lt : List (PR K D)) (root : PR K D)
    (rest : List (PR K D)) (hv : root.start ≤ root.end_)
    (h1 : root.supersetOf l0 = true)
    (h2 : ∀ v, lt.head? = some v → v.supersetOf root = false)
    (hh : l0.hash ≠ root.hash) (b : Builder K)
    (h : diffWalk (l0 :: lt) (root :: rest) = .ok b) :
    (root.start, root.end_) ∈ b.bad := by
  sorry

/-- Diffing a list against itself, when the head contains every later range and the second range
does not contain the head (true of every real serialisation): nothing inconsistent. -/
theorem diffWalk_same (r : PR K D) (rest : List (PR K D)) (hv : r.start ≤ r.end_)
    (hsub : ∀ v ∈ rest, r.supersetOf v = true)
    (hsnd : ∀ v, rest.head? = some v → v.supersetOf r = false) :
    diffWalk (r :: rest) (r :: rest) = .ok { bad := [], good := [(r.start, r.end_)] } := by
  sorry

/-! ### From the recorded marks to the returned ranges -/

/-- Everything returned is covered by an inconsistent mark; everything inconsistent and not
consistent is returned; returned ranges start at an inconsistent start or a consistent end and
end at an inconsistent end or a consistent start. -/
theorem intoDiffVec_spec (b : Builder K) (hb : DRValid b.bad) (hg : DRValid b.good) :
    ∃ out, b.intoDiffVec = .ok out ∧ DRChain out ∧ DRValid out ∧
      (∀ x, Covered x out → Covered x b.bad) ∧
      (∀ x, Covered x b.bad → ¬ Covered x b.good → Covered x out) ∧
      (∀ r ∈ out, ((∃ s ∈ b.bad, r.1 = s.1) ∨ (∃ g ∈ b.good, r.1 = g.2)) ∧
                  ((∃ s ∈ b.bad, r.2 = s.2) ∨ (∃ g ∈ b.good, r.2 = g.1))) := by
  sorry

theorem diff_same (r : PR K D) (rest : List (PR K D)) (hv : r.start ≤ r.end_)
    (hsub : ∀ v ∈ rest, r.supersetOf v = true)
    (hsnd : ∀ v, rest.head? = some v → v.supersetOf r = false) :
    diff (r :: rest) (r :: rest) = .ok [] := by
  sorry

end Mst
