/-
L8b: soundness of consistent marks, completeness under the span condition (C07),
no false convergence (C04).
-/
import MstVerif.Proofs.DiffTree
import MstVerif.Proofs.History

set_option linter.unusedSectionVars false
set_option linter.unusedVariables false

namespace Mst
variable {K V D : Type} [LinearOrder K] [DecidableEq D]

/-! ### Helpers: what `Hashed` gives, and the shape of `pageRanges` -/

/-- Inversion of `rangeOf`, including the digest. -/
theorem rangeOf_inv (hc : HashCfg K V D) (q : Pg K V D) (r : PR K D)
    (h : rangeOf hc q = some r) :
    ∃ a z, q.content.head? = some a ∧ q.content.getLast? = some z ∧
      r.start = a.1 ∧ r.end_ = z.1 ∧ q.trueHash hc = some r.hash := by
  unfold rangeOf at h
  split at h
  · rename_i a b d h1 h2 h3
    simp only [Option.some.injEq] at h
    subst h
    exact ⟨a, b, h1, h2, rfl, rfl, h3⟩
  · simp at h

theorem exists_head_last {α : Type} {l : List α} (h : l ≠ []) :
    ∃ a z, l.head? = some a ∧ l.getLast? = some z := by
  cases hl : l.getLast? with
  | none => exact absurd (List.getLast?_eq_none_iff.1 hl) h
  | some z =>
    cases l with
    | nil => exact absurd rfl h
    | cons x xs => exact ⟨x, z, rfl, rfl⟩

/-- The facts a hashed tree provides about its root page. -/
theorem Hashed.facts {lvl : K → Nat} {hc : HashCfg K V D} {t : Tree K V D}
    (h : Hashed lvl hc t) :
    ∃ L c n hp, t.root = .some L c n hp ∧ CleanPg hc t.root ∧ t.root.Sorted ∧
      (t.root.content ≠ [] → LvPg lvl (L + 1) t.root) := by
  obtain ⟨hinv, hh⟩ := h
  obtain ⟨d, hd⟩ := Option.isSome_iff_exists.1 hh
  have hcache := hinv.rootHash d hd
  have hshape := hinv.shape
  have hok := hinv.cacheOK
  have hsorted := hinv.sorted
  obtain ⟨root, rh⟩ := t
  dsimp only at hcache hshape hok hsorted ⊢
  cases root with
  | none => exact absurd hshape (by simp [LvRoot])
  | some L c n hp =>
    refine ⟨L, c, n, hp, rfl, ?_, hsorted, ?_⟩
    · simp only [CacheOKPg] at hok
      simp only [Pg.cache?] at hcache
      exact hok.1 (by simp [hcache])
    · intro hne
      simp only [LvRoot] at hshape
      simp only [LvPg]
      refine ⟨Nat.lt_succ_self _, ?_, hshape.2.1, hshape.2.2⟩
      intro hn
      obtain ⟨-, hh'⟩ := hshape.1 hn
      subst hn; subst hh'
      exact hne (by simp [Pg.content, Nd.content])

/-- Every range of `pageRanges` is the range of a page of the tree. -/
theorem mem_pageRanges2 {hc : HashCfg K V D} {t : Tree K V D} {r : PR K D}
    (hr : r ∈ pageRanges hc t) : ∃ q ∈ t.root.preorder, rangeOf hc q = some r := by
  unfold pageRanges at hr
  split at hr
  · simp at hr
  · exact List.mem_filterMap.1 hr

theorem pageRanges_of_nil2 {hc : HashCfg K V D} {t : Tree K V D} (h : t.root.content = []) :
    pageRanges hc t = [] := by
  unfold pageRanges
  rw [h]

/-- Page ranges of a real tree are well-formed (self-contained version). -/
theorem pageRanges_valid' {lvl : K → Nat} {hc : HashCfg K V D} {t : Tree K V D}
    (h : Hashed lvl hc t) : PRValid (pageRanges hc t) := by
  intro r hr
  obtain ⟨q, hq, hrq⟩ := mem_pageRanges2 hr
  obtain ⟨a, z, ha, hz, e1, e2, -⟩ := rangeOf_inv hc q r hrq
  obtain ⟨L, c, n, hp, -, -, hs, -⟩ := h.facts
  obtain ⟨pre, suf, e⟩ := preorder_infix t.root q hq
  have hpw : PW (pre ++ q.content ++ suf) := e ▸ hs.pw
  rw [e1, e2]
  exact hpw.left.right.head_le ha (mem_of_getLast? hz)

/-- Non-empty hashed tree: the root range spans the whole content and carries the root's true
digest; the remaining ranges are those of the proper descendants. -/
theorem pageRanges_decomp {lvl : K → Nat} {hc : HashCfg K V D} {t : Tree K V D}
    (h : Hashed lvl hc t) (a z : K × V) (ha : t.root.content.head? = some a)
    (hz : t.root.content.getLast? = some z) :
    ∃ L c n hp d, t.root = .some L c n hp ∧ LvPg lvl (L + 1) (.some L c n hp) ∧
      t.root.trueHash hc = some d ∧
      rangeOf hc (.some L c n hp) = some { start := a.1, end_ := z.1, hash := d } ∧
      pageRanges hc t = { start := a.1, end_ := z.1, hash := d } ::
        (n.preorder ++ hp.preorder).filterMap (rangeOf hc) := by
  obtain ⟨L, c, n, hp, hroot, -, -, hlv⟩ := h.facts
  have hne : t.root.content ≠ [] := by
    intro e; rw [e] at ha; simp at ha
  have hlv' := hlv hne
  obtain ⟨a', z', d, ha', hz', hd, hr⟩ :=
    rangeOf_some lvl hc (L + 1) t.root hlv' (by rw [hroot]; rfl)
  rw [ha] at ha'; rw [hz] at hz'
  simp only [Option.some.injEq] at ha' hz'
  subst ha'; subst hz'
  refine ⟨L, c, n, hp, d, hroot, hroot ▸ hlv', hd, hroot ▸ hr, ?_⟩
  unfold pageRanges
  split
  · rename_i e; exact absurd e hne
  · rw [hroot] at hr ⊢
    simp only [Pg.preorder, List.filterMap_cons, hr]

/-! ### Soundness of consistent marks -/

/-- Consistent marks are sound: a peer entry inside a range marked consistent is held identically
by the local tree (up to collisions of the page digest). -/
theorem consistent_sound (lvl : K → Nat) (hc : HashCfg K V D) (tL tP : Tree K V D)
    (hL : Hashed lvl hc tL) (hP : Hashed lvl hc tP)
    (hcf : CollisionFree hc (tL.root.allToks hc ++ tP.root.allToks hc))
    (b : Builder K) (hw : diffWalk (pageRanges hc tL) (pageRanges hc tP) = .ok b)
    (kv : K × V) (hkv : kv ∈ tP.root.content) (hcov : Covered kv.1 b.good) :
    kv ∈ tL.root.content := by
  obtain ⟨g, hg, hg1, hg2⟩ := hcov
  obtain ⟨p, hp, l, hl, hgp, hh⟩ := diffWalk_good_justified _ _ b hw g hg
  obtain ⟨P, hPm, hPr⟩ := mem_pageRanges2 hp
  obtain ⟨Q, hQm, hQr⟩ := mem_pageRanges2 hl
  obtain ⟨a, z, ha, hz, e1, e2, hPh⟩ := rangeOf_inv hc P p hPr
  obtain ⟨a', z', ha', hz', e1', e2', hQh⟩ := rangeOf_inv hc Q l hQr
  obtain ⟨_, _, _, _, -, -, hsP, -⟩ := hP.facts
  have hcf' : CollisionFree hc (Q.allToks hc ++ P.allToks hc) := by
    refine CollisionFree.mono hc ?_ hcf
    intro x hx
    rcases List.mem_append.1 hx with hx | hx
    · exact List.mem_append_left _ (preorder_allToks hc _ Q hQm x hx)
    · exact List.mem_append_right _ (preorder_allToks hc _ P hPm x hx)
  have hcont : Q.content = P.content :=
    merkle_inj hc Q P hcf' (by rw [hQh, hPh, hh])
  subst hgp
  have hin : kv ∈ P.content :=
    preorder_contiguous tP.root P hsP hPm a z ha hz kv hkv (e1 ▸ hg1) (e2 ▸ hg2)
  exact preorder_content_subset tL.root Q hQm kv (hcont ▸ hin)

/-! ### Completeness under the span condition -/

/-- `diff` = walk + `into_diff_vec`, on valid lists: whatever the walk marks inconsistent and not
consistent is returned. -/
theorem diff_covered_of_walk (loc peer : List (PR K D)) (hl : PRValid loc) (hp : PRValid peer)
    (hne : peer ≠ []) :
    ∃ b out, diffWalk loc peer = .ok b ∧ diff loc peer = .ok out ∧
      (∀ x, Covered x b.bad → ¬ Covered x b.good → Covered x out) := by
  obtain ⟨b, hw, hbv, hgv⟩ := diffWalk_total loc peer hl hp
  obtain ⟨out, hout, -, -, -, hcov, -⟩ := intoDiffVec_spec b hbv hgv
  refine ⟨b, out, hw, ?_, hcov⟩
  rw [diff_eq_walk loc peer hne, hw]
  exact hout

/-- C07: under the span condition every entry the peer holds that the local tree lacks, or holds
with another value digest, lies inside a returned range. -/
theorem diff_trees_complete (lvl : K → Nat) (hc : HashCfg K V D) (tL tP : Tree K V D)
    (hL : Hashed lvl hc tL) (hP : Hashed lvl hc tP)
    (hcf : CollisionFree hc (tL.root.allToks hc ++ tP.root.allToks hc))
    (hspan : SpanCovers tL tP)
    (kv : K × V) (hkv : kv ∈ tP.root.content) (hdiff : kv ∉ tL.root.content) :
    ∃ out, diff (pageRanges hc tL) (pageRanges hc tP) = .ok out ∧ Covered kv.1 out := by
  obtain ⟨_, _, _, _, -, -, hsP, -⟩ := hP.facts
  have hneP : tP.root.content ≠ [] := by
    intro e; rw [e] at hkv; simp at hkv
  obtain ⟨a, z, ha, hz⟩ := exists_head_last hneP
  obtain ⟨LP, cP, nP, hpP, d, hrootP, hlvP, hdP, hrngP, hprP⟩ := pageRanges_decomp hP a z ha hz
  have hvL := pageRanges_valid' hL
  have hvP := pageRanges_valid' hP
  have haz : a.1 ≤ z.1 := hsP.pw.head_le ha (mem_of_getLast? hz)
  obtain ⟨b, out, hw, hd, hcov⟩ :=
    diff_covered_of_walk _ _ hvL hvP (by rw [hprP]; simp)
  refine ⟨out, hd, hcov _ ?_ ?_⟩
  · -- the whole peer span is marked inconsistent
    show ∃ r ∈ b.bad, DR.mem kv.1 r
    refine ⟨(a.1, z.1), ?_, And.intro (hsP.pw.head_le ha hkv) (hsP.pw.le_last hz hkv)⟩
    rw [hprP] at hw
    by_cases hcL : tL.root.content = []
    · rw [pageRanges_of_nil2 hcL, diffWalk_local_empty _ _ haz] at hw
      simp only [Except.ok.injEq] at hw
      subst hw
      simp
    · obtain ⟨a', z', ha', hz'⟩ := exists_head_last hcL
      obtain ⟨LL, cL, nL, hpL, d', hrootL, hlvL, hdL, hrngL, hprL⟩ :=
        pageRanges_decomp hL a' z' ha' hz'
      obtain ⟨_, _, _, _, -, -, hsL, -⟩ := hL.facts
      rw [hprL] at hw
      refine diffWalk_head_within _ _ _ _ haz ?_ ?_ ?_ b hw
      · -- the peer root spans the local root
        rw [supersetOf_iff]
        have hk1 : a'.1 ∈ tL.root.keys := List.mem_map_of_mem (mem_of_head? ha')
        have hk2 : z'.1 ∈ tL.root.keys := List.mem_map_of_mem (mem_of_getLast? hz')
        obtain ⟨⟨x, hx, hxa⟩, -⟩ := hspan _ hk1
        obtain ⟨-, ⟨y, hy, hzy⟩⟩ := hspan _ hk2
        obtain ⟨x', hx', rfl⟩ := List.mem_map.1 hx
        obtain ⟨y', hy', rfl⟩ := List.mem_map.1 hy
        exact ⟨le_trans (hsP.pw.head_le ha hx') hxa, le_trans hzy (hsP.pw.le_last hz hy')⟩
      · -- no proper descendant of the local root spans the peer root
        intro v hv
        have hvm : v ∈ (nL.preorder ++ hpL.preorder).filterMap (rangeOf hc) := mem_of_head? hv
        obtain ⟨q, hq, hqv⟩ := List.mem_filterMap.1 hvm
        have hns := descendant_not_superset lvl hc (LL + 1) LL cL nL hpL hlvL
          (hrootL ▸ hsL) q hq _ v hrngL hqv
        cases hsup : v.supersetOf
            ({ start := a.1, end_ := z.1, hash := d } : PR K D) with
        | false => rfl
        | true =>
          exfalso
          rw [supersetOf_iff] at hsup
          dsimp only at hsup hns
          have hk1 : a'.1 ∈ tL.root.keys := List.mem_map_of_mem (mem_of_head? ha')
          have hk2 : z'.1 ∈ tL.root.keys := List.mem_map_of_mem (mem_of_getLast? hz')
          obtain ⟨⟨x, hx, hxa⟩, -⟩ := hspan _ hk1
          obtain ⟨-, ⟨y, hy, hzy⟩⟩ := hspan _ hk2
          obtain ⟨x', hx', rfl⟩ := List.mem_map.1 hx
          obtain ⟨y', hy', rfl⟩ := List.mem_map.1 hy
          exact hns ⟨le_trans hsup.1 (le_trans (hsP.pw.head_le ha hx') hxa),
            le_trans (le_trans hzy (hsP.pw.le_last hz hy')) hsup.2⟩
      · -- the root digests differ, else the contents would agree
        intro hdd
        dsimp only at hdd
        have hcont : tL.root.content = tP.root.content :=
          merkle_inj hc tL.root tP.root hcf (by rw [hdL, hdP, hdd])
        exact hdiff (hcont ▸ hkv)
  · intro hc'
    exact hdiff (consistent_sound lvl hc tL tP hL hP hcf b hw kv hkv hc')

/-! ### No false convergence -/

/-- A walk that marks something inconsistent and nothing consistent yields a non-empty diff. -/
theorem diff_ne_nil_of_walk (loc peer : List (PR K D)) (hne : peer ≠ []) (b : Builder K)
    (hw : diffWalk loc peer = .ok b) (hb : DRValid b.bad) (hg : b.good = []) (x : K)
    (hx : Covered x b.bad) : diff loc peer ≠ .ok [] := by
  obtain ⟨out, hout, -, -, -, hcov, -⟩ :=
    intoDiffVec_spec b hb (by rw [hg]; intro r hr; simp at hr)
  rw [diff_eq_walk loc peer hne, hw]
  dsimp only
  rw [hout]
  intro h
  simp only [Except.ok.injEq] at h
  have := hcov x hx (by rw [hg]; exact covered_nil x)
  rw [h] at this
  exact covered_nil x this

/-- An empty replica never sees an empty diff against a non-empty peer. -/
theorem nfc_empty {lvl : K → Nat} {hc : HashCfg K V D} {tL tP : Tree K V D}
    (hL : Hashed lvl hc tL) (hP : Hashed lvl hc tP) (he : tL.root.content = [])
    (h : diff (pageRanges hc tL) (pageRanges hc tP) = .ok []) : tP.root.content = [] := by
  by_contra hne
  obtain ⟨a, z, ha, hz⟩ := exists_head_last hne
  obtain ⟨_, _, _, _, -, -, hsP, -⟩ := hP.facts
  obtain ⟨LP, cP, nP, hpP, d, -, -, -, -, hprP⟩ := pageRanges_decomp hP a z ha hz
  have haz : a.1 ≤ z.1 := hsP.pw.head_le ha (mem_of_getLast? hz)
  rw [pageRanges_of_nil2 he, hprP] at h
  refine diff_ne_nil_of_walk _ _ (by simp) _ (diffWalk_local_empty _ _ haz) ?_ rfl a.1 ?_ h
  · intro r hr
    simp only [List.mem_singleton] at hr
    subst hr; exact haz
  · exact ⟨(a.1, z.1), by simp, And.intro (le_refl _) haz⟩

/-- Peer starts strictly first and ends strictly first: the diff is not empty. -/
theorem nfc_lt {lvl : K → Nat} {hc : HashCfg K V D} {tL tP : Tree K V D}
    (hL : Hashed lvl hc tL) (hP : Hashed lvl hc tP)
    (a z a' z' : K × V)
    (ha : tP.root.content.head? = some a) (hz : tP.root.content.getLast? = some z)
    (ha' : tL.root.content.head? = some a') (hz' : tL.root.content.getLast? = some z')
    (h1 : a.1 < a'.1) (h2 : z.1 < z'.1) :
    diff (pageRanges hc tL) (pageRanges hc tP) ≠ .ok [] := by
  obtain ⟨_, _, _, _, -, -, hsP, -⟩ := hP.facts
  obtain ⟨LP, cP, nP, hpP, d, -, -, -, -, hprP⟩ := pageRanges_decomp hP a z ha hz
  obtain ⟨LL, cL, nL, hpL, d', -, -, -, -, hprL⟩ := pageRanges_decomp hL a' z' ha' hz'
  have haz : a.1 ≤ z.1 := hsP.pw.head_le ha (mem_of_getLast? hz)
  rw [hprP, hprL]
  have hinc := diffWalk_head_incomparable
    ({ start := a'.1, end_ := z'.1, hash := d' } : PR K D)
    ((nL.preorder ++ hpL.preorder).filterMap (rangeOf hc))
    ({ start := a.1, end_ := z.1, hash := d } : PR K D)
    ((nP.preorder ++ hpP.preorder).filterMap (rangeOf hc))
    (by
      cases hs : PR.supersetOf ({ start := a.1, end_ := z.1, hash := d } : PR K D)
          ({ start := a'.1, end_ := z'.1, hash := d' } : PR K D) with
      | false => rfl
      | true =>
        rw [supersetOf_iff] at hs
        exact absurd (lt_of_lt_of_le h2 hs.2) (lt_irrefl _))
    (by
      cases hs : PR.supersetOf ({ start := a'.1, end_ := z'.1, hash := d' } : PR K D)
          ({ start := a.1, end_ := z.1, hash := d } : PR K D) with
      | false => rfl
      | true =>
        rw [supersetOf_iff] at hs
        exact absurd (lt_of_lt_of_le h1 hs.1) (lt_irrefl _))
  dsimp only at hinc
  have hle : a.1 ≤ (if z.1 < a'.1 then z.1 else a'.1) := by
    split
    · exact haz
    · exact le_of_lt h1
  rw [if_pos hle] at hinc
  refine diff_ne_nil_of_walk _ _ (by simp) _ hinc ?_ rfl a.1 ?_
  · intro r hr
    simp only [List.mem_singleton] at hr
    subst hr; exact hle
  · exact ⟨(a.1, if z.1 < a'.1 then z.1 else a'.1), by simp, And.intro (le_refl _) hle⟩

theorem Hashed.ksorted {lvl : K → Nat} {hc : HashCfg K V D} {t : Tree K V D}
    (h : Hashed lvl hc t) : KSorted t.root.content := h.inv.sorted

/-- Under the span condition, an empty diff means the local tree holds every peer entry. -/
theorem nfc_subset {lvl : K → Nat} {hc : HashCfg K V D} {tL tP : Tree K V D}
    (hL : Hashed lvl hc tL) (hP : Hashed lvl hc tP)
    (hcf : CollisionFree hc (tL.root.allToks hc ++ tP.root.allToks hc))
    (hspan : SpanCovers tL tP)
    (h : diff (pageRanges hc tL) (pageRanges hc tP) = .ok []) :
    ∀ kv ∈ tP.root.content, kv ∈ tL.root.content := by
  intro kv hkv
  by_contra hn
  obtain ⟨out, hout, hcov⟩ := diff_trees_complete lvl hc tL tP hL hP hcf hspan kv hkv hn
  rw [h] at hout
  simp only [Except.ok.injEq] at hout
  subst hout
  exact covered_nil _ hcov

theorem CollisionFree.swap (hc : HashCfg K V D) {S T : List (PageTok K V D)}
    (h : CollisionFree hc (S ++ T)) : CollisionFree hc (T ++ S) :=
  CollisionFree.mono hc (fun x hx => by
    rcases List.mem_append.1 hx with hx | hx
    · exact List.mem_append_right _ hx
    · exact List.mem_append_left _ hx) h

/-- C04 when one span encloses the other. -/
theorem nfc_span {lvl : K → Nat} {hc : HashCfg K V D} {tA tB : Tree K V D}
    (hA : Hashed lvl hc tA) (hB : Hashed lvl hc tB)
    (hcf : CollisionFree hc (tA.root.allToks hc ++ tB.root.allToks hc))
    (h1 : diff (pageRanges hc tA) (pageRanges hc tB) = .ok [])
    (h2 : diff (pageRanges hc tB) (pageRanges hc tA) = .ok [])
    (a0 a1 b0 b1 : K × V)
    (ha0 : tA.root.content.head? = some a0) (ha1 : tA.root.content.getLast? = some a1)
    (hb0 : tB.root.content.head? = some b0) (hb1 : tB.root.content.getLast? = some b1)
    (hlo : b0.1 ≤ a0.1) (hhi : a1.1 ≤ b1.1) :
    tA.root.content = tB.root.content := by
  obtain ⟨_, _, _, _, -, -, hsA, -⟩ := hA.facts
  obtain ⟨_, _, _, _, -, -, hsB, -⟩ := hB.facts
  have hspanAB : SpanCovers tA tB := by
    intro x hx
    obtain ⟨x', hx', rfl⟩ := List.mem_map.1 hx
    exact ⟨⟨b0.1, List.mem_map_of_mem (mem_of_head? hb0),
        le_trans hlo (hsA.pw.head_le ha0 hx')⟩,
      ⟨b1.1, List.mem_map_of_mem (mem_of_getLast? hb1),
        le_trans (hsA.pw.le_last ha1 hx') hhi⟩⟩
  have hBA := nfc_subset hA hB hcf hspanAB h1
  have hb0A := hBA _ (mem_of_head? hb0)
  have hb1A := hBA _ (mem_of_getLast? hb1)
  have hspanBA : SpanCovers tB tA := by
    intro x hx
    obtain ⟨x', hx', rfl⟩ := List.mem_map.1 hx
    exact ⟨⟨a0.1, List.mem_map_of_mem (mem_of_head? ha0),
        le_trans (hsA.pw.head_le ha0 hb0A) (hsB.pw.head_le hb0 hx')⟩,
      ⟨a1.1, List.mem_map_of_mem (mem_of_getLast? ha1),
        le_trans (hsB.pw.le_last hb1 hx') (hsA.pw.le_last ha1 hb1A)⟩⟩
  have hAB := nfc_subset hB hA (CollisionFree.swap hc hcf) hspanBA h2
  exact ksorted_ext _ _ hA.ksorted hB.ksorted (fun kv => ⟨hAB kv, hBA kv⟩)

/-- C04: empty diffs in both directions imply equal content. -/
theorem no_false_convergence (lvl : K → Nat) (hc : HashCfg K V D) (tA tB : Tree K V D)
    (hA : Hashed lvl hc tA) (hB : Hashed lvl hc tB)
    (hcf : CollisionFree hc (tA.root.allToks hc ++ tB.root.allToks hc))
    (h1 : diff (pageRanges hc tA) (pageRanges hc tB) = .ok [])
    (h2 : diff (pageRanges hc tB) (pageRanges hc tA) = .ok []) :
    tA.root.content = tB.root.content := by
  by_cases hBe : tB.root.content = []
  · rw [hBe]; exact nfc_empty hB hA hBe h2
  by_cases hAe : tA.root.content = []
  · rw [hAe]; exact (nfc_empty hA hB hAe h1).symm
  obtain ⟨a0, a1, ha0, ha1⟩ := exists_head_last hAe
  obtain ⟨b0, b1, hb0, hb1⟩ := exists_head_last hBe
  by_cases hi : b0.1 ≤ a0.1 ∧ a1.1 ≤ b1.1
  · exact nfc_span hA hB hcf h1 h2 a0 a1 b0 b1 ha0 ha1 hb0 hb1 hi.1 hi.2
  by_cases hii : a0.1 ≤ b0.1 ∧ b1.1 ≤ a1.1
  · exact (nfc_span hB hA (CollisionFree.swap hc hcf) h2 h1 b0 b1 a0 a1 hb0 hb1 ha0 ha1
      hii.1 hii.2).symm
  exfalso
  rcases lt_or_ge a0.1 b0.1 with hlt | hge
  · -- `A` starts first; it must also end first
    have hlt2 : a1.1 < b1.1 := by
      by_contra hn
      exact hii ⟨le_of_lt hlt, not_lt.1 hn⟩
    exact nfc_lt hB hA a0 a1 b0 b1 ha0 ha1 hb0 hb1 hlt hlt2 h2
  · have hlt2 : b1.1 < a1.1 := by
      by_contra hn
      exact hi ⟨hge, not_lt.1 hn⟩
    have hlt : b0.1 < a0.1 := by
      by_contra hn
      exact hii ⟨not_lt.1 hn, le_of_lt hlt2⟩
    exact nfc_lt hA hB b0 b1 a0 a1 hb0 hb1 ha0 ha1 hlt hlt2 h1

end Mst

#print axioms Mst.consistent_sound
#print axioms Mst.diff_trees_complete
#print axioms Mst.no_false_convergence
