/-
L8b: soundness of consistent marks, completeness under the span condition (C07),
no false convergence (C04).
-/
import MstVerif.Proofs.DiffTree
import MstVerif.Proofs.History

namespace Mst
variable {K V D : Type} [LinearOrder K] [DecidableEq D]

/-- Consistent marks are sound: a peer entry inside a range marked consistent is held identically
by the local tree (up to collisions of the page digest). -/
theorem consistent_sound (lvl : K → Nat) (hc : HashCfg K V D) (tL tP : Tree K V D)
    (hL : Hashed lvl hc tL) (hP : Hashed lvl hc tP)
    (hcf : CollisionFree hc (tL.root.allToks hc ++ tP.root.allToks hc))
    (b : Builder K) (hw : diffWalk (pageRanges hc tL) (pageRanges hc tP) = .ok b)
    (kv : K × V) (hkv : kv ∈ tP.root.content) (hcov : Covered kv.1 b.good) :
    kv ∈ tL.root.content := by
  sorry

/-- C07: under the span condition every entry the peer holds that the local tree lacks, or holds
with another value digest, lies inside a returned range. -/
theorem diff_trees_complete (lvl : K → Nat) (hc : HashCfg K V D) (tL tP : Tree K V D)
    (hL : Hashed lvl hc tL) (hP : Hashed lvl hc tP)
    (hcf : CollisionFree hc (tL.root.allToks hc ++ tP.root.allToks hc))
    (hspan : SpanCovers tL tP)
    (kv : K × V) (hkv : kv ∈ tP.root.content) (hdiff : kv ∉ tL.root.content) :
    ∃ out, diff (pageRanges hc tL) (pageRanges hc tP) = .ok out ∧ Covered kv.1 out := by
  sorry

/-- C04: empty diffs in both directions imply equal content. -/
theorem no_false_convergence (lvl : K → Nat) (hc : HashCfg K V D) (tA tB : Tree K V D)
    (hA : Hashed lvl hc tA) (hB : Hashed lvl hc tB)
    (hcf : CollisionFree hc (tA.root.allToks hc ++ tB.root.allToks hc))
    (h1 : diff (pageRanges hc tA) (pageRanges hc tB) = .ok [])
    (h2 : diff (pageRanges hc tB) (pageRanges hc tA) = .ok []) :
    tA.root.content = tB.root.content := by
  sorry

end Mst
