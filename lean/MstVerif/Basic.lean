def hello := "world"
