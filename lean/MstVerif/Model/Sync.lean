/-
Model of anti-entropy between replicas (what `tests/sync.rs` and the crate docs prescribe):
each replica keeps a key/value store and maintains its tree incrementally; a one-way pull hashes
both trees, serialises their page ranges, diffs, fetches the returned key ranges from the sender's
store and merges them into the receiver (store + tree upserts).
Values are identified with their digests (the tree never sees values).
-/
import MstVerif.Model.Tree
import MstVerif.Model.Traverse
import MstVerif.Model.Diff

namespace Mst
variable {K V D : Type}

/-- A replica: its store (key-ascending association list) and its tree. -/
structure Replica (K V D : Type) where
  store : List (K × V)
  tree : Tree K V D

def Replica.empty : Replica K V D := { store := [], tree := Tree.empty }

/-- The merge rule applied to a fetched (or written) value. -/
inductive Merge where
  /-- deterministic join: `Max.max old new` — the maximum of a linear order, or the join (⊔) of any
  join-semilattice the value type carries as its `Max` instance -/
  | joinMax
  /-- the peer (or the writer) always wins -/
  | peerWins
  deriving DecidableEq, Repr

def lookupKV [DecidableEq K] (k : K) : List (K × V) → Option V
  | [] => none
  | (k', v) :: r => if k' = k then some v else lookupKV k r

def Merge.apply [Max V] (m : Merge) (old : Option V) (new : V) : V :=
  match m, old with
  | _, none => new
  | .joinMax, some o => Max.max o new
  | .peerWins, some _ => new

/-- Key-ascending insert/replace (the same function the proofs use as the map semantics). -/
def storeInsert [LT K] [DecidableLT K] [DecidableEq K] (k : K) (v : V) : List (K × V) → List (K × V)
  | [] => [(k, v)]
  | (k', v') :: rest =>
    if k < k' then (k, v) :: (k', v') :: rest
    else if k = k' then (k, v) :: rest
    else (k', v') :: storeInsert k v rest

section
variable [LT K] [LE K] [DecidableLT K] [DecidableLE K] [DecidableEq K] [Max V]

/-- Absorb one incoming entry: merge into the store, upsert the merged value into the tree
(also when the merged value equals the stored one — a redundant upsert is allowed). -/
def Replica.absorb (lvl : K → Nat) (m : Merge) (r : Replica K V D) (kv : K × V) :
    Except String (Replica K V D) :=
  let nv := m.apply (lookupKV kv.1 r.store) kv.2
  match r.tree.upsert kv.1 (lvl kv.1) nv with
  | .error e => .error e
  | .ok t => .ok { store := storeInsert kv.1 nv r.store, tree := t }

def Replica.absorbAll (lvl : K → Nat) (m : Merge) : Replica K V D → List (K × V) → Except String (Replica K V D)
  | r, [] => .ok r
  | r, kv :: rest =>
    match r.absorb lvl m kv with
    | .error e => .error e
    | .ok r' => r'.absorbAll lvl m rest

/-- A local write. -/
def Replica.write (lvl : K → Nat) (m : Merge) (r : Replica K V D) (k : K) (v : V) :
    Except String (Replica K V D) := r.absorb lvl m (k, v)

def inRanges (rs : List (DR K)) (k : K) : Bool :=
  rs.any fun r => decide (r.1 ≤ k) && decide (k ≤ r.2)

/-- The sender answers a range request from its store. -/
def fetch (store : List (K × V)) (rs : List (DR K)) : List (K × V) :=
  store.filter fun kv => inRanges rs kv.1

variable [DecidableEq D]

/-- The ranges the receiver asks for: both sides regenerate their hashes, serialise, diff. -/
def pullRanges (hc : HashCfg K V D) (recv send : Replica K V D) :
    Except String (List (DR K) × Tree K V D × Tree K V D) :=
  let rt := recv.tree.genRootHash hc
  let st := send.tree.genRootHash hc
  match rt.serialise, st.serialise with
  | .ok (some lr), .ok (some ls) =>
    match diff lr ls with
    | .error e => .error e
    | .ok ranges => .ok (ranges, rt, st)
  | .error e, _ => .error e
  | _, .error e => .error e
  | _, _ => .error "serialise: none after root_hash()"

/-- One-way pull `recv ← send`. Returns the updated receiver and the sender (whose tree now carries
fresh caches; its store is untouched). -/
def pull (lvl : K → Nat) (hc : HashCfg K V D) (m : Merge) (recv send : Replica K V D) :
    Except String (Replica K V D × Replica K V D) :=
  match pullRanges hc recv send with
  | .error e => .error e
  | .ok (ranges, rt, st) =>
    match Replica.absorbAll lvl m { store := recv.store, tree := rt } (fetch send.store ranges) with
    | .error e => .error e
    | .ok r' => .ok (r', { store := send.store, tree := st })

/-- A two-way sync round as in `tests/sync.rs`: `b` pulls from `a`, then `a` pulls from `b`. -/
def syncRound (lvl : K → Nat) (hc : HashCfg K V D) (m : Merge) (a b : Replica K V D) :
    Except String (Replica K V D × Replica K V D) :=
  match pull lvl hc m b a with
  | .error e => .error e
  | .ok (b1, a1) =>
    match pull lvl hc m a1 b1 with
    | .error e => .error e
    | .ok (a2, b2) => .ok (a2, b2)

/-- One step of an N-replica schedule. -/
inductive SyncOp (K V : Type) where
  | write (r : Nat) (k : K) (v : V)
  | pull (recv send : Nat)
  deriving Repr

def setAt {α : Type} (l : List α) (i : Nat) (x : α) : List α := l.set i x

def syncStep (lvl : K → Nat) (hc : HashCfg K V D) (m : Merge) (rs : List (Replica K V D)) :
    SyncOp K V → Except String (List (Replica K V D))
  | .write r k v =>
    match rs[r]? with
    | none => .ok rs
    | some rep =>
      match rep.write lvl m k v with
      | .error e => .error e
      | .ok rep' => .ok (setAt rs r rep')
  | .pull i j =>
    if i = j then .ok rs else
    match rs[i]?, rs[j]? with
    | some ri, some rj =>
      match pull lvl hc m ri rj with
      | .error e => .error e
      | .ok (ri', rj') => .ok (setAt (setAt rs i ri') j rj')
    | _, _ => .ok rs

def syncRun (lvl : K → Nat) (hc : HashCfg K V D) (m : Merge) :
    List (Replica K V D) → List (SyncOp K V) → Except String (List (Replica K V D))
  | rs, [] => .ok rs
  | rs, op :: ops =>
    match syncStep lvl hc m rs op with
    | .error e => .error e
    | .ok rs' => syncRun lvl hc m rs' ops

end
end Mst

/-! ### Schedules with stale in-flight snapshots

A pull is not atomic in a deployment: the receiver computes the ranges from page-range snapshots
taken at some point (`plan`) and fetches them later, when both stores may have moved on. The
extended schedule lets the receiver absorb the sender's CURRENT entries inside ARBITRARY ranges
(`fetchStale`): this subsumes every stale, partial, duplicated or reordered range request. -/

namespace Mst
variable {K V D : Type}

inductive SyncOp2 (K V : Type) where
  | write (r : Nat) (k : K) (v : V)
  | pull (recv send : Nat)
  /-- regenerate the hashes of a replica's tree (what taking a snapshot does) -/
  | hash (r : Nat)
  /-- absorb the sender's current entries inside `ranges` (ranges from any earlier diff, or any others) -/
  | fetchStale (recv send : Nat) (ranges : List (DR K))

section
variable [LT K] [LE K] [DecidableLT K] [DecidableLE K] [DecidableEq K] [Max V] [DecidableEq D]

def syncStep2 (lvl : K → Nat) (hc : HashCfg K V D) (m : Merge) (rs : List (Replica K V D)) :
    SyncOp2 K V → Except String (List (Replica K V D))
  | .write r k v => syncStep lvl hc m rs (.write r k v)
  | .pull i j => syncStep lvl hc m rs (.pull i j)
  | .hash r =>
    match rs[r]? with
    | none => .ok rs
    | some rep => .ok (setAt rs r { rep with tree := rep.tree.genRootHash hc })
  | .fetchStale i j ranges =>
    if i = j then .ok rs else
    match rs[i]?, rs[j]? with
    | some ri, some rj =>
      match ri.absorbAll lvl m (fetch rj.store ranges) with
      | .error e => .error e
      | .ok ri' => .ok (setAt rs i ri')
    | _, _ => .ok rs

def syncRun2 (lvl : K → Nat) (hc : HashCfg K V D) (m : Merge) :
    List (Replica K V D) → List (SyncOp2 K V) → Except String (List (Replica K V D))
  | rs, [] => .ok rs
  | rs, op :: ops =>
    match syncStep2 lvl hc m rs op with
    | .error e => .error e
    | .ok rs' => syncRun2 lvl hc m rs' ops

end
end Mst
