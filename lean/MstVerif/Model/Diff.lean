/-
Model of `src/diff.rs`, `src/diff/range_list.rs`, `src/diff/diff_builder.rs`,
`PageRange::new` / `is_superset_of` and `DiffRange::overlaps`.

`Peekable` cursors are lists (head = `peek()`); the `loop` of `recurse_diff` is a self call
carrying `last_p`; `fuel` bounds the recursion (`diff` supplies `2·|peer| + 2`, proved sufficient).
-/
import MstVerif.Model.Traverse

namespace Mst
variable {K D : Type}

/-- An inclusive `[start, end]` interval (`DiffRange`). -/
abbrev DR (K : Type) := K × K

section
variable [LT K] [LE K] [DecidableLT K] [DecidableLE K]

/-- `PageRange::new` (page_range.rs:138): `assert!(start <= end)`. -/
def PR.new (s e : K) (h : D) : Except String (PR K D) :=
  if s ≤ e then .ok { start := s, end_ := e, hash := h } else .error "page_range.rs:142"

/-- `is_superset_of` (page_range.rs:159). -/
def PR.supersetOf (a b : PR K D) : Bool := decide (a.start ≤ b.start) && decide (b.end_ ≤ a.end_)

/-- `DiffRange::overlaps` (diff.rs:36): `p.end >= self.start && p.start <= self.end`. -/
def DR.overlaps (self p : DR K) : Bool := decide (self.1 ≤ p.2) && decide (p.1 ≤ self.2)

/-- `DiffListBuilder`: the two `RangeList`s in insertion order. -/
structure Builder (K : Type) where
  bad : List (DR K)
  good : List (DR K)

def Builder.empty : Builder K := { bad := [], good := [] }

/-- `RangeList::insert` (range_list.rs:25): `assert!(start <= end)`; push. -/
def Builder.inconsistent (b : Builder K) (s e : K) : Except String (Builder K) :=
  if s ≤ e then .ok { b with bad := b.bad ++ [(s, e)] } else .error "range_list.rs:26"

def Builder.consistent (b : Builder K) (s e : K) : Except String (Builder K) :=
  if s ≤ e then .ok { b with good := b.good ++ [(s, e)] } else .error "range_list.rs:26"

/-- `maybe_advance_within` (diff.rs:325). -/
def advWithin (parent : PR K D) : List (PR K D) → Option (PR K D) × List (PR K D)
  | [] => (.none, [])
  | x :: r => if parent.supersetOf x then (.some x, r) else (.none, x :: r)

/-- `while let Some(v) = local.next_if(|v| v.is_superset_of(&p)) { l = v }` (diff.rs:282). -/
def shrinkLocal (p : PR K D) : PR K D → List (PR K D) → PR K D × List (PR K D)
  | l, [] => (l, [])
  | l, v :: r => if v.supersetOf p then shrinkLocal p v r else (l, v :: r)

/-- `skip_subtree` (diff.rs:347). -/
def skipSubtree (root : PR K D) : List (PR K D) → List (PR K D)
  | [] => []
  | v :: r => if root.supersetOf v then skipSubtree root r else v :: r

/-- The `while let Some(p) = peer.next_if(..)` loop of `recurse_subtree` (diff.rs:168). -/
def drainSubtree (root : PR K D) : List (PR K D) → Builder K → Except String (List (PR K D) × Builder K)
  | [], b => .ok ([], b)
  | v :: r, b =>
    if root.supersetOf v then
      match b.inconsistent v.start v.end_ with
      | .error e => .error e
      | .ok b' => drainSubtree root r b'
    else .ok (v :: r, b)

variable [DecidableEq D]

mutual
/-- One iteration of the `loop` in `recurse_diff` (diff.rs:186). -/
def recurseDiff : Nat → PR K D → Option (PR K D) → List (PR K D) → List (PR K D) → Builder K →
    Except String (List (PR K D) × List (PR K D) × Builder K)
  | 0, _, _, _, _, _ => .error "fuel"
  | fuel + 1, root, lastP, peer, loc, b =>
    match advWithin root peer with
    | (.none, peer) => .ok (peer, loc, b)
    | (.some p, peer1) =>
      match advWithin p loc with
      | (.none, loc) =>
        -- diff.rs:220-229
        let localIsSuperset := match loc with
          | lh :: _ => lh.supersetOf p
          | [] => false
        if localIsSuperset then .ok (peer1, loc, b)
        else
          -- diff.rs:237-248
          let start := match lastP with
            | .some v => v.end_
            | .none => root.start
          let end_ := match loc with
            | lh :: _ => if p.end_ < lh.start then p.end_ else lh.start   -- `v.start().min(p.end())`
            | [] => p.end_
          if start ≤ end_ then
            match b.inconsistent start end_ with
            | .error e => .error e
            | .ok b' => .ok (peer1, loc, b')
          else .ok (peer1, loc, b)
      | (.some l0, loc1) =>
        -- diff.rs:272
        if !root.supersetOf p then .error "diff.rs:272" else
        let (l, loc2) := shrinkLocal p l0 loc1
        match (if l.hash = p.hash then
                 match b.consistent p.start p.end_ with
                 | .error e => Except.error e
                 | .ok b1 => .ok (b1, skipSubtree p peer1)
               else
                 match b.inconsistent p.start p.end_ with
                 | .error e => .error e
                 | .ok b1 => .ok (b1, peer1)) with
        | .error e => .error e
        | .ok (b1, peer2) =>
          match recurseSubtree fuel p peer2 loc2 b1 with
          | .error e => .error e
          | .ok (peer3, loc3, b2) => recurseDiff fuel root (.some p) peer3 loc3 b2
/-- `recurse_subtree` (diff.rs:149). -/
def recurseSubtree : Nat → PR K D → List (PR K D) → List (PR K D) → Builder K →
    Except String (List (PR K D) × List (PR K D) × Builder K)
  | 0, _, _, _, _ => .error "fuel"
  | fuel + 1, root, peer, loc, b =>
    match recurseDiff fuel root .none peer loc b with
    | .error e => .error e
    | .ok (peer1, loc1, b1) =>
      match drainSubtree root peer1 b1 with
      | .error e => .error e
      | .ok (peer2, b2) =>
        -- diff.rs:177 debug_assert: next peer page escapes the subtree
        match peer2 with
        | v :: _ => if root.supersetOf v then .error "diff.rs:177" else .ok (peer2, loc1, b2)
        | [] => .ok (peer2, loc1, b2)
end

/-- `merge_overlapping` (range_list.rs:62); `last` is `source.last_mut()`. -/
def mergeGo (last : DR K) : List (DR K) → Except String (List (DR K))
  | [] => .ok [last]
  | r :: rs =>
    if !decide (last.1 ≤ r.1) then .error "range_list.rs:85"
    else if r.2 ≤ last.2 then mergeGo last rs
    else if r.1 ≤ last.2 then mergeGo (last.1, r.2) rs
    else
      match mergeGo r rs with
      | .error e => .error e
      | .ok out => .ok (last :: out)

def mergeOverlapping : List (DR K) → Except String (List (DR K))
  | [] => .ok []
  | x :: rs => mergeGo x rs

/-- The `windows(2)` invariant checks of `into_vec` (range_list.rs:38-52). -/
def checkWindowsIntoVec : List (DR K) → Except String Unit
  | a :: b :: rest =>
    if DR.overlaps a b then .error "range_list.rs:41"
    else if !decide (a.1 ≤ a.2) then .error "range_list.rs:43"
    else if !decide (b.1 ≤ b.2) then .error "range_list.rs:47"
    else checkWindowsIntoVec (b :: rest)
  | _ => .ok ()

/-- The `windows(2)` check of `reduce_sync_range` (diff_builder.rs:100-104). -/
def checkWindowsReduce : List (DR K) → Except String Unit
  | a :: b :: rest =>
    if DR.overlaps a b then .error "diff_builder.rs:102" else checkWindowsReduce (b :: rest)
  | _ => .ok ()

/-- `RangeList::into_vec` (range_list.rs:32): stable sort by start, merge, check. -/
def intoVec (l : List (DR K)) : Except String (List (DR K)) :=
  match mergeOverlapping (l.mergeSort (fun a b => decide (a.1 ≤ b.1))) with
  | .error e => .error e
  | .ok m =>
    match checkWindowsIntoVec m with
    | .error e => .error e
    | .ok () => .ok m

/-- The `flat_map` closure of `reduce_sync_range` (diff_builder.rs:69-92). -/
def punch (good bad : DR K) : List (DR K) :=
  if !DR.overlaps good bad then [bad]
  else
    (if bad.1 < good.1 then [(bad.1, good.1)] else []) ++
    (if good.2 < bad.2 then [(good.2, bad.2)] else [])

/-- `reduce_sync_range` (diff_builder.rs:56). -/
def reduceSyncRange (bad good : List (DR K)) : Except String (List (DR K)) :=
  let bad' := good.foldl (fun acc g => acc.flatMap (punch g)) bad
  match mergeOverlapping bad' with
  | .error e => .error e
  | .ok m =>
    match checkWindowsReduce m with
    | .error e => .error e
    | .ok () => .ok m

/-- `DiffListBuilder::into_diff_vec`. -/
def Builder.intoDiffVec (b : Builder K) : Except String (List (DR K)) :=
  match intoVec b.bad with
  | .error e => .error e
  | .ok bad =>
    match intoVec b.good with
    | .error e => .error e
    | .ok good => reduceSyncRange bad good

/-- `diff(local, peer)` (diff.rs:112). -/
def diff (loc peer : List (PR K D)) : Except String (List (DR K)) :=
  match peer with
  | [] => .ok []
  | root :: _ =>
    match recurseDiff (2 * peer.length + 2) root .none peer loc Builder.empty with
    | .error e => .error e
    | .ok (_, _, b) => b.intoDiffVec

end
end Mst
