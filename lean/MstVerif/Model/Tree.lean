/-
Model of `src/page.rs`, `src/node.rs`, `src/tree.rs` (page graph, split, upsert, lazy hashing).

Core Lean only (no Mathlib) so that the driver links as an executable.

Conventions
* `Pg` is `Option<Box<Page>>`, `Nd` is `Vec<Node>` (as a cons list, head = lowest key).
* Every `panic!/unwrap/expect/assert!/debug_assert!` site of the Rust is an `Except.error "<file>:<line>"`.
  The model is the debug-assertions-on semantics.
* Mutation through `&mut` becomes returning the new value.
-/

namespace Mst

mutual
/-- `Option<Box<Page<N,K>>>`: `level`, `tree_hash` (cache), `nodes`, `high_page`. -/
inductive Pg (K V D : Type) where
  | none : Pg K V D
  | some (level : Nat) (cache : Option D) (nodes : Nd K V D) (high : Pg K V D) : Pg K V D
/-- `Vec<Node<N,K>>`: each node has `lt_pointer`, `key`, `value_hash`. -/
inductive Nd (K V D : Type) where
  | nil : Nd K V D
  | cons (lt : Pg K V D) (key : K) (val : V) (tail : Nd K V D) : Nd K V D
end

variable {K V D : Type}

def Pg.isSome : Pg K V D → Bool
  | .none => false
  | .some .. => true

def Pg.cache? : Pg K V D → Option D
  | .none => Option.none
  | .some _ c _ _ => c

def Nd.isNil : Nd K V D → Bool
  | .nil => true
  | .cons .. => false

/-- `nodes.first().key()` -/
def Nd.firstKey? : Nd K V D → Option K
  | .nil => Option.none
  | .cons _ k _ _ => Option.some k

/-- `nodes.last().key()` -/
def Nd.lastKey? : Nd K V D → Option K
  | .nil => Option.none
  | .cons _ k _ .nil => Option.some k
  | .cons _ _ _ tl => tl.lastKey?

/-- Result of `find_idx` + the recursive split of the first gte node's `lt_pointer`. -/
inductive SplitRes (K V D : Type) where
  /-- `partition_idx == nodes.len()` -/
  | allLt : SplitRes K V D
  /-- `partition_idx == 0`; `a` = what `split_off_lt(nodes[0].lt_pointer)` returned,
      `g` = the nodes with the first `lt_pointer` replaced by what stayed in the slot. -/
  | atHead (a : Pg K V D) (g : Nd K V D) : SplitRes K V D
  /-- `0 < partition_idx < len`; `l` = drained lt nodes, `a`/`g` as above for the gte nodes. -/
  | mid (l : Nd K V D) (a : Pg K V D) (g : Nd K V D) : SplitRes K V D

section Split
variable [LT K] [LE K] [DecidableLT K] [DecidableLE K]

/-- `assert (k? < key)` where `k?` is a `max_key()` that itself unwraps. -/
def assertKeyLt (site : String) (k? : Option K) (key : K) : Except String Unit :=
  match k? with
  | .none => .error (site ++ ":unwrap")
  | .some k => if k < key then .ok () else .error site

/-- `assert (k? > key)`. -/
def assertKeyGt (site : String) (k? : Option K) (key : K) : Except String Unit :=
  match k? with
  | .none => .error (site ++ ":unwrap")
  | .some k => if key < k then .ok () else .error site

def assertT (site : String) (b : Bool) : Except String Unit :=
  if b then .ok () else .error site

mutual
/-- `split_off_lt` (page.rs:362). Returns (returned lt page, what stays in the slot). -/
def splitPg (key : K) : Pg K V D → Except String (Pg K V D × Pg K V D)
  | .none => .ok (.none, .none)
  | .some L c nodes high =>
    match nodes with
    | .nil => .error "page.rs:368"
    | .cons .. =>
      match splitNd key nodes with
      | .error e => .error e
      | .ok .allLt =>
        -- page.rs:396-436
        match assertKeyLt "page.rs:397" nodes.lastKey? key with
        | .error e => .error e
        | .ok () =>
          match splitPg key high with
          | .error e => .error e
          | .ok (a, b) =>
            -- page.rs:409 (REPAIRED condition: `page_ref.high_page.is_some()`)
            let c' := if b.isSome then Option.none else c
            .ok (.some L c' nodes a, b)
      | .ok (.atHead a g) =>
        -- page.rs:376-389
        match assertKeyGt "page.rs:377" nodes.firstKey? key with
        | .error e => .error e
        | .ok () => .ok (a, .some L (if a.isSome then Option.none else c) g high)
      | .ok (.mid l a g) =>
        -- page.rs:438-484
        match assertKeyGt "page.rs:450" g.lastKey? key with
        | .error e => .error e
        | .ok () =>
          match (match high with
                 | .none => Except.ok ()
                 | .some Lh _ nh _ =>
                   match assertT "page.rs:455" (!nh.isNil) with
                   | .error e => .error e
                   | .ok () =>
                     match assertT "page.rs:456" (Lh < L) with
                     | .error e => .error e
                     | .ok () => assertKeyGt "page.rs:457" nh.firstKey? key) with
          | .error e => .error e
          | .ok () =>
            match assertKeyLt "page.rs:474" l.lastKey? key with
            | .error e => .error e
            | .ok () =>
              match (match a with
                     | .none => Except.ok ()
                     | .some La _ na _ =>
                       match assertT "page.rs:478" (La < L) with
                       | .error e => .error e
                       | .ok () =>
                         match assertKeyLt "page.rs:479" na.lastKey? key with
                         | .error e => .error e
                         | .ok () => assertT "page.rs:480" (!na.isNil)) with
              | .error e => .error e
              | .ok () => .ok (.some L Option.none l a, .some L Option.none g high)
/-- `find_idx` + drain + the recursion into the first gte node's `lt_pointer`. -/
def splitNd (key : K) : Nd K V D → Except String (SplitRes K V D)
  | .nil => .ok .allLt
  | .cons lt k v tl =>
    if key ≤ k then
      match splitPg key lt with
      | .error e => .error e
      | .ok (a, b) => .ok (.atHead a (.cons b k v tl))
    else
      match splitNd key tl with
      | .error e => .error e
      | .ok .allLt => .ok .allLt
      | .ok (.atHead a g) => .ok (.mid (.cons lt k v .nil) a g)
      | .ok (.mid l a g) => .ok (.mid (.cons lt k v l) a g)
end

/-- The "second split" of `upsert_node` (page.rs:329-335) and `insert_intermediate_page`
    (page.rs:589-601): split the high page of the freshly split-off lt page.
    `sites` = the three assertion sites. NB: the lt page's cache is *not* invalidated here. -/
def secondSplit (s1 s2 s3 : String) (L : Nat) (key : K) :
    Pg K V D → Except String (Pg K V D × Pg K V D)
  | .none => .ok (.none, .none)
  | .some Lx cx nx hx =>
    match assertT s1 (Lx < L) with
    | .error e => .error e
    | .ok () =>
      match assertT s2 (!nx.isNil) with
      | .error e => .error e
      | .ok () =>
        match assertKeyLt s3 nx.lastKey? key with
        | .error e => .error e
        | .ok () =>
          match splitPg key hx with
          | .error e => .error e
          | .ok (hl, hr) => .ok (.some Lx cx nx hl, hr)

/-- The assertions on the gte remainder of the second split (page.rs:337-339 / 597-599). -/
def assertGte (s1 s2 s3 : String) (L : Nat) (key : K) : Pg K V D → Except String Unit
  | .none => .ok ()
  | .some Le _ ne _ =>
    match assertT s1 (Le < L) with
    | .error e => .error e
    | .ok () =>
      match assertT s2 (!ne.isNil) with
      | .error e => .error e
      | .ok () => assertKeyGt s3 ne.lastKey? key

/-- `self.insert_high_page(gte_page)` from `upsert_node` (page.rs:336-342, :74-81). -/
def attachHigh (L : Nat) (key : K) (extra high : Pg K V D) : Except String (Pg K V D) :=
  match extra with
  | .none => .ok high
  | .some _ _ ne _ =>
    match assertGte "page.rs:337" "page.rs:338" "page.rs:339" L key extra with
    | .error e => .error e
    | .ok () =>
      match assertT "page.rs:75" (!high.isSome) with
      | .error e => .error e
      | .ok () =>
        match assertT "page.rs:76" (!ne.isNil) with
        | .error e => .error e
        | .ok () => .ok extra

/-- Build the new node once the page to split is known (page.rs:327-345). Returns the new node's
    `lt_pointer`, what stays in the split slot, and the (possibly replaced) high page. -/
def splitForInsert (L : Nat) (key : K) (slot high : Pg K V D) (slotIsHigh : Bool) :
    Except String (Pg K V D × Pg K V D × Pg K V D) :=
  match splitPg key slot with
  | .error e => .error e
  | .ok (x, slot') =>
    match secondSplit "page.rs:330" "page.rs:331" "page.rs:332" L key x with
    | .error e => .error e
    | .ok (x', extra) =>
      match attachHigh L key extra (if slotIsHigh then slot' else high) with
      | .error e => .error e
      | .ok high' => .ok (x', slot', high')

end Split

section Upsert
variable [LT K] [LE K] [DecidableLT K] [DecidableLE K] [DecidableEq K]

/-- `Page::upsert_node` (page.rs:281): returns the new `nodes` and `high_page`. -/
def upsertNd (L : Nat) (key : K) (val : V) : Nd K V D → Pg K V D → Except String (Nd K V D × Pg K V D)
  | .nil, high =>
    -- idx == len: the page to split is the high page
    match splitForInsert L key high high true with
    | .error e => .error e
    | .ok (x', _, high') => .ok (.cons x' key val .nil, high')
  | .cons lt k v tl, high =>
    if key ≤ k then
      if k = key then .ok (.cons lt k val tl, high)
      else
        match splitForInsert L key lt high false with
        | .error e => .error e
        | .ok (x', lt', high') => .ok (.cons x' key val (.cons lt' k v tl), high')
    else
      match upsertNd L key val tl high with
      | .error e => .error e
      | .ok (tl', high') => .ok (.cons lt k v tl', high')

/-- `insert_intermediate_page` (page.rs:487). `child` is the page in the slot (always `some`);
    the result is the new content of the slot. -/
def insertIntermediate (child : Pg K V D) (key : K) (level : Nat) (val : V) :
    Except String (Pg K V D) :=
  match child with
  | .none => .error "insert_intermediate_page:none"
  | .some Lc _ nc _ =>
    match assertT "page.rs:525" (Lc < level) with
    | .error e => .error e
    | .ok () =>
      match assertT "page.rs:526" (!nc.isNil) with
      | .error e => .error e
      | .ok () =>
        match splitPg key child with
        | .error e => .error e
        | .ok (x, rest) =>
          match secondSplit "page.rs:590" "page.rs:591" "page.rs:592" level key x with
          | .error e => .error e
          | .ok (x', gte) =>
            match assertGte "page.rs:597" "page.rs:598" "page.rs:599" level key gte with
            | .error e => .error e
            | .ok () =>
              -- page.rs:608-611: `insert_high_page(gte)` on the fresh page (its own asserts hold
              -- trivially: fresh high is none; non-emptiness was asserted at :598)
              -- page.rs:615-636: the old child (possibly emptied) replaces the high page
              match rest with
              | .none => .ok (.some level Option.none (.cons x' key val .nil) gte)
              | .some Lr _ nr _ =>
                if nr.isNil then .ok (.some level Option.none (.cons x' key val .nil) gte)
                else
                  match assertKeyGt "page.rs:633" nr.lastKey? key with
                  | .error e => .error e
                  | .ok () =>
                    match assertT "page.rs:634" (Lr < level) with
                    | .error e => .error e
                    | .ok () => .ok (.some level Option.none (.cons x' key val .nil) rest)

inductive UpRes where
  | complete
  | insertIntermediate
  deriving DecidableEq, Repr

/-- What happens to the slot the descent chose (page.rs:250-255):
    `get_or_insert_with(empty page)`, the recursive `upsert` (its result is `r`), and
    `insert_intermediate_page` if asked for. -/
def childFinish (key : K) (level : Nat) (val : V) (slot : Pg K V D)
    (r : Except String (Pg K V D × UpRes)) : Except String (Pg K V D) :=
  match slot with
  | .none =>
    -- fresh `Page::new(level, [])`; `upsert` takes the `Equal` branch: `upsert_node` on the empty page
    match upsertNd level key val (.nil : Nd K V D) .none with
    | .error e => .error e
    | .ok (n', h') => .ok (.some level Option.none n' h')
  | .some .. =>
    match r with
    | .error e => .error e
    | .ok (p', .complete) => .ok p'
    | .ok (_, .insertIntermediate) => insertIntermediate slot key level val

mutual
/-- `Page::upsert` (page.rs:227). -/
def upsertPg (key : K) (level : Nat) (val : V) : Pg K V D → Except String (Pg K V D × UpRes)
  | .none => .error "upsert:none"
  | .some L c nodes high =>
    if level < L then
      match assertT "page.rs:233" (L != 255) with
      | .error e => .error e
      | .ok () =>
        match assertT "page.rs:234" (!nodes.isNil) with
        | .error e => .error e
        | .ok () =>
          match upsertDescNd key level val nodes with
          | .error e => .error e
          | .ok (.some nodes') => .ok (.some L Option.none nodes' high, .complete)
          | .ok .none =>
            match childFinish key level val high (upsertPg key level val high) with
            | .error e => .error e
            | .ok high' => .ok (.some L Option.none nodes high', .complete)
    else if level = L then
      match upsertNd L key val nodes high with
      | .error e => .error e
      | .ok (nodes', high') => .ok (.some L Option.none nodes' high', .complete)
    else .ok (.some L c nodes high, .insertIntermediate)
/-- The `find_idx` walk of the `Less` branch: `none` = no node with `key <= k` (use the high page). -/
def upsertDescNd (key : K) (level : Nat) (val : V) : Nd K V D → Except String (Option (Nd K V D))
  | .nil => .ok .none
  | .cons lt k v tl =>
    if key ≤ k then
      match assertT "page.rs:244" (decide (key < k)) with
      | .error e => .error e
      | .ok () =>
        match childFinish key level val lt (upsertPg key level val lt) with
        | .error e => .error e
        | .ok lt' => .ok (.some (.cons lt' k v tl))
    else
      match upsertDescNd key level val tl with
      | .error e => .error e
      | .ok .none => .ok .none
      | .ok (.some tl') => .ok (.some (.cons lt k v tl'))
end

/-- `MerkleSearchTree`: the root page (always `some`) and the cached root hash. -/
structure Tree (K V D : Type) where
  root : Pg K V D
  rootHash : Option D

/-- All three constructors: `Page::new(0, vec![])`, `root_hash: None`. -/
def Tree.empty : Tree K V D := { root := .some 0 Option.none .nil .none, rootHash := Option.none }

/-- `MerkleSearchTree::default()` (tree.rs:118), `Builder::build()` (tree.rs:332) and the deprecated
`new_with_hasher()` (tree.rs:135) all start from `Page::new(0, vec![])` with `root_hash: None`; they
differ only in the hasher / level base they store, which the model receives as `lvl` / `level`. -/
def Tree.default : Tree K V D := Tree.empty
def Tree.builderBuild : Tree K V D := Tree.empty
def Tree.newWithHasher : Tree K V D := Tree.empty

def Pg.nodesNil : Pg K V D → Bool
  | .none => true
  | .some _ _ n _ => n.isNil

/-- `MerkleSearchTree::upsert` (tree.rs:305); `level` is `digest::level(hash(key), base)`. -/
def Tree.upsert (t : Tree K V D) (key : K) (level : Nat) (val : V) : Except String (Tree K V D) :=
  match upsertPg key level val t.root with
  | .error e => .error e
  | .ok (root', .complete) => .ok { root := root', rootHash := Option.none }
  | .ok (_, .insertIntermediate) =>
    if t.root.nodesNil then
      .ok { root := .some level Option.none (.cons .none key val .nil) .none, rootHash := Option.none }
    else
      match insertIntermediate t.root key level val with
      | .error e => .error e
      | .ok root' => .ok { root := root', rootHash := Option.none }

end Upsert

/-! ### Lazy hashing -/

/-- How keys, value digests and page digests are fed to the page hasher, and the hasher itself. -/
structure HashCfg (K V D : Type) where
  kb : K → List UInt8
  vb : V → List UInt8
  db : D → List UInt8
  h  : List UInt8 → D

/-- `child.hash().unwrap().as_ref()` if there is a child. (A `some` page with no cache cannot be
    seen here: `maybe_generate_hash` has just run on it.) -/
def Pg.cacheBytes (hc : HashCfg K V D) : Pg K V D → List UInt8
  | .none => []
  | .some _ (.some d) _ _ => hc.db d
  | .some _ .none _ _ => []

/-- The byte stream written for the nodes (page.rs:191-203). -/
def Nd.bytes (hc : HashCfg K V D) : Nd K V D → List UInt8
  | .nil => []
  | .cons lt k v tl => lt.cacheBytes hc ++ hc.kb k ++ hc.vb v ++ tl.bytes hc

mutual
/-- `maybe_generate_hash` (page.rs:177): early return on a cached page WITHOUT descending. -/
def genPg (hc : HashCfg K V D) : Pg K V D → Pg K V D
  | .none => .none
  | .some L c n h =>
    match c with
    | .some d => .some L (.some d) n h
    | .none =>
      let n' := genNd hc n
      let h' := genPg hc h
      .some L (.some (hc.h (n'.bytes hc ++ h'.cacheBytes hc))) n' h'
def genNd (hc : HashCfg K V D) : Nd K V D → Nd K V D
  | .nil => .nil
  | .cons lt k v tl => .cons (genPg hc lt) k v (genNd hc tl)
end

/-- `root_hash()` (tree.rs:207). -/
def Tree.genRootHash (hc : HashCfg K V D) (t : Tree K V D) : Tree K V D :=
  let r := genPg hc t.root
  { root := r, rootHash := r.cache? }

/-- `root_hash_cached()` -/
def Tree.rootHashCached (t : Tree K V D) : Option D := t.rootHash

end Mst
