/-
Model of `src/diff/page_range_snapshot.rs`: `OwnedPageRange`, `PageRangeSnapshot`, the four
conversions (`From<Vec<PageRange>>`, `FromIterator<PageRange>`, `From<Vec<OwnedPageRange>>`,
`FromIterator<OwnedPageRange>`), `PageRangeSnapshot::iter`, the derived `PartialEq` / `Clone`
(incl. the provided `clone_from`), and of what a replica does with a snapshot: it is taken from a
hashed tree and kept while the tree is upserted further.
-/
import MstVerif.Model.Diff

namespace Mst
variable {K V D : Type}

/-- `OwnedPageRange<K> { start: K, end: K, hash: PageDigest }` (page_range_snapshot.rs:92). -/
structure OwnedPR (K D : Type) where
  start : K
  end_ : K
  hash : D
  deriving DecidableEq, Repr

/-- `PageRangeSnapshot<K>(Vec<OwnedPageRange<K>>)` (page_range_snapshot.rs:38). -/
structure Snapshot (K D : Type) where
  items : List (OwnedPR K D)
  deriving DecidableEq, Repr

/-- `impl From<PageRange<'a, K>> for OwnedPageRange<K>` (page_range_snapshot.rs:115): clones the two
bounds, moves the hash; NO assertion (the borrowed range was checked when it was built). -/
def OwnedPR.ofPR (r : PR K D) : OwnedPR K D := { start := r.start, end_ := r.end_, hash := r.hash }

section
variable [LE K] [DecidableLE K]

/-- `OwnedPageRange::new` (page_range_snapshot.rs:108): `assert!(start <= end)`. -/
def OwnedPR.new (s e : K) (h : D) : Except String (OwnedPR K D) :=
  if s ≤ e then .ok { start := s, end_ := e, hash := h } else .error "page_range_snapshot.rs:109"

/-- `FromIterator<PageRange>` / `From<Vec<PageRange>>` (page_range_snapshot.rs:53-68). -/
def Snapshot.ofRanges (l : List (PR K D)) : Snapshot K D := { items := l.map OwnedPR.ofPR }

/-- `FromIterator<OwnedPageRange>` / `From<Vec<OwnedPageRange>>` (page_range_snapshot.rs:70-80). -/
def Snapshot.ofOwned (l : List (OwnedPR K D)) : Snapshot K D := { items := l }

/-- `PageRangeSnapshot::iter` (page_range_snapshot.rs:42): one `PageRange::new(&start, &end,
hash.clone())` per item — which re-asserts `start <= end`. -/
def Snapshot.iter (s : Snapshot K D) : Except String (List (PR K D)) :=
  s.items.mapM fun v => PR.new v.start v.end_ v.hash

end

/-- `#[derive(Clone)]` -/
def Snapshot.clone (s : Snapshot K D) : Snapshot K D := s

/-- `Clone::clone_from(&mut self, source)`: the provided method, `*self = source.clone()`. -/
def Snapshot.cloneFrom (_self : Snapshot K D) (source : Snapshot K D) : Snapshot K D := source.clone

/-! ### A tree that keeps a snapshot while it is written to -/

section
variable [LT K] [LE K] [DecidableLT K] [DecidableLE K] [DecidableEq K]

/-- What a replica holds between two anti-entropy rounds: its tree and the snapshot it serves. -/
structure Served (K V D : Type) where
  tree : Tree K V D
  snap : Option (Snapshot K D)

/-- `let _ = t.root_hash(); let snap = PageRangeSnapshot::from(t.serialise_page_ranges().unwrap())`. -/
def Served.take (hc : HashCfg K V D) (s : Served K V D) : Except String (Served K V D) :=
  let t := s.tree.genRootHash hc
  match t.serialise with
  | .error e => .error e
  | .ok .none => .error "serialise: none after root_hash()"
  | .ok (.some l) => .ok { tree := t, snap := .some (Snapshot.ofRanges l) }

/-- A later upsert touches the tree only — the snapshot owns clones of everything it needs. -/
def Served.upsert (s : Served K V D) (key : K) (level : Nat) (val : V) : Except String (Served K V D) :=
  match s.tree.upsert key level val with
  | .error e => .error e
  | .ok t => .ok { s with tree := t }

/-- Any continuation of upserts after the snapshot was taken. -/
def Served.upserts (lvl : K → Nat) : Served K V D → List (K × V) → Except String (Served K V D)
  | s, [] => .ok s
  | s, (k, v) :: rest =>
    match s.upsert k (lvl k) v with
    | .error e => .error e
    | .ok s' => s'.upserts lvl rest

end
end Mst
