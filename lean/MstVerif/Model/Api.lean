/-
The public construction / configuration layer around the tree (core Lean only):

* `TreeBuilder` (src/builder.rs:13-48), `Builder::build` (src/tree.rs:328-342), `MerkleSearchTree::default`
  (src/tree.rs:118-129), the deprecated `new_with_hasher` (src/tree.rs:135-144), `Clone` /
  `Clone::clone_from` (derived, src/tree.rs:103);
* the default key/value hasher `SipHasher` (src/digest/siphash.rs:18-43): `SipHasher::default()`,
  `SipHasher::new(seed)`, and `hash(value)` = SipHash-2-4-128 over the bytes `std::hash::Hash` feeds
  for the value's type;
* `MerkleSearchTree::upsert(key, value)` (src/tree.rs:305-310): `value_hash = hasher.hash(value)`,
  `level = level(hasher.hash(key), level_base)`.

What `std::hash::Hash` writes is a fact about the standard library, recorded here and tied by the
`hdig` correspondence lines: `[u8]`/`Vec<u8>`/`[u8; N]` write the length as a `usize` (8 bytes, little
endian on the 64-bit targets the harness runs on) followed by the bytes; `str`/`String` write the bytes
followed by `0xff`.
-/
import MstVerif.Model.Tree
import MstVerif.Model.Level
import MstVerif.Model.SipHash

namespace Mst

/-- Which `impl Hash` the key / value type uses. -/
inductive HKind where
  | bytes   -- `Vec<u8>`, `[u8]`
  | str     -- `String`, `&str`
  | array   -- `[u8; N]` (hashes as the slice `&self[..]`)
  deriving DecidableEq, Repr

/-- `Hasher::write_length_prefix(len)` = `write_usize(len)`: 8 bytes, little endian. -/
def lenPrefix (n : Nat) : List UInt8 := Sip.leBytes n.toUInt64

/-- The byte stream `value.hash(&mut h)` feeds to the hasher. -/
def stdHashBytes : HKind → List UInt8 → List UInt8
  | .bytes, b => lenPrefix b.length ++ b
  | .array, b => lenPrefix b.length ++ b
  | .str, b => b ++ [0xff]

/-- The user-facing hasher `H` stored in the tree. -/
inductive HasherM where
  /-- `SipHasher { hasher: SipHasher24 { k0, k1 } }` -/
  | sip (k0 k1 : UInt64)
  /-- any other `Hasher` implementation: its digests come from the environment -/
  | custom
  deriving DecidableEq, Repr

/-- `SipHasher::default()` — `SipHasher24::default()` has the zero key. -/
def HasherM.sipDefault : HasherM := .sip 0 0

/-- `SipHasher::new(&[u8; 16])` — `SipHasher24::new_with_key`: two little-endian words. -/
def HasherM.sipNew (seed : List UInt8) : HasherM :=
  .sip (Sip.leWord (seed.take 8)) (Sip.leWord ((seed.drop 8).take 8))

/-- `Hasher::hash(&self, value)`; `env` stands for a custom implementation (a deterministic function
of the value, as the crate requires). -/
def HasherM.hash (h : HasherM) (kind : HKind) (env : List UInt8 → List UInt8) (raw : List UInt8) : List UInt8 :=
  match h with
  | .sip k0 k1 => Sip.hash128 k0 k1 (stdHashBytes kind raw)
  | .custom => env raw

/-- `DEFAULT_LEVEL_BASE` (src/lib.rs) -/
def defaultLevelBase : Nat := 16

/-- `Builder<H>` (src/builder.rs:13) -/
structure TreeBuilder where
  hasher : HasherM
  levelBase : Nat
  deriving DecidableEq, Repr

/-- `Builder::default()` (src/builder.rs:19-26) -/
def TreeBuilder.default : TreeBuilder := { hasher := .sipDefault, levelBase := defaultLevelBase }

/-- `Builder::with_hasher` (src/builder.rs:32-37): keeps `level_base`. -/
def TreeBuilder.withHasher (b : TreeBuilder) (h : HasherM) : TreeBuilder := { hasher := h, levelBase := b.levelBase }

/-- `Builder::with_level_base` (src/builder.rs:44-49): keeps the hasher. -/
def TreeBuilder.withLevelBase (b : TreeBuilder) (n : Nat) : TreeBuilder := { b with levelBase := n }

/-- `MerkleSearchTree<K, V, H, N>` (src/tree.rs:104-117): the configuration next to the tree proper.
The internal page hasher (`tree_hasher: SipHasher24::default()`, the same in all constructors) is the
`HashCfg` every hashing function of the model takes. -/
structure MST (K D : Type) where
  hasher : HasherM
  levelBase : Nat
  tree : Tree K (List UInt8) D

variable {K D : Type}

/-- `Builder::build()` (src/tree.rs:332-341) -/
def TreeBuilder.build (b : TreeBuilder) : MST K D := { hasher := b.hasher, levelBase := b.levelBase, tree := Tree.empty }

/-- `MerkleSearchTree::default()` (src/tree.rs:118-129) -/
def MST.default : MST K D := { hasher := .sipDefault, levelBase := defaultLevelBase, tree := Tree.empty }

/-- `MerkleSearchTree::new_with_hasher(hasher)` (src/tree.rs:135-144) -/
def MST.newWithHasher (h : HasherM) : MST K D := { hasher := h, levelBase := defaultLevelBase, tree := Tree.empty }

/-- `#[derive(Clone)]` -/
def MST.clone (m : MST K D) : MST K D := m

/-- `Clone::clone_from(&mut self, source)`: the provided method, `*self = source.clone()`. -/
def MST.cloneFrom (_self : MST K D) (source : MST K D) : MST K D := source.clone

/-- How keys and values reach the hasher: their `impl Hash` and their bytes; `envK` / `envV` stand for
a custom hasher. -/
structure Enc (K : Type) where
  keyKind : HKind
  keyRaw : K → List UInt8
  valKind : HKind
  envK : List UInt8 → List UInt8
  envV : List UInt8 → List UInt8

def MST.keyDigest (m : MST K D) (e : Enc K) (k : K) : List UInt8 := m.hasher.hash e.keyKind e.envK (e.keyRaw k)
def MST.valueDigest (m : MST K D) (e : Enc K) (w : List UInt8) : List UInt8 := m.hasher.hash e.valKind e.envV w

/-- The level `upsert` computes for a key (src/tree.rs:308). -/
def MST.keyLevel (m : MST K D) (e : Enc K) (k : K) : Nat := level (m.keyDigest e k) m.levelBase

section
variable [LT K] [LE K] [DecidableLT K] [DecidableLE K] [DecidableEq K]

/-- `MerkleSearchTree::upsert(key, &value)` (src/tree.rs:305). -/
def MST.upsert (m : MST K D) (e : Enc K) (k : K) (w : List UInt8) : Except String (MST K D) :=
  match m.tree.upsert k (m.keyLevel e k) (m.valueDigest e w) with
  | .error err => .error err
  | .ok t => .ok { m with tree := t }

end

/-- `root_hash()` -/
def MST.genRootHash (hc : HashCfg K (List UInt8) D) (m : MST K D) : MST K D :=
  { m with tree := m.tree.genRootHash hc }

end Mst
