/-
Executable SipHash-2-4 with 128-bit output (as `siphasher::sip128::SipHasher24` + `Hash128::as_bytes`).
Modelled, not verified: there is no theorem about SipHash; it is tied to the crate by the `sip`
correspondence stream and the published reference vector.
-/
namespace Mst.Sip

structure St where
  v0 : UInt64
  v1 : UInt64
  v2 : UInt64
  v3 : UInt64

@[inline] def rotl (x : UInt64) (n : UInt64) : UInt64 := (x <<< n) ||| (x >>> (64 - n))

@[inline] def round (s : St) : St :=
  let v0 := s.v0 + s.v1
  let v1 := rotl s.v1 13
  let v1 := v1 ^^^ v0
  let v0 := rotl v0 32
  let v2 := s.v2 + s.v3
  let v3 := rotl s.v3 16
  let v3 := v3 ^^^ v2
  let v0 := v0 + v3
  let v3 := rotl v3 21
  let v3 := v3 ^^^ v0
  let v2 := v2 + v1
  let v1 := rotl v1 17
  let v1 := v1 ^^^ v2
  let v2 := rotl v2 32
  { v0, v1, v2, v3 }

def compress (s : St) (m : UInt64) : St :=
  let s := { s with v3 := s.v3 ^^^ m }
  let s := round (round s)
  { s with v0 := s.v0 ^^^ m }

/-- little-endian word from up to 8 bytes -/
def leWord : List UInt8 → UInt64
  | [] => 0
  | b :: r => b.toUInt64 ||| (leWord r <<< 8)

def leBytes (x : UInt64) : List UInt8 :=
  (List.range 8).map fun i => (x >>> (8 * i).toUInt64).toUInt8

/-- absorb full 8-byte words; returns the state and the (< 8 byte) tail -/
def absorb (s : St) (bs : List UInt8) (fuel : Nat) : St × List UInt8 :=
  match fuel with
  | 0 => (s, bs)
  | fuel + 1 =>
    if bs.length < 8 then (s, bs)
    else absorb (compress s (leWord (bs.take 8))) (bs.drop 8) fuel

/-- SipHash-2-4-128 of `bs` under key `(k0, k1)`; output `h1.to_le_bytes() ++ h2.to_le_bytes()`. -/
def hash128 (k0 k1 : UInt64) (bs : List UInt8) : List UInt8 :=
  let s : St :=
    { v0 := k0 ^^^ 0x736f6d6570736575
      v1 := (k1 ^^^ 0x646f72616e646f6d) ^^^ 0xee
      v2 := k0 ^^^ 0x6c7967656e657261
      v3 := k1 ^^^ 0x7465646279746573 }
  let (s, tail) := absorb s bs (bs.length / 8 + 1)
  let b : UInt64 := ((bs.length.toUInt64 &&& 0xff) <<< 56) ||| leWord tail
  let s := compress s b
  let s := { s with v2 := s.v2 ^^^ 0xee }
  let s := round (round (round (round s)))
  let h1 := s.v0 ^^^ s.v1 ^^^ s.v2 ^^^ s.v3
  let s := { s with v1 := s.v1 ^^^ 0xdd }
  let s := round (round (round (round s)))
  let h2 := s.v0 ^^^ s.v1 ^^^ s.v2 ^^^ s.v3
  leBytes h1 ++ leBytes h2

end Mst.Sip
