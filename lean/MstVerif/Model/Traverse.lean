/-
Model of the traversal APIs: `Page::in_order_traversal` / `Node::depth_first` (visitor callbacks),
`NodeIter` (explicit-stack iterator), `min_subtree_key` / `max_subtree_key`,
`PageRange::from(&Page)` and `MerkleSearchTree::serialise_page_ranges`.
-/
import MstVerif.Model.Tree

namespace Mst
variable {K V D : Type}

/-- One visitor callback, with everything the callback can observe through the public API. -/
inductive Event (K V D : Type) where
  /-- `visit_page(page, high_page)`: level, cached digest, number of nodes, the flag -/
  | visitPage (level : Nat) (cache : Option D) (nNodes : Nat) (high : Bool)
  | preNode (key : K) (val : V)
  | visitNode (key : K) (val : V)
  | postNode (key : K) (val : V)
  /-- `post_visit_page(page)` -/
  | postPage (level : Nat)
  deriving DecidableEq, Repr

def Nd.length : Nd K V D → Nat
  | .nil => 0
  | .cons _ _ _ tl => tl.length + 1

mutual
/-- The full callback sequence of `in_order_traversal(visitor, high)` for a visitor that never
    returns `false`. -/
def tracePg (high : Bool) : Pg K V D → List (Event K V D)
  | .none => []
  | .some L c n h =>
    .visitPage L c n.length high :: (traceNd n ++ (.postPage L :: tracePg true h))
def traceNd : Nd K V D → List (Event K V D)
  | .nil => []
  | .cons lt k v tl =>
    .preNode k v :: (tracePg false lt ++ (.visitNode k v :: .postNode k v :: traceNd tl))
end

/-! A visitor is a state machine `vis : σ → Event → σ × Bool`; `false` asks to stop.
`runPg` is the literal transcription of the early-return structure of the Rust. -/

mutual
def runPg {σ : Type} (vis : σ → Event K V D → σ × Bool) (high : Bool) :
    Pg K V D → σ → σ × Bool
  | .none, s => (s, true)
  | .some L c n h, s =>
    match vis s (.visitPage L c n.length high) with
    | (s, false) => (s, false)
    | (s, true) =>
      match runNd vis n s with
      | (s, false) => (s, false)
      | (s, true) =>
        match vis s (.postPage L) with
        | (s, false) => (s, false)
        | (s, true) => runPg vis true h s
def runNd {σ : Type} (vis : σ → Event K V D → σ × Bool) :
    Nd K V D → σ → σ × Bool
  | .nil, s => (s, true)
  | .cons lt k v tl, s =>
    match vis s (.preNode k v) with
    | (s, false) => (s, false)
    | (s, true) =>
      match runPg vis false lt s with
      | (s, false) => (s, false)
      | (s, true) =>
        match vis s (.visitNode k v) with
        | (s, false) => (s, false)
        | (s, true) =>
          match vis s (.postNode k v) with
          | (s, false) => (s, false)
          | (s, true) => runNd vis tl s
end

/-- The recording visitor used by the driver: records every event it is given and asks to stop
    at the `stop`-th callback (0-based); `none` never stops. -/
def recVis (stop : Option Nat) : List (Event K V D) → Event K V D → List (Event K V D) × Bool :=
  fun acc e =>
    let acc' := e :: acc
    (acc', match stop with | .none => true | .some n => decide (acc.length ≠ n))

def runRecorded (stop : Option Nat) (p : Pg K V D) : List (Event K V D) :=
  (runPg (recVis stop) false p []).1.reverse

/-! ### In-order content -/

mutual
def Pg.content : Pg K V D → List (K × V)
  | .none => []
  | .some _ _ n h => n.content ++ h.content
def Nd.content : Nd K V D → List (K × V)
  | .nil => []
  | .cons lt k v tl => lt.content ++ ((k, v) :: tl.content)
end

/-! ### NodeIter (node_iter.rs) -/

inductive VisitState where
  | unvisited
  | descended
  deriving DecidableEq, Repr

/-- `PageVisit { page, idx, state }`; the page is kept as the remaining nodes from `idx` on plus
    the high page (all `next()` ever looks at). -/
structure PageVisit (K V D : Type) where
  rest : Nd K V D
  high : Pg K V D
  state : VisitState

def pageVisitOf : Pg K V D → Option (PageVisit K V D)
  | .none => .none
  | .some _ _ n h => .some { rest := n, high := h, state := .unvisited }

/-- One `next()` call: loops until a node is yielded or the stack is empty. `fuel` bounds the loop. -/
def iterNext : Nat → List (PageVisit K V D) → Except String (Option (K × V) × List (PageVisit K V D))
  | 0, _ => .error "iterNext:fuel"
  | fuel + 1, stack =>
    match stack with
    | [] => .ok (.none, [])
    | p :: stack =>
      match p.rest with
      | .nil =>
        match pageVisitOf p.high with
        | .some hv => iterNext fuel (hv :: stack)
        | .none => iterNext fuel stack
      | .cons lt k v tl =>
        match p.state with
        | .unvisited =>
          match pageVisitOf lt with
          | .some lv => iterNext fuel (lv :: { p with state := .descended } :: stack)
          | .none => .ok (.some (k, v), { rest := tl, high := p.high, state := .unvisited } :: stack)
        | .descended =>
          if lt.isSome then
            .ok (.some (k, v), { rest := tl, high := p.high, state := .unvisited } :: stack)
          else .error "node_iter.rs:112"

mutual
/-- number of pages plus number of nodes in the subtree -/
def Pg.size : Pg K V D → Nat
  | .none => 0
  | .some _ _ n h => 1 + n.size + h.size
def Nd.size : Nd K V D → Nat
  | .nil => 0
  | .cons lt _ _ tl => lt.size + 1 + tl.size
end

/-- Drain the iterator. -/
def iterAllGo (perCall : Nat) : Nat → List (PageVisit K V D) → List (K × V) → Except String (List (K × V))
  | 0, _, _ => .error "iterAll:fuel"
  | fuel + 1, stack, acc =>
    match iterNext perCall stack with
    | .error e => .error e
    | .ok (.none, _) => .ok acc.reverse
    | .ok (.some kv, stack') => iterAllGo perCall fuel stack' (kv :: acc)

/-- `node_iter().collect()` starting at the root page. -/
def iterAll (root : Pg K V D) : Except String (List (K × V)) :=
  match pageVisitOf root with
  | .none => .ok []
  | .some pv =>
    let n := 2 * root.size + 2
    iterAllGo n n [pv] []

/-! ### Page ranges -/

structure PR (K D : Type) where
  start : K
  end_ : K
  hash : D
  deriving DecidableEq, Repr

/-- `min_subtree_key` (page.rs:149); `min_key()` unwraps. -/
def minSubtreeKey : Pg K V D → Except String K
  | .none => .error "min_subtree_key:none"
  | .some _ _ n _ =>
    match n with
    | .nil => .error "page.rs:129"
    | .cons lt k _ _ =>
      match lt with
      | .none => .ok k
      | .some .. => minSubtreeKey lt

/-- `max_subtree_key` (page.rs:164); `max_key()` unwraps. -/
def maxSubtreeKey : Pg K V D → Except String K
  | .none => .error "max_subtree_key:none"
  | .some _ _ n h =>
    match h with
    | .some .. => maxSubtreeKey h
    | .none =>
      match n.lastKey? with
      | .some k => .ok k
      | .none => .error "page.rs:141"

/-- `PageRange::from(&Page)` (page_range.rs:117). -/
def pageRangeOf (p : Pg K V D) : Except String (PR K D) :=
  match minSubtreeKey p with
  | .error e => .error e
  | .ok s =>
    match maxSubtreeKey p with
    | .error e => .error e
    | .ok e =>
      match p.cache? with
      | .none => .error "page_range.rs:124"
      | .some d => .ok { start := s, end_ := e, hash := d }

mutual
/-- `PageRangeHashVisitor`: one `PageRange` per `visit_page`, in callback order. -/
def rangesPg : Pg K V D → Except String (List (PR K D))
  | .none => .ok []
  | .some L c n h =>
    match pageRangeOf (.some L c n h) with
    | .error e => .error e
    | .ok r =>
      match rangesNd n with
      | .error e => .error e
      | .ok rn =>
        match rangesPg h with
        | .error e => .error e
        | .ok rh => .ok (r :: (rn ++ rh))
def rangesNd : Nd K V D → Except String (List (PR K D))
  | .nil => .ok []
  | .cons lt _ _ tl =>
    match rangesPg lt with
    | .error e => .error e
    | .ok rl =>
      match rangesNd tl with
      | .error e => .error e
      | .ok rt => .ok (rl ++ rt)
end

/-- `serialise_page_ranges()` (tree.rs:273). -/
def Tree.serialise (t : Tree K V D) : Except String (Option (List (PR K D))) :=
  match t.rootHash with
  | .none => .ok .none
  | .some _ =>
    if t.root.nodesNil then .ok (.some [])
    else
      match rangesPg t.root with
      | .error e => .error e
      | .ok l => .ok (.some l)

end Mst
