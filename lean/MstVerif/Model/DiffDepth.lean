/-
The same walk as `recurseDiff`/`recurseSubtree` (Model/Diff.lean), instrumented with the call
depth: the number of `recurse_subtree → recurse_diff` frame pairs live at the deepest point.
The machine stack itself cannot be modelled; its model-level shadow is this depth (one Rust
frame pair per unit).
-/
import MstVerif.Model.Diff

namespace Mst
variable {K D : Type} [LT K] [LE K] [DecidableLT K] [DecidableLE K] [DecidableEq D]

mutual
/-- `recurseDiff` also returning the maximal nesting depth reached below this call. -/
def recurseDiffD : Nat → PR K D → Option (PR K D) → List (PR K D) → List (PR K D) → Builder K →
    Except String (List (PR K D) × List (PR K D) × Builder K × Nat)
  | 0, _, _, _, _, _ => .error "fuel"
  | fuel + 1, root, lastP, peer, loc, b =>
    match advWithin root peer with
    | (.none, peer) => .ok (peer, loc, b, 0)
    | (.some p, peer1) =>
      match advWithin p loc with
      | (.none, loc) =>
        let localIsSuperset := match loc with
          | lh :: _ => lh.supersetOf p
          | [] => false
        if localIsSuperset then .ok (peer1, loc, b, 0)
        else
          let start := match lastP with
            | .some v => v.end_
            | .none => root.start
          let end_ := match loc with
            | lh :: _ => if p.end_ < lh.start then p.end_ else lh.start
            | [] => p.end_
          if start ≤ end_ then
            match b.inconsistent start end_ with
            | .error e => .error e
            | .ok b' => .ok (peer1, loc, b', 0)
          else .ok (peer1, loc, b, 0)
      | (.some l0, loc1) =>
        if !root.supersetOf p then .error "diff.rs:272" else
        let (l, loc2) := shrinkLocal p l0 loc1
        match (if l.hash = p.hash then
                 match b.consistent p.start p.end_ with
                 | .error e => Except.error e
                 | .ok b1 => .ok (b1, skipSubtree p peer1)
               else
                 match b.inconsistent p.start p.end_ with
                 | .error e => .error e
                 | .ok b1 => .ok (b1, peer1)) with
        | .error e => .error e
        | .ok (b1, peer2) =>
          match recurseSubtreeD fuel p peer2 loc2 b1 with
          | .error e => .error e
          | .ok (peer3, loc3, b2, d1) =>
            match recurseDiffD fuel root (.some p) peer3 loc3 b2 with
            | .error e => .error e
            | .ok (peer4, loc4, b3, d2) => .ok (peer4, loc4, b3, max d1 d2)
/-- `recurseSubtree`: one more frame pair than the walk it starts. -/
def recurseSubtreeD : Nat → PR K D → List (PR K D) → List (PR K D) → Builder K →
    Except String (List (PR K D) × List (PR K D) × Builder K × Nat)
  | 0, _, _, _, _ => .error "fuel"
  | fuel + 1, root, peer, loc, b =>
    match recurseDiffD fuel root .none peer loc b with
    | .error e => .error e
    | .ok (peer1, loc1, b1, d) =>
      match drainSubtree root peer1 b1 with
      | .error e => .error e
      | .ok (peer2, b2) =>
        match peer2 with
        | v :: _ => if root.supersetOf v then .error "diff.rs:177" else .ok (peer2, loc1, b2, d + 1)
        | [] => .ok (peer2, loc1, b2, d + 1)
end

/-- Maximal number of nested `recurse_subtree` frames during `diff(local, peer)`. -/
def diffDepth (loc peer : List (PR K D)) : Except String Nat :=
  match peer with
  | [] => .ok 0
  | root :: _ =>
    match recurseDiffD (2 * peer.length + 2) root .none peer loc Builder.empty with
    | .error e => .error e
    | .ok (_, _, _, d) => .ok d

end Mst
