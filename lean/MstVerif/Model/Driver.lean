/-
Line-protocol driver for the executable model: one operation per input line, one canonical
output line per operation. Instantiation: keys, value digests and page digests are byte lists
(`List UInt8`, lexicographic order = Rust's `[u8]`/`str` order); page hasher = SipHash-2-4-128
with zero key.
-/
import MstVerif.Model.Tree
import MstVerif.Model.Level
import MstVerif.Model.SipHash
import MstVerif.Model.Traverse
import MstVerif.Model.Diff
import MstVerif.Model.Sync
import MstVerif.Model.DiffDepth
import MstVerif.Model.Api
import MstVerif.Model.Snapshot
import MstVerif.Proofs.Defs
import Std.Data.HashMap

namespace Mst.Driver
open Mst

abbrev Bytes := List UInt8
abbrev T := Tree Bytes Bytes Bytes
abbrev R := PR Bytes Bytes

def hexDigit (n : Nat) : Char :=
  if n < 10 then Char.ofNat (48 + n) else Char.ofNat (87 + n)

def hexOf (bs : Bytes) : String :=
  String.ofList (bs.foldr (fun b acc => hexDigit (b.toNat / 16) :: hexDigit (b.toNat % 16) :: acc) [])

def unhexDigit (c : Char) : Option Nat :=
  if '0' ≤ c ∧ c ≤ '9' then some (c.toNat - 48)
  else if 'a' ≤ c ∧ c ≤ 'f' then some (c.toNat - 87)
  else none

def unhexList : List Char → Option Bytes
  | [] => some []
  | a :: b :: r =>
    match unhexDigit a, unhexDigit b, unhexList r with
    | some x, some y, some rest => some (UInt8.ofNat (x * 16 + y) :: rest)
    | _, _, _ => none
  | _ => none

/-- byte strings are written `x<hex>` so that the empty string is a non-empty token -/
def parseBytes (s : String) : Option Bytes :=
  match s.toList with
  | 'x' :: r => unhexList r
  | _ => none

def showBytes (bs : Bytes) : String := "x" ++ hexOf bs

def hc : HashCfg Bytes Bytes Bytes :=
  { kb := id, vb := id, db := id, h := Sip.hash128 0 0 }

mutual
/-- cache-free ("true") digests of all pages in visit (pre-)order -/
def trueDigestsPg : Pg Bytes Bytes Bytes → List Bytes
  | .none => []
  | .some L c n h =>
    (match (Pg.some L c n h).trueHash hc with | some d => d | none => []) :: (trueDigestsNd n ++ trueDigestsPg h)
def trueDigestsNd : Nd Bytes Bytes Bytes → List Bytes
  | .nil => []
  | .cons lt _ _ tl => trueDigestsPg lt ++ trueDigestsNd tl
end

/-- `visit_page` events additionally carry the page's TRUE digest (5th field): the comparer accepts
an implementation cache field that is either absent or equal to it — caches must be sound, the
invalidation policy itself is not part of any property. -/
def showEventsGo : List (Event Bytes Bytes Bytes) → List Bytes → List String
  | [], _ => []
  | .visitPage L c n h :: es, ds =>
    ("P" ++ toString L ++ ":" ++ (match c with | none => "-" | some d => hexOf d) ++ ":" ++
      toString n ++ ":" ++ (if h then "h" else "l") ++ ":" ++ hexOf (ds.headD [])) :: showEventsGo es ds.tail
  | .preNode k v :: es, ds => ("<" ++ hexOf k ++ ":" ++ hexOf v) :: showEventsGo es ds
  | .visitNode k v :: es, ds => ("=" ++ hexOf k ++ ":" ++ hexOf v) :: showEventsGo es ds
  | .postNode k v :: es, ds => (">" ++ hexOf k ++ ":" ++ hexOf v) :: showEventsGo es ds
  | .postPage L :: es, ds => ("p" ++ toString L) :: showEventsGo es ds

def showEventsOf (root : Pg Bytes Bytes Bytes) (es : List (Event Bytes Bytes Bytes)) : String :=
  "[" ++ " ".intercalate (showEventsGo es (trueDigestsPg root)) ++ "]"

def showKVs (l : List (Bytes × Bytes)) : String :=
  "[" ++ " ".intercalate (l.map fun (k, v) => hexOf k ++ ":" ++ hexOf v) ++ "]"

def showPRs (l : List R) : String :=
  "[" ++ " ".intercalate (l.map fun r => hexOf r.start ++ ":" ++ hexOf r.end_ ++ ":" ++ hexOf r.hash) ++ "]"

def showDRs (l : List (DR Bytes)) : String :=
  "[" ++ " ".intercalate (l.map fun r => hexOf r.1 ++ ":" ++ hexOf r.2) ++ "]"

/-- `s:e:h` (hex without the `x` prefix; fields may be empty) -/
def parsePRraw (s : String) : Option (Bytes × Bytes × Bytes) :=
  match s.splitOn ":" with
  | [a, b, c] =>
    match unhexList a.toList, unhexList b.toList, unhexList c.toList with
    | some a, some b, some c => some (a, b, c)
    | _, _, _ => none
  | _ => none

inductive Slot where
  | tree (t : T) (base : Nat)
  | poisoned

structure St where
  trees : Std.HashMap Nat Slot := {}
  lists : Std.HashMap Nat (List R) := {}
  /-- replicas of the sync model: (replica, level base) -/
  reps : Std.HashMap Nat (Replica Bytes Bytes Bytes × Nat) := {}
  /-- key digests seen so far (the sync ops need the level of fetched keys) -/
  kds : Std.HashMap Bytes Bytes := {}
  /-- ranges computed by `rplan recv send`, to be fetched later by `rapply` (in-flight pulls) -/
  plans : Std.HashMap (Nat × Nat) (List (DR Bytes)) := {}
  /-- the user hasher a tree stores and the `impl Hash` of its key type (`Model/Api.lean`) -/
  cfgs : Std.HashMap Nat (HasherM × HKind) := {}

/-- `kind=table|sipdef|sipseed:<hex>` -/
def parseHasher (s : String) : Option HasherM :=
  if s = "table" then some .custom
  else if s = "sipdef" then some .sipDefault
  else match s.splitOn ":" with
    | ["sipseed", h] => (unhexList h.toList).map HasherM.sipNew
    | _ => none

def parseKeyKind (s : String) : Option HKind :=
  if s = "bytes" then some .bytes else if s = "string" then some .str else if s = "fixed8" then some .array else none

/-- The configured tree the named constructor path yields (`Model/Api.lean`). -/
def construct (ctor : String) (h : HasherM) (base : Nat) : Option (MST Bytes Bytes) :=
  if ctor = "builder" then some ((TreeBuilder.default.withHasher h).withLevelBase base).build
  else if ctor = "builder2" then some ((TreeBuilder.default.withLevelBase base).withHasher h).build
  else if ctor = "default" then some MST.default
  else if ctor = "deprecated" then some (MST.newWithHasher h)
  else none

def optOf (rest : List String) (pre : String) : Option String :=
  (rest.find? (·.startsWith pre)).map (fun s => (s.drop pre.length).toString)

def serOf (t : T) : Except String (Option (List R)) := t.serialise

def diffTrees (st : St) (a b : Nat) : String :=
  match st.trees[a]?, st.trees[b]? with
  | some (.tree ta _), some (.tree tb _) =>
    match serOf ta, serOf tb with
    | .ok (some la), .ok (some lb) =>
      (match diff la lb with | .ok r => showDRs r | .error _ => "panic")
    | .error _, _ => "panic"
    | _, .error _ => "panic"
    | _, _ => "none"
  | some .poisoned, _ => "poisoned"
  | _, some .poisoned => "poisoned"
  | _, _ => "bad-op"

/-- The join of the sync model's `Merge.joinMax` at byte strings: the lexicographically larger of the
two (exactly the former `if old < new then new else old`). Declared here, with high priority, so
that the driver's results do not depend on which `Max (List _)` instance core happens to provide. -/
instance (priority := high) instMaxBytes : Max Bytes := ⟨fun o n => if o < n then n else o⟩

def parseMerge (s : String) : Option Merge :=
  if s = "join" then some .joinMax else if s = "peer" then some .peerWins else none

def storesOf (st : St) (ids : List Nat) : List (List (Bytes × Bytes)) :=
  ids.map fun i => match st.reps[i]? with | some (r, _) => r.store | none => []

def pullIn (st : St) (m : Merge) (i j : Nat) : Option St :=
  match st.reps[i]?, st.reps[j]? with
  | some (ri, base), some (rj, bj) =>
    let lvl := fun (key : Bytes) => level (st.kds.getD key []) base
    match pull lvl hc m ri rj with
    | .error _ => none
    | .ok (ri', rj') => some { st with reps := (st.reps.insert i (ri', base)).insert j (rj', bj) }
  | _, _ => none

def sweepOnce (m : Merge) (ids : List Nat) (st : St) : Option St :=
  ids.foldl (fun acc i =>
    ids.foldl (fun acc j =>
      match acc with
      | none => none
      | some s => if i = j then some s else pullIn s m i j) acc) (some st)

def settleLoop (m : Merge) (ids : List Nat) : Nat → St → Option St
  | 0, st => some st
  | fuel + 1, st =>
    match sweepOnce m ids st with
    | none => none
    | some st' => if storesOf st' ids = storesOf st ids then some st' else settleLoop m ids fuel st'

def disagreeCount (a b : List (Bytes × Bytes)) : Nat :=
  let keys := ((a.map Prod.fst) ++ (b.map Prod.fst)).eraseDups
  (keys.filter fun k => lookupKV k a != lookupKV k b).length

def settle (st : St) (m : Merge) : St × String :=
  let ids := (st.reps.toList.map Prod.fst).mergeSort (fun a b => decide (a ≤ b))
  let res : Option St :=
    match ids with
    | [a, b] =>
      let d := disagreeCount ((storesOf st [a]).headD []) ((storesOf st [b]).headD [])
      (List.range d).foldl (fun acc _ =>
        match acc with
        | none => none
        | some s =>
          if storesOf s [a] = storesOf s [b] then some s else
          match pullIn s m b a with
          | none => none
          | some s1 => pullIn s1 m a b) (some st)
    | _ => settleLoop m ids 200 st
  match res with
  | none => (st, "panic")
  | some st' =>
    -- report every replica's root hash (hashing is part of the phase)
    let (st'', outs) := ids.foldl (fun (acc : St × List String) i =>
      match acc.1.reps[i]? with
      | some (rep, base) =>
        let t := rep.tree.genRootHash hc
        ({ acc.1 with reps := acc.1.reps.insert i ({ rep with tree := t }, base) },
          acc.2 ++ [match t.rootHash with | some d => hexOf d | none => "panic"])
      | none => acc) (st', [])
    (st'', " ".intercalate outs)

def step (st : St) (line : String) : St × String :=
  match line.trimAscii.toString.splitOn " " with
  | "new" :: t :: base :: rest =>
    -- the tree is obtained through the MODEL of the named constructor path: what it stores as
    -- hasher and level base is what `Model/Api.lean` says that path stores
    match t.toNat?, base.toNat?, parseHasher ((optOf rest "kind=").getD "table"),
          parseKeyKind ((optOf rest "key=").getD "bytes") with
    | some t, some base, some h, some kk =>
      match construct ((optOf rest "ctor=").getD "builder") h base with
      | some m => ({ st with trees := st.trees.insert t (.tree m.tree m.levelBase),
                             cfgs := st.cfgs.insert t (m.hasher, kk) }, "ok")
      | none => (st, "bad-op")
    | _, _, _, _ => (st, "bad-op")
  | ["clone", dst, src] =>
    match dst.toNat?, src.toNat? with
    | some dst, some src =>
      let cfgs := match st.cfgs[src]? with | some c => st.cfgs.insert dst c | none => st.cfgs.erase dst
      match st.trees[src]? with
      | some (.tree tr base) => ({ st with trees := st.trees.insert dst (.tree tr base), cfgs := cfgs }, "ok")
      | some .poisoned => ({ st with trees := st.trees.insert dst .poisoned, cfgs := cfgs }, "poisoned")
      | none => (st, "bad-op")
    | _, _ => (st, "bad-op")
  | ["clonefrom", dst, src] =>
    -- `Clone::clone_from(&mut dst, &src)` on two existing trees of one type: `MST.cloneFrom`
    match dst.toNat?, src.toNat? with
    | some dst, some src =>
      let cfgs := match st.cfgs[src]? with | some c => st.cfgs.insert dst c | none => st.cfgs.erase dst
      match st.trees[dst]?, st.trees[src]? with
      | some _, some (.tree tr base) => ({ st with trees := st.trees.insert dst (.tree tr base), cfgs := cfgs }, "ok")
      | some _, some .poisoned => ({ st with trees := st.trees.insert dst .poisoned, cfgs := cfgs }, "poisoned")
      | _, _ => (st, "bad-op")
    | _, _ => (st, "bad-op")
  | "ups" :: t :: k :: kd :: vd :: rest =>
    match t.toNat?, parseBytes k, parseBytes kd, parseBytes vd with
    | some t, some k, some kd, some vd =>
      -- a tree storing a `SipHasher` computes both digests ITSELF from the key and the raw value
      -- (`MST.upsert`); the digests on the line are then ignored
      let (kd, vd) :=
        match st.cfgs[t]?, (optOf rest "val=").bind parseBytes with
        | some (.sip k0 k1, kk), some raw =>
          ((HasherM.sip k0 k1).hash kk id k, (HasherM.sip k0 k1).hash .bytes id raw)
        | _, _ => (kd, vd)
      match st.trees[t]? with
      | some (.tree tr base) =>
        match tr.upsert k (level kd base) vd with
        | .ok tr' => ({ st with trees := st.trees.insert t (.tree tr' base) }, "ok")
        | .error _ => ({ st with trees := st.trees.insert t .poisoned }, "panic")
      | some .poisoned => (st, "poisoned")
      | none => (st, "bad-op")
    | _, _, _, _ => (st, "bad-op")
  | ["hdig", t, k, w] =>
    -- `hasher.hash(&key)` / `hasher.hash(&value)` of the hasher the tree stores
    match t.toNat?, parseBytes k, parseBytes w with
    | some t, some k, some w =>
      match st.cfgs[t]? with
      | some (.sip k0 k1, kk) =>
        (st, hexOf ((HasherM.sip k0 k1).hash kk id k) ++ " " ++ hexOf ((HasherM.sip k0 k1).hash .bytes id w))
      | _ => (st, "none")
    | _, _, _ => (st, "bad-op")
  -- `hashq` is `hash` (the harness merely skips its own expensive per-request oracle on huge trees)
  | ["hash", t] | ["hashq", t] =>
    match t.toNat? with
    | some t =>
      match st.trees[t]? with
      | some (.tree tr base) =>
        let tr' := tr.genRootHash hc
        ({ st with trees := st.trees.insert t (.tree tr' base) },
          match tr'.rootHash with | some d => hexOf d | none => "panic")
      | some .poisoned => (st, "poisoned")
      | none => (st, "bad-op")
    | none => (st, "bad-op")
  | ["cach", t] =>
    match t.toNat? with
    | some t =>
      match st.trees[t]? with
      | some (.tree tr _) => (st, match tr.rootHashCached with | some d => hexOf d | none => "none")
      | some .poisoned => (st, "poisoned")
      | none => (st, "bad-op")
    | none => (st, "bad-op")
  | ["trav", t, stop] =>
    match t.toNat? with
    | some t =>
      match st.trees[t]? with
      | some (.tree tr _) =>
        let stop? := if stop = "-" then some none else stop.toNat?.map some
        match stop? with
        | some s => (st, showEventsOf tr.root (runRecorded s tr.root))
        | none => (st, "bad-op")
      | some .poisoned => (st, "poisoned")
      | none => (st, "bad-op")
    | none => (st, "bad-op")
  | ["iter", t] =>
    match t.toNat? with
    | some t =>
      match st.trees[t]? with
      | some (.tree tr _) =>
        (st, match iterAll tr.root with | .ok l => showKVs l | .error _ => "panic")
      | some .poisoned => (st, "poisoned")
      | none => (st, "bad-op")
    | none => (st, "bad-op")
  | ["ser", t] =>
    match t.toNat? with
    | some t =>
      match st.trees[t]? with
      | some (.tree tr _) =>
        (st, match serOf tr with
             | .ok none => "none"
             | .ok (some l) => showPRs l
             | .error _ => "panic")
      | some .poisoned => (st, "poisoned")
      | none => (st, "bad-op")
    | none => (st, "bad-op")
  | ["snap", id, t] =>
    match id.toNat?, t.toNat? with
    | some id, some t =>
      match st.trees[t]? with
      | some (.tree tr _) =>
        match serOf tr with
        | .ok (some l) =>
          -- `PageRangeSnapshot::from(ranges)`, later read back through `iter()` (Model/Snapshot.lean)
          match (Snapshot.ofRanges l).iter with
          | .ok l' => ({ st with lists := st.lists.insert id l' }, "ok")
          | .error _ => (st, "panic")
        | .ok none => (st, "none")
        | .error _ => (st, "panic")
      | some .poisoned => (st, "poisoned")
      | none => (st, "bad-op")
    | _, _ => (st, "bad-op")
  | "list" :: id :: items =>
    match id.toNat? with
    | some id =>
      let rec build : List String → Option (Except String (List R))
        | [] => some (.ok [])
        | s :: rest =>
          match parsePRraw s, build rest with
          | some (a, b, c), some r =>
            some (match PR.new a b c, r with
                  | .ok p, .ok l => .ok (p :: l)
                  | .error e, _ => .error e
                  | _, .error e => .error e)
          | _, _ => none
      match build (items.filter (· ≠ "")) with
      | some (.ok l) => ({ st with lists := st.lists.insert id l }, "ok")
      | some (.error _) => (st, "panic")
      | none => (st, "bad-op")
    | none => (st, "bad-op")
  | ["show", id] =>
    match id.toNat? with
    | some id =>
      match st.lists[id]? with
      | some l => (st, showPRs l)
      | none => (st, "bad-op")
    | none => (st, "bad-op")
  | ["ldiff", a, b] =>
    match a.toNat?, b.toNat? with
    | some a, some b =>
      match st.lists[a]?, st.lists[b]? with
      | some la, some lb =>
        (st, match diff la lb with | .ok r => showDRs r | .error _ => "panic")
      | _, _ => (st, "bad-op")
    | _, _ => (st, "bad-op")
  | ["ldepth", a, b] =>
    match a.toNat?, b.toNat? with
    | some a, some b =>
      match st.lists[a]?, st.lists[b]? with
      | some la, some lb =>
        (st, match diffDepth la lb with | .ok d => "depth=" ++ toString d | .error _ => "panic")
      | _, _ => (st, "bad-op")
    | _, _ => (st, "bad-op")
  | ["diff", a, b] =>
    match a.toNat?, b.toNat? with
    | some a, some b => (st, diffTrees st a b)
    | _, _ => (st, "bad-op")
  | ["diff2", a, b] =>
    match a.toNat?, b.toNat? with
    | some a, some b => (st, diffTrees st a b ++ " | " ++ diffTrees st b a)
    | _, _ => (st, "bad-op")
  | "rnew" :: r :: base :: _ =>
    match r.toNat?, base.toNat? with
    | some r, some base =>
      -- `rnew 0` starts a new self-contained replica case
      let reps := if r = 0 then {} else st.reps
      let plans := if r = 0 then {} else st.plans
      ({ st with reps := reps.insert r (Replica.empty, base), plans := plans }, "ok")
    | _, _ => (st, "bad-op")
  | ["rsettle", m] =>
    -- the fair quiescent phase itself: two replicas → as many two-way rounds as there are
    -- disagreeing keys; more → sweeps over all ordered pairs (ascending) until nothing changes
    match parseMerge m with
    | some m => settle st m
    | none => (st, "bad-op")
  | ["same", _, _] => (st, "ok")  -- implementation-side oracle marker (two trees must be interchangeable)
  | ["rclone", dst, src] =>
    match dst.toNat?, src.toNat? with
    | some dst, some src =>
      match st.reps[src]? with
      | some x => ({ st with reps := st.reps.insert dst x }, "ok")
      | none => (st, "bad-op")
    | _, _ => (st, "bad-op")
  | ["rwrite", r, k, kd, v, m] =>
    match r.toNat?, parseBytes k, parseBytes kd, parseBytes v, parseMerge m with
    | some r, some k, some kd, some v, some m =>
      match st.reps[r]? with
      | some (rep, base) =>
        let kds := st.kds.insert k kd
        let lvl := fun (key : Bytes) => level (kds.getD key []) base
        match rep.write lvl m k v with
        | .ok rep' => ({ st with reps := st.reps.insert r (rep', base), kds := kds }, "ok")
        | .error _ => ({ st with kds := kds }, "panic")
      | none => (st, "bad-op")
    | _, _, _, _, _ => (st, "bad-op")
  | ["rpull", i, j, m] =>
    match i.toNat?, j.toNat?, parseMerge m with
    | some i, some j, some m =>
      match st.reps[i]?, st.reps[j]? with
      | some (ri, base), some (rj, bj) =>
        let lvl := fun (key : Bytes) => level (st.kds.getD key []) base
        match pullRanges hc ri rj with
        | .error _ => (st, "panic")
        | .ok (ranges, _, _) =>
          match pull lvl hc m ri rj with
          | .error _ => (st, "panic")
          | .ok (ri', rj') =>
            ({ st with reps := (st.reps.insert i (ri', base)).insert j (rj', bj) },
              showDRs ranges ++ " | " ++ showKVs (fetch rj.store ranges) ++ " | " ++ showKVs ri'.store)
      | _, _ => (st, "bad-op")
    | _, _, _ => (st, "bad-op")
  | ["rplan", i, j] =>
    -- first half of a pull: both sides hash + serialise, the receiver diffs and keeps the ranges
    match i.toNat?, j.toNat? with
    | some i, some j =>
      match st.reps[i]?, st.reps[j]? with
      | some (ri, base), some (rj, bj) =>
        match pullRanges hc ri rj with
        | .error _ => (st, "panic")
        | .ok (ranges, rt, stt) =>
          ({ st with reps := (st.reps.insert i ({ ri with tree := rt }, base)).insert j ({ rj with tree := stt }, bj),
                     plans := st.plans.insert (i, j) ranges }, showDRs ranges)
      | _, _ => (st, "bad-op")
    | _, _ => (st, "bad-op")
  | ["rapply", i, j, m] =>
    -- second half, possibly much later: fetch the planned ranges from the sender's CURRENT store
    match i.toNat?, j.toNat?, parseMerge m with
    | some i, some j, some m =>
      match st.reps[i]?, st.reps[j]?, st.plans[(i, j)]? with
      | some (ri, base), some (rj, _), some ranges =>
        let lvl := fun (key : Bytes) => level (st.kds.getD key []) base
        let items := fetch rj.store ranges
        match ri.absorbAll lvl m items with
        | .error _ => (st, "panic")
        | .ok ri' =>
          ({ st with reps := st.reps.insert i (ri', base), plans := st.plans.erase (i, j) },
            showKVs items ++ " | " ++ showKVs ri'.store)
      | _, _, _ => (st, "bad-op")
    | _, _, _ => (st, "bad-op")
  | ["rhash", r] =>
    match r.toNat? with
    | some r =>
      match st.reps[r]? with
      | some (rep, base) =>
        let t := rep.tree.genRootHash hc
        ({ st with reps := st.reps.insert r ({ rep with tree := t }, base) },
          match t.rootHash with | some d => hexOf d | none => "panic")
      | none => (st, "bad-op")
    | none => (st, "bad-op")
  | ["rtrav", r] =>
    match r.toNat? with
    | some r =>
      match st.reps[r]? with
      | some (rep, _) => (st, showEventsOf rep.tree.root (runRecorded none rep.tree.root))
      | none => (st, "bad-op")
    | none => (st, "bad-op")
  | ["lvl", d, base] =>
    match parseBytes d, base.toNat? with
    | some d, some base => (st, toString (level d base))
    | _, _ => (st, "bad-op")
  | ["sip", k0, k1, m] =>
    match parseBytes k0, parseBytes k1, parseBytes m with
    | some k0, some k1, some m =>
      (st, hexOf (Sip.hash128 (Sip.leWord k0) (Sip.leWord k1) m))
    | _, _, _ => (st, "bad-op")
  | _ => (st, "bad-op")

partial def loop (hin : IO.FS.Stream) (hout : IO.FS.Stream) (st : St) : IO Unit := do
  let line ← hin.getLine
  if line.isEmpty then return ()
  if line.trimAscii.toString.isEmpty || line.startsWith "#" then
    loop hin hout st
  else
    let (st', out) := step st line
    hout.putStrLn out
    loop hin hout st'

end Mst.Driver
