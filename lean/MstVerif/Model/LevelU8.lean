/-
`digest::level` with the machine arithmetic of the Rust (`out: u8`, src/digest/trait.rs:78-90):
`out += 2` overflows a `u8` after 128 zero bytes — a panic with overflow checks (debug profile),
a silent wrap-around without (release profile). `Model/Level.lean` uses `Nat`; `Proofs/LevelU8.lean`
shows the two agree for every digest of at most 127 bytes and exhibits the overflow at 128.
-/
import MstVerif.Model.Level

namespace Mst

/-- The loop of `level` over the remaining bytes with accumulator `out : u8`; `checked` = overflow
checks on (debug profile). -/
def levelU8Loop (checked : Bool) (base : Nat) : List UInt8 → UInt8 → Except String UInt8
  | [], out => .ok out
  | b :: rest, out =>
    match baseCountZero b base with
    | 2 =>
      if checked && out.toNat + 2 ≥ 256 then .error "digest/trait.rs:82 attempt to add with overflow"
      else levelU8Loop checked base rest (out + 2)
    | 1 =>
      if checked && out.toNat + 1 ≥ 256 then .error "digest/trait.rs:83 attempt to add with overflow"
      else .ok (out + 1)
    | _ => .ok out

/-- `level(digest, base)` as the Rust computes it. -/
def levelU8 (checked : Bool) (d : List UInt8) (base : Nat) : Except String UInt8 :=
  levelU8Loop checked base d 0

end Mst
