/-
Model of `digest::level` / `base_count_zero` (src/digest/trait.rs:78-103).
The Rust accumulates in a `u8`; the model uses `Nat` (no overflow for digest widths < 128 bytes,
`level_le` in `Proofs/Level.lean`).
-/
namespace Mst

/-- `base_count_zero(v, base)`; `base` is a `NonZeroU8`. -/
def baseCountZero (v : UInt8) (base : Nat) : Nat :=
  if v = 0 then 2 else if v.toNat % base = 0 then 1 else 0

/-- `level(digest, base)`: the loop over the digest bytes with its two early returns. -/
def level : List UInt8 → Nat → Nat
  | [], _ => 0
  | b :: rest, base =>
    match baseCountZero b base with
    | 2 => 2 + level rest base
    | 1 => 1
    | _ => 0

end Mst
