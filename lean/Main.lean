import MstVerif.Model.Driver

def main : IO Unit := do
  let hin ← IO.getStdin
  let hout ← IO.getStdout
  Mst.Driver.loop hin hout {}
